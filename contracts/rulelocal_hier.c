/* Contracts and lemmas for the 1-D hierarchy of the local polynomial rules
 * (SparseGrids/tsgRuleLocalPolynomial.hpp: getNumPoints, getParent, getStepParent,
 * getKid, getLevel) and the integer helpers of tsgMathUtils.hpp.
 * @R@ is the effective rule, @PMAX@ the exclusive upper bound of the point index,
 * @NK@ the number of kid slots of the rule.
 *
 * L7 (DESIGN.md section 6, C07/C01/C08): the down-tree (getKid) and the up-DAG
 * (getParent, getStepParent) are mutually consistent, levels increase by exactly
 * one along an edge, roots are exactly the level-0 points, and the points of
 * level l are exactly the indices getNumPoints(l-1) <= p < getNumPoints(l).
 * These are the facts that make "children of flagged points" (C07), "level of a
 * point against the limit" (C08) and "ancestors only" (C01) meaningful.       */

//@ contract intlog2
__CPROVER_requires(i >= 0)
__CPROVER_ensures(0 <= __CPROVER_return_value && __CPROVER_return_value <= 30)
__CPROVER_ensures(i == 0 ==> __CPROVER_return_value == 0)
__CPROVER_ensures(i >= 1 ==> ((1 << __CPROVER_return_value) <= i && (i >> 1) < (1 << __CPROVER_return_value)))
__CPROVER_assigns()

//@ contract int2log2
__CPROVER_requires(i >= 0)
__CPROVER_ensures(i == 0 ==> __CPROVER_return_value == 1)
__CPROVER_ensures(i >= 1 ==> (__CPROVER_return_value <= i && (i >> 1) < __CPROVER_return_value))
__CPROVER_ensures(__CPROVER_return_value >= 1 && (__CPROVER_return_value & (__CPROVER_return_value - 1)) == 0)
__CPROVER_assigns()

//@ contract int3log3
__CPROVER_requires(i >= 0 && i < 387420489)
__CPROVER_ensures(__CPROVER_return_value >= 1 && __CPROVER_return_value > i)
__CPROVER_ensures(i >= 1 ==> __CPROVER_return_value <= 3 * i)
__CPROVER_ensures(i == 0 ==> __CPROVER_return_value == 1)
__CPROVER_assigns()

//@ contract pow3
__CPROVER_requires(p >= 0 && p <= 19)
__CPROVER_ensures(__CPROVER_return_value >= 1 && __CPROVER_return_value <= 1162261467)
__CPROVER_ensures(p == 0 ==> __CPROVER_return_value == 1)
__CPROVER_ensures(p == 1 ==> __CPROVER_return_value == 3)
__CPROVER_ensures(p == 19 ==> __CPROVER_return_value == 1162261467)
__CPROVER_ensures(__CPROVER_return_value % 3 == 0 || p == 0)
__CPROVER_assigns()

//@ harness h_intlog2
void h_intlog2(void){ int a_i = nondet_int(); intlog2(a_i); __CPROVER_assert(0, "VACUITY-CANARY"); }
//@ harness h_int2log2
void h_int2log2(void){ int a_i = nondet_int(); int2log2(a_i); __CPROVER_assert(0, "VACUITY-CANARY"); }
//@ harness h_int3log3
void h_int3log3(void){ int a_i = nondet_int(); int3log3(a_i); __CPROVER_assert(0, "VACUITY-CANARY"); }
//@ harness h_pow3
void h_pow3(void){ int a_p = nondet_int(); pow3(a_p); __CPROVER_assert(0, "VACUITY-CANARY"); }

//@ lemma lemma_hier_@R@
void lemma_hier_@R@(int p, int kn)
__CPROVER_requires(0 <= p && p < @PMAX@)
__CPROVER_requires(0 <= kn && kn < @NK@)
__CPROVER_ensures(1)
__CPROVER_assigns()
{
  int lvl = getLevel_@R@(p);
  int dad = getParent_@R@(p);
  int sp  = getStepParent_@R@(p);
  int kid = getKid_@R@(p, kn);
  __CPROVER_assert(getMaxNumKids_@R@() == @NK@, "L7 kid slots of the rule");
  __CPROVER_assert(lvl >= 0 && lvl <= 30, "L7 level is in range");
  if (kid != -1) {
    __CPROVER_assert(kid > p, "L7 a kid has a larger index than its parent");
    __CPROVER_assert(getParent_@R@(kid) == p || getStepParent_@R@(kid) == p, "L7 getParent(getKid(p,k)) == p or the step-parent is p");
    __CPROVER_assert(getLevel_@R@(kid) == lvl + 1, "L7 getLevel(getKid(p,k)) == getLevel(p)+1");
  }
  __CPROVER_assert((dad == -1) == (lvl == 0), "L7 the roots are exactly the level-0 points");
  if (dad != -1) {
    __CPROVER_assert(0 <= dad && dad < p, "L7 the parent has a smaller index");
    __CPROVER_assert(getLevel_@R@(dad) == lvl - 1, "L7 getLevel(getParent(p)) == getLevel(p)-1");
    __CPROVER_assert(getKid_@R@(dad, 0) == p || getKid_@R@(dad, 1) == p
                     || (@NK@ > 2 && (getKid_@R@(dad, 2) == p || getKid_@R@(dad, 3) == p)), "L7 p is a kid of getParent(p)");
  }
  if (sp != -1) {
    __CPROVER_assert(0 <= sp && sp < p, "L7 the step-parent has a smaller index");
    __CPROVER_assert(getLevel_@R@(sp) == lvl - 1, "L7 getLevel(getStepParent(p)) == getLevel(p)-1");
    __CPROVER_assert(sp != dad, "L7 step-parent differs from the parent");
  }
  __CPROVER_assert(p < getNumPoints_@R@(lvl), "L7 p < getNumPoints(getLevel(p))");
  if (lvl > 0) __CPROVER_assert(p >= getNumPoints_@R@(lvl - 1), "L7 p >= getNumPoints(getLevel(p)-1)");
  __CPROVER_assert(getMaxNumParents_@R@() == 2 || sp == -1, "L7 a rule with one parent slot has no step-parents");
}

//@ harness h_lemma_hier_@R@
void h_lemma_hier_@R@(void){ int a_p = nondet_int(); int a_kn = nondet_int(); lemma_hier_@R@(a_p, a_kn); __CPROVER_assert(0, "VACUITY-CANARY"); }

//@ lemma lemma_numpoints_@R@
/* getNumPoints is strictly increasing in the level and never overflows below @LMAX@ */
void lemma_numpoints_@R@(int l)
__CPROVER_requires(0 <= l && l < @LMAX@)
__CPROVER_ensures(1)
__CPROVER_assigns()
{
  int n0 = getNumPoints_@R@(l), n1 = getNumPoints_@R@(l + 1);
  __CPROVER_assert(n0 >= 1, "F getNumPoints >= 1");
  __CPROVER_assert(n1 > n0, "F getNumPoints strictly increasing in the level");
  __CPROVER_assert(l > 0 || n0 == @N0@, "F number of level-0 points");
}
//@ harness h_lemma_numpoints_@R@
void h_lemma_numpoints_@R@(void){ int a_l = nondet_int(); lemma_numpoints_@R@(a_l); __CPROVER_assert(0, "VACUITY-CANARY"); }
