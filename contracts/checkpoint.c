/* C17 -- checkpoints of constructSurrogate survive a crash at any instant.
 *
 * Ghost file system: two files (main = filename, old = filename + "_old"), each
 * ABSENT, PARTIAL (torn / being written / garbage) or COMPLETE(v) where v is the ghost
 * version of the serialized (grid, completed-samples) pair.  A process kill is a stop
 * after any file-system operation, so the CRASH INVARIANT is asserted after every one:
 *
 *   I:  no checkpoint has ever completed, or some file is COMPLETE with a version
 *       >= the version of the last checkpoint that had returned.
 *
 * (write-to-open-file, truncation at open, close/flush are the only operations.)
 * The reader contract (assumed from C06/C14, see DESIGN): grid.read on an ABSENT or
 * PARTIAL file clears the grid and throws runtime_error; on COMPLETE(v) it yields v. */

//@ text
enum { FS_MAIN = 0, FS_OLD = 1 };
#define filename FS_MAIN
#define filename_old FS_OLD
typedef enum { F_ABSENT = 0, F_PARTIAL = 1, F_COMPLETE = 2 } fstate;
typedef struct { fstate st; int version; } gfile;
typedef struct { int file; bool writing; bool open; bool wrote_grid, wrote_complete; bool copied; fstate copy_st; int copy_version; } tsg_stream;

gfile fs[2];
bool fs_no_checkpointing;
bool recovered_main;          /* local flag of constructCommon (declared between the blocks) */
int  g_last_returned;        /* version of the last checkpoint that returned; -1: none ever */
int  g_grid_version;         /* ghost version of the in-memory (grid, complete) state; -2: emptied by a failed read */
int  g_caller_version;       /* version the caller's grid had when constructSurrogate was entered */
int  g_reads_ok;

static void crash_invariant(void){
  __CPROVER_assert(!(fs[FS_MAIN].st == F_COMPLETE && fs[FS_OLD].st == F_COMPLETE) || fs[FS_MAIN].version >= fs[FS_OLD].version,
                   "C17 the backup is never newer than a complete main file");
  __CPROVER_assert(g_last_returned < 0
                   || (fs[FS_MAIN].st == F_COMPLETE && fs[FS_MAIN].version >= g_last_returned)
                   || (fs[FS_OLD].st  == F_COMPLETE && fs[FS_OLD].version  >= g_last_returned),
                   "C17 crash invariant: at every instant one of the two files is a complete checkpoint at least as new as the last checkpoint that returned");
}
tsg_stream fs_open_read(int f){
  tsg_stream s = { f, false, fs[f].st != F_ABSENT, false, false, false, F_ABSENT, 0 };
  crash_invariant();
  return s;
}
tsg_stream fs_open_write(int f){
  tsg_stream s = { f, true, true, false, false, false, F_ABSENT, 0 };
  fs[f].st = F_PARTIAL;            /* std::ofstream truncates on open */
  crash_invariant();
  return s;
}
bool fs_good(const tsg_stream *s){ return s->open; }
void fs_copy_stream(tsg_stream *dst, tsg_stream *src){
  __CPROVER_assert(dst->writing && !src->writing, "C17 copy goes from a read stream to a write stream");
  /* the bytes are read NOW: what the source file holds at this moment */
  dst->copied = true; dst->copy_st = src->open ? fs[src->file].st : F_ABSENT; dst->copy_version = fs[src->file].version;
  fs[dst->file].st = F_PARTIAL;
  crash_invariant();
}
void grid_write(tsg_stream *s){ __CPROVER_assert(s->writing, "C17 grid is written to a write stream"); s->wrote_grid = !s->wrote_complete && !s->copied; fs[s->file].st = F_PARTIAL; crash_invariant(); }
void complete_write(tsg_stream *s){ __CPROVER_assert(s->writing, "C17 samples are written to a write stream"); s->wrote_complete = s->wrote_grid; fs[s->file].st = F_PARTIAL; crash_invariant(); }
void fs_close(tsg_stream *s){
  if (s->writing) {
    if (s->wrote_grid && s->wrote_complete && !s->copied) { fs[s->file].st = F_COMPLETE; fs[s->file].version = g_grid_version; }
    else if (s->copied && !s->wrote_grid && !s->wrote_complete && s->copy_st == F_COMPLETE) { fs[s->file].st = F_COMPLETE; fs[s->file].version = s->copy_version; }
    else fs[s->file].st = F_PARTIAL;
  }
  crash_invariant();
}
void grid_read(tsg_stream *s){
  if (!s->open || fs[s->file].st != F_COMPLETE) { g_grid_version = -2; tsg_exc = TSG_RUNTIME_ERROR; return; }  /* clears the grid, then throws */
  g_grid_version = fs[s->file].version; g_reads_ok++;
}
int  grid_snapshot(void){ return g_grid_version; }               /* copy of the in-memory grid */
void grid_restore(int v){ g_grid_version = v; }
void complete_read(tsg_stream *s){ /* reads the samples that follow the grid in the same complete file */ }

//@ harness h_checkpoint
/* Any reachable file-system state at the call of checkpoint() inside the loop: the main file is the
 * complete checkpoint of the previous call (that is what the initial checkpoint and every later
 * checkpoint leave behind), the backup is anything. */
void h_checkpoint(void){
  fs_no_checkpointing = nondet_bool(); tsg_exc = 0;
  int a_v = nondet_int(); __CPROVER_assume(a_v >= 0 && a_v < 1000);
  g_last_returned = a_v;
  fs[FS_MAIN].st = F_COMPLETE; fs[FS_MAIN].version = a_v;
  fs[FS_OLD].st = (fstate) nondet_int(); fs[FS_OLD].version = nondet_int();
  __CPROVER_assume(fs[FS_OLD].st >= F_ABSENT && fs[FS_OLD].st <= F_COMPLETE && fs[FS_OLD].version <= a_v);
  g_grid_version = a_v + 1;                 /* new samples were loaded since */
  cc_checkpoint();
  if (!fs_no_checkpointing) {
    __CPROVER_assert(fs[FS_MAIN].st == F_COMPLETE && fs[FS_MAIN].version == a_v + 1, "C17 after checkpoint() the main file holds the current state");
    __CPROVER_assert(fs[FS_OLD].st == F_COMPLETE && fs[FS_OLD].version == a_v, "C17 after checkpoint() the backup holds the previous checkpoint");
  }
  __CPROVER_assert(tsg_exc == 0, "C17 checkpoint() does not throw");
  __CPROVER_assert(0, "VACUITY-CANARY");
}

//@ harness h_recovery_initial
/* Start of a (re)run: ANY file-system state that satisfies the crash invariant for the last
 * checkpoint that had returned before the previous process died (or no files at all). */
void h_recovery_initial(void){
  fs_no_checkpointing = nondet_bool(); tsg_exc = 0; g_reads_ok = 0;
  int a_last = nondet_int(); __CPROVER_assume(a_last >= -1 && a_last < 1000);
  g_last_returned = a_last;
  fs[FS_MAIN].st = (fstate) nondet_int(); fs[FS_MAIN].version = nondet_int();
  fs[FS_OLD].st = (fstate) nondet_int();  fs[FS_OLD].version = nondet_int();
  __CPROVER_assume(fs[FS_MAIN].st >= F_ABSENT && fs[FS_MAIN].st <= F_COMPLETE && fs[FS_OLD].st >= F_ABSENT && fs[FS_OLD].st <= F_COMPLETE);
  __CPROVER_assume(fs[FS_MAIN].version >= 0 && fs[FS_MAIN].version < 1000 && fs[FS_OLD].version >= 0 && fs[FS_OLD].version < 1000);
  /* before any checkpoint has completed: no backup yet, the main file is absent or the torn first checkpoint */
  __CPROVER_assume(a_last >= 0 || (fs[FS_MAIN].st != F_COMPLETE && fs[FS_OLD].st == F_ABSENT));
  __CPROVER_assume(!(fs[FS_MAIN].st == F_COMPLETE && fs[FS_OLD].st == F_COMPLETE) || fs[FS_MAIN].version >= fs[FS_OLD].version);
  __CPROVER_assume(a_last < 0 || (fs[FS_MAIN].st == F_COMPLETE && fs[FS_MAIN].version >= a_last) || (fs[FS_OLD].st == F_COMPLETE && fs[FS_OLD].version >= a_last));
  int a_caller = nondet_int(); __CPROVER_assume(a_caller >= 2000 && a_caller < 3000);   /* the caller's own grid, distinct from any file version */
  g_grid_version = a_caller; g_caller_version = a_caller;
  bool main_good = fs[FS_MAIN].st == F_COMPLETE, old_good = fs[FS_OLD].st == F_COMPLETE;
  int vmain = fs[FS_MAIN].version, vold = fs[FS_OLD].version;
  recovered_main = false;
  cc_recovery();
  __CPROVER_assert(tsg_exc == 0, "C17 recovery does not throw");
  if (!fs_no_checkpointing) {
    __CPROVER_assert(g_grid_version != -2, "C17 recovery never continues with a grid emptied by a failed read (falls back to the caller's grid)");
    if (main_good) __CPROVER_assert(g_grid_version == vmain, "C17 recovery takes the main checkpoint when it is complete");
    else if (old_good) __CPROVER_assert(g_grid_version == vold, "C17 recovery falls back to the backup when the main file is missing or torn");
    else __CPROVER_assert(g_grid_version == g_caller_version, "C17 with no usable file the run starts over from the caller's grid");
    __CPROVER_assert(a_last < 0 || g_grid_version >= a_last, "C17 the recovered state is at least the last checkpoint that had completed before the crash");
  } else {
    __CPROVER_assert(g_grid_version == g_caller_version, "C17 without a checkpoint file name the grid is untouched");
  }
  cc_initial();
  if (!fs_no_checkpointing)
    __CPROVER_assert(fs[FS_MAIN].st == F_COMPLETE && fs[FS_MAIN].version == g_grid_version, "C17 after the initial checkpoint the main file holds the current state");
  __CPROVER_assert(0, "VACUITY-CANARY");
}
