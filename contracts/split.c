/* A7 (C11): the output-range restriction used by Data2D::splitData and StorageSet::splitValues.
 * For ghost witnesses (g_i, g_j): result[g_i*(iend-ibegin)+g_j] == x[g_i*stride+ibegin+g_j];
 * the result has num_strips*(iend-ibegin) entries; the source is not written (assigns clause). */
//@ text
#ifndef SMAX
#define SMAX 12
#endif
size_t g_i, g_j;
//@ contract spltVector2D
__CPROVER_requires(stride >= 1 && stride <= SMAX && x_size <= SMAX && x_size % stride == 0)
__CPROVER_requires(0 <= ibegin && ibegin <= iend && (size_t) iend <= stride)
__CPROVER_requires(__CPROVER_is_fresh(x, SMAX * sizeof(double)) && __CPROVER_is_fresh(result, SMAX * sizeof(double)) && __CPROVER_is_fresh(result_len, sizeof(size_t)))
__CPROVER_requires(g_i < x_size / stride && g_j < (size_t)(iend - ibegin))
__CPROVER_ensures(*result_len == (x_size / stride) * (size_t)(iend - ibegin))
__CPROVER_ensures(TSG_SAME(result[g_i * (size_t)(iend - ibegin) + g_j], x[g_i * stride + (size_t) ibegin + g_j]))
__CPROVER_assigns(__CPROVER_object_whole(result), *result_len)
//@ loop spltVector2D 0
__CPROVER_assigns(i, ix, ir, __CPROVER_object_whole(result))
__CPROVER_loop_invariant(i <= num_strips && ix == i * stride && ir == i * new_stride)
__CPROVER_loop_invariant(i <= g_i || TSG_SAME(result[g_i * new_stride + g_j], x[g_i * stride + sbegin + g_j]))
__CPROVER_decreases(num_strips - i)
//@ harness h_spltVector2D
void h_spltVector2D(void){
  const double *x = 0; double *r = 0; size_t *rl = 0;
  size_t a_n = nondet_size_t(), a_stride = nondet_size_t(); int a_b = nondet_int(), a_e = nondet_int();
  g_i = nondet_size_t(); g_j = nondet_size_t();
  spltVector2D(x, a_n, a_stride, a_b, a_e, r, rl);
  __CPROVER_assert(0, "VACUITY-CANARY");
}
