/* Floating-point lemmas on the 1-D local polynomial basis (tsgRuleLocalPolynomial.hpp), bit-precise
 * IEEE-754 semantics, stated only where the arithmetic is exact (dyadic nodes, exact 0/1 values,
 * order/zero facts that survive rounding by monotonicity).  @R@ rule, @O@ order (compile-time constant),
 * @LV@ bound on the point indices (p, q < 2^LV).
 *
 * L1  hierarchical delta property: phi_p(node(p)) == 1 and phi_q(node(p)) == 0 for every other
 *     point q of the same or a finer level  (unit-triangular interpolation system; C01, C03).
 * L4  support radius: outside [node(p)-r_p, node(p)+r_p] the basis function is exactly 0 (C04).
 * L6a pruning test vs exact interval: not-supported (as computed in floating point) implies x is
 *     outside the exact dyadic support interval; L6b the kid's interval clipped to [-1,1] lies inside
 *     the parent's (pruning a subtree discards exact zeros only; C04).
 * L3  affine reproduction by the coarsest functions on a dyadic lattice (C03).               */

//@ lemma lemma_delta_@R@
void lemma_delta_@R@(int p, int q)
__CPROVER_requires(0 <= p && p < (1 << @LV@) && 0 <= q && q < (1 << @LV@))
__CPROVER_ensures(1)
__CPROVER_assigns()
{
  double xp = getNode_@R@(p);
  __CPROVER_assert(xp >= -1.0 && xp <= 1.0, "L1 the node lies in the canonical domain");
  __CPROVER_assert(evalRaw_@R@(@O@, p, xp) == 1.0, "L1 a basis function equals exactly 1 at its own node");
  if (q != p && getLevel_@R@(q) >= getLevel_@R@(p))
    __CPROVER_assert(evalRaw_@R@(@O@, q, xp) == 0.0, "L1 a basis function of the same or a finer level is exactly 0 at the node of another point");
}
//@ harness h_lemma_delta_@R@
void h_lemma_delta_@R@(void){ int a_p = nondet_int(), a_q = nondet_int(); lemma_delta_@R@(a_p, a_q); __CPROVER_assert(0, "VACUITY-CANARY"); }

//@ lemma lemma_support_@R@
void lemma_support_@R@(int p, double x)
__CPROVER_requires(0 <= p && p < (1 << @LV@))
__CPROVER_requires(x >= -1.0 && x <= 1.0)      /* any double of the canonical domain */
__CPROVER_ensures(1)
__CPROVER_assigns()
{
  double node = getNode_@R@(p), r = getSupport_@R@(p) * @SF@;
  double lo = node - r, hi = node + r;          /* exact: dyadic node and radius */
  bool sup = true;
  double vs = evalSupport_@R@(@O@, p, x, &sup);
  double vr = evalRaw_@R@(@O@, p, x);
  if (x > hi || x < lo) {
    __CPROVER_assert(vr == 0.0, "L4 evalRaw is exactly 0 beyond the reported support radius");
    __CPROVER_assert(vs == 0.0, "L4 evalSupport is exactly 0 beyond the reported support radius");
  }
  if (!sup) {
    __CPROVER_assert(x > hi || x < lo || x != x, "L6a not-supported (floating-point test) implies x outside the exact support interval");
    __CPROVER_assert(vs == 0.0, "L5 not-supported implies the value 0");
  }
}
//@ harness h_lemma_support_@R@
void h_lemma_support_@R@(void){ int a_p = nondet_int(); double a_x = nondet_double(); lemma_support_@R@(a_p, a_x); __CPROVER_assert(0, "VACUITY-CANARY"); }

//@ lemma lemma_nested_@R@
void lemma_nested_@R@(int p, int kn)
__CPROVER_requires(0 <= p && p < (1 << @LV@) && 0 <= kn && kn < @NK@)
__CPROVER_ensures(1)
__CPROVER_assigns()
{
  int k = getKid_@R@(p, kn);
  if (k != -1) {
    double np = getNode_@R@(p), rp = getSupport_@R@(p) * @SF@, nk = getNode_@R@(k), rk = getSupport_@R@(k) * @SF@;
    double lo = nk - rk, hi = nk + rk;
    if (lo < -1.0) lo = -1.0;
    if (hi > 1.0) hi = 1.0;
    /* dyadic rules: exact (@TOL@ is 0).  Ternary rule (pwc): nodes and radii are rounded, the two intervals share an end point in exact arithmetic and may differ by an ulp
     * there; the tolerance 2^-48 is far below the distance 3^-20 that separates the value support of any descendant (levels whose indices fit an int) from the end of the pruning interval */
    __CPROVER_assert(np - rp - @TOL@ <= lo && hi <= np + rp + @TOL@, "L6b the support interval of a kid, clipped to the domain, lies inside the parent's interval");
  }
}
//@ harness h_lemma_nested_@R@
void h_lemma_nested_@R@(void){ int a_p = nondet_int(), a_kn = nondet_int(); lemma_nested_@R@(a_p, a_kn); __CPROVER_assert(0, "VACUITY-CANARY"); }

//@ lemma lemma_affine_@R@
/* x = i * 2^-@LX@ in [-1,1] */
void lemma_affine_@R@(int i)
__CPROVER_requires(-(1 << @LX@) <= i && i <= (1 << @LX@))
__CPROVER_ensures(1)
__CPROVER_assigns()
{
  double x = (double) i / (double) (1 << @LX@);
#if @ISB@
  __CPROVER_assert(evalRaw_@R@(@O@, 0, x) + evalRaw_@R@(@O@, 1, x) == 1.0, "L3 the two level-0 functions of the boundary rule sum to 1 (constants are reproduced)");
  __CPROVER_assert(evalRaw_@R@(@O@, 1, x) - evalRaw_@R@(@O@, 0, x) == x, "L3 their difference is x (affine functions are reproduced)");
#else
  __CPROVER_assert(evalRaw_@R@(@O@, 0, x) == 1.0, "L3 the level-0 function is the constant 1");
  __CPROVER_assert(evalRaw_@R@(@O@, 2, x) - evalRaw_@R@(@O@, 1, x) == x, "L3 the two level-1 functions reproduce x");
#endif
}
//@ harness h_lemma_affine_@R@
void h_lemma_affine_@R@(void){ int a_i = nondet_int(); lemma_affine_@R@(a_i); __CPROVER_assert(0, "VACUITY-CANARY"); }

//@ lemma lemma_diff_@R@
/* C05 on the dyadic lattice x = i*2^-@LX@, h = 2^-@LX@: every product below is an exact dyadic
 * (level + lattice bits are small enough for 53 bits), so the identities are bit-exact.
 *   order 1 (1 - |xn|):       eval(x+h) - eval(x) == h * diffSupport(x)    on one side of the node
 *   order 2 (quadratic):      eval(x+h) - eval(x-h) == 2h * diffSupport(x) (central difference is exact for quadratics) */
void lemma_diff_@R@(int p, int i)
__CPROVER_requires(0 <= p && p < (1 << @LV@))
__CPROVER_requires(-(1 << @LX@) < i && i < (1 << @LX@))
__CPROVER_ensures(1)
__CPROVER_assigns()
{
  double h = 1.0 / (double)(1 << @LX@), x = (double) i * h;
  bool s0 = false, sm = false, sp = false, sd = false;
  double e0 = evalSupport_@R@(@O@, p, x, &s0), em = evalSupport_@R@(@O@, p, x - h, &sm), ep = evalSupport_@R@(@O@, p, x + h, &sp);
  double d = diffSupport_@R@(@O@, p, x, &sd);
  double node = getNode_@R@(p);
#if @O@ == 1
  /* x and x+h inside the support, on the same side of the node (the kink is at the node) */
  if (s0 && sp && sd && ((x >= node) == (x + h > node) || x + h <= node) && ((x + h <= node) || (x >= node)))
    __CPROVER_assert(ep - e0 == h * d, "C05 order 1: the forward difference over one lattice cell equals h times the derivative (exact for a linear piece)");
#else
  if (s0 && sp && sm && sd)
    __CPROVER_assert(ep - em == 2.0 * h * d, "C05 order 2: the central difference equals 2h times the derivative (exact for a quadratic piece)");
#endif
  __CPROVER_assert(!sd || s0, "C05 a point where the derivative is supported is a point where the function is supported");
}
//@ harness h_lemma_diff_@R@
void h_lemma_diff_@R@(void){ int a_p = nondet_int(), a_i = nondet_int(); lemma_diff_@R@(a_p, a_i); __CPROVER_assert(0, "VACUITY-CANARY"); }
