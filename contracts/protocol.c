/* G1 (C01, C07): values stay attached to the points they were supplied for, and every derived
 * structure is rebuilt for the CURRENT point set, on every load / merge path of a grid family.
 * Sets, values and derived data are ghost identities; the representation invariant
 *   I2  values are ordered by the loaded point set (or are all zero),
 *   I3  the search tree / sequence nodes / tensor references were built for the working set
 *       (the loaded points, or the needed points while nothing is loaded),
 *   I4  surpluses / coefficients were computed from the current points and the current values
 * is required before and proved after loadNeededValues and mergeRefinement, together with the
 * postconditions taken from the property: loading stores the supplied values for exactly the set
 * they were supplied for (the needed points if there are any, otherwise the loaded points), makes
 * needed empty, and the loaded set becomes old-loaded UNION old-needed (never loses a point).   */
//@ text
typedef struct { int id; int n; } gset;
enum { VALUES_ZERO = -7 };
typedef struct GF {
  gset points, needed;
  int values_for, values_gen, vals_stored_for;
  int derived_points;
  int coeff_points, coeff_gen;
  int tensors, active_tensors, active_w, updated_tensors, updated_active_tensors, updated_active_w, max_levels_for;
} GF;
static int union_id(int a, int b){ return 1000000 + 1000 * a + b; }      /* identity of the merged set: a deterministic function of the two operands */
static int working_id(const GF *g){ return g->points.n ? g->points.id : g->needed.id; }
void gh_setValues(GF *g){ int t = g->needed.n ? g->needed.id : g->points.id; g->values_for = t; g->vals_stored_for = t; g->values_gen++; }
void gh_setValues_zero(GF *g){ g->values_for = VALUES_ZERO; g->values_gen++; }
void gh_addValues(GF *g){
  __CPROVER_assert(g->values_for == g->points.id || g->values_for == VALUES_ZERO, "G1 addValues(points, needed, vals) is called while the stored values are ordered by `points`");
  __CPROVER_assert(g->needed.n > 0, "G1 addValues is used only when there are needed points (it stores nothing for an empty set)");
  g->values_for = union_id(g->points.id, g->needed.id); g->vals_stored_for = g->needed.id; g->values_gen++;
}
void gh_points_take_needed(GF *g){ g->points = g->needed; }
void gh_clear_needed(GF *g){ g->needed.id = 0; g->needed.n = 0; }
void gh_points_union_needed(GF *g){ g->points.id = union_id(g->points.id, g->needed.id); g->points.n += g->needed.n; }
void gh_buildTree(GF *g){ g->derived_points = working_id(g); }
void gh_prepareSequence(GF *g){ g->derived_points = working_id(g); }
void gh_recomputeTensorRefs(GF *g){ g->derived_points = g->points.id; }
static void gh_recompute(GF *g){
#if HAS_DERIVED
  __CPROVER_assert(g->derived_points == g->points.id, "G1 surpluses are recomputed with the tree / nodes of the current point set");
#endif
  __CPROVER_assert(g->values_for == g->points.id, "G1 surpluses are recomputed from values ordered by the current point set");
  g->coeff_points = g->points.id; g->coeff_gen = g->values_gen;
}
void gh_recomputeSurpluses(GF *g){ gh_recompute(g); }
void gh_recomputeCoefficients(GF *g){ gh_recompute(g); }
void gh_fresh_derived(GF *g){ g->coeff_points = g->points.id; g->coeff_gen = g->values_gen; }
void gh_take_updated_tensors(GF *g){ g->tensors = g->updated_tensors; }
void gh_take_updated_active_tensors(GF *g){ g->active_tensors = g->updated_active_tensors; }
void gh_take_updated_active_w(GF *g){ g->active_w = g->updated_active_w; }
void gh_clear_updated_tensors(GF *g){ g->updated_tensors = 0; }
void gh_clear_updated_active_tensors(GF *g){ g->updated_active_tensors = 0; }
void gh_clear_updated_active_w(GF *g){ g->updated_active_w = 0; }
void gh_max_levels(GF *g){ g->max_levels_for = g->tensors; }

static void gf_symbolic(GF *g){
  g->points.id = nondet_int(); g->points.n = nondet_int(); g->needed.id = nondet_int(); g->needed.n = nondet_int();
  __CPROVER_assume(g->points.n >= 0 && g->points.n < 1000 && g->needed.n >= 0 && g->needed.n < 1000 && g->points.id > 0 && g->points.id < 1000 && g->needed.id > 0 && g->needed.id < 1000 && g->points.id != g->needed.id);
  if (g->points.n == 0) g->points.id = 0;
  if (g->needed.n == 0) g->needed.id = 0;
  __CPROVER_assume(g->points.n > 0 || g->needed.n > 0);
  g->values_gen = nondet_int(); __CPROVER_assume(g->values_gen >= 0 && g->values_gen < 1000);
  g->values_for = nondet_int(); g->derived_points = nondet_int(); g->coeff_points = nondet_int(); g->coeff_gen = nondet_int(); g->vals_stored_for = -1;
  g->tensors = nondet_int(); g->active_tensors = nondet_int(); g->active_w = nondet_int(); g->updated_tensors = nondet_int(); g->updated_active_tensors = nondet_int(); g->updated_active_w = nondet_int(); g->max_levels_for = g->tensors;
}
static bool inv(const GF *g, bool with_coeff){
  bool ok = (g->points.n == 0) || g->values_for == g->points.id || g->values_for == VALUES_ZERO;
#if HAS_DERIVED
  ok = ok && g->derived_points == working_id(g);
#endif
#if HAS_COEFF
  if (with_coeff) ok = ok && (g->points.n == 0 || (g->coeff_points == g->points.id && g->coeff_gen == g->values_gen));
#endif
  return ok;
}
//@ harness h_load
void h_load(void){
  GF g; gf_symbolic(&g); __CPROVER_assume(inv(&g, false));
  GF old = g;
  int target = old.needed.n ? old.needed.id : old.points.id;
  LOAD(&g);
  __CPROVER_assert(g.vals_stored_for == target, "G1 the supplied values are stored for exactly the set they were supplied for (the needed points if any, otherwise the loaded points)");
  __CPROVER_assert(g.needed.n == 0, "G1 after loading there are no needed points");
  __CPROVER_assert(g.points.n == old.points.n + old.needed.n && g.points.id == (old.needed.n == 0 ? old.points.id : (old.points.n == 0 ? old.needed.id : union_id(old.points.id, old.needed.id))),
                   "G1 loading makes exactly the needed points loaded and never removes a loaded point");
  __CPROVER_assert(g.values_for == g.points.id, "G1 after loading every value is attached to the point it was supplied for (values ordered by the loaded set)");
  __CPROVER_assert(inv(&g, true), "G1 after loading the derived structures (tree / nodes / tensor references, surpluses) belong to the current points and values");
  __CPROVER_assert(0, "VACUITY-CANARY");
}
//@ harness h_merge
void h_merge(void){
  GF g; gf_symbolic(&g); __CPROVER_assume(inv(&g, false));
  GF old = g;
  MERGE(&g);
  __CPROVER_assert(g.needed.n == 0, "G1 after mergeRefinement there are no needed points");
  __CPROVER_assert(g.points.n == old.points.n + old.needed.n, "G1 mergeRefinement keeps every loaded point and adds the needed ones");
  if (old.needed.n > 0) __CPROVER_assert(g.values_for == VALUES_ZERO, "G1 mergeRefinement resets all values to zero");
  __CPROVER_assert(inv(&g, old.needed.n > 0), "G1 after mergeRefinement the derived structures belong to the merged point set");
  __CPROVER_assert(0, "VACUITY-CANARY");
}

//@ harness h_setcoef
/* C04: setHierarchicalCoefficients on a Global grid (whose coefficients are the model values): the loaded point set is unchanged, a pending refinement is
 * dropped first (otherwise the array, which has one entry per loaded point, would be merged in as values of the needed points), the values are the input. */
void h_setcoef(void){
  GF g; gf_symbolic(&g); __CPROVER_assume(inv(&g, false));
  GF old = g;
  SETCOEF(&g);
  __CPROVER_assert(g.needed.n == 0, "C04 after setHierarchicalCoefficients there are no needed points");
  if (old.points.n > 0) {
    __CPROVER_assert(g.points.n == old.points.n && g.points.id == old.points.id, "C04 setHierarchicalCoefficients on a grid with loaded points keeps exactly those points (a pending refinement is dropped, not merged)");
    __CPROVER_assert(g.vals_stored_for == old.points.id, "C04 the coefficients are stored for the loaded points");
    __CPROVER_assert(g.updated_tensors == 0 && g.updated_active_tensors == 0, "C04 no pending tensors survive");
  }
  __CPROVER_assert(inv(&g, true), "C04 afterwards the derived structures belong to the current points and values");
  __CPROVER_assert(0, "VACUITY-CANARY");
}
