/* C05 (and C03) -- Sequence grids: the cached Newton polynomials and their derivatives, on an exact lattice.
 * With integer nodes and x and power-of-two coefficients every product, sum and quotient below is exact in double,
 * so the recurrences are bit-exact identities; they determine the caches completely:
 *   values:       V_0 = 1,  c_i V_i = (x - node_{i-1}) * (c_{i-1} V_{i-1})
 *   derivatives:  D_0 = 0,  c_i D_i = (x - node_{i-1}) * (c_{i-1} D_{i-1}) + c_{i-1} V_{i-1}      (product rule) */
//@ text
typedef struct { int num_dimensions; int max_levels[TSG_NDIM]; double nodes[TSG_NL]; double coeff[TSG_NL]; } GSeq;
static int tsg_colchk(int b, size_t len){ __CPROVER_assert(b >= 0 && (size_t) b < len, "C05 cache column inside the row sized for this dimension"); return b; }
/* std::vector<double>::resize on an empty row: n value-initialised (zero) entries */
static void tsg_row_resize(double *row, size_t *len, int n){ __CPROVER_assert(n >= 0 && n <= TSG_NL, "shim: row capacity suffices"); *len = (size_t) n; for (int z = 0; z < TSG_NL; z++) row[z] = 0.0; }
#define TSG_COL(a, b) tsg_colchk((b), cache_len[(a)])

//@ harness h_seqcache
void h_seqcache(void){
  GSeq s; double x[TSG_NDIM];
  s.num_dimensions = nondet_int(); __CPROVER_assume(s.num_dimensions >= 1 && s.num_dimensions <= TSG_NDIM);
  for (int d = 0; d < TSG_NDIM; d++) { s.max_levels[d] = nondet_int(); __CPROVER_assume(s.max_levels[d] >= 0 && s.max_levels[d] < TSG_NL);
    int xi = nondet_int(); __CPROVER_assume(xi >= -TSG_RNG && xi <= TSG_RNG); x[d] = (double) xi; }
  for (int i = 0; i < TSG_NL; i++) { int ni = nondet_int(); __CPROVER_assume(ni >= -TSG_RNG && ni <= TSG_RNG); s.nodes[i] = (double) ni;
    int e = nondet_int(); __CPROVER_assume(e >= -2 && e <= 2); s.coeff[i] = (e >= 0) ? (double)(1 << e) : 1.0 / (double)(1 << -e); }
  double V[TSG_NDIM][TSG_NL], D[TSG_NDIM][TSG_NL]; size_t vl[TSG_NDIM], dl[TSG_NDIM];
  cacheBasisValues(&s, x, V, vl);
  cacheBasisDerivatives(&s, x, D, dl);
  int a_d = nondet_int(), a_i = nondet_int();      /* witness: any dimension, any level */
  __CPROVER_assume(a_d >= 0 && a_d < s.num_dimensions && a_i >= 0 && a_i <= s.max_levels[a_d]);
  __CPROVER_assert(vl[a_d] == (size_t) s.max_levels[a_d] + 1 && dl[a_d] == (size_t) s.max_levels[a_d] + 1, "C05 one cached entry per level 0..max_levels");
  if (a_i == 0) {
    __CPROVER_assert(V[a_d][0] == 1.0, "C03 the level-0 Newton polynomial is the constant 1");
    __CPROVER_assert(D[a_d][0] == 0.0, "C05 the derivative of the level-0 polynomial is 0");
  } else {
    double cv = s.coeff[a_i] * V[a_d][a_i], cvp = (a_i == 1) ? V[a_d][0] : s.coeff[a_i - 1] * V[a_d][a_i - 1];
    double cd = s.coeff[a_i] * D[a_d][a_i], cdp = (a_i == 1) ? D[a_d][0] : s.coeff[a_i - 1] * D[a_d][a_i - 1];
    double f = x[a_d] - s.nodes[a_i - 1];
    __CPROVER_assert(cv == f * cvp, "C03 cached value: c_i N_i(x) = (x - node_{i-1}) c_{i-1} N_{i-1}(x)");
    __CPROVER_assert(cd == f * cdp + cvp, "C05 cached derivative obeys the product rule: c_i N_i'(x) = (x - node_{i-1}) c_{i-1} N_{i-1}'(x) + c_{i-1} N_{i-1}(x)");
  }
  __CPROVER_assert(0, "VACUITY-CANARY");
}
