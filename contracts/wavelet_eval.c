/* C12 -- the callees that the wavelet weight queries use through contracts (contracts/wavelet.c) are brought under contract themselves:
 * GridWavelet::evalBasis and GridWavelet::evalIntegral write nothing, GridWavelet::evalDiffBasis writes its output argument only.
 * The frame is enforced by dfcc; the 1-D rule (RuleWavelet::eval<mode>, getWeight: const member functions of a class without
 * mutable members, see the static frame scan) is replaced by a pure contract.                                                     */

//@ text
#define TSG_NDMAX 2
typedef struct GridWavelet { int num_dimensions, num_outputs, order; } GridWavelet;

//@ stub RuleWavelet_eval0
double RuleWavelet_eval0(const GridWavelet *self, int point, double x)
__CPROVER_requires(1) __CPROVER_ensures(1) __CPROVER_assigns()
;
double RuleWavelet_eval1(const GridWavelet *self, int point, double x)
__CPROVER_requires(1) __CPROVER_ensures(1) __CPROVER_assigns()
;
double RuleWavelet_getWeight(const GridWavelet *self, int point)
__CPROVER_requires(1) __CPROVER_ensures(1) __CPROVER_assigns()
;

//@ contract GridWavelet_evalBasis
__CPROVER_requires(__CPROVER_is_fresh(self, sizeof(*self)) && __CPROVER_is_fresh(p, TSG_NDMAX * sizeof(int)) && __CPROVER_is_fresh(x, TSG_NDMAX * sizeof(double)))
__CPROVER_requires(self->num_dimensions >= 1 && self->num_dimensions <= TSG_NDMAX)
__CPROVER_ensures(1)
__CPROVER_assigns()
//@ contract GridWavelet_evalIntegral
__CPROVER_requires(__CPROVER_is_fresh(self, sizeof(*self)) && __CPROVER_is_fresh(p, TSG_NDMAX * sizeof(int)))
__CPROVER_requires(self->num_dimensions >= 1 && self->num_dimensions <= TSG_NDMAX)
__CPROVER_ensures(1)
__CPROVER_assigns()
//@ contract GridWavelet_evalDiffBasis
__CPROVER_requires(__CPROVER_is_fresh(self, sizeof(*self)) && __CPROVER_is_fresh(p, TSG_NDMAX * sizeof(int)) && __CPROVER_is_fresh(x, TSG_NDMAX * sizeof(double)) && __CPROVER_is_fresh(jacobian, TSG_NDMAX * sizeof(double)))
__CPROVER_requires(self->num_dimensions >= 1 && self->num_dimensions <= TSG_NDMAX)
__CPROVER_ensures(1)
__CPROVER_assigns(__CPROVER_object_whole(jacobian))

//@ harness h_evalBasis
void h_evalBasis(void){ const GridWavelet *s = 0; const int *p = 0; const double *x = 0; double r = GridWavelet_evalBasis(s, p, x); (void) r; __CPROVER_assert(0, "VACUITY-CANARY"); }
//@ harness h_evalIntegral
void h_evalIntegral(void){ const GridWavelet *s = 0; const int *p = 0; double r = GridWavelet_evalIntegral(s, p); (void) r; __CPROVER_assert(0, "VACUITY-CANARY"); }
//@ harness h_evalDiffBasis
void h_evalDiffBasis(void){ const GridWavelet *s = 0; const int *p = 0; const double *x = 0; double *j = 0; GridWavelet_evalDiffBasis(s, p, x, j); __CPROVER_assert(0, "VACUITY-CANARY"); }
