/* C06 / C14 -- top-level binary framing of TasmanianSparseGrid (writeBinary / readBinary) on the token tape.
 * Round trip: read(write(g)) restores the family object, the domain transform, the conformal transform, the
 * level limits and the dynamic-construction flag + data; the reader consumes exactly what was written.
 * Bad headers (C14): a stream that does not start with "TSG5" raises runtime_error BEFORE the grid is touched;
 * an unknown grid-type byte raises runtime_error (the grid may be empty afterwards, never half-built).      */
//@ text
typedef struct { int id; size_t len; } gvec;
typedef struct { int kind; int id; int dims; int construction_id; } gbase;
enum { K_none = 0, K_GridGlobal, K_GridSequence, K_GridLocalPolynomial, K_GridWavelet, K_GridFourier };
typedef struct TT { gbase base; gvec domain_transform_a, domain_transform_b, conformal_asin_power, llimits; bool using_dynamic_construction; } TT;
enum { T_MAGIC = 1, T_CHAR, T_BASE, T_VEC, T_CONSTR };
#define TAPE_MAX 16
typedef struct { int kind; char c[4]; gbase b; gvec v; } token;
token tape[TAPE_MAX]; int tape_w, tape_r; bool g_cleared;
static void push(token t){ __CPROVER_assert(tape_w < TAPE_MAX, "shim: token tape capacity suffices"); tape[tape_w++] = t; }
static token pop(int kind){
  token t; t.kind = 0; t.c[0] = 0; t.c[1] = 0; t.c[2] = 0; t.c[3] = 0; t.b.kind = 0; t.b.id = 0; t.b.dims = 0; t.b.construction_id = 0; t.v.id = 0; t.v.len = 0;
  __CPROVER_assert(tape_r < tape_w, "C06 the reader does not read past what the writer produced");
  if (tape_r < tape_w) { t = tape[tape_r++]; __CPROVER_assert(t.kind == kind, "C06 the reader expects the kind of datum that was written at this position"); }
  return t;
}
static gvec vec_none(void){ gvec v = {0, 0}; return v; }
static gbase base_none(void){ gbase b = {K_none, 0, 0, 0}; return b; }
static bool vec_eq(gvec a, gvec b){ return a.len == b.len && (a.len == 0 || a.id == b.id); }
void tape_write_magic(const char *m){ token t; t.kind = T_MAGIC; t.c[0] = m[0]; t.c[1] = m[1]; t.c[2] = m[2]; t.c[3] = m[3]; push(t); }
void tape_read_magic(char *m){ token t = pop(T_MAGIC); m[0] = t.c[0]; m[1] = t.c[1]; m[2] = t.c[2]; m[3] = t.c[3]; }
void tape_write_char(char c){ token t; t.kind = T_CHAR; t.c[0] = c; push(t); }
char tape_read_char(void){ return pop(T_CHAR).c[0]; }
void tape_write_vec(gvec v){ if (v.len == 0) return; token t; t.kind = T_VEC; t.v = v; push(t); }
gvec tape_read_vec(size_t n){ if (n == 0) return vec_none(); token t = pop(T_VEC); __CPROVER_assert(t.v.len == n, "C06 the reader computes the length that was written"); return t.v; }
void tape_write_base(const TT *s){ token t; t.kind = T_BASE; t.b = s->base; t.b.construction_id = 0; push(t); }
gbase tape_read_base(int kind){ token t = pop(T_BASE); __CPROVER_assert(t.b.kind == kind, "C06 the family reader that runs is the one the grid-type byte names"); return t.b; }
void tape_write_construction(const TT *s){ token t; t.kind = T_CONSTR; t.b = s->base; push(t); }
void tape_read_construction(gbase *b){ __CPROVER_assert(b->kind != K_none, "C14 construction data is read only into an existing family object (null pointer otherwise)"); token t = pop(T_CONSTR); b->construction_id = t.b.construction_id; }
int base_dims(const gbase *b){ __CPROVER_assert(b->kind != K_none, "C14 the dimensions are asked only of an existing family object (null pointer otherwise)"); return b->dims; }
bool TT_isGlobal(const TT *s){ return s->base.kind == K_GridGlobal; }
bool TT_isSequence(const TT *s){ return s->base.kind == K_GridSequence; }
bool TT_isLocalPolynomial(const TT *s){ return s->base.kind == K_GridLocalPolynomial; }
bool TT_isWavelet(const TT *s){ return s->base.kind == K_GridWavelet; }
bool TT_isFourier(const TT *s){ return s->base.kind == K_GridFourier; }
bool TT_empty(const TT *s){ return s->base.kind == K_none; }
void TT_clear(TT *s){ s->base = base_none(); s->domain_transform_a = vec_none(); s->domain_transform_b = vec_none(); s->conformal_asin_power = vec_none(); s->llimits = vec_none(); s->using_dynamic_construction = false; g_cleared = true; }
static gvec vec_sym(size_t n){ gvec v; v.id = nondet_int(); v.len = nondet_bool() ? n : 0; __CPROVER_assume(v.id > 0); return v; }
static void tt_symbolic(TT *g){
  g->base.kind = nondet_int(); g->base.id = nondet_int(); g->base.dims = nondet_int(); g->base.construction_id = nondet_int();
  __CPROVER_assume(g->base.kind >= K_none && g->base.kind <= K_GridFourier && g->base.dims >= 1 && g->base.dims <= 20 && g->base.id > 0 && g->base.construction_id > 0);
  if (g->base.kind == K_none) { g->base = base_none(); }
  size_t d = (g->base.kind == K_none) ? 0 : (size_t) g->base.dims;
  /* well_formed (TasmanianSparseGrid): transforms, conformal powers and level limits have one entry per dimension or are absent; an empty grid has none (clear()) */
  g->domain_transform_a = vec_sym(d); g->domain_transform_b = vec_sym(d); g->domain_transform_b.len = g->domain_transform_a.len;
  g->conformal_asin_power = vec_sym(d); g->llimits = vec_sym(d);
  g->using_dynamic_construction = (g->base.kind != K_none) && nondet_bool();
  if (!g->using_dynamic_construction) g->base.construction_id = 0;
}
//@ harness h_top_roundtrip
void h_top_roundtrip(void){
  TT g, r; tt_symbolic(&g); tt_symbolic(&r);          /* the receiving object holds anything */
  tape_w = 0; tape_r = 0; tsg_exc = 0;
  top_writeBinary(&g);
  top_readBinary(&r);
  __CPROVER_assert(tsg_exc == 0, "C06 a stream written by writeBinary is accepted by readBinary");
  __CPROVER_assert(tape_r == tape_w, "C06 the reader consumes exactly what the writer produced");
  __CPROVER_assert(r.base.kind == g.base.kind && (g.base.kind == K_none || (r.base.id == g.base.id && r.base.dims == g.base.dims)), "C06 the grid type and the family object are restored");
  __CPROVER_assert(vec_eq(r.domain_transform_a, g.domain_transform_a) && vec_eq(r.domain_transform_b, g.domain_transform_b), "C06 the domain transform is restored");
  __CPROVER_assert(vec_eq(r.conformal_asin_power, g.conformal_asin_power), "C06 the conformal transform is restored");
  __CPROVER_assert(vec_eq(r.llimits, g.llimits), "C06 the level limits are restored");
  __CPROVER_assert(r.using_dynamic_construction == g.using_dynamic_construction && r.base.construction_id == g.base.construction_id, "C06 the dynamic-construction flag and data are restored");
  __CPROVER_assert(0, "VACUITY-CANARY");
}
//@ harness h_top_badheader
void h_top_badheader(void){
  TT r, old; tt_symbolic(&r); old = r;
  tape_w = 0; tape_r = 0; tsg_exc = 0; g_cleared = false;
  token m; m.kind = T_MAGIC; m.c[0] = nondet_int(); m.c[1] = nondet_int(); m.c[2] = nondet_int(); m.c[3] = nondet_int(); push(m);
  token ty; ty.kind = T_CHAR; ty.c[0] = nondet_int(); push(ty);
  bool good_magic = (m.c[0] == 'T' && m.c[1] == 'S' && m.c[2] == 'G' && m.c[3] == '5');
  bool known_type = (ty.c[0] == 'g' || ty.c[0] == 's' || ty.c[0] == 'p' || ty.c[0] == 'w' || ty.c[0] == 'f' || ty.c[0] == 'e');
  __CPROVER_assume(!good_magic || !known_type);
  top_readBinary(&r);
  __CPROVER_assert(tsg_exc == TSG_RUNTIME_ERROR, "C14 a stream with a wrong header, a future version or an unknown grid type raises std::runtime_error");
  if (!good_magic)
    __CPROVER_assert(!g_cleared && r.base.kind == old.base.kind && r.base.id == old.base.id && vec_eq(r.llimits, old.llimits) && vec_eq(r.domain_transform_a, old.domain_transform_a) && r.using_dynamic_construction == old.using_dynamic_construction,
                     "C14 a stream that is not a Tasmanian file leaves the grid exactly as it was");
  else
    __CPROVER_assert(r.base.kind == K_none, "C14 after a failed read of a Tasmanian stream the grid is empty, never half-built");
  __CPROVER_assert(0, "VACUITY-CANARY");
}

//@ text2
/* line-oriented additions for the ASCII framing: a text line is a keyword token; reads that stop inside a line (>> and the family readers) leave the rest
 * of the line, which the next getline returns as an empty line */
enum { T_LINE = 10, T_PAIRS };
bool g_midline;
static token tok0(int kind){ token t; t.kind = kind; t.c[0] = 0; t.c[1] = 0; t.c[2] = 0; t.c[3] = 0; t.b = base_none(); t.v = vec_none(); return t; }
void tape_write_line(int kw){ token t = tok0(T_LINE); t.b.id = kw; push(t); }
int tape_read_word(void){ token t = pop(T_LINE); g_midline = true; return t.b.id; }
int tape_getline(void){ if (g_midline) { g_midline = false; return KW_EMPTYLINE; } token t = pop(T_LINE); return t.b.id; }
int tsg_kwcmp(int T, int kw){ return T == kw ? 0 : 1; }
void tape_write_pairs(gvec a, gvec b, int n){ __CPROVER_assert(a.len == (size_t) n && b.len == (size_t) n, "C06 the domain transform written has one pair per dimension"); token t = tok0(T_PAIRS); t.v = a; t.b.id = b.id; push(t); }
void tape_read_pairs(gvec *a, gvec *b, int n){ token t = pop(T_PAIRS); __CPROVER_assert(t.v.len == (size_t) n, "C06 the reader computes the number of pairs that was written"); *a = t.v; b->id = t.b.id; b->len = t.v.len; g_midline = true; }
gvec tape_read_vec_a(size_t n){ gvec v = tape_read_vec(n); g_midline = true; return v; }
gbase tape_read_base_a(int kind){ gbase b = tape_read_base(kind); g_midline = true; return b; }
void tape_read_construction_a(gbase *b){ tape_read_construction(b); g_midline = true; }
//@ harness h_top_roundtrip_ascii
void h_top_roundtrip_ascii(void){
  TT g, r; tt_symbolic(&g); tt_symbolic(&r);
  tape_w = 0; tape_r = 0; tsg_exc = 0; g_midline = false;
  top_writeAscii(&g);
  /* the two header lines are consumed by the statements that were cut out of the reader */
  __CPROVER_assert(tape_w >= 2 && tape[0].kind == T_LINE && tape[0].b.id == KW_HEADER && tape[1].kind == T_LINE && tape[1].b.id == KW_WARNING_do_not_edit_this_manually, "C06 writeAscii starts with the version line and the warning line");
  tape_r = 2;
  top_readAscii(&r);
  __CPROVER_assert(tsg_exc == 0, "C06 a stream written by writeAscii is accepted by readAscii");
  __CPROVER_assert(tape_r == tape_w, "C06 the ASCII reader consumes exactly what the writer produced");
  __CPROVER_assert(r.base.kind == g.base.kind && (g.base.kind == K_none || (r.base.id == g.base.id && r.base.dims == g.base.dims)), "C06 ASCII: the grid type and the family object are restored");
  __CPROVER_assert(vec_eq(r.domain_transform_a, g.domain_transform_a) && vec_eq(r.domain_transform_b, g.domain_transform_b), "C06 ASCII: the domain transform is restored");
  __CPROVER_assert(vec_eq(r.conformal_asin_power, g.conformal_asin_power), "C06 ASCII: the conformal transform is restored");
  __CPROVER_assert(vec_eq(r.llimits, g.llimits), "C06 ASCII: the level limits are restored");
  __CPROVER_assert(r.using_dynamic_construction == g.using_dynamic_construction && r.base.construction_id == g.base.construction_id, "C06 ASCII: the dynamic-construction flag and data are restored");
  __CPROVER_assert(0, "VACUITY-CANARY");
}
