/* C18 (sequential part) -- CandidateManager::next hands out work exactly once and within
 * the budget (F16).  All CandidateManager calls happen on the main thread of
 * constructCommon, so exactly-once and the budget are properties of sequential code.
 *
 * F16 next(budget): returns R points with R <= min(budget, num_batch); exactly the R
 *   lowest-index candidates whose status was `free` become `running` (never handed out
 *   twice); nothing else changes state; num_running and the running-job list grow by R;
 *   the returned rows are those candidates, in order.                                     */

//@ text
#ifndef TSG_NC
#define TSG_NC 4
#endif
#ifndef TSG_NDIM
#define TSG_NDIM 2
#endif
#define TSG_RCAP (TSG_NC * TSG_NDIM)
typedef enum { st_free, st_running, st_done } TypeStatus;
static const double num_tol = 1.E-12;
typedef struct CandidateManager {
  size_t num_dimensions, num_batch, num_candidates, num_running, num_done;
  double candidates[TSG_NC * TSG_NDIM];
  size_t sorted[TSG_NC];
  TypeStatus status[TSG_NC];
  size_t running_jobs_count;           /* ghost length of the forward_list */
} CandidateManager;
/* ghost list */
double g_pushed[TSG_NC][TSG_NDIM]; size_t g_npushed;
void fl_push_front(CandidateManager *self, const double *row, size_t n){
  __CPROVER_assert(n == self->num_dimensions, "F16 a running job is one point");
  __CPROVER_assert(g_npushed < TSG_NC, "F16 no more running jobs than candidates are pushed");
  for (size_t d = 0; d < TSG_NDIM; d++) if (d < n) g_pushed[g_npushed][d] = row[d];
  g_npushed++; self->running_jobs_count++;
}

//@ harness h_next
void h_next(void){
  CandidateManager m;
  m.num_dimensions = nondet_size_t(); m.num_batch = nondet_size_t(); m.num_candidates = nondet_size_t();
  __CPROVER_assume(m.num_dimensions >= 1 && m.num_dimensions <= TSG_NDIM && m.num_batch >= 1 && m.num_candidates <= TSG_NC);
  m.num_running = nondet_size_t(); m.num_done = nondet_size_t(); m.running_jobs_count = nondet_size_t();
  __CPROVER_assume(m.num_running < 1000 && m.running_jobs_count < 1000);
  size_t a_budget = nondet_size_t();
  TypeStatus old_status[TSG_NC];
  size_t nfree = 0;
  for (size_t i = 0; i < TSG_NC; i++) {
    int s = nondet_int(); __CPROVER_assume(s >= st_free && s <= st_done);
    m.status[i] = (TypeStatus) s; old_status[i] = m.status[i];
    if (i < m.num_candidates && m.status[i] == st_free) nfree++;
    for (size_t d = 0; d < TSG_NDIM; d++) m.candidates[i * TSG_NDIM + d] = nondet_double();
  }
  /* rows are laid out with stride num_dimensions */
  size_t run0 = m.num_running, list0 = m.running_jobs_count;
  double ret[TSG_RCAP]; size_t ret_size = 12345;
  g_npushed = 0;
  CandidateManager_next(&m, a_budget, ret, &ret_size);
  size_t nd = m.num_dimensions;
  size_t R = ret_size / nd;
  size_t cap = a_budget < m.num_batch ? a_budget : m.num_batch;
  __CPROVER_assert(ret_size % nd == 0 && ret_size <= TSG_RCAP, "F16 next returns whole points");
  __CPROVER_assert(R <= cap, "F16 next never returns more points than min(remaining_budget, num_batch)");
  __CPROVER_assert(R == (nfree < cap ? nfree : cap), "F16 next returns as many free candidates as the budget and the batch size allow");
  __CPROVER_assert(m.num_running == run0 + R && m.running_jobs_count == list0 + R && g_npushed == R, "F16 num_running and the running-job list grow by the number of returned points");
  size_t k = 0;
  for (size_t i = 0; i < TSG_NC; i++) {
    if (i < m.num_candidates && old_status[i] == st_free && k < R) {
      __CPROVER_assert(m.status[i] == st_running, "F16 the lowest-index free candidates become running (handed out exactly once)");
      for (size_t d = 0; d < TSG_NDIM; d++) if (d < nd) {
        __CPROVER_assert(TSG_SAME(ret[k * nd + d], m.candidates[i * nd + d]), "F16 the returned rows are the candidates that were marked running, in order");
        __CPROVER_assert(TSG_SAME(g_pushed[k][d], m.candidates[i * nd + d]), "F16 each returned point is recorded as a running job");
      }
      k++;
    } else {
      __CPROVER_assert(m.status[i] == old_status[i], "F16 no other candidate changes its status");
    }
  }
  __CPROVER_assert(0, "VACUITY-CANARY");
}

//@ text2
/* ghost: find() is under its own contract (candman.find); here it returns any slot or num_candidates (not a candidate any more) */
size_t g_found[TSG_NC]; size_t g_nfind, g_nerased;
size_t CandidateManager_find(const CandidateManager *self, const double *point){
  size_t r = nondet_size_t(); __CPROVER_assume(r <= self->num_candidates);
  if (g_nfind < TSG_NC) g_found[g_nfind] = r;
  g_nfind++;
  return r;
}
void fl_erase_match(CandidateManager *self, const double *point){
  __CPROVER_assert(self->running_jobs_count > 0, "F16c a completed point is in the running-job list");
  self->running_jobs_count--; g_nerased++;
}
//@ harness h_complete
/* F16c complete(p) with k = |p| / num_dimensions points that were handed out before: num_done grows by k, num_running and the running-job list shrink by k
 * (whether or not a point is still a candidate); exactly the candidates that were found are marked done. */
void h_complete(void){
  CandidateManager m;
  m.num_dimensions = nondet_size_t(); m.num_batch = nondet_size_t(); m.num_candidates = nondet_size_t();
  __CPROVER_assume(m.num_dimensions >= 1 && m.num_dimensions <= TSG_NDIM && m.num_batch >= 1 && m.num_candidates <= TSG_NC);
  size_t a_k = nondet_size_t();
  __CPROVER_assume(a_k >= 1 && a_k <= TSG_NC);
  m.num_running = nondet_size_t(); m.num_done = nondet_size_t(); m.running_jobs_count = nondet_size_t();
  __CPROVER_assume(m.num_running >= a_k && m.num_running < 1000 && m.running_jobs_count == m.num_running && m.num_done < 1000);      /* class invariant: one list entry per running job */
  TypeStatus old_status[TSG_NC];
  for (size_t i = 0; i < TSG_NC; i++) { int s = nondet_int(); __CPROVER_assume(s >= st_free && s <= st_done); m.status[i] = (TypeStatus) s; old_status[i] = m.status[i];
    m.sorted[i] = nondet_size_t(); __CPROVER_assume(m.sorted[i] < TSG_NC); }
  double p[TSG_RCAP];
  size_t run0 = m.num_running, done0 = m.num_done;
  g_nfind = 0; g_nerased = 0;
  CandidateManager_complete(&m, p, a_k * m.num_dimensions);
  __CPROVER_assert(m.num_done == done0 + a_k, "F16c num_done grows by the number of completed points");
  __CPROVER_assert(m.num_running == run0 - a_k, "F16c num_running shrinks by the number of completed points, also for a point that is no longer a candidate (the construction loop waits for getNumRunning() == 0)");
  __CPROVER_assert(m.running_jobs_count == m.num_running && g_nerased == a_k, "F16c one running job is erased per completed point (invariant: one list entry per running job)");
  __CPROVER_assert(g_nfind == a_k, "F16c every completed point is looked up once");
  for (size_t i = 0; i < TSG_NC; i++) {
    bool hit = false;
    for (size_t q = 0; q < TSG_NC; q++) if (q < a_k && g_found[q] < m.num_candidates && m.sorted[g_found[q]] == i) hit = true;
    if (hit) __CPROVER_assert(m.status[i] == st_done, "F16c a completed point that is still a candidate is marked done");
    else __CPROVER_assert(m.status[i] == old_status[i], "F16c no other candidate changes its status");
  }
  __CPROVER_assert(0, "VACUITY-CANARY");
}
