/* C14 / C07 (G2, F6) / C08 (G3): the public wrappers of TasmanianSparseGrid over a ghost
 * receiver.  The per-family objects are stubs; their preconditions are the wrapper's
 * obligations:
 *   C14  every exception of a wrapper is invalid_argument or runtime_error; at a throw no
 *        family object has been created, updated or refined yet; make* validates before clear();
 *        `base` is dereferenced only when it is non-null.
 *   G3   level limits persist: after a successful call llimits is the argument when one was
 *        given (non-empty vector / non-null pointer) and the old limits otherwise, and the
 *        family object receives exactly the stored limits.
 *   G2   refinement/update/clear wrappers reach the family only through calls that (by the
 *        family contract) touch `needed`; the loaded points/values identity is unchanged.
 *   F6   the documented size of scale_correction is accepted.                              */

//@ text
typedef struct { int id; size_t size; } gvec;            /* a std::vector argument/member: identity and length */
typedef struct { int id; bool null; size_t size; bool sized; } gptr; /* an array argument: identity, null-ness; length only when it came from a vector */
typedef struct { int id; } gobj;
enum { K_none = 0, K_GridGlobal, K_GridSequence, K_GridLocalPolynomial, K_GridWavelet, K_GridFourier };
typedef struct TSG {
  int base;                                  /* family of the base object, K_none == null pointer == empty grid */
  int dims, outs, loaded, needed, points;    /* what the base object reports */
  TypeOneDRule rule;
  gvec llimits;
  bool using_dynamic_construction;
  int points_id, values_id;                  /* ghost identity of the loaded points / values / surrogate */
  gvec domain_transform_a, domain_transform_b, conformal_asin_power;
} TSG;

#if PROP_C07
#define G2(x) x
#else
#define G2(x)
#endif
#if PROP_C08
#define G3(x) x
#else
#define G3(x)
#endif
/* ghost */
int  g_family_calls, g_ctor_calls, g_loads;
bool g_cleared, g_family_may_throw, g_in_make;
gvec g_limits_seen; bool g_limits_seen_valid;
bool g_curved[8];

static gvec gvec_empty(void){ gvec v = {0, 0}; return v; }
static gptr gptr_null(void){ gptr p = {0, true, 0, false}; return p; }
static gvec gvec_copyArray(gptr p, int n){ gvec v = {0, 0}; if (!p.null) { v.id = p.id; v.size = (size_t) n; } return v; }
static gptr gvec_data(gvec v){ gptr p = {v.id, false, v.size, true}; return p; }
static bool gvec_eq(gvec a, gvec b){ return a.size == b.size && (a.size == 0 || a.id == b.id); }

#define TSG_THROW(kind) do{ \
  __CPROVER_assert((kind) != TSG_OTHER, "C14 a wrapper raises only std::invalid_argument or std::runtime_error"); \
  __CPROVER_assert(g_family_calls == 0 && g_ctor_calls == 0 && g_loads == 0, "C14 no family object has been created or modified before a wrapper throws"); \
  __CPROVER_assert(!g_cleared, "C14 make*: every validation precedes clear()"); \
  tsg_exc = (kind); }while(0)

bool isTypeCurved(TypeDepth t){ return g_curved[((unsigned) t) & 7u]; }
static int base_ok(const TSG *s){ __CPROVER_assert(s->base != K_none, "C14 base is dereferenced only when the grid is not empty (null pointer otherwise)"); return 1; }
void TSGW_clear(TSG *self);
void TSG_clear(TSG *s){ TSGW_clear(s); g_cleared = true; }      /* the extracted TasmanianSparseGrid::clear() plus the ghost flag */
bool TSG_empty(const TSG *s){ return s->base == K_none; }
bool TSG_isGlobal(const TSG *s){ return s->base == K_GridGlobal; }
bool TSG_isSequence(const TSG *s){ return s->base == K_GridSequence; }
bool TSG_isLocalPolynomial(const TSG *s){ return s->base == K_GridLocalPolynomial; }
bool TSG_isWavelet(const TSG *s){ return s->base == K_GridWavelet; }
bool TSG_isFourier(const TSG *s){ return s->base == K_GridFourier; }
int  TSG_getNumDimensions(const TSG *s){ return s->base ? s->dims : 0; }
int  TSG_getNumLoaded(const TSG *s){ return s->base ? s->loaded : 0; }
int  TSG_getNumOutputs(const TSG *s){ return s->base ? s->outs : 0; }
void TSGW_setDomainTransform_vec(TSG *self, gvec a, gvec b);
/* the family copy constructors: a complete copy of the source family object restricted to the output range (assumed, see G4 in DESIGN) */
int copy_grid(TSG *s, int kind, const TSG *src, int ob, int oe){
  __CPROVER_assert(src->base == kind, "C11 the family cast of the source matches its type");
  s->dims = src->dims; s->outs = oe - ob; s->loaded = src->loaded; s->needed = src->needed; s->rule = src->rule; s->points_id = src->points_id; s->values_id = src->values_id;
  g_ctor_calls++;
  return kind;
}
int  base_getNumDimensions(const TSG *s){ base_ok(s); return s->dims; }
int  base_getNumOutputs(const TSG *s){ base_ok(s); return s->outs; }
int  base_getNumLoaded(const TSG *s){ base_ok(s); return s->loaded; }
int  base_getNumNeeded(const TSG *s){ base_ok(s); return s->needed; }
int  base_getNumPoints(const TSG *s){ base_ok(s); return s->loaded == 0 ? s->needed : s->loaded; }
/* an output argument that reaches a family object is -1 (all outputs) or a valid output index: the families index their value arrays with it */
static void out_ok(const TSG *s, int out){ __CPROVER_assert(out >= -1 && out < s->outs, "C14 an output index that reaches the family object is -1 or a valid output (otherwise the documented invalid_argument was not raised)"); }
static void family_call(TSG *s, int kind, gvec limits, bool takes_limits){
  base_ok(s);
  __CPROVER_assert(s->base == kind, "C14 the family cast matches the type of the grid");
  if (takes_limits) {
    G3(__CPROVER_assert(gvec_eq(limits, s->llimits), "G3 the family object receives exactly the stored level limits");)
    g_limits_seen = limits; g_limits_seen_valid = true;
  }
  if (g_family_may_throw && nondet_bool()) { tsg_exc = nondet_bool() ? TSG_RUNTIME_ERROR : TSG_INVALID_ARGUMENT; return; }  /* families throw before they mutate (assumed) */
  g_family_calls++;
  s->needed = nondet_int(); __CPROVER_assume(s->needed >= 0 && s->needed < 1000);   /* refinement / update: only `needed` changes */
}
int new_grid(TSG *s, int kind, gvec limits){
  __CPROVER_assert(g_cleared, "C14 make*: the old grid is cleared before the new one is built");
  G3(__CPROVER_assert(gvec_eq(limits, s->llimits), "G3 the constructor receives exactly the stored level limits");)
  if (g_family_may_throw && nondet_bool()) { tsg_exc = nondet_bool() ? TSG_RUNTIME_ERROR : TSG_INVALID_ARGUMENT; return K_none; }
  g_ctor_calls++;
  return kind;
}
void GridSequence_setAnisotropicRefinement(TSG *s, TypeDepth t, int mg, int out, gvec l){ out_ok(s, out); family_call(s, K_GridSequence, l, true); }
void GridGlobal_setAnisotropicRefinement(TSG *s, TypeDepth t, int mg, int out, gvec l){ out_ok(s, out); family_call(s, K_GridGlobal, l, true); }
void GridFourier_setAnisotropicRefinement(TSG *s, TypeDepth t, int mg, int out, gvec l){ out_ok(s, out); family_call(s, K_GridFourier, l, true); }
void GridSequence_setSurplusRefinement(TSG *s, double tol, int out, gvec l){ out_ok(s, out); family_call(s, K_GridSequence, l, true); }
void GridGlobal_setSurplusRefinement(TSG *s, double tol, int out, gvec l){ out_ok(s, out); family_call(s, K_GridGlobal, l, true); }
void GridLocalPolynomial_setSurplusRefinement(TSG *s, double tol, TypeRefinement c, int out, gvec l, gptr scale){
  G2(__CPROVER_assert(scale.null || !scale.sized || scale.size == (size_t) s->loaded * (size_t)(out == -1 ? s->outs : 1),
                   "F6 a scale correction that reaches the family has one weight per loaded point and active output");)
  out_ok(s, out);
  family_call(s, K_GridLocalPolynomial, l, true);
}
void GridWavelet_setSurplusRefinement(TSG *s, double tol, TypeRefinement c, int out, gvec l){ out_ok(s, out); family_call(s, K_GridWavelet, l, true); }
void GridGlobal_updateGrid(TSG *s, int depth, TypeDepth t, gvec aw, gvec l){ family_call(s, K_GridGlobal, l, true); }
void GridSequence_updateGrid(TSG *s, int depth, TypeDepth t, gvec aw, gvec l){ family_call(s, K_GridSequence, l, true); }
void GridFourier_updateGrid(TSG *s, int depth, TypeDepth t, gvec aw, gvec l){ family_call(s, K_GridFourier, l, true); }
/* candidate points of the dynamic construction: the family receives the stored limits; the returned points are a ghost vector */
static gvec fam_candidates(TSG *s, int kind, gvec l){ gvec x = {0, 0}; family_call(s, kind, l, true); if (tsg_exc == TSG_NO_EXC) { x.id = nondet_int(); x.size = nondet_size_t(); } return x; }
#define GridGlobal_getCandidateConstructionPoints(s, t, w, l) fam_candidates(s, K_GridGlobal, l)
#define GridSequence_getCandidateConstructionPoints(s, t, w, l) fam_candidates(s, K_GridSequence, l)
#define GridFourier_getCandidateConstructionPoints(s, t, w, l) fam_candidates(s, K_GridFourier, l)
#define GridWavelet_getCandidateConstructionPoints(s, tol, c, out, l) fam_candidates(s, K_GridWavelet, l)
#define GridLocalPolynomial_getCandidateConstructionPoints(s, tol, c, out, l, sc) fam_candidates(s, K_GridLocalPolynomial, l)
void TSG_formTransformedPoints(const TSG *s, gvec x){ base_ok(s); }
TypeOneDRule GridGlobal_getRule(const TSG *s){ base_ok(s); __CPROVER_assert(s->base == K_GridGlobal, "C14 the family cast matches the type of the grid"); return s->rule; }
void base_clearRefinement(TSG *s){ base_ok(s); g_family_calls++; s->needed = 0; }
void base_mergeRefinement(TSG *s){ base_ok(s); g_family_calls++; s->loaded += s->needed; s->needed = 0; s->values_id = nondet_int(); s->points_id = nondet_int(); }
void base_beginConstruction(TSG *s){ base_ok(s); g_family_calls++; }
void base_loadNeededValues(TSG *s, gptr vals){ base_ok(s); g_loads++; s->values_id = vals.id; s->loaded += s->needed; s->needed = 0; }

static void tsg_symbolic(TSG *s){
  s->base = nondet_int(); __CPROVER_assume(s->base >= K_none && s->base <= K_GridFourier);
  s->dims = nondet_int(); s->outs = nondet_int(); s->loaded = nondet_int(); s->needed = nondet_int();
  __CPROVER_assume(s->dims >= 1 && s->dims <= 6 && s->outs >= 0 && s->outs <= 4 && s->loaded >= 0 && s->loaded < 1000 && s->needed >= 0 && s->needed < 1000);
  s->rule = (TypeOneDRule) nondet_int(); __CPROVER_assume(s->rule >= rule_none && s->rule <= rule_fourier);
  s->llimits.id = nondet_int(); s->llimits.size = nondet_size_t();
  __CPROVER_assume(s->llimits.size == 0 || (s->base != K_none && s->llimits.size == (size_t) s->dims));
  s->using_dynamic_construction = nondet_bool();
  __CPROVER_assume(!s->using_dynamic_construction || s->base != K_none);   /* representation invariant: beginConstruction() rejects an empty grid, clear() resets the flag (both under contract here) */
  s->points_id = nondet_int(); s->values_id = nondet_int();
  s->domain_transform_a.id = nondet_int(); s->domain_transform_a.size = nondet_size_t(); s->domain_transform_b.id = nondet_int(); s->domain_transform_b.size = s->domain_transform_a.size;
  __CPROVER_assume(s->domain_transform_a.size == 0 || (s->base != K_none && s->domain_transform_a.size == (size_t) s->dims));
  s->conformal_asin_power.id = nondet_int(); s->conformal_asin_power.size = nondet_size_t(); __CPROVER_assume(s->conformal_asin_power.size == 0 || (s->base != K_none && s->conformal_asin_power.size == (size_t) s->dims));
  for (int i = 0; i < 8; i++) g_curved[i] = nondet_bool();
  g_family_calls = 0; g_ctor_calls = 0; g_loads = 0; g_cleared = false; g_limits_seen_valid = false; tsg_exc = 0;
  g_family_may_throw = nondet_bool();
}
static void tsg_default(TSG *s){ s->base = K_none; s->dims = 0; s->outs = 0; s->loaded = 0; s->needed = 0; s->rule = rule_none; s->llimits = gvec_empty(); s->using_dynamic_construction = false; s->points_id = 0; s->values_id = 0; s->domain_transform_a = gvec_empty(); s->domain_transform_b = gvec_empty(); s->conformal_asin_power = gvec_empty(); }
static gvec gvec_symbolic(void){ gvec v; v.id = nondet_int(); v.size = nondet_size_t(); __CPROVER_assume(v.size <= 16 && v.id > 0); return v; }
static gptr gptr_symbolic(void){ gptr p; p.id = nondet_int(); p.null = nondet_bool(); p.size = 0; p.sized = false; __CPROVER_assume(p.id > 0); return p; }
static gobj gobj_symbolic(void){ gobj o; o.id = nondet_int(); return o; }

/* common postcondition of every wrapper (C14) */
static void common_post(const TSG *old, const TSG *s, bool is_make){
  __CPROVER_assert(tsg_exc == TSG_NO_EXC || tsg_exc == TSG_INVALID_ARGUMENT || tsg_exc == TSG_RUNTIME_ERROR, "C14 only the two documented exception types leave a wrapper");
  if (tsg_exc != TSG_NO_EXC) {
    if (is_make)
      __CPROVER_assert(s->base == K_none || (s->base == old->base && s->points_id == old->points_id && s->values_id == old->values_id && s->loaded == old->loaded && s->needed == old->needed),
                       "C14 after a failed make* the grid is empty or exactly as before");
    else
      __CPROVER_assert(s->base == old->base && s->points_id == old->points_id && s->values_id == old->values_id && s->loaded == old->loaded && s->needed == old->needed
                       && s->using_dynamic_construction == old->using_dynamic_construction,
                       "C14 after an exception the grid has exactly the points, values and surrogate it had before");
  }
}
/* G2: refinement / update wrappers never change loaded points, values or the surrogate */
static void g2_post(const TSG *old, const TSG *s){
  __CPROVER_assert(s->points_id == old->points_id && s->values_id == old->values_id && s->loaded == old->loaded && s->base == old->base,
                   "G2 set*Refinement / update / clearRefinement leave loaded points, values and surrogate untouched");
}
/* G3: persistence of the level limits across a successful call */
static void g3_post_vec(const TSG *old, const TSG *s, gvec arg){
  if (tsg_exc == TSG_NO_EXC) {
    __CPROVER_assert(gvec_eq(s->llimits, arg.size ? arg : old->llimits), "G3 level limits: replaced by a non-empty argument, kept otherwise");
    __CPROVER_assert(!g_limits_seen_valid || gvec_eq(g_limits_seen, s->llimits), "G3 the family object worked with the stored level limits");
  }
}
static void g3_post_make(const TSG *s, gvec arg){
  if (tsg_exc == TSG_NO_EXC) {
    __CPROVER_assert(gvec_eq(s->llimits, arg), "G3 make*: the level limits of the new grid are the ones passed in (none when empty)");
    __CPROVER_assert(s->base != K_none && g_ctor_calls == 1, "C14 a successful make* builds exactly one grid");
    __CPROVER_assert(!s->using_dynamic_construction && s->domain_transform_a.size == 0 && s->domain_transform_b.size == 0 && s->conformal_asin_power.size == 0,
                     "C14 a successful make* yields a fresh grid: not under construction, no domain or conformal transform left over");
  }
}
static void g3_post_ptr(const TSG *old, const TSG *s, gptr arg, int dims){
  gvec a = gvec_copyArray(arg, dims);
  g3_post_vec(old, s, a);
}

//@ post makeGlobalGrid_vec
  G3(g3_post_make(&s, level_limits);)
//@ post makeGlobalGrid_custom_vec
  G3(g3_post_make(&s, level_limits);)
//@ post makeSequenceGrid_vec
  G3(g3_post_make(&s, level_limits);)
//@ post makeLocalPolynomialGrid_vec
  G3(g3_post_make(&s, level_limits);)
//@ post makeWaveletGrid_vec
  G3(g3_post_make(&s, level_limits);)
//@ post makeFourierGrid_vec
  G3(g3_post_make(&s, level_limits);)
//@ post makeGlobalGrid_ptr
  G3(g3_post_make(&s, gvec_copyArray(level_limits, dimensions));)
//@ post makeSequenceGrid_ptr
  G3(g3_post_make(&s, gvec_copyArray(level_limits, dimensions));)
//@ post makeLocalPolynomialGrid_ptr
  G3(g3_post_make(&s, gvec_copyArray(level_limits, dimensions));)
//@ post makeWaveletGrid_ptr
  G3(g3_post_make(&s, gvec_copyArray(level_limits, dimensions));)
//@ post makeFourierGrid_ptr
  G3(g3_post_make(&s, gvec_copyArray(level_limits, dimensions));)
//@ post updateGlobalGrid_vec
  G2(g2_post(&old, &s);) G3(g3_post_vec(&old, &s, level_limits);)
//@ post updateSequenceGrid_vec
  G2(g2_post(&old, &s);) G3(g3_post_vec(&old, &s, level_limits);)
//@ post updateFourierGrid_vec
  G2(g2_post(&old, &s);) G3(g3_post_vec(&old, &s, level_limits);)
//@ post updateGrid_vec
  G2(g2_post(&old, &s);) G3(g3_post_vec(&old, &s, level_limits);)
//@ post updateGlobalGrid_ptr
  G2(g2_post(&old, &s);) G3(g3_post_ptr(&old, &s, level_limits, old.dims);)
//@ post updateSequenceGrid_ptr
  G2(g2_post(&old, &s);) G3(g3_post_ptr(&old, &s, level_limits, old.dims);)
//@ post updateFourierGrid_ptr
  G2(g2_post(&old, &s);) G3(g3_post_ptr(&old, &s, level_limits, old.dims);)
//@ post updateGrid_ptr
  G2(g2_post(&old, &s);) G3(g3_post_ptr(&old, &s, level_limits, old.dims);)
//@ post setAnisotropicRefinement_vec
  G2(g2_post(&old, &s);) G3(g3_post_vec(&old, &s, level_limits);)
//@ post setAnisotropicRefinement_ptr
  G2(g2_post(&old, &s);) G3(g3_post_ptr(&old, &s, level_limits, old.dims);)
//@ post setSurplusRefinement_vec
  G2(g2_post(&old, &s);) G3(g3_post_vec(&old, &s, level_limits);)
//@ post setSurplusRefinement_ptr
  G2(g2_post(&old, &s);) G3(g3_post_ptr(&old, &s, level_limits, old.dims);)
//@ post setSurplusRefinement_crit_ptr
  G2(g2_post(&old, &s);) G3(g3_post_ptr(&old, &s, level_limits, old.dims);)
//@ post setSurplusRefinement_crit_vec
  G2(g2_post(&old, &s);) G3(g3_post_vec(&old, &s, level_limits);)
#if PROP_C07
  /* F6: with every other argument valid, the documented size of the scale correction
   * (one weight per LOADED point and active output) is accepted */
  if (old.base == K_GridLocalPolynomial && !old.using_dynamic_construction && old.outs > 0 && old.loaded > 0 && output >= -1 && output < old.outs
      && !(tolerance < 0.0) && (level_limits.size == 0 || level_limits.size == (size_t) old.dims) && !g_family_may_throw
      && scale_correction.size == (size_t) old.loaded * (size_t)(output == -1 ? old.outs : 1))
    __CPROVER_assert(tsg_exc == TSG_NO_EXC, "F6 a scale correction of the documented size getNumLoaded() x active outputs is accepted");
#endif
//@ post getCandidateConstructionPoints_aniso
  G3(g3_post_vec(&old, &s, level_limits);)
  __CPROVER_assert(old.using_dynamic_construction || tsg_exc == TSG_RUNTIME_ERROR, "C14 candidate points before beginConstruction() raise runtime_error");
//@ post getCandidateConstructionPoints_output
  G3(g3_post_vec(&old, &s, level_limits);)
  __CPROVER_assert(old.using_dynamic_construction || tsg_exc == TSG_RUNTIME_ERROR, "C14 candidate points before beginConstruction() raise runtime_error");
//@ post getCandidateConstructionPoints_surplus
  G3(g3_post_vec(&old, &s, level_limits);)
  __CPROVER_assert(old.using_dynamic_construction || tsg_exc == TSG_RUNTIME_ERROR, "C14 candidate points before beginConstruction() raise runtime_error");
//@ post clearRefinement
  G2(g2_post(&old, &s);)
  G2(__CPROVER_assert(tsg_exc == TSG_NO_EXC && gvec_eq(s.llimits, old.llimits), "G2 clearRefinement only drops the needed points");)
//@ post mergeRefinement
  __CPROVER_assert(tsg_exc == TSG_NO_EXC, "C14 mergeRefinement does not throw");
//@ post loadNeededValues_vec
  __CPROVER_assert(old.base != K_none || tsg_exc == TSG_RUNTIME_ERROR, "C14 loading values into an empty grid raises runtime_error");
//@ post loadNeededValues_ptr
  __CPROVER_assert(old.base != K_none || tsg_exc == TSG_RUNTIME_ERROR, "C14 loading values into an empty grid raises runtime_error");
//@ post clear
  __CPROVER_assert(tsg_exc == TSG_NO_EXC && s.base == K_none && s.llimits.size == 0 && !s.using_dynamic_construction && s.domain_transform_a.size == 0 && s.domain_transform_b.size == 0 && s.conformal_asin_power.size == 0,
                   "C14 clear() leaves an empty, fully reset grid (no limits, no transforms, not under construction)");
//@ post setDomainTransform_vec
  if (old.base != K_none && a.size == (size_t) old.dims && b.size == (size_t) old.dims)
    __CPROVER_assert(tsg_exc == TSG_NO_EXC && gvec_eq(s.domain_transform_a, a) && gvec_eq(s.domain_transform_b, b), "C14 setDomainTransform stores vectors of the right size");
  else
    __CPROVER_assert(tsg_exc == (old.base == K_none ? TSG_RUNTIME_ERROR : TSG_INVALID_ARGUMENT) && gvec_eq(s.domain_transform_a, old.domain_transform_a) && gvec_eq(s.domain_transform_b, old.domain_transform_b),
                     "C14 setDomainTransform rejects an empty grid (runtime_error) and vectors whose size is not getNumDimensions() (invalid_argument) and leaves the transform unchanged");
//@ post clearDomainTransform
  __CPROVER_assert(tsg_exc == TSG_NO_EXC && s.domain_transform_a.size == 0 && s.domain_transform_b.size == 0, "C14 clearDomainTransform removes the transform");
//@ post beginConstruction
  /* G1/G2: a pending refinement does not survive into a construction: the points reported as needed afterwards would overlap the constructed ones and
   * loadNeededValues() would attach values to the wrong coordinates */
  G2(if (tsg_exc == TSG_NO_EXC && !old.using_dynamic_construction && old.loaded > 0) __CPROVER_assert(s.needed == 0, "G2 beginConstruction on a grid with loaded values drops the pending refinement (no needed points are left)");)
  G2(__CPROVER_assert(s.points_id == old.points_id && s.values_id == old.values_id && s.loaded == old.loaded, "G2 beginConstruction leaves loaded points and values untouched");)
  __CPROVER_assert(old.base != K_none || tsg_exc == TSG_RUNTIME_ERROR, "C14 beginConstruction on an empty grid raises runtime_error");

//@ harness h_copyGrid
/* C11: after copyGrid(source) the grid equals old(*source) (all outputs), whatever it held before.
 * The API does not forbid source == this (self-assignment through an alias): the harness allows it. */
void h_copyGrid(void){
  TSG a, b; tsg_symbolic(&a); tsg_symbolic(&b);
  bool a_alias = nondet_bool();
  TSG *self = &a; const TSG *source = a_alias ? &a : &b;
  TSG old = *source;
  g_family_may_throw = false;
  TSGW_copyGrid(self, source, 0, -1);
  __CPROVER_assert(tsg_exc == TSG_NO_EXC, "C11 copyGrid does not throw");
  __CPROVER_assert(self->base == old.base, "C11 the copy has the type of the source (an alias of the grid itself is a legal source)");
  if (old.base != K_none) {
    __CPROVER_assert(self->points_id == old.points_id && self->values_id == old.values_id && self->loaded == old.loaded && self->needed == old.needed && self->dims == old.dims && self->outs == old.outs && self->rule == old.rule,
                     "C11 the copy holds the points, values and surrogate of the source");
    __CPROVER_assert(gvec_eq(self->domain_transform_a, old.domain_transform_a) && gvec_eq(self->domain_transform_b, old.domain_transform_b), "C11 the domain transform is copied");
    __CPROVER_assert(gvec_eq(self->conformal_asin_power, old.conformal_asin_power), "C11 the conformal transform is copied");
    __CPROVER_assert(gvec_eq(self->llimits, old.llimits), "C11 the level limits are copied");
    __CPROVER_assert(self->using_dynamic_construction == old.using_dynamic_construction, "C11 the construction flag is copied");
  }
  __CPROVER_assert(0, "VACUITY-CANARY");
}
