/* C07 F4 -- the classic surplus-refinement criterion of GridLocalPolynomial::buildUpdateMap, taken
 * from the property statement: point i is flagged (in every direction) exactly when, for some ACTIVE
 * output k, the scale-corrected normalized coefficient exceeds the tolerance:
 *      c[i, k'] * |s[i, k]| / norm[k] > tolerance        (k' = k for output == -1, k' = 0 and k = output otherwise)
 * where the scale correction is laid out as num_points x active_outputs; tolerance 0 flags everything.
 * The floating-point criterion itself is an uninterpreted deterministic predicate (rule R13): the
 * obligation is about WHICH correction, coefficient and norm meet, for every interpretation.        */
//@ text
#ifndef TSG_NP
#define TSG_NP 3
#endif
#define TSG_NOUT 2
#define TSG_ND 2
typedef struct { int num_dimensions, num_outputs, num_points; double surpluses[TSG_NP * TSG_NOUT]; double norm[TSG_NOUT]; } GLP;
const double *GridLocalPolynomial_getNormalization(const GLP *s){ return s->norm; }
/* the criterion as an uninterpreted predicate: every evaluation is logged (operands and outcome), in order */
#define TSG_LOG (TSG_NP * TSG_NOUT)
double l_c[TSG_LOG], l_s[TSG_LOG], l_n[TSG_LOG], l_t[TSG_LOG]; bool l_r[TSG_LOG]; int l_calls;
bool tsg_small(double c, double s, double nrm, double tol){
  bool r = nondet_bool();
  __CPROVER_assert(l_calls < TSG_LOG, "F4 at most one evaluation of the criterion per point and active output");
  if (l_calls < TSG_LOG) { l_c[l_calls] = c; l_s[l_calls] = s; l_n[l_calls] = nrm; l_t[l_calls] = tol; l_r[l_calls] = r; }
  l_calls++;
  return r;
}
//@ harness h_buildUpdateMap
void h_buildUpdateMap(void){
  GLP g; int pmap[TSG_NP * TSG_ND]; double scale[TSG_NP * TSG_NOUT], dflt[TSG_NP * TSG_NOUT];
  g.num_dimensions = nondet_int(); g.num_outputs = nondet_int(); g.num_points = nondet_int();
  __CPROVER_assume(g.num_dimensions >= 1 && g.num_dimensions <= TSG_ND && g.num_outputs >= 1 && g.num_outputs <= TSG_NOUT && g.num_points >= 0 && g.num_points <= TSG_NP);
  for (int k = 0; k < TSG_NP * TSG_NOUT; k++) { g.surpluses[k] = nondet_double(); scale[k] = nondet_double(); }
  for (int k = 0; k < TSG_NOUT; k++) g.norm[k] = nondet_double();
  double a_tol = nondet_double(); int a_output = nondet_int(), a_crit = nondet_int(); bool a_has_scale = nondet_bool();
#ifdef TSG_NO_SCALE
  a_has_scale = false;      /* wavelet grids take no scale correction */
#endif
  __CPROVER_assume(a_output >= -1 && a_output < g.num_outputs && (a_crit == refine_classic || a_crit == refine_parents_first) && !(a_tol < 0.0) && a_tol == a_tol);
  l_calls = 0;
  buildUpdateMap_classic(&g, a_tol, (TypeRefinement) a_crit, a_output, a_has_scale ? &scale[0] : (const double *) 0, pmap, dflt);
  int act = (a_output == -1) ? g.num_outputs : 1, idx = 0;
  for (int i = 0; i < TSG_NP; i++) if (i < g.num_points) {
    bool small = true;
    if (a_tol != 0.0) {
      for (int k = 0; k < TSG_NOUT; k++) if (k < act && small) {      /* the conjunction stops at the first output that exceeds */
        int o = (a_output == -1) ? k : a_output;
        double c = a_has_scale ? scale[i * act + k] : 1.0;               /* layout of the correction: num_points x active_outputs */
        __CPROVER_assert(idx < l_calls && TSG_SAME(l_c[idx], c), "F4 the criterion uses the scale correction of point i and active output k (layout num_points x active outputs)");
        __CPROVER_assert(idx < l_calls && TSG_SAME(l_s[idx], g.surpluses[i * g.num_outputs + o]) && TSG_SAME(l_n[idx], g.norm[o]) && TSG_SAME(l_t[idx], a_tol), "F4 the criterion compares the coefficient of point i, output o with the norm of output o and the tolerance");
        small = l_r[idx < TSG_LOG ? idx : 0]; idx++;
      }
    }
    bool expect = (a_tol == 0.0) ? true : !small;
    for (int d = 0; d < TSG_ND; d++) if (d < g.num_dimensions)
      __CPROVER_assert(pmap[i * g.num_dimensions + d] == (expect ? 1 : 0), "F4 a point is flagged in every direction exactly when its scale-corrected normalized coefficient exceeds the tolerance for some active output (everything for tolerance 0)");
  }
  __CPROVER_assert(idx == l_calls, "F4 no further evaluations of the criterion");
  __CPROVER_assert(0, "VACUITY-CANARY");
}
