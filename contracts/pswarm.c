/* C20 -- ParticleSwarm.
 * F19 f_constrained: the objective is called at most once per batch and ONLY with the points for
 *     which the domain test returned true, in order; fval[i] is the value returned for point i
 *     (0 outside), inside[i] is the answer of the domain test.
 * F20 update: representation invariant of the best-known data is inductive:
 *     Inv: swarm best is inside iff some personal best is inside; then its value is the minimum of
 *          the personal best values and its position is the position of a personal best with that value.
 *     update moves personal best i to the current position/value exactly when the current point is
 *     inside and strictly better (or no best yet); swarm best never increases.
 * F20b state edits: a setter never leaves a cached value attached to a position it was not
 *     computed for: it keeps the position, or it invalidates the cached value
 *     (clears cache_initialized, or the `inside` flag of that slot).                            */

//@ text
#ifndef TSG_NP
#define TSG_NP 3
#endif
#ifndef TSG_NDIM
#define TSG_NDIM 2
#endif
#define TSG_NP1 (TSG_NP + 1)
#define TSG_DBL_MAX 1.7976931348623157e308
typedef struct ParticleSwarmState {
  bool positions_initialized, velocities_initialized, best_positions_initialized, cache_initialized;
  int num_dimensions, num_particles;
  double particle_positions[TSG_NP * TSG_NDIM], particle_velocities[TSG_NP * TSG_NDIM], best_particle_positions[TSG_NP1 * TSG_NDIM];
  double cache_particle_fvals[TSG_NP], cache_best_particle_fvals[TSG_NP1];
  bool cache_particle_inside[TSG_NP], cache_best_particle_inside[TSG_NP1];
} ParticleSwarmState;
static size_t best_particle_positions_size(const ParticleSwarmState *s){ return (size_t)(s->num_particles + 1) * (size_t) s->num_dimensions; }
static size_t cache_particle_fvals_size(const ParticleSwarmState *s){ return (size_t) s->num_particles; }
static size_t cache_particle_inside_size(const ParticleSwarmState *s){ return (size_t) s->num_particles; }
static size_t cache_best_particle_fvals_size(const ParticleSwarmState *s){ return (size_t) s->num_particles + 1; }
static size_t cache_best_particle_inside_size(const ParticleSwarmState *s){ return (size_t) s->num_particles + 1; }

/* ghost for F19 */
size_t g_nd; double g_x[TSG_NP1][TSG_NDIM]; bool g_in[TSG_NP1]; size_t g_ninside_calls; int g_fcalls; double g_fv[TSG_NP1];
bool cb_inside(const double *x, size_t n){
  __CPROVER_assert(n == g_nd, "F19 the domain test sees one point");
  __CPROVER_assert(g_ninside_calls < TSG_NP1, "F19 one domain test per point of the batch");
  for (size_t d = 0; d < TSG_NDIM; d++) if (d < n) __CPROVER_assert(TSG_SAME(x[d], g_x[g_ninside_calls][d]), "F19 the domain test sees the points of the batch, in order");
  bool b = nondet_bool(); g_in[g_ninside_calls++] = b; return b;
}
void cb_f(const double *x, size_t xn, double *v, size_t vn){
  size_t k = 0;
  g_fcalls++;
  for (size_t i = 0; i < TSG_NP1; i++) if (i < g_ninside_calls && g_in[i]) {
    __CPROVER_assert(k < vn && (k + 1) * g_nd <= xn, "F19 every in-domain point is passed to the objective");
    for (size_t d = 0; d < TSG_NDIM; d++) if (d < g_nd) __CPROVER_assert(TSG_SAME(x[k * g_nd + d], g_x[i][d]), "F19 the objective is evaluated only at points that passed the domain test, in order");
    v[k] = nondet_double(); g_fv[i] = v[k]; k++;
  }
  __CPROVER_assert(k == vn && xn == vn * g_nd, "F19 the objective never sees a point outside the domain (sizes match)");
}

//@ harness h_f_constrained
void h_f_constrained(void){
  size_t a_nd = nondet_size_t(), a_nb = nondet_size_t();
  __CPROVER_assume(a_nd >= 1 && a_nd <= TSG_NDIM && a_nb <= TSG_NP1);
  double x[TSG_NP1 * TSG_NDIM], fv[TSG_NP1]; bool in[TSG_NP1];
  g_nd = a_nd; g_ninside_calls = 0; g_fcalls = 0;
  for (size_t i = 0; i < TSG_NP1; i++) for (size_t d = 0; d < TSG_NDIM; d++) if (i < a_nb && d < a_nd) { x[i * a_nd + d] = nondet_double(); g_x[i][d] = x[i * a_nd + d]; }
  /* the lambda captures by copy; its two call sites pass the positions (num_particles points) and the best positions (num_particles + 1 points, the last is the swarm best) */
  size_t a_npart = nondet_size_t();
  __CPROVER_assume(a_npart <= TSG_NP1 && (a_nb == a_npart || a_nb == a_npart + 1));
  f_constrained(a_nd, a_npart, x, a_nb * a_nd, fv, a_nb, in, a_nb);
  __CPROVER_assert(g_ninside_calls == a_nb, "F19 exactly one domain test per point");
  __CPROVER_assert(g_fcalls <= 1, "F19 at most one batched objective evaluation");
  bool any = false;
  for (size_t i = 0; i < TSG_NP1; i++) if (i < a_nb) {
    __CPROVER_assert(in[i] == g_in[i], "F19 inside_batch[i] is the answer of the domain test for point i");
    if (g_in[i]) { any = true; __CPROVER_assert(TSG_SAME(fv[i], g_fv[i]), "F19 fval_batch[i] is the objective value returned for point i"); }
    else __CPROVER_assert(fv[i] == 0.0, "F19 points outside the domain get the value 0 and are flagged outside");
  }
  __CPROVER_assert(any == (g_fcalls == 1), "F19 the objective is called iff some point is inside");
  __CPROVER_assert(0, "VACUITY-CANARY");
}

//@ harness h_update
static bool inv_best(const ParticleSwarmState *s, size_t np, size_t nd){
  bool any = false, attained = false, minimal = true;
  for (size_t i = 0; i < TSG_NP; i++) if (i < np && s->cache_best_particle_inside[i]) {
    any = true;
    if (!(s->cache_best_particle_fvals[np] <= s->cache_best_particle_fvals[i])) minimal = false;
    bool same = (s->cache_best_particle_fvals[np] == s->cache_best_particle_fvals[i]);
    for (size_t d = 0; d < TSG_NDIM; d++) if (d < nd && !TSG_SAME(s->best_particle_positions[np * nd + d], s->best_particle_positions[i * nd + d])) same = false;
    if (same) attained = true;
  }
  if (!s->cache_best_particle_inside[np]) return !any;
  return any && minimal && attained;
}
void h_update(void){
  ParticleSwarmState st, old;
  size_t a_np = nondet_size_t(), a_nd = nondet_size_t();
  __CPROVER_assume(a_np >= 1 && a_np <= TSG_NP && a_nd >= 1 && a_nd <= TSG_NDIM);
  st.num_particles = (int) a_np; st.num_dimensions = (int) a_nd;
  for (size_t i = 0; i < TSG_NP1; i++) {
    st.cache_best_particle_inside[i] = nondet_bool(); st.cache_best_particle_fvals[i] = nondet_double();
    __CPROVER_assume(st.cache_best_particle_fvals[i] == st.cache_best_particle_fvals[i]);   /* objective values are not NaN (hypothesis) */
    if (i < TSG_NP) { st.cache_particle_inside[i] = nondet_bool(); st.cache_particle_fvals[i] = nondet_double(); __CPROVER_assume(st.cache_particle_fvals[i] == st.cache_particle_fvals[i]); }
    for (size_t d = 0; d < TSG_NDIM; d++) { st.best_particle_positions[i * TSG_NDIM + d] = nondet_double(); if (i < TSG_NP) st.particle_positions[i * TSG_NDIM + d] = nondet_double(); }
  }
  __CPROVER_assume(inv_best(&st, a_np, a_nd));
  old = st;
  ps_update(&st, a_np, a_nd);
  for (size_t i = 0; i < TSG_NP; i++) if (i < a_np) {
    bool upd = old.cache_particle_inside[i] && (!old.cache_best_particle_inside[i] || old.cache_particle_fvals[i] < old.cache_best_particle_fvals[i]);
    if (upd) {
      __CPROVER_assert(st.cache_best_particle_inside[i] && st.cache_best_particle_fvals[i] == old.cache_particle_fvals[i], "F20 a particle's best becomes its current in-domain value when that is strictly better (or the first)");
      for (size_t d = 0; d < TSG_NDIM; d++) if (d < a_nd)
        __CPROVER_assert(TSG_SAME(st.best_particle_positions[i * a_nd + d], old.particle_positions[i * a_nd + d]), "F20 the best-known position is the visited in-domain point whose value is cached");
    } else {
      __CPROVER_assert(st.cache_best_particle_inside[i] == old.cache_best_particle_inside[i] && st.cache_best_particle_fvals[i] == old.cache_best_particle_fvals[i], "F20 otherwise the particle's best is unchanged");
      for (size_t d = 0; d < TSG_NDIM; d++) if (d < a_nd)
        __CPROVER_assert(TSG_SAME(st.best_particle_positions[i * a_nd + d], old.best_particle_positions[i * a_nd + d]), "F20 otherwise the particle's best position is unchanged");
    }
  }
  __CPROVER_assert(inv_best(&st, a_np, a_nd), "F20 the swarm best is the minimum over the personal bests and sits at a personal best position (invariant preserved)");
  __CPROVER_assert(!old.cache_best_particle_inside[a_np] || (st.cache_best_particle_inside[a_np] && st.cache_best_particle_fvals[a_np] <= old.cache_best_particle_fvals[a_np]), "F20 the swarm best never increases");
  for (size_t i = 0; i < TSG_NP; i++) {
    __CPROVER_assert(st.cache_particle_inside[i] == old.cache_particle_inside[i] && TSG_SAME(st.cache_particle_fvals[i], old.cache_particle_fvals[i]), "F20 update does not touch the current-point cache");
  }
  __CPROVER_assert(0, "VACUITY-CANARY");
}

//@ harness h_setters
void h_setters(void){
  ParticleSwarmState st, old;
  size_t a_np = nondet_size_t(), a_nd = nondet_size_t(); int a_which = nondet_int();
  __CPROVER_assume(a_np >= 1 && a_np <= TSG_NP && a_nd >= 1 && a_nd <= TSG_NDIM && a_which >= 0 && a_which <= 7);
  st.num_particles = (int) a_np; st.num_dimensions = (int) a_nd;
  st.positions_initialized = nondet_bool(); st.velocities_initialized = nondet_bool(); st.best_positions_initialized = nondet_bool(); st.cache_initialized = nondet_bool();
  for (size_t i = 0; i < TSG_NP1; i++) {
    st.cache_best_particle_inside[i] = nondet_bool(); st.cache_best_particle_fvals[i] = nondet_double();
    if (i < TSG_NP) { st.cache_particle_inside[i] = nondet_bool(); st.cache_particle_fvals[i] = nondet_double(); }
    for (size_t d = 0; d < TSG_NDIM; d++) { st.best_particle_positions[i * TSG_NDIM + d] = nondet_double(); if (i < TSG_NP) { st.particle_positions[i * TSG_NDIM + d] = nondet_double(); st.particle_velocities[i * TSG_NDIM + d] = nondet_double(); } }
  }
  old = st;
  double arg[TSG_NP1 * TSG_NDIM];
  for (size_t i = 0; i < TSG_NP1 * TSG_NDIM; i++) arg[i] = nondet_double();
  tsg_exc = 0;
  switch (a_which) {
    case 0: ps_setParticlePositions_ptr(&st, arg); break;
    case 1: ps_setParticlePositions_vec(&st, arg, a_np * a_nd); break;
    case 2: ps_setBestParticlePositions_ptr(&st, arg); break;
    case 3: ps_setBestParticlePositions_vec(&st, arg, (a_np + 1) * a_nd); break;
    case 6: ps_setParticlePositions_mv(&st, arg, a_np * a_nd); break;
    case 7: ps_setBestParticlePositions_mv(&st, arg, (a_np + 1) * a_nd); break;
    case 4: ps_clearBestParticles(&st); break;
    default: ps_clearCache(&st); break;
  }
  __CPROVER_assert(tsg_exc == 0, "F20b a correctly sized argument is accepted");
  /* what a setter stores: every coordinate of every particle; the best positions have one more strip, the swarm best */
  { size_t a_k = nondet_size_t();
    if (a_which <= 1 || a_which == 6) { __CPROVER_assume(a_k < a_np * a_nd); __CPROVER_assert(TSG_SAME(st.particle_positions[a_k], arg[a_k]) && st.positions_initialized, "F20b setParticlePositions stores all num_particles x num_dimensions coordinates"); }
    else if (a_which <= 3 || a_which == 7) { __CPROVER_assume(a_k < (a_np + 1) * a_nd); __CPROVER_assert(TSG_SAME(st.best_particle_positions[a_k], arg[a_k]) && st.best_positions_initialized, "F20b setBestParticlePositions stores all (num_particles + 1) x num_dimensions coordinates, the swarm-best strip included"); } }
  /* frame: an edit of one part of the state leaves the other parts as they were (clearCache() drops cached values only, clearBestParticles() the best-known points only) */
  { size_t a_q = nondet_size_t(); __CPROVER_assume(a_q < (a_np + 1) * a_nd);
    bool pos_edit = (a_which <= 1 || a_which == 6), best_edit = (a_which == 2 || a_which == 3 || a_which == 7 || a_which == 4);
    if (a_q < a_np * a_nd) {
      __CPROVER_assert(TSG_SAME(st.particle_velocities[a_q], old.particle_velocities[a_q]) && st.velocities_initialized == old.velocities_initialized, "F20b no position setter / clearer touches the velocities");
      if (!pos_edit) __CPROVER_assert(TSG_SAME(st.particle_positions[a_q], old.particle_positions[a_q]) && st.positions_initialized == old.positions_initialized, "F20b only setParticlePositions changes the particle positions");
    }
    if (!best_edit) __CPROVER_assert(TSG_SAME(st.best_particle_positions[a_q], old.best_particle_positions[a_q]) && st.best_positions_initialized == old.best_positions_initialized, "F20b the best-known points survive every edit but setBestParticlePositions / clearBestParticles (clearCache() drops cached values only)");
  }
  /* cache coherence: a cached value that is still trusted (cache_initialized and, for best slots, inside)
   * must belong to the position that is stored now */
  if (st.cache_initialized) {
    for (size_t i = 0; i < TSG_NP1; i++) if (i <= a_np && st.cache_best_particle_inside[i]) {
      bool moved = false;
      for (size_t d = 0; d < TSG_NDIM; d++) if (d < a_nd && !TSG_SAME(st.best_particle_positions[i * a_nd + d], old.best_particle_positions[i * a_nd + d])) moved = true;
      __CPROVER_assert(!moved, "F20b a best-known slot that stays flagged inside keeps the position its cached value belongs to");
    }
    for (size_t i = 0; i < TSG_NP; i++) if (i < a_np) {
      bool moved = false;
      for (size_t d = 0; d < TSG_NDIM; d++) if (d < a_nd && !TSG_SAME(st.particle_positions[i * a_nd + d], old.particle_positions[i * a_nd + d])) moved = true;
      __CPROVER_assert(!moved, "F20b a particle whose cached value is still trusted (cache_initialized) keeps the position that value belongs to");
    }
  }
  __CPROVER_assert(0, "VACUITY-CANARY");
}

//@ text2
/* main body: the lambdas are stubs.  f_constrained rewrites the cache it is given; update() may create or improve best-known entries, in particular it may
 * turn the swarm-best flag on (never off).  The random source is logged. */
int g_draws, g_draws_iter; bool g_flag_at_begin; int g_iter_begun;
bool g_valid[TSG_NP1];      /* ghost: best-known strip i holds a point written by update() (a visited in-domain point) or supplied by the user; strips never written hold zeros */
double cb_get_random01(void){ g_draws++; g_draws_iter++; return nondet_double(); }
void stub_f_constrained(ParticleSwarmState *s, int which){
  if (which == 0) for (size_t i = 0; i < TSG_NP; i++) { s->cache_particle_fvals[i] = nondet_double(); s->cache_particle_inside[i] = nondet_bool(); }
  else for (size_t i = 0; i < TSG_NP1; i++) {
    if (i <= (size_t) s->num_particles) __CPROVER_assert(g_valid[i], "C20 F21c the cache rebuild evaluates the objective only at best-known strips that hold a visited (or user-supplied) point, never at a strip that was never written");
    s->cache_best_particle_fvals[i] = nondet_double(); s->cache_best_particle_inside[i] = nondet_bool(); }
}
void stub_update(ParticleSwarmState *s, size_t np){
  for (size_t i = 0; i < TSG_NP1; i++) if (i <= np && !s->cache_best_particle_inside[i] && nondet_bool()) { s->cache_best_particle_inside[i] = true; g_valid[i] = true; }
}
static void check_draws(const ParticleSwarmState *s, size_t np){
  if (g_iter_begun > 0)
    __CPROVER_assert(g_draws_iter == (int)(g_flag_at_begin ? 2 * np : np), "C20 an iteration consumes 2 draws per particle when the swarm has a best point at its start and 1 otherwise (n then m iterations see the same random stream as n+m)");
}
void tsg_iteration_begins(ParticleSwarmState *s, size_t np){ check_draws(s, np); g_flag_at_begin = s->cache_best_particle_inside[np]; g_draws_iter = 0; g_iter_begun++; }
bool tsg_mode(bool tested, const ParticleSwarmState *s, size_t np){
  __CPROVER_assert(tested == s->cache_best_particle_inside[np], "C20 the velocity update of an iteration is chosen by the swarm-best flag of the state as it is at the start of that iteration (so that n then m iterations equal n+m)");
  return tested;
}

//@ harness h_main
void h_main(void){
  ParticleSwarmState st;
  size_t a_np = nondet_size_t(), a_nd = nondet_size_t(); int a_iter = nondet_int();
  __CPROVER_assume(a_np >= 1 && a_np <= TSG_NP && a_nd >= 1 && a_nd <= TSG_NDIM && a_iter <= TSG_NIT);
  st.num_particles = (int) a_np; st.num_dimensions = (int) a_nd;
  st.positions_initialized = true; st.velocities_initialized = true; st.best_positions_initialized = nondet_bool(); st.cache_initialized = nondet_bool();
  for (size_t i = 0; i < TSG_NP1; i++) { st.cache_best_particle_inside[i] = nondet_bool(); if (i < TSG_NP) st.cache_particle_inside[i] = nondet_bool();
    g_valid[i] = nondet_bool();
    /* invariant of the state: a best-known slot flagged inside holds a point; after clearCache() the flags are gone but the strips are what they were */
    __CPROVER_assume(!(st.cache_initialized && st.cache_best_particle_inside[i]) || g_valid[i]); }
  g_draws = 0; g_draws_iter = 0; g_iter_begun = 0;
  ParticleSwarm_main(a_iter, nondet_double(), nondet_double(), nondet_double(), &st);
  check_draws(&st, a_np);
  __CPROVER_assert(g_iter_begun == (a_iter > 0 ? a_iter : 0), "C20 exactly num_iterations iterations");
  __CPROVER_assert(st.cache_initialized && st.best_positions_initialized, "C20 after a run the cache and the best positions are marked initialised");
  __CPROVER_assert(0, "VACUITY-CANARY");
}
