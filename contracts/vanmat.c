/* C01 -- RuleLocal::van_matrix: provenance-carrying value vector (rule R13) and the obligations on the assembled sparse matrix. */
//@ text
#define TSG_CAP (TSG_NR * (TSG_ML + 4))
typedef struct { double v[TSG_CAP]; int col[TSG_CAP]; double x[TSG_CAP]; size_t size; } pvec;    /* col == -1: a literal */
static void pv_clear(pvec *a){ a->size = 0; }
static void pv_push_lit(pvec *a, double v){ __CPROVER_assert(a->size < TSG_CAP, "shim: value vector capacity suffices"); a->v[a->size] = v; a->col[a->size] = -1; a->x[a->size] = 0.0; a->size++; }
static void pv_push_eval(pvec *a, int col, double x){ __CPROVER_assert(a->size < TSG_CAP, "shim: value vector capacity suffices"); a->v[a->size] = nondet_double(); a->col[a->size] = col; a->x[a->size] = x; a->size++; }
static void pv_append_reversed(pvec *a, const pvec *b){ for (size_t k = b->size; k > 0; k--) { __CPROVER_assert(a->size < TSG_CAP, "shim: value vector capacity suffices"); a->v[a->size] = b->v[k-1]; a->col[a->size] = b->col[k-1]; a->x[a->size] = b->x[k-1]; a->size++; } }
static void iv_push(int *a, size_t *n, size_t cap, int v){ __CPROVER_assert(*n < cap, "shim: index vector capacity suffices"); a[*n] = v; (*n)++; }
static void iv_sized(int *a, size_t *n, size_t cap, int len){ __CPROVER_assert(len >= 0 && (size_t) len <= cap, "shim: index vector capacity suffices"); for (size_t k = 0; k < cap; k++) a[k] = 0; *n = (size_t) len; }
static void iv_append_reversed(int *a, size_t *n, size_t cap, const int *b, size_t bn){ for (size_t k = bn; k > 0; k--) iv_push(a, n, cap, b[k-1]); }
double g_node[TSG_NR + 1]; bool g_node_set[TSG_NR + 1];
static double tsg_node(int r){ __CPROVER_assert(r >= 0 && r <= TSG_NR, "shim: node table"); if (!g_node_set[r]) { g_node[r] = nondet_double(); __CPROVER_assume(g_node[r] == g_node[r]); g_node_set[r] = true; } return g_node[r]; }

//@ harness h_van
/* num_rows is the index of the LAST row (the caller passes the largest point index); rows 0..num_rows */
void h_van(void){
  int a_order = nondet_int(), a_rows = nondet_int();
  __CPROVER_assume(a_rows >= 0 && a_rows < TSG_NR && a_order >= 0 && a_order <= 4);
  int pntr[TSG_NR + 2], indx[TSG_CAP]; size_t pn = 0, in = 0; static pvec vals;
  for (int r = 0; r <= TSG_NR; r++) g_node_set[r] = false;
  pv_clear(&vals);
  VAN(a_order, a_rows, pntr, TSG_NR + 2, &pn, indx, TSG_CAP, &in, &vals);
  __CPROVER_assert(pn >= 2 && in == vals.size && pntr[0] == 0 && (size_t) pntr[pn - 1] == in, "C01 van_matrix: one value per column index; pntr starts at 0 and ends at the number of entries");
  int nrows = (int) pn - 1;
  __CPROVER_assert(nrows == (a_rows == 0 ? 1 : a_rows) || nrows == a_rows + 1, "C01 van_matrix: the number of rows follows num_rows");
  int a_r = nondet_int(); __CPROVER_assume(a_r >= 0 && a_r < nrows);         /* witness row */
  int lo = pntr[a_r], hi = pntr[a_r + 1];
  __CPROVER_assert(0 <= lo && lo < hi && (size_t) hi <= in, "C01 van_matrix: every row is a non-empty range of the entries");
  __CPROVER_assert(indx[hi - 1] == a_r && vals.col[hi - 1] == -1 && vals.v[hi - 1] == 1.0, "C01 van_matrix: a row ends in its diagonal entry, the literal 1 (phi_r(node_r) = 1)");
  int a_j = nondet_int(); __CPROVER_assume(a_j >= lo && a_j < hi);           /* witness entry of the row */
  int c = indx[a_j];
  __CPROVER_assert(c >= 0 && c <= a_r && (a_j == lo || indx[a_j - 1] < c), "C01 van_matrix: columns of a row increase strictly and stay on or below the diagonal");
  if (vals.col[a_j] == -1) {
#if defined(RULE_pwc)
    __CPROVER_assert(vals.v[a_j] == 1.0, "C01 van_matrix (piecewise constant): every stored value is 1");
#elif defined(RULE_localp) || defined(RULE_semilocalp)
    __CPROVER_assert(vals.v[a_j] == 1.0 && (c == a_r || c == 0), "C01 van_matrix: a literal 1 stands only on the diagonal or in column 0 (the constant function)");
#else
    __CPROVER_assert(vals.v[a_j] == 1.0 && c == a_r, "C01 van_matrix: a literal 1 stands only on the diagonal");
#endif
  } else {
    __CPROVER_assert(vals.col[a_j] == c, "C01 van_matrix: the value stored under column c is the basis function c (values and column indices are aligned)");
    __CPROVER_assert(g_node_set[a_r] && TSG_SAME(vals.x[a_j], g_node[a_r]), "C01 van_matrix: the value of row r is taken at the node of point r");
  }
#if !defined(RULE_pwc)
  /* between the fixed leading columns and the diagonal: exactly the chain of parents of the row, nearest parent last */
  if (a_r >= NSPECIAL && a_j > lo && a_j < hi - 1 && c >= NSPECIAL) {
    int nxt = indx[a_j + 1];
    __CPROVER_assert(GETPARENT(nxt) == c, "C01 van_matrix: consecutive columns of a row are parent and child (the row holds the chain of ancestors of its point)");
  }
  if (a_r >= NSPECIAL && hi - lo >= 2) { int first = indx[lo + (NSPECIAL < hi - lo - 1 ? NSPECIAL : hi - lo - 1)];
    __CPROVER_assert(first < NSPECIAL || GETPARENT(first) < NSPECIAL, "C01 van_matrix: the chain of ancestors is complete down to the fixed leading columns"); }
#endif
  __CPROVER_assert(0, "VACUITY-CANARY");
}
