/* F1 / F3 (DESIGN.md section 6, C02 and C03): the declared exactness tables of the
 * one-dimensional rules never exceed what the rule can deliver.
 *
 * The bound is an upper bound FROM THEORY, independent of the table text; n is the
 * number of points of the rule at the level:
 *   Gauss families (and their -odd variants):      q <= 2n-1
 *   Gauss-Patterson:                               q <= 1 (level 0), (3n+1)/2 (level > 0)
 *   Fourier (trigonometric modes):                 q <= (n-1)/2
 *   Clenshaw-Curtis-zero (basis carries 1-x^2):    q <= n+2
 *   every other (interpolatory) rule:              q <= n-1 + [n odd and the n nodes are symmetric about 0]
 * Symmetry of the node sets, from their constructions (cross-checked natively against the
 * nodes and weights the pinned library produces, levels 0-6):
 *   always symmetric: Clenshaw-Curtis, Fejer-2, Chebyshev(-odd), R-Leja-odd, R-Leja-double2, R-Leja-double4,
 *                     R-Leja-shifted-even, R-Leja-shifted-double
 *   symmetric only for n in {1,3}: Leja / max-Lebesgue / min-Lebesgue / min-delta and their -odd variants
 *   R-Leja: symmetric for odd n >= 3 (n = 1 is the single node 1; n = 2 is even anyway)
 *   R-Leja-shifted: never for odd n.
 * Interpolation: n nodes cannot reproduce all of P_n, so i <= n-1 (Clenshaw-Curtis-zero: i <= n+2,
 * Fourier: i <= (n-1)/2).  An equality spec would be wrong: several rules under-declare. */

//@ text
#define IS_GAUSS(r) ((r)==rule_gausslegendre||(r)==rule_gausschebyshev1||(r)==rule_gausschebyshev2||(r)==rule_gaussgegenbauer||(r)==rule_gaussjacobi||(r)==rule_gausslaguerre||(r)==rule_gausshermite|| \
                     (r)==rule_gausslegendreodd||(r)==rule_gausschebyshev1odd||(r)==rule_gausschebyshev2odd||(r)==rule_gaussgegenbauerodd||(r)==rule_gaussjacobiodd||(r)==rule_gausslaguerreodd||(r)==rule_gausshermiteodd)
#define IS_GREEDY(r) ((r)==rule_leja||(r)==rule_maxlebesgue||(r)==rule_minlebesgue||(r)==rule_mindelta||(r)==rule_lejaodd||(r)==rule_maxlebesgueodd||(r)==rule_minlebesgueodd||(r)==rule_mindeltaodd)
#define ALWAYS_SYM(r) ((r)==rule_clenshawcurtis||(r)==rule_fejer2||(r)==rule_chebyshev||(r)==rule_chebyshevodd||(r)==rule_rlejaodd||(r)==rule_rlejadouble2||(r)==rule_rlejadouble4||(r)==rule_rlejashiftedeven||(r)==rule_rlejashifteddouble)
#define SYMMETRIC(r,n) (ALWAYS_SYM(r) || (IS_GREEDY(r) && ((n)==1||(n)==3)) || ((r)==rule_rleja && (n)>=3))
#define QBOUND(r,l,n) (IS_GAUSS(r) ? 2*(n)-1 : (r)==rule_gausspatterson ? ((l)==0 ? 1 : (3*(n)+1)/2) : (r)==rule_fourier ? ((n)-1)/2 : \
                       (r)==rule_clenshawcurtis0 ? (n)+2 : (n)-1 + ((((n)%2)==1 && SYMMETRIC(r,n)) ? 1 : 0))
#define IBOUND(r,l,n) ((r)==rule_fourier ? ((n)-1)/2 : (r)==rule_clenshawcurtis0 ? (n)+2 : (n)-1)
#define IS_POW2(r) ((r)==rule_rlejashifteddouble||(r)==rule_clenshawcurtis0||(r)==rule_gausspatterson||(r)==rule_clenshawcurtis||(r)==rule_fejer2)
#define IS_GLOBAL(r) ((r) > rule_none && (r) < rule_customtabulated)
#define LMAX(r) (IS_POW2(r) ? 28 : ((r)==rule_rlejadouble2||(r)==rule_rlejadouble4) ? 40 : (r)==rule_fourier ? 18 : ((1<<28)-1))

//@ lemma lemma_exactness
void lemma_exactness(int level, TypeOneDRule rule)
__CPROVER_requires(IS_GLOBAL(rule) || rule == rule_fourier)
__CPROVER_requires(0 <= level && level <= LMAX(rule))
__CPROVER_ensures(1)
__CPROVER_assigns()
{
  int n = getNumPoints(level, rule), n1 = getNumPoints(level + 1, rule);
  int q = getQExact(level, rule),   q1 = getQExact(level + 1, rule);
  int i = getIExact(level, rule),   i1 = getIExact(level + 1, rule);
  __CPROVER_assert(n >= 1, "F1 at least one point");
  __CPROVER_assert(n1 > n, "F1 getNumPoints strictly increasing in the level");
  __CPROVER_assert(q >= 0 && i >= 0, "F1/F3 exactness is non-negative");
  __CPROVER_assert(q1 >= q, "F1 getQExact non-decreasing in the level");
  __CPROVER_assert(i1 >= i, "F3 getIExact non-decreasing in the level");
  __CPROVER_assert(q <= QBOUND(rule, level, n), "F1 declared quadrature exactness does not exceed the theoretical bound of the rule");
  __CPROVER_assert(i <= IBOUND(rule, level, n), "F3 declared interpolation exactness does not exceed the theoretical bound of the rule");
  if (rule == rule_rlejadouble2 || rule == rule_rlejadouble4) {
    /* point counts are sandwiched between consecutive Clenshaw-Curtis counts and odd for double2 */
    __CPROVER_assert(rule != rule_rlejadouble2 || n % 2 == 1, "F1 rleja-double2 has an odd number of points");
  }
}
//@ harness h_lemma_exactness
void h_lemma_exactness(void){ int a_level = nondet_int(); int a_rule = nondet_int(); lemma_exactness(a_level, (TypeOneDRule) a_rule); __CPROVER_assert(0, "VACUITY-CANARY"); }
