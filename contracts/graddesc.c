/* C19 -- GradientDescent.  The callbacks (objective, gradient, projection) are arbitrary:
 * they return/write ANY doubles.  Ghost logs record what they saw and produced.
 *
 * F17 (adaptive / projected variant), taken from the property statement:
 *   - never more than max(max_iterations,0) steps (a step = one evaluation of a candidate);
 *   - on return the state holds the last point that passed the descent test.  The gradient
 *     is evaluated exactly at the start point and at every accepted point, so the last point
 *     passed to the gradient callback IS the last accepted iterate (or the start);
 *   - that point is the start or a value produced by the projection.
 * F18 (constant step): exactly min(max_iterations, first step whose residual <= tolerance) steps. */

//@ text
#ifndef TSG_NDIM
#define TSG_NDIM 2
#endif
#ifndef TSG_NIT
#define TSG_NIT 3
#endif
typedef struct { int performed_iterations; double residual; } OptimizationStatus;
typedef struct { double adaptive_stepsize; double x[TSG_NDIM]; size_t x_size; size_t x_cap; } GradientDescentState;
static const double num_tol = 1.E-12;   /* TasGrid::Maths::num_tol; cross-checked against tsgMathUtils.hpp by the unit */

/* ghost */
size_t g_dims;
double g_start[TSG_NDIM];
double g_last_grad_x[TSG_NDIM];   /* argument of the most recent gradient evaluation */
double g_last_proj[TSG_NDIM];     /* most recent output of the projection */
bool   g_have_proj, g_check_grad_arg;
int    g_nfunc, g_ngrad, g_nproj;
/* logs for the native replay */
#define TSG_LOG 8
double g_fret[TSG_LOG]; double g_gout[TSG_LOG][TSG_NDIM]; double g_pout[TSG_LOG][TSG_NDIM];

/* rule R13 (used by the quick jobs): the descent test lhs > rhs + tol as an uninterpreted predicate: any outcome */
bool tsg_descent_fails(double lhs, double rhs){ return nondet_bool(); }
/* rule R13: the candidate z = x0 - g*t and the term delta^2/(2t) of the test are uninterpreted; they log the step-size t they were given.
 * The descent lemma (the test with the step-size t of the candidate implies f(candidate) <= f(x0) for a projected gradient step) is
 * mathematics outside the verifier's reach; the contract checks its hypothesis: the t of the test is the t of the step. */
double g_step_t; bool g_have_step;
double tsg_step(double x0, double g, double t){ g_step_t = t; g_have_step = true; return nondet_double(); }
double tsg_rhs_term(double delta, double t){
  __CPROVER_assert(g_have_step && TSG_SAME(t, g_step_t), "F17 the descent test divides |delta|^2 by twice the step-size that produced the candidate it tests");
  return nondet_double();
}
double cb_func(const double *x, size_t n){
  __CPROVER_assert(n == g_dims, "F17 objective sees num_dimensions entries");
  double r = nondet_double();
  if (g_nfunc < TSG_LOG) g_fret[g_nfunc] = r;
  g_nfunc++;
  return r;
}
void cb_grad(const double *x, size_t n, double *g, size_t gn){
  __CPROVER_assert(n == g_dims && gn == g_dims, "F17 gradient sees num_dimensions entries");
  bool at_start = true, at_proj = g_have_proj;
  for (size_t d = 0; d < TSG_NDIM; d++) if (d < n) {
    g_last_grad_x[d] = x[d];
    if (!TSG_SAME(x[d], g_start[d])) at_start = false;
    if (!TSG_SAME(x[d], g_last_proj[d])) at_proj = false;
    g[d] = nondet_double();
    if (g_ngrad < TSG_LOG) g_gout[g_ngrad][d] = g[d];
  }
  if (g_check_grad_arg) __CPROVER_assert(g_ngrad == 0 ? at_start : at_proj, "F17 the gradient is evaluated at the start point and afterwards only at the candidate the projection just returned (the accepted iterate)");
  g_ngrad++;
}
void cb_proj(const double *z, size_t n, double *out, size_t on){
  __CPROVER_assert(n == g_dims && on == g_dims, "F17 projection sees num_dimensions entries");
  for (size_t d = 0; d < TSG_NDIM; d++) if (d < on) { out[d] = nondet_double(); g_last_proj[d] = out[d]; if (g_nproj < TSG_LOG) g_pout[g_nproj][d] = out[d]; }
  g_have_proj = true;
  g_nproj++;
}
/* sqrt of the constant-step variant: any value, logged (the residual after step k) */
double g_res[TSG_LOG]; int g_nres;
double tsg_sqrt_log(double v){ double r = nondet_double(); if (g_nres < TSG_LOG) g_res[g_nres] = r; g_nres++; return r; }
double computeStationarityResidual(const double *x, size_t xn, const double *x0, size_t x0n, const double *gx, size_t gn, const double *gx0, size_t g0n, double lambda){
  /* floating-point only (sum of squares, sqrt): any value */
  return nondet_double();
}

//@ harness h_GradientDescent_adaptive
void h_GradientDescent_adaptive(void){
  GradientDescentState st;
  st.x_cap = TSG_NDIM;
  st.x_size = nondet_size_t();
  __CPROVER_assume(st.x_size >= 1 && st.x_size <= TSG_NDIM);
  double a_inc = nondet_double(), a_dec = nondet_double(), a_tol = nondet_double(), a_step = nondet_double();
  int a_maxit = nondet_int();
  __CPROVER_assume(a_maxit <= TSG_NIT);
  st.adaptive_stepsize = a_step;
  g_dims = st.x_size;
  for (size_t d = 0; d < TSG_NDIM; d++) { st.x[d] = nondet_double(); g_start[d] = st.x[d]; }
  g_nfunc = 0; g_ngrad = 0; g_nproj = 0; g_have_proj = false; g_check_grad_arg = true; g_have_step = false;
  OptimizationStatus s = GradientDescent_adaptive(a_inc, a_dec, a_maxit, a_tol, &st);
  __CPROVER_assert(s.performed_iterations >= 0 && s.performed_iterations <= (a_maxit > 0 ? a_maxit : 0), "F17 performed_iterations <= max(max_iterations, 0)");
  __CPROVER_assert(g_nproj == s.performed_iterations, "F17 one candidate (projection + objective evaluation) per counted iteration");
  __CPROVER_assert(st.x_size == g_dims, "F17 the state keeps its dimension");
  for (size_t d = 0; d < TSG_NDIM; d++) if (d < g_dims)
    __CPROVER_assert(TSG_SAME(st.x[d], g_last_grad_x[d]), "F17 on return the state holds the last accepted iterate (the start point or the last candidate that passed the descent test)");
  __CPROVER_assert(0, "VACUITY-CANARY");
}

//@ harness h_GradientDescent_const
void h_GradientDescent_const(void){
  double x[TSG_NDIM];
  size_t a_n = nondet_size_t();
  __CPROVER_assume(a_n >= 1 && a_n <= TSG_NDIM);
  double a_step = nondet_double(), a_tol = nondet_double();
  int a_maxit = nondet_int();
  __CPROVER_assume(a_maxit <= TSG_NIT);
  g_dims = a_n;
  for (size_t d = 0; d < TSG_NDIM; d++) { x[d] = nondet_double(); g_start[d] = x[d]; g_last_proj[d] = x[d]; }
  g_nfunc = 0; g_ngrad = 0; g_nproj = 0; g_have_proj = true; g_check_grad_arg = false; g_nres = 0;
  OptimizationStatus s = GradientDescent_const(a_step, a_maxit, a_tol, x, a_n);
  int cap = a_maxit > 0 ? a_maxit : 0;
  __CPROVER_assert(s.performed_iterations >= 0 && s.performed_iterations <= cap, "F18 performed_iterations <= max(max_iterations, 0)");
  __CPROVER_assert(g_ngrad == s.performed_iterations + 1, "F18 one gradient evaluation per step plus the initial one");
  __CPROVER_assert(s.performed_iterations == cap || !(s.residual > a_tol), "F18 stops before the cap only when the residual reached the tolerance");
  /* exactly min(cap, first step whose residual is not above the tolerance): the residual before step k
   * is tolerance+1 for k = 0 and the k-th logged square root afterwards */
  int expect = 0;
  for (int k = 0; k < TSG_NIT; k++) {
    double before = (k == 0) ? a_tol + 1.0 : g_res[k - 1];
    if (expect == k && k < cap && before > a_tol) expect = k + 1;
  }
  __CPROVER_assert(s.performed_iterations == expect, "F18 performs exactly min(max_iterations, first step reaching the tolerance) steps");
  __CPROVER_assert(0, "VACUITY-CANARY");
}
