/* A1 / A4 (DESIGN.md section 6, C01 and C07): multi-index sets and the value storage.
 * Universally quantified postconditions are stated for ghost WITNESS indices chosen
 * nondeterministically by the harness (sound: the witness is unconstrained); sortedness
 * preconditions use a constant bound NMAX (container length <= NMAX, a bounded unit);
 * the number of loop iterations is closed by loop contracts.                              */

//@ text
#ifndef NMAX
#define NMAX 8
#endif
#ifndef NDIM
#define NDIM 1
#endif
#ifndef NOUT
#define NOUT 2
#endif
#include <stdlib.h>
typedef struct { size_t num_dimensions; int cache_num_indexes; int *indexes; } MultiIndexSet;
typedef struct { size_t num_outputs, num_values; double *values; size_t values_size; } StorageSet;
/* the storage of a local std::vector that is later swapped into a member: one static arena (exact capacity check) */
static double tsg_arena_double[2 * NMAX * NOUT];
static double *tsg_new_double(size_t n){ __CPROVER_assert(n <= 2 * NMAX * NOUT, "shim: local vector capacity suffices"); return tsg_arena_double; }
#if NDIM == 1
#define LEX_LT(A, i, B, j) ((A)[(i)] < (B)[(j)])
#define LEX_EQ(A, i, B, j) ((A)[(i)] == (B)[(j)])
#else
#define LEX_LT(A, i, B, j) ((A)[2*(i)] < (B)[2*(j)] || ((A)[2*(i)] == (B)[2*(j)] && (A)[2*(i)+1] < (B)[2*(j)+1]))
#define LEX_EQ(A, i, B, j) ((A)[2*(i)] == (B)[2*(j)] && (A)[2*(i)+1] == (B)[2*(j)+1])
#endif
/* ghost witnesses */
size_t g_w, g_c, g_o, g_w2, g_c2;
const double *g_values_in;

//@ contract MultiIndexSet_getSlot
__CPROVER_requires(__CPROVER_is_fresh(self, sizeof(*self)))
__CPROVER_requires(self->num_dimensions == NDIM && self->cache_num_indexes >= 0 && self->cache_num_indexes <= NMAX)
__CPROVER_requires(__CPROVER_is_fresh(self->indexes, NMAX * NDIM * sizeof(int)))
__CPROVER_requires(__CPROVER_is_fresh(p, NDIM * sizeof(int)))
__CPROVER_requires(__CPROVER_forall { size_t k; (k < NMAX - 1) ==> ((k + 1 < (size_t) self->cache_num_indexes) ==> LEX_LT(self->indexes, k, self->indexes, k + 1)) })
__CPROVER_requires(self->cache_num_indexes == 0 || g_w < (size_t) self->cache_num_indexes)
__CPROVER_ensures(__CPROVER_return_value >= -1 && __CPROVER_return_value < self->cache_num_indexes)
__CPROVER_ensures(__CPROVER_return_value >= 0 ==> LEX_EQ(self->indexes, __CPROVER_return_value, p, 0))
__CPROVER_ensures((__CPROVER_return_value == -1 && self->cache_num_indexes > 0) ==> !LEX_EQ(self->indexes, g_w, p, 0))
__CPROVER_assigns()

//@ loop MultiIndexSet_getSlot 0
__CPROVER_assigns(sstart, send, current)
__CPROVER_loop_invariant(0 <= sstart && send < self->cache_num_indexes && sstart <= send + 1)
__CPROVER_loop_invariant(current == (sstart + send) / 2)
__CPROVER_loop_invariant(self->cache_num_indexes == 0 || !LEX_EQ(self->indexes, g_w, p, 0) || (sstart <= (int) g_w && (int) g_w <= send))
__CPROVER_decreases(send - sstart + 1)

//@ harness h_getSlot
void h_getSlot(void){
  MultiIndexSet *s = 0; const int *p = 0;
  g_w = nondet_size_t();
  MultiIndexSet_getSlot(s, p);
  __CPROVER_assert(0, "VACUITY-CANARY");
}

//@ contract StorageSet_addValues
__CPROVER_requires(__CPROVER_is_fresh(self, sizeof(*self)) && __CPROVER_is_fresh(old_set, sizeof(*old_set)) && __CPROVER_is_fresh(new_set, sizeof(*new_set)))
__CPROVER_requires(old_set->num_dimensions == NDIM && new_set->num_dimensions == NDIM && self->num_outputs == NOUT)
__CPROVER_requires(old_set->cache_num_indexes >= 0 && old_set->cache_num_indexes <= NMAX && new_set->cache_num_indexes >= 0 && new_set->cache_num_indexes <= NMAX)
__CPROVER_requires(self->num_values == (size_t) old_set->cache_num_indexes)
__CPROVER_requires(__CPROVER_is_fresh(old_set->indexes, NMAX * NDIM * sizeof(int)) && __CPROVER_is_fresh(new_set->indexes, NMAX * NDIM * sizeof(int)))
__CPROVER_requires(__CPROVER_is_fresh(self->values, NMAX * NOUT * sizeof(double)) && __CPROVER_is_fresh(new_vals, NMAX * NOUT * sizeof(double)))
__CPROVER_requires(__CPROVER_forall { size_t k; (k < NMAX - 1) ==> ((k + 1 < (size_t) old_set->cache_num_indexes) ==> LEX_LT(old_set->indexes, k, old_set->indexes, k + 1)) })
__CPROVER_requires(__CPROVER_forall { size_t q; (q < NMAX - 1) ==> ((q + 1 < (size_t) new_set->cache_num_indexes) ==> LEX_LT(new_set->indexes, q, new_set->indexes, q + 1)) })
/* witness 1: the old entry g_w sits after exactly g_c new entries (the sets are disjoint around it) */
__CPROVER_requires(old_set->cache_num_indexes == 0 || (g_w < (size_t) old_set->cache_num_indexes && g_c <= (size_t) new_set->cache_num_indexes
                   && (g_c == 0 || LEX_LT(new_set->indexes, g_c - 1, old_set->indexes, g_w)) && (g_c == (size_t) new_set->cache_num_indexes || LEX_LT(old_set->indexes, g_w, new_set->indexes, g_c))))
/* witness 2: the new entry g_w2 sits after exactly g_c2 old entries */
__CPROVER_requires(new_set->cache_num_indexes == 0 || (g_w2 < (size_t) new_set->cache_num_indexes && g_c2 <= (size_t) old_set->cache_num_indexes
                   && (g_c2 == 0 || LEX_LT(old_set->indexes, g_c2 - 1, new_set->indexes, g_w2)) && (g_c2 == (size_t) old_set->cache_num_indexes || LEX_LT(new_set->indexes, g_w2, old_set->indexes, g_c2))))
__CPROVER_requires(g_o < NOUT)
__CPROVER_ensures(self->num_values == (size_t) old_set->cache_num_indexes + (size_t) new_set->cache_num_indexes)
__CPROVER_ensures(self->values_size == self->num_values * NOUT)
__CPROVER_ensures(old_set->cache_num_indexes == 0 || TSG_SAME(self->values[(g_w + g_c) * NOUT + g_o], __CPROVER_old(self->values)[g_w * NOUT + g_o]))
__CPROVER_ensures(new_set->cache_num_indexes == 0 || TSG_SAME(self->values[(g_w2 + g_c2) * NOUT + g_o], new_vals[g_w2 * NOUT + g_o]))
__CPROVER_assigns(self->num_values, self->values, self->values_size, __CPROVER_object_whole(tsg_arena_double))

//@ loop StorageSet_addValues 0
__CPROVER_assigns(i, iold, inew, off_vals, ivals, icombined, __CPROVER_object_whole(tsg_arena_double))
__CPROVER_loop_invariant(i == (size_t) iold + (size_t) inew && i <= self->num_values && combined_values == tsg_arena_double)
__CPROVER_loop_invariant(0 <= iold && iold <= num_old && 0 <= inew && inew <= num_new)
__CPROVER_loop_invariant(off_vals == (size_t) inew * NOUT && ivals == (size_t) iold * NOUT && icombined == i * NOUT)
__CPROVER_loop_invariant(num_old == 0 || (((size_t) iold <= g_w) ==> ((size_t) inew <= g_c)))
__CPROVER_loop_invariant(num_old == 0 || (((size_t) iold > g_w) ==> ((size_t) inew >= g_c && TSG_SAME(combined_values[(g_w + g_c) * NOUT + g_o], self->values[g_w * NOUT + g_o]))))
__CPROVER_loop_invariant(num_new == 0 || (((size_t) inew <= g_w2) ==> ((size_t) iold <= g_c2)))
__CPROVER_loop_invariant(num_new == 0 || (((size_t) inew > g_w2) ==> ((size_t) iold >= g_c2 && TSG_SAME(combined_values[(g_w2 + g_c2) * NOUT + g_o], new_vals[g_w2 * NOUT + g_o]))))
__CPROVER_decreases(self->num_values - i)

//@ harness h_addValues
void h_addValues(void){
  StorageSet *s = 0; MultiIndexSet *o = 0, *n = 0; const double *nv = 0;
  g_w = nondet_size_t(); g_c = nondet_size_t(); g_o = nondet_size_t(); g_w2 = nondet_size_t(); g_c2 = nondet_size_t();
  StorageSet_addValues(s, o, n, nv);
  __CPROVER_assert(0, "VACUITY-CANARY");
}
