/* C17 / C18 (sequential part) G5 -- budget accounting of constructCommon on ghost counters.
 * Every sample ever computed is either loaded in the grid, stored in `complete`, or (parallel mode) running.
 *   B1  total_num_launched starts as loaded + stored: samples recovered from a checkpoint count against the budget
 *       (a resumed run re-computes nothing that a checkpoint holds and never exceeds max_num_points in total);
 *   B2  the model is never asked for more points than the remaining budget: after every model call
 *       (samples computed before this call) + (samples computed in this call) <= max_num_points;
 *   B3  new candidates are requested only after every completed sample has been loaded: the candidate list is
 *       computed from the grid, so a completed-but-unloaded point would reappear as a candidate and be computed twice.
 * Callee contracts (assumed here, F16 is proved in candman.next): next(b) returns at most b points.       */
//@ text
size_t g_stored, g_loaded, g_ncand, g_ndone, g_free, g_batch, g_running;
size_t g_done_before, g_computed, g_max;
void gh_load_complete(void){ g_loaded += g_stored; g_stored = 0; }
void gh_new_candidates(void){
  __CPROVER_assert(g_stored == 0, "B3 candidates are recomputed only after every completed sample was loaded into the grid (no point is handed out twice)");
  g_ncand = nondet_size_t(); g_free = nondet_size_t(); g_ndone = 0;
  __CPROVER_assume(g_free <= g_ncand && g_ncand < 100000);
}
size_t gh_next(size_t budget){                           /* F16 */
  size_t n = nondet_size_t();
  __CPROVER_assume(n <= budget && n <= g_batch && n <= g_free);
  g_free -= n; g_running += n; return n;
}
void gh_model(size_t x){
  g_computed += x;
  __CPROVER_assert(g_done_before + g_computed <= g_max, "B2 the model is never asked for more samples than the budget allows (samples recovered from a checkpoint included)");
}
void gh_complete_add(size_t x){ g_stored += x; }
void gh_manager_complete(size_t x){ g_ndone += x; if (g_running >= x) g_running -= x; else g_running = 0; }
void gh_checkpoint(void){ }
//@ loop sequential_loop 0
__CPROVER_assigns(x, total_num_launched, g_stored, g_loaded, g_ncand, g_ndone, g_free, g_computed, g_running)
__CPROVER_loop_invariant(total_num_launched == g_done_before + g_computed && total_num_launched <= max_num_points)
__CPROVER_loop_invariant(g_stored + g_loaded == g_done_before + g_computed && g_free <= g_ncand)
//@ harness h_budget
void h_budget(void){
  g_stored = nondet_size_t(); g_loaded = nondet_size_t(); g_batch = nondet_size_t(); max_num_points = nondet_size_t(); num_dimensions = nondet_size_t();
  __CPROVER_assume(g_stored < 100000 && g_loaded < 100000 && g_batch >= 1 && g_batch < 1000 && max_num_points < 1000000 && num_dimensions >= 1);
  g_max = max_num_points; g_done_before = g_stored + g_loaded; g_computed = 0;
  g_ncand = 0; g_free = 0; g_ndone = 0;
  init_launched();
  __CPROVER_assert(total_num_launched == g_done_before, "B1 samples recovered from a checkpoint (loaded and stored) count against the budget");
  __CPROVER_assume(total_num_launched <= max_num_points);       /* the recovered state itself is within the budget */
  refresh_candidates();
  sequential_loop();
  __CPROVER_assert(g_done_before + g_computed <= g_max, "B2 on return no more than max_num_points samples exist in total");
  __CPROVER_assert(g_stored == 0, "B2 on return every computed sample has been loaded into the grid");
  __CPROVER_assert(0, "VACUITY-CANARY");
}

//@ text2
/* G5, parallel half (main thread only).  Workers: job slots 0..TSG_NJ-1 with a batch x[id] (number of points) and a flag; a worker whose flag is
 * `computing` evaluates the model on its batch and raises `done`.  gh_wait_done() stands for `until_someone_done.wait(...)`: at least one computing
 * worker (any subset, any order) finishes.  If none is computing while the main thread waits, the wait would never return: an assertion. */
#ifndef TSG_NJ
#define TSG_NJ 2
#endif
enum { flag_done = 0, flag_computing = 1, flag_shutdown = 2 };
static size_t x[TSG_NJ]; static int work_flag[TSG_NJ]; static int count_done; static size_t num_parallel_jobs;
bool g_spawned[TSG_NJ]; bool g_modelled[TSG_NJ];
void gh_spawn(size_t id){ __CPROVER_assert(id < TSG_NJ && !g_spawned[id] && work_flag[id] == flag_computing && x[id] > 0, "G5p a worker thread is started once, with a non-empty batch and the computing flag"); g_spawned[id] = true; }
void gh_wait_done(void){
  bool any = false;
  for (size_t id = 0; id < TSG_NJ; id++) if (id < num_parallel_jobs && work_flag[id] == flag_computing && g_spawned[id]) {
    bool last_chance = !any && (id + 1 >= num_parallel_jobs || nondet_bool());
    if (nondet_bool() || last_chance) { gh_model(x[id]); work_flag[id] = flag_done; count_done++; any = true; }
  }
  if (!any) for (size_t id = 0; id < TSG_NJ; id++) if (id < num_parallel_jobs && work_flag[id] == flag_computing && g_spawned[id] && !any) { gh_model(x[id]); work_flag[id] = flag_done; count_done++; any = true; }
  __CPROVER_assert(any, "G5p when the main thread waits for a finished sample some worker is still computing (the wait returns)");
}
void gh_notify_workers(void){ }
bool tsg_ratio_gt(size_t a, size_t b){ return nondet_bool(); }      /* R13: heuristic thresholds, any outcome */
void gh_join_all(void){
  for (size_t id = 0; id < TSG_NJ; id++) if (id < num_parallel_jobs && g_spawned[id])
    __CPROVER_assert(work_flag[id] == flag_shutdown, "G5p every worker thread has been told to shut down before it is joined (join returns)");
}

//@ harness h_budget_parallel
void h_budget_parallel(void){
  g_stored = nondet_size_t(); g_loaded = nondet_size_t(); g_batch = nondet_size_t(); max_num_points = nondet_size_t(); num_dimensions = nondet_size_t(); num_parallel_jobs = nondet_size_t();
  __CPROVER_assume(g_stored < 100000 && g_loaded < 100000 && g_batch >= 1 && g_batch < 1000 && max_num_points < 1000000 && num_dimensions >= 1 && num_parallel_jobs >= 1 && num_parallel_jobs <= TSG_NJ);
  g_max = max_num_points; g_done_before = g_stored + g_loaded; g_computed = 0; g_running = 0;
  g_ncand = 0; g_free = 0; g_ndone = 0; count_done = 0;
  for (size_t id = 0; id < TSG_NJ; id++) { x[id] = 0; work_flag[id] = nondet_int(); g_spawned[id] = false; }
  init_launched();
  __CPROVER_assume(total_num_launched <= max_num_points && max_num_points - total_num_launched <= TSG_BUDGET);     /* bounded harness: at most TSG_BUDGET new samples */
  refresh_candidates();
  parallel_branch();
  __CPROVER_assert(g_done_before + g_computed <= g_max, "B2 on return no more than max_num_points samples exist in total");
  __CPROVER_assert(g_stored == 0, "B2 (parallel) on return every computed sample has been loaded into the grid: the completed jobs are flushed after the last worker finished");
  __CPROVER_assert(g_running == 0, "G5p on return no sample is still marked as running");
  __CPROVER_assert(0, "VACUITY-CANARY");
}
