/* Dynamic-construction lists (C06: write/read round trip in list order; C08: clearTesnors drops every candidate tensor).
 * Lists are singly linked nodes (rule R5fl); vectors are ghost descriptors (identity, length); I/O is the ghost token tape. */
//@ text
#ifndef TSG_NL
#define TSG_NL 3
#endif
typedef struct { int id; size_t len; } gvec;
typedef struct NodeData { struct NodeData *next; gvec point; gvec value; } NodeData;
#ifndef TSG_NPT
#define TSG_NPT 3
#endif
typedef struct TensorData { struct TensorData *next; double weight; gvec tensor; int npoints; bool loaded[TSG_NPT]; size_t loaded_size; } TensorData;
typedef struct { NodeData bb; } NodeDataList;      /* bb: the before_begin sentinel, bb.next is begin() */
typedef struct { TensorData bb; } TensorDataList;
typedef struct { TensorDataList tensors; NodeDataList data; size_t num_dimensions, num_outputs; } DynamicConstructorDataGlobal;
enum { T_NUM = 1, T_VEC };
#define TAPE_MAX (4 * TSG_NL + 4)
typedef struct { int kind; double num; int id; size_t len; } token;
token tape[TAPE_MAX]; int tape_w, tape_r;
token tape2[TAPE_MAX]; int tape2_w;
static void tape_push(token t){ __CPROVER_assert(tape_w < TAPE_MAX, "shim: token tape capacity suffices"); tape[tape_w++] = t; }
static token tape_pop(int kind){
  token t = {0, 0.0, 0, 0};
  __CPROVER_assert(tape_r < tape_w, "C06 the reader does not read past what the writer produced");
  if (tape_r < tape_w) { t = tape[tape_r++]; __CPROVER_assert(t.kind == kind, "C06 the reader expects the kind of datum that was written at this position"); }
  return t;
}
void tape_write_num(double v){ token t = {T_NUM, v, 0, 0}; tape_push(t); }
void tape_write_vec(gvec v){ if (v.len == 0) return; token t = {T_VEC, 0.0, v.id, v.len}; tape_push(t); }
double tape_read_num(void){ return tape_pop(T_NUM).num; }
gvec tape_read_vec(size_t n){
  gvec v = {0, 0};
  if (n == 0) return v;
  token t = tape_pop(T_VEC);
  __CPROVER_assert(t.len == n, "C06 the reader computes the length that was written");
  v.id = t.id; v.len = t.len; return v;
}
static bool vec_eq(gvec a, gvec b){ return a.len == b.len && (a.len == 0 || a.id == b.id); }
/* forward_list shim */
static NodeData node_pool[2 * TSG_NL]; static int node_pool_used;
static TensorData tensor_pool[2 * TSG_NL]; static int tensor_pool_used;
static size_t tsg_fl_distance_NodeData(const NodeDataList *l){ size_t n = 0; for (const NodeData *p = l->bb.next; p != NULL; p = p->next) n++; return n; }
static size_t tsg_fl_distance_TensorData(const TensorDataList *l){ size_t n = 0; for (const TensorData *p = l->bb.next; p != NULL; p = p->next) n++; return n; }
static void tsg_fl_emplace_front_NodeData(NodeDataList *l, gvec point, gvec value){
  __CPROVER_assert(node_pool_used < 2 * TSG_NL, "shim: node pool capacity suffices");
  NodeData *n = &node_pool[node_pool_used++]; n->point = point; n->value = value; n->next = l->bb.next; l->bb.next = n;
}
static void tsg_fl_emplace_front_TensorData(TensorDataList *l, double weight, gvec tensor){
  __CPROVER_assert(tensor_pool_used < 2 * TSG_NL, "shim: tensor pool capacity suffices");
  TensorData *n = &tensor_pool[tensor_pool_used++]; n->weight = weight; n->tensor = tensor; n->next = l->bb.next; l->bb.next = n;
}
static void tsg_fl_erase_after_TensorData(TensorData *p){
  __CPROVER_assert(p != NULL && p->next != NULL, "forward_list::erase_after needs an element after the position");
  p->next = p->next->next;
}
static gvec vec_sym(size_t len){ gvec v; v.id = nondet_int(); v.len = len; __CPROVER_assume(v.id > 0); return v; }

//@ harness h_dyncon_roundtrip
/* any list of at most TSG_NL nodes / tensors, any dimensions and outputs (including 0 outputs) */
void h_dyncon_roundtrip(void){
  DynamicConstructorDataGlobal g, r;
  size_t a_dims = nondet_size_t(), a_outs = nondet_size_t();
  __CPROVER_assume(a_dims >= 1 && a_dims <= 20 && a_outs <= 20);
  int a_nn = nondet_int(), a_nt = nondet_int();
  __CPROVER_assume(a_nn >= 0 && a_nn <= TSG_NL && a_nt >= 0 && a_nt <= TSG_NL);
  node_pool_used = 0; tensor_pool_used = 0;
  g.data.bb.next = NULL; g.tensors.bb.next = NULL;
  for (int k = 0; k < TSG_NL; k++) if (k < a_nn) tsg_fl_emplace_front_NodeData(&g.data, vec_sym(a_dims), vec_sym(a_outs));
  for (int k = 0; k < TSG_NL; k++) if (k < a_nt) tsg_fl_emplace_front_TensorData(&g.tensors, nondet_double(), vec_sym(a_dims));
  tape_w = 0; tape_r = 0;
  DynamicConstructorDataGlobal_write(&g);
  /* the reader: DynamicConstructorDataGlobal(std::istream&, dims, outs, iomode) initialises tensors then data in this order (member initialiser list, checked by the unit) */
  readTensorDataList(&r.tensors, a_dims);
  readNodeDataList(&r.data, a_dims, a_outs);
  __CPROVER_assert(tape_r == tape_w, "C06 the reader consumes exactly what the writer produced");
  { const NodeData *p = g.data.bb.next, *q = r.data.bb.next;
    for (int k = 0; k < TSG_NL; k++) if (p != NULL && q != NULL) {
      __CPROVER_assert(vec_eq(p->point, q->point) && vec_eq(p->value, q->value), "C06 unfinished construction data: the k-th stored node (point and value) is restored at position k");
      p = p->next; q = q->next; }
    __CPROVER_assert(p == NULL && q == NULL, "C06 unfinished construction data: the restored node list has the length of the original"); }
  { const TensorData *p = g.tensors.bb.next, *q = r.tensors.bb.next;
    for (int k = 0; k < TSG_NL; k++) if (p != NULL && q != NULL) {
      __CPROVER_assert(TSG_SAME(p->weight, q->weight) && vec_eq(p->tensor, q->tensor), "C06 unfinished construction data: the k-th candidate tensor (weight and index) is restored at position k");
      p = p->next; q = q->next; }
    __CPROVER_assert(p == NULL && q == NULL, "C06 unfinished construction data: the restored tensor list has the length of the original"); }
  for (int k = 0; k < TAPE_MAX; k++) tape2[k] = tape[k];
  tape2_w = tape_w; tape_w = 0; tape_r = 0;
  DynamicConstructorDataGlobal_write(&r);
  __CPROVER_assert(tape_w == tape2_w, "C06 writing the restored construction data produces as many tokens as the original");
  for (int k = 0; k < TAPE_MAX; k++) if (k < tape_w)
    __CPROVER_assert(tape[k].kind == tape2[k].kind && TSG_SAME(tape[k].num, tape2[k].num) && tape[k].id == tape2[k].id && tape[k].len == tape2[k].len, "C06 writing the restored construction data reproduces the original token sequence");
  __CPROVER_assert(0, "VACUITY-CANARY");
}

//@ harness h_clearTesnors
/* C08: getCandidateConstructionPoints drops every previously proposed tensor (everything that is not an initial tensor, i.e. not weight < 0,
 * the test of getInitialTensors) before it proposes the children admitted by the current limits; initial tensors are kept in order. */
void h_clearTesnors(void){
  DynamicConstructorDataGlobal g;
  int a_nt = nondet_int();
  __CPROVER_assume(a_nt >= 0 && a_nt <= TSG_NL);
  tensor_pool_used = 0; g.tensors.bb.next = NULL; g.data.bb.next = NULL;
  double w[TSG_NL]; int ids[TSG_NL];
  for (int k = 0; k < TSG_NL; k++) if (k < a_nt) { w[k] = nondet_double(); __CPROVER_assume(w[k] == w[k]); gvec t = vec_sym(2); ids[k] = t.id; tsg_fl_emplace_front_TensorData(&g.tensors, w[k], t); }
  DynamicConstructorDataGlobal_clearTesnors(&g);
  /* expected: the initial tensors, in list order (list order is the reverse of insertion) */
  const TensorData *q = g.tensors.bb.next;
  for (int k = TSG_NL - 1; k >= 0; k--) if (k < a_nt && w[k] < 0.0) {
    __CPROVER_assert(q != NULL && q->tensor.id == ids[k] && q->weight == w[k], "C08 clearTesnors keeps every initial tensor (weight < 0), in order");
    if (q != NULL) q = q->next;
  }
  __CPROVER_assert(q == NULL, "C08 clearTesnors drops every tensor that is not an initial one: no stale candidate survives a new request (and a change of limits)");
  __CPROVER_assert(0, "VACUITY-CANARY");
}

//@ text2
/* reloadPoints: ghost point sets.  generateNestedPoints gives each tensor some number of points; getSlot(t, p) is a deterministic function of
 * the tensor and the node (slot in [0, npoints) when the node belongs to the tensor, -1 otherwise), logged per (tensor, node) pair. */
static int tsg_generateNestedPoints(TensorData *t){ int n = nondet_int(); __CPROVER_assume(n >= 0 && n <= TSG_NPT); return n; }
static void tsg_loaded_assign(TensorData *t, size_t n, bool v){ __CPROVER_assert(n <= TSG_NPT, "shim: flag capacity suffices"); t->loaded_size = n; for (size_t k = 0; k < TSG_NPT; k++) t->loaded[k] = v; }
static bool tsg_all_true(const TensorData *t){ for (size_t k = 0; k < TSG_NPT; k++) if (k < t->loaded_size && !t->loaded[k]) return false; return true; }
static size_t tsg_loaded_index(const TensorData *t, int i){ __CPROVER_assert(i >= 0 && (size_t) i < t->loaded_size, "C17 reloadPoints: the flag index is inside the vector sized for the tensor's points"); return (size_t) i; }
#define TSG_PAIRS (TSG_NL * TSG_NL)
int g_pt[TSG_PAIRS]; const NodeData *g_pn[TSG_PAIRS]; int g_ps[TSG_PAIRS]; int g_npairs;      /* keyed by the identity of the tensor's multi-index (a copy of a tensor is the same tensor) and the node */
static int tsg_getSlot(const TensorData *t, const NodeData *p){
  for (int k = 0; k < TSG_PAIRS; k++) if (k < g_npairs && g_pt[k] == t->tensor.id && g_pn[k] == p) return g_ps[k];
  int s = nondet_int(); __CPROVER_assume(s >= -1 && s < t->npoints);
  __CPROVER_assert(g_npairs < TSG_PAIRS, "shim: pair log capacity suffices");
  g_pt[g_npairs] = t->tensor.id; g_pn[g_npairs] = p; g_ps[g_npairs] = s; g_npairs++;
  return s;
}

//@ harness h_reloadPoints
void h_reloadPoints(void){
  DynamicConstructorDataGlobal g; int a_nn = nondet_int(), a_nt = nondet_int();
  __CPROVER_assume(a_nn >= 0 && a_nn <= TSG_NL && a_nt >= 0 && a_nt <= TSG_NL);
  node_pool_used = 0; tensor_pool_used = 0; g.data.bb.next = NULL; g.tensors.bb.next = NULL; g_npairs = 0;
  for (int k = 0; k < TSG_NL; k++) if (k < a_nn) tsg_fl_emplace_front_NodeData(&g.data, vec_sym(2), vec_sym(1));
  for (int k = 0; k < TSG_NL; k++) if (k < a_nt) { gvec tv = vec_sym(2); tv.id = 1000 + k;     /* distinct tensors */
    tsg_fl_emplace_front_TensorData(&g.tensors, nondet_double(), tv); g.tensors.bb.next->npoints = 0; g.tensors.bb.next->loaded_size = 0; }
  DynamicConstructorDataGlobal_reloadPoints(&g);
  /* witnesses: any tensor of the list, any point slot of it */
  int a_t = nondet_int(), a_s = nondet_int();
  __CPROVER_assume(a_t >= 0 && a_t < a_nt);
  const TensorData *t = g.tensors.bb.next; for (int k = 0; k < TSG_NL; k++) if (k < a_t && t != NULL) t = t->next;
  if (t != NULL) {
    __CPROVER_assume(a_s >= 0 && a_s < t->npoints);
    bool stored = false, all = true;        /* is some stored node the point a_s of tensor t?  are all points of t stored? */
    for (const NodeData *p = g.data.bb.next; p != NULL; p = p->next) if (tsg_getSlot(t, p) == a_s) stored = true;
    for (int s = 0; s < TSG_NPT; s++) if (s < t->npoints) { bool hit = false; for (const NodeData *p = g.data.bb.next; p != NULL; p = p->next) if (tsg_getSlot(t, p) == s) hit = true; if (!hit) all = false; }
    if (all) __CPROVER_assert(t->loaded_size == 0, "C17/C06 after reading, a candidate tensor whose points are all stored carries the 'complete' mark (empty flag vector) that addTensor / addNewNode use: it is ejected like in the original grid");
    else {
      __CPROVER_assert(t->loaded_size == (size_t) t->npoints, "C17 reloadPoints: one flag per point of an incomplete tensor");
      __CPROVER_assert(t->loaded[a_s] == stored, "C17 after reading a checkpoint a point of a candidate tensor is flagged loaded exactly when its value is in the stored node list (a checkpointed sample is not requested again, a missing one is)");
    }
  }
  __CPROVER_assert(0, "VACUITY-CANARY");
}

//@ text3
typedef struct { NodeDataList data; } SimpleConstructData;
int g_exp_b, g_exp_e, g_slices; bool g_slice_ok;      /* ghost: the range the caller asked for, the number of slices, did every slice take that range */
static gvec gvec_slice(gvec v, int ibegin, int iend){
  __CPROVER_assert(0 <= ibegin && ibegin <= iend && (size_t) iend <= v.len, "C11 restrictData: the output range lies inside every stored value vector");
  if (ibegin != g_exp_b || iend != g_exp_e) g_slice_ok = false;
  g_slices++;
  gvec r = { v.id, (size_t)(iend - ibegin) }; return r;      /* the slice keeps the identity of the vector it was cut from */
}
//@ harness h_restrictData
/* class invariant of DynamicConstructorDataGlobal: every stored node carries num_outputs values (ejectCompleteTensor copies num_outputs entries of each).
 * A copy restricted to the outputs [ibegin, iend) must satisfy it for iend - ibegin outputs. */
void h_restrictData(void){
  GTYPE g; int a_nn = nondet_int(), a_b = nondet_int(), a_e = nondet_int(); size_t a_no = nondet_size_t();
  __CPROVER_assume(a_nn >= 0 && a_nn <= TSG_NL && a_no >= 1 && a_no <= 20 && 0 <= a_b && a_b < a_e && (size_t) a_e <= a_no);
  node_pool_used = 0; g.data.bb.next = NULL;
#ifndef TSG_SIMPLE
  g.num_dimensions = 2; g.num_outputs = a_no; g.tensors.bb.next = NULL;
#endif
  for (int k = 0; k < TSG_NL; k++) if (k < a_nn) tsg_fl_emplace_front_NodeData(&g.data, vec_sym(2), vec_sym(a_no));     /* invariant at entry */
  g_slices = 0; g_slice_ok = true; g_exp_b = a_b; g_exp_e = a_e;
  RESTRICT(&g, a_b, a_e);
  __CPROVER_assert(g_slice_ok, "C11 restrictData keeps exactly the outputs [ibegin, iend) of every stored value vector");
  __CPROVER_assert(g_slices == a_nn, "C11 restrictData restricts every stored node once");
#ifndef TSG_SIMPLE
  __CPROVER_assert(g.num_outputs == (size_t)(a_e - a_b), "C11 the restricted copy of the construction data knows its new number of outputs (what ejectCompleteTensor copies per node)");
  for (const NodeData *p = g.data.bb.next; p != NULL; p = p->next)
    __CPROVER_assert(p->value.len == g.num_outputs, "C11 class invariant after restrictData: every stored node carries num_outputs values");
#else
  for (const NodeData *p = g.data.bb.next; p != NULL; p = p->next)
    __CPROVER_assert(p->value.len == (size_t)(a_e - a_b), "C11 after restrictData every stored node carries iend - ibegin values");
#endif
  __CPROVER_assert(0, "VACUITY-CANARY");
}
