/* C06 -- write() then read() restores the complete state (per family, both formats), over a
 * ghost typed-token tape.  Every write primitive appends (kind, identity, length [, last entry]);
 * every read primitive pops one token; popping the wrong kind, popping from an empty tape, or a
 * reader that computes another length than the one that was written is an assertion failure.
 * Obligations per family and format:  read(write(g)) == g field by field, the tape is consumed
 * exactly, and write(read(write(g))) reproduces the same token sequence.
 * Precondition well_formed_F(g): the size relations between members that the builders establish
 * (assumed representation invariant, clause by clause below).                                    */

//@ text
typedef struct { int id; int n; int maxidx; } gobj;                   /* MultiIndexSet / StorageSet / CustomTabulated: identity, number of entries, largest index (getMaxIndex) */
typedef struct { int id; size_t len; size_t strips; int last; int maxv; } gvec;  /* std::vector / Data2D: identity, length, strips, value of the last entry, largest entry */
enum { T_NUM = 1, T_RULE, T_FLAG, T_OBJ, T_VEC };
#define TAPE_MAX 40
typedef struct { int kind; double num; int id; size_t len; size_t strips; int last; int n; int mx; } token;
token tape[TAPE_MAX]; int tape_w, tape_r;
token tape2[TAPE_MAX]; int tape2_w;
static void tape_push(token t){ __CPROVER_assert(tape_w < TAPE_MAX, "shim: token tape capacity suffices"); tape[tape_w++] = t; }
static token tape_pop(int kind){
  token t = {0, 0.0, 0, 0, 0, 0, 0, 0};
  __CPROVER_assert(tape_r < tape_w, "C06 the reader does not read past what the writer produced");
  if (tape_r < tape_w) { t = tape[tape_r++]; __CPROVER_assert(t.kind == kind, "C06 the reader expects the kind of datum that was written at this position"); }
  return t;
}
void tape_write_num(double v){ token t = {T_NUM, v, 0, 0, 0, 0, 0, 0}; tape_push(t); }
/* floating-point data: in the ASCII format it round-trips only when the stream was switched to 17 significant digits before it is written */
bool tape_fmt_set;
#ifndef TAPE_ASCII
#define TAPE_ASCII 0
#endif
void tape_write_dbl(double v){ __CPROVER_assert(!TAPE_ASCII || tape_fmt_set, "C06 ASCII format: the stream is set to scientific notation with 17 digits before the first floating-point datum is written"); tape_write_num(v); }
void tape_write_rule(int r){ token t = {T_RULE, (double) r, 0, 0, 0, 0, 0, 0}; tape_push(t); }
void tape_write_flag(bool f){ token t = {T_FLAG, f ? 1.0 : 0.0, 0, 0, 0, 0, 0, 0}; tape_push(t); }
void tape_write_obj(gobj o){ token t = {T_OBJ, 0.0, o.id, 0, 0, 0, o.n, o.maxidx}; tape_push(t); }
void tape_write_vec(gvec v){ if (v.len == 0) return; token t = {T_VEC, 0.0, v.id, v.len, v.strips, v.last, 0, v.maxv}; tape_push(t); }   /* an empty vector occupies no data */
void tape_write_dvec(gvec v){ if (v.len == 0) return; __CPROVER_assert(!TAPE_ASCII || tape_fmt_set, "C06 ASCII format: the stream is set to scientific notation with 17 digits before the first floating-point datum is written"); tape_write_vec(v); }
double tape_read_num(void){ return tape_pop(T_NUM).num; }
int    tape_read_rule(void){ return (int) tape_pop(T_RULE).num; }
bool   tape_read_flag(void){ return tape_pop(T_FLAG).num != 0.0; }
gobj   tape_read_obj(void){ token t = tape_pop(T_OBJ); gobj o = {t.id, t.n, t.mx}; return o; }
gvec   tape_read_vec(size_t n){
  gvec v = {0, 0, 0, 0, 0};
  if (n == 0) return v;
  token t = tape_pop(T_VEC);
  __CPROVER_assert(t.len == n, "C06 the reader computes the length that was written");
  v.id = t.id; v.len = t.len; v.strips = t.strips; v.last = t.last; v.maxv = t.mx; return v;
}
gvec gvec_sized(size_t n){ gvec v = {0, n, 0, 0, 0}; return v; }
static bool obj_eq(gobj a, gobj b){ return a.n == b.n && (a.n == 0 || (a.id == b.id && a.maxidx == b.maxidx)); }
static bool vec_eq(gvec a, gvec b){ return a.len == b.len && (a.len == 0 || (a.id == b.id && a.last == b.last && a.maxv == b.maxv)); }
static gobj obj_sym(void){ gobj o; o.id = nondet_int(); o.n = nondet_int(); o.maxidx = nondet_int(); __CPROVER_assume(o.n >= 0 && o.n <= 1000 && o.id > 0 && o.maxidx >= 0 && o.maxidx < 1000); return o; }
static gvec vec_sym(void){ gvec v; v.id = nondet_int(); v.len = nondet_size_t(); v.strips = nondet_size_t(); v.last = nondet_int(); v.maxv = nondet_int(); __CPROVER_assume(v.maxv >= 0 && v.maxv < 1000 && v.len <= 100000 && v.strips <= 100000 && v.id > 0); return v; }
static gobj obj_none(void){ gobj o = {0, 0, 0}; return o; }
static gvec vec_none(void){ gvec v = {0, 0, 0, 0, 0}; return v; }

typedef struct { int num_dimensions, num_outputs; TypeOneDRule rule; gobj points, needed, values; gvec surpluses; } GSequence;
typedef struct { int num_dimensions, num_outputs; double alpha, beta; TypeOneDRule rule; gobj custom, tensors, active_tensors, points, needed, values, updated_tensors, updated_active_tensors;
                 gvec active_w, max_levels, updated_active_w; int wrapper_levels; } GGlobal;
typedef struct { int num_dimensions, num_outputs, order, top_level; int effective_rule; gobj points, needed, values; gvec surpluses, parents, roots, pntr, indx; } GLocalPolynomial;
typedef struct { int num_dimensions, num_outputs, order; gobj points, needed, values; gvec coefficients; } GWavelet;
typedef struct { int num_dimensions, num_outputs; gobj tensors, active_tensors, points, needed, values, updated_tensors, updated_active_tensors; gvec active_w, max_levels, updated_active_w, fourier_coefs; int wrapper_levels; } GFourier;

#define DIMS_OUTS(g) do{ (g).num_dimensions = nondet_int(); (g).num_outputs = nondet_int(); __CPROVER_assume((g).num_dimensions >= 1 && (g).num_dimensions <= 20 && (g).num_outputs >= 0 && (g).num_outputs <= 20); }while(0)
#define SAVE_TAPE() do{ for (int k_ = 0; k_ < TAPE_MAX; k_++) tape2[k_] = tape[k_]; tape2_w = tape_w; tape_w = 0; tape_r = 0; tape_fmt_set = false; }while(0)
#define SAME_TAPE() do{ __CPROVER_assert(tape_w == tape2_w, "C06 writing the restored grid produces as many tokens as the original"); \
  for (int k_ = 0; k_ < TAPE_MAX; k_++) if (k_ < tape_w) __CPROVER_assert(tape[k_].kind == tape2[k_].kind && TSG_SAME(tape[k_].num, tape2[k_].num) && tape[k_].id == tape2[k_].id && tape[k_].len == tape2[k_].len && tape[k_].n == tape2[k_].n && tape[k_].last == tape2[k_].last && tape[k_].mx == tape2[k_].mx, \
      "C06 writing the restored grid reproduces the original token sequence"); }while(0)

//@ harness h_Sequence
void h_Sequence(void){
  GSequence g, r;
  DIMS_OUTS(g); g.rule = (TypeOneDRule) nondet_int(); __CPROVER_assume(g.rule >= rule_none && g.rule <= rule_fourier);
  g.points = obj_sym(); g.needed = obj_sym(); g.values = obj_sym(); g.surpluses = vec_sym();
  /* well_formed (GridSequence): surpluses hold num_outputs x |points| entries (recomputeSurpluses / loadNeededValues); no values without outputs */
  __CPROVER_assume(g.surpluses.len == 0 || g.surpluses.len == (size_t) g.num_outputs * (size_t) g.points.n);
  if (g.num_outputs == 0) g.values = obj_none();
  tape_w = 0; tape_r = 0;
  WRITE(&g);
  r.points = obj_none(); r.needed = obj_none(); r.values = obj_none(); r.surpluses = vec_none();
  READ(&r);
  __CPROVER_assert(tape_r == tape_w, "C06 the reader consumes exactly what the writer produced");
  __CPROVER_assert(r.num_dimensions == g.num_dimensions && r.num_outputs == g.num_outputs && r.rule == g.rule, "C06 Sequence: dimensions, outputs and rule restored");
  __CPROVER_assert(obj_eq(r.points, g.points), "C06 Sequence: loaded points restored");
  __CPROVER_assert(obj_eq(r.needed, g.needed), "C06 Sequence: needed points restored");
  __CPROVER_assert(vec_eq(r.surpluses, g.surpluses), "C06 Sequence: surpluses restored");
  __CPROVER_assert(obj_eq(r.values, g.values), "C06 Sequence: values restored");
  SAVE_TAPE(); WRITE(&r); SAME_TAPE();
  __CPROVER_assert(0, "VACUITY-CANARY");
}

//@ harness h_Global
void h_Global(void){
  GGlobal g, r;
  DIMS_OUTS(g); g.rule = (TypeOneDRule) nondet_int(); __CPROVER_assume(g.rule >= rule_none && g.rule <= rule_fourier);
  g.alpha = nondet_double(); g.beta = nondet_double();
  g.custom = obj_sym(); g.tensors = obj_sym(); g.active_tensors = obj_sym(); g.points = obj_sym(); g.needed = obj_sym(); g.values = obj_sym();
  g.updated_tensors = obj_sym(); g.updated_active_tensors = obj_sym(); g.active_w = vec_sym(); g.max_levels = vec_sym(); g.updated_active_w = vec_sym();
  /* well_formed (GridGlobal): one weight per active tensor (computeTensorWeights); max_levels has one entry per dimension; a tabulated rule object only for rule_customtabulated;
     updated_* are all empty or all set with one weight per updated active tensor (updateGrid / clearRefinement); no values without outputs */
  __CPROVER_assume(g.active_w.len == (size_t) g.active_tensors.n && g.max_levels.len == (size_t) g.num_dimensions);
  if (g.rule != rule_customtabulated) g.custom = obj_none();
  if (g.updated_tensors.n == 0) { g.updated_active_tensors = obj_none(); g.updated_active_w = vec_none(); }
  __CPROVER_assume(g.updated_active_w.len == (size_t) g.updated_active_tensors.n);
  if (g.num_outputs == 0) g.values = obj_none();
  /* well_formed: max_levels = getMaxIndexes(tensors) or of the active tensors, which contain the maximal elements: its largest entry is the largest tensor index */
  __CPROVER_assume(g.max_levels.maxv == g.tensors.maxidx);
  /* well_formed: a pending tensor set contains the current tensors (established by the job iotape.wellformed.update.*) */
  __CPROVER_assume(g.updated_tensors.n == 0 || g.updated_tensors.maxidx >= g.tensors.maxidx);
  tape_w = 0; tape_r = 0;
  WRITE(&g);
  r.custom = obj_none(); r.tensors = obj_none(); r.active_tensors = obj_none(); r.points = obj_none(); r.needed = obj_none(); r.values = obj_none();
  r.updated_tensors = obj_none(); r.updated_active_tensors = obj_none(); r.active_w = vec_none(); r.max_levels = vec_none(); r.updated_active_w = vec_none();
  r.wrapper_levels = -1;
  READ(&r);
  __CPROVER_assert(tape_r == tape_w, "C06 the reader consumes exactly what the writer produced");
  __CPROVER_assert(r.num_dimensions == g.num_dimensions && r.num_outputs == g.num_outputs && r.rule == g.rule && TSG_SAME(r.alpha, g.alpha) && TSG_SAME(r.beta, g.beta), "C06 Global: meta data (dimensions, outputs, rule, alpha, beta) restored");
  __CPROVER_assert(obj_eq(r.custom, g.custom), "C06 Global: custom tabulated rule restored");
  __CPROVER_assert(obj_eq(r.tensors, g.tensors) && obj_eq(r.active_tensors, g.active_tensors) && vec_eq(r.active_w, g.active_w), "C06 Global: tensors, active tensors and tensor weights restored");
  __CPROVER_assert(obj_eq(r.points, g.points) && obj_eq(r.needed, g.needed), "C06 Global: loaded and needed points restored");
  __CPROVER_assert(vec_eq(r.max_levels, g.max_levels), "C06 Global: max levels restored");
  __CPROVER_assert(obj_eq(r.values, g.values), "C06 Global: values restored");
  __CPROVER_assert(obj_eq(r.updated_tensors, g.updated_tensors) && obj_eq(r.updated_active_tensors, g.updated_active_tensors) && vec_eq(r.updated_active_w, g.updated_active_w), "C06 Global: pending refinement (updated tensors) restored");
    __CPROVER_assert(r.wrapper_levels >= g.tensors.maxidx && (g.updated_tensors.n == 0 || r.wrapper_levels >= g.updated_tensors.maxidx), "C06 Global: the 1-D rule cache rebuilt by the reader covers every level of the tensors and of the pending refinement (later operations behave as on the original)");
SAVE_TAPE(); WRITE(&r); SAME_TAPE();
  __CPROVER_assert(0, "VACUITY-CANARY");
}

//@ harness h_LocalPolynomial
void h_LocalPolynomial(void){
  GLocalPolynomial g, r;
  DIMS_OUTS(g); g.order = nondet_int(); g.top_level = nondet_int(); g.effective_rule = nondet_int();
  __CPROVER_assume(g.order >= -1 && g.order <= 10 && g.top_level >= 0 && g.top_level < 31 && g.effective_rule >= erule_pwc && g.effective_rule <= erule_localpb);
  g.points = obj_sym(); g.needed = obj_sym(); g.values = obj_sym(); g.surpluses = vec_sym(); g.parents = vec_sym(); g.roots = vec_sym(); g.pntr = vec_sym(); g.indx = vec_sym();
  /* well_formed (GridLocalPolynomial): the effective rule is pwc exactly for order 0 (constructor); surpluses / parents are Data2D over the loaded points
     (recomputeSurpluses, buildTree / HierarchyManipulations::computeDAGup); the tree arrays are all absent or pntr has num_points+1 entries and indx max(pntr.back(), 1) (buildTree) */
  __CPROVER_assume((g.effective_rule == erule_pwc) == (g.order == 0));
  __CPROVER_assume(g.surpluses.strips == (g.surpluses.len == 0 ? 0 : (size_t) g.points.n) && (g.surpluses.len == 0 || g.surpluses.len == (size_t) g.num_outputs * (size_t) g.points.n));
  int mp = (g.effective_rule == erule_pwc || g.effective_rule == erule_semilocalp || g.effective_rule == erule_localpb) ? 2 : 1;
  __CPROVER_assume(g.parents.strips == (g.parents.len == 0 ? 0 : (size_t) g.points.n) && (g.parents.len == 0 || g.parents.len == (size_t)(mp * g.num_dimensions) * (size_t) g.points.n));
  size_t npnt = (size_t)(g.points.n == 0 ? g.needed.n : g.points.n);
  if (g.roots.len == 0) { g.pntr = vec_none(); g.indx = vec_none(); }
  else { __CPROVER_assume(g.pntr.len == npnt + 1 && g.pntr.last >= 0 && g.indx.len == (size_t)(g.pntr.last > 0 ? g.pntr.last : 1)); }
  if (g.num_outputs == 0) g.values = obj_none();
  tape_w = 0; tape_r = 0;
  WRITE(&g);
  r.points = obj_none(); r.needed = obj_none(); r.values = obj_none(); r.surpluses = vec_none(); r.parents = vec_none(); r.roots = vec_none(); r.pntr = vec_none(); r.indx = vec_none();
  READ(&r);
  __CPROVER_assert(tape_r == tape_w, "C06 the reader consumes exactly what the writer produced");
  __CPROVER_assert(r.num_dimensions == g.num_dimensions && r.num_outputs == g.num_outputs && r.order == g.order && r.top_level == g.top_level && r.effective_rule == g.effective_rule, "C06 LocalPolynomial: dimensions, outputs, order, top level and rule restored");
  __CPROVER_assert(obj_eq(r.points, g.points) && obj_eq(r.needed, g.needed), "C06 LocalPolynomial: loaded and needed points restored");
  __CPROVER_assert(vec_eq(r.surpluses, g.surpluses), "C06 LocalPolynomial: surpluses restored");
  __CPROVER_assert(vec_eq(r.parents, g.parents), "C06 LocalPolynomial: parents restored");
  __CPROVER_assert(vec_eq(r.roots, g.roots) && vec_eq(r.pntr, g.pntr) && vec_eq(r.indx, g.indx), "C06 LocalPolynomial: tree (roots, pntr, indx) restored");
  __CPROVER_assert(obj_eq(r.values, g.values), "C06 LocalPolynomial: values restored");
  SAVE_TAPE(); WRITE(&r); SAME_TAPE();
  __CPROVER_assert(0, "VACUITY-CANARY");
}

//@ harness h_Wavelet
void h_Wavelet(void){
  GWavelet g, r;
  DIMS_OUTS(g); g.order = nondet_int(); __CPROVER_assume(g.order == 1 || g.order == 3);
  g.points = obj_sym(); g.needed = obj_sym(); g.values = obj_sym(); g.coefficients = vec_sym();
  /* well_formed (GridWavelet): coefficients are Data2D(num_outputs, |points|) (recomputeCoefficients) */
  __CPROVER_assume(g.coefficients.strips == (g.coefficients.len == 0 ? 0 : (size_t) g.points.n) && (g.coefficients.len == 0 || g.coefficients.len == (size_t) g.num_outputs * (size_t) g.points.n));
  if (g.num_outputs == 0) g.values = obj_none();
  tape_w = 0; tape_r = 0;
  WRITE(&g);
  r.points = obj_none(); r.needed = obj_none(); r.values = obj_none(); r.coefficients = vec_none();
  READ(&r);
  __CPROVER_assert(tape_r == tape_w, "C06 the reader consumes exactly what the writer produced");
  __CPROVER_assert(r.num_dimensions == g.num_dimensions && r.num_outputs == g.num_outputs && r.order == g.order, "C06 Wavelet: dimensions, outputs and order restored");
  __CPROVER_assert(obj_eq(r.points, g.points) && obj_eq(r.needed, g.needed), "C06 Wavelet: loaded and needed points restored");
  __CPROVER_assert(vec_eq(r.coefficients, g.coefficients), "C06 Wavelet: coefficients restored");
  __CPROVER_assert(obj_eq(r.values, g.values), "C06 Wavelet: values restored");
  SAVE_TAPE(); WRITE(&r); SAME_TAPE();
  __CPROVER_assert(0, "VACUITY-CANARY");
}

//@ harness h_Fourier
void h_Fourier(void){
  GFourier g, r;
  DIMS_OUTS(g);
  g.tensors = obj_sym(); g.active_tensors = obj_sym(); g.points = obj_sym(); g.needed = obj_sym(); g.values = obj_sym();
  g.updated_tensors = obj_sym(); g.updated_active_tensors = obj_sym(); g.active_w = vec_sym(); g.max_levels = vec_sym(); g.updated_active_w = vec_sym(); g.fourier_coefs = vec_sym();
  /* well_formed (GridFourier): as Global for tensors/weights/max_levels/updated_*; coefficients are Data2D(num_outputs, 2|points|) (calculateFourierCoefficients), none without outputs */
  __CPROVER_assume(g.active_w.len == (size_t) g.active_tensors.n && g.max_levels.len == (size_t) g.num_dimensions);
  if (g.updated_tensors.n == 0) { g.updated_active_tensors = obj_none(); g.updated_active_w = vec_none(); }
  __CPROVER_assume(g.updated_active_w.len == (size_t) g.updated_active_tensors.n);
  if (g.num_outputs == 0) { g.values = obj_none(); g.fourier_coefs = vec_none(); }
  __CPROVER_assume(g.fourier_coefs.strips == (g.fourier_coefs.len == 0 ? 0 : 2 * (size_t) g.points.n) && (g.fourier_coefs.len == 0 || g.fourier_coefs.len == (size_t) g.num_outputs * 2 * (size_t) g.points.n));
  /* well_formed: max_levels = getMaxIndexes(tensors) or of the active tensors, which contain the maximal elements: its largest entry is the largest tensor index */
  __CPROVER_assume(g.max_levels.maxv == g.tensors.maxidx);
  /* well_formed: a pending tensor set contains the current tensors (established by the job iotape.wellformed.update.*) */
  __CPROVER_assume(g.updated_tensors.n == 0 || g.updated_tensors.maxidx >= g.tensors.maxidx);
  tape_w = 0; tape_r = 0;
  WRITE(&g);
  r.tensors = obj_none(); r.active_tensors = obj_none(); r.points = obj_none(); r.needed = obj_none(); r.values = obj_none();
  r.updated_tensors = obj_none(); r.updated_active_tensors = obj_none(); r.active_w = vec_none(); r.max_levels = vec_none(); r.updated_active_w = vec_none(); r.fourier_coefs = vec_none();
  r.wrapper_levels = -1;
  READ(&r);
  __CPROVER_assert(tape_r == tape_w, "C06 the reader consumes exactly what the writer produced");
  __CPROVER_assert(r.num_dimensions == g.num_dimensions && r.num_outputs == g.num_outputs, "C06 Fourier: dimensions and outputs restored");
  __CPROVER_assert(obj_eq(r.tensors, g.tensors) && obj_eq(r.active_tensors, g.active_tensors) && vec_eq(r.active_w, g.active_w), "C06 Fourier: tensors, active tensors and tensor weights restored");
  __CPROVER_assert(obj_eq(r.points, g.points) && obj_eq(r.needed, g.needed), "C06 Fourier: loaded and needed points restored");
  __CPROVER_assert(vec_eq(r.max_levels, g.max_levels), "C06 Fourier: max levels restored");
  __CPROVER_assert(obj_eq(r.values, g.values) && vec_eq(r.fourier_coefs, g.fourier_coefs), "C06 Fourier: values and Fourier coefficients restored");
  __CPROVER_assert(obj_eq(r.updated_tensors, g.updated_tensors) && obj_eq(r.updated_active_tensors, g.updated_active_tensors) && vec_eq(r.updated_active_w, g.updated_active_w), "C06 Fourier: pending refinement (updated tensors) restored");
    __CPROVER_assert(r.wrapper_levels >= g.tensors.maxidx && (g.updated_tensors.n == 0 || r.wrapper_levels >= g.updated_tensors.maxidx), "C06 Fourier: the 1-D rule cache rebuilt by the reader covers every level of the tensors and of the pending refinement (later operations behave as on the original)");
SAVE_TAPE(); WRITE(&r); SAME_TAPE();
  __CPROVER_assert(0, "VACUITY-CANARY");
}

//@ text2
/* ghost index set for the invariant of the pending refinement: is it empty, does it contain the current tensors */
typedef struct { bool empty; bool sup; } gset;
typedef struct { int num_outputs; bool points_empty; gset updated_tensors; } GU;
static gset gset_none(void){ gset s = {true, false}; return s; }
static gset gset_selected(void){ gset s = {false, nondet_bool()}; return s; }           /* selectTensors: a non-empty set, any relation to the current tensors */
static gset gset_minus_tensors(gset a){ gset s = {nondet_bool(), false}; if (a.empty) s.empty = true; return s; }
static gset gset_plus_tensors(gset a){ gset s = {false, true}; return s; }
static gset gset_plus_other(gset a){ gset s = {false, a.sup}; return s; }      /* union with a set other than the current tensors: still not known to contain them */
void fam_makeGrid(GU *self){ self->updated_tensors = gset_none(); }                       /* a fresh grid has no pending refinement (makeGrid ends in setTensors, which resets it) */
void fam_clearRefinement(GU *self){ self->updated_tensors = gset_none(); }
void fam_proposeUpdatedTensors(GU *self){ }

//@ harness h_update_invariant
void h_update_invariant(void){
  GU g; g.num_outputs = nondet_int(); g.points_empty = nondet_bool(); g.updated_tensors.empty = nondet_bool(); g.updated_tensors.sup = nondet_bool();
  UPDATE(&g);
  __CPROVER_assert(g.updated_tensors.empty || g.updated_tensors.sup, "C06 well_formed: after updateGrid the pending tensor set is empty or contains the current tensors (what write() stores as a pending refinement is one)");
  __CPROVER_assert(0, "VACUITY-CANARY");
}
