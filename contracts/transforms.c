/* C10 -- linear domain transforms as an exact change of variables, on a lattice where every
 * operation of the four routines is exact (so equalities are bit-exact):
 *   a, b integers, |a|,|b| <= 2^LB;  b - a = 2^k (k >= 0) for the [-1,1] and Fourier families;
 *   Laguerre rate b = 2^k; Hermite rate b = 4^k with sqrt a stub (r >= 0 and r*r == x: assumed);
 *   canonical x = i * 2^-LX.
 * L10a forward/inverse maps are mutual inverses and map the canonical end points to a and b;
 * L10b diffCanonicalTransform is the multiplicative rate of mapTransformedToCanonical;
 * L10c getQuadratureScale is the product of the forward rates ([-1,1] and Fourier families) and
 *      uses the documented base/exponent for the Jacobi, Laguerre and Hermite families (pow uninterpreted). */

//@ text
#ifndef TSG_NDIM
#define TSG_NDIM 2
#endif
typedef struct TSGT {
  double domain_transform_a[TSG_NDIM], domain_transform_b[TSG_NDIM];
  size_t domain_transform_a_size, domain_transform_b_size, conformal_asin_power_size;
  int dims; TypeOneDRule rule; double alpha, beta;
} TSGT;
int base_getNumDimensions(const TSGT *s){ return s->dims; }
TypeOneDRule base_getRule(const TSGT *s){ return s->rule; }
double GridGlobal_getAlpha(const TSGT *s){ return s->alpha; }
double GridGlobal_getBeta(const TSGT *s){ return s->beta; }
/* libm stubs */
double g_pow_base[4], g_pow_exp[4], g_pow_ret[4]; int g_npow;
/* pow: uninterpreted, but its results are signed-exponent powers of two (2^-3 .. 2^3), so that products of them are exact and the way the factors are combined can be checked */
double tsg_pow(double base, double e){
  int x = nondet_int(); __CPROVER_assume(x >= -3 && x <= 3);
  double r = (x >= 0) ? (double)(1 << x) : 1.0 / (double)(1 << -x);
  if (g_npow < 4) { g_pow_base[g_npow] = base; g_pow_exp[g_npow] = e; g_pow_ret[g_npow] = r; }
  g_npow++; return r; }
double tsg_sqrt(double x){ double r = nondet_double(); __CPROVER_assume(r >= 0.0 && r * r == x); return r; }   /* assumed contract of sqrt on perfect squares */
#define FAM_LAGUERRE(r) ((r) == rule_gausslaguerre || (r) == rule_gausslaguerreodd)
#define FAM_HERMITE(r)  ((r) == rule_gausshermite || (r) == rule_gausshermiteodd)
#define FAM_JACOBI(r)   ((r) == rule_gausschebyshev1 || (r) == rule_gausschebyshev2 || (r) == rule_gaussgegenbauer || (r) == rule_gaussjacobi || \
                         (r) == rule_gausschebyshev1odd || (r) == rule_gausschebyshev2odd || (r) == rule_gaussgegenbauerodd || (r) == rule_gaussjacobiodd)
static void lattice_transform(TSGT *s, TypeOneDRule rule, int ai, int k){
  /* one dimension: a = ai, width / rate 2^k */
  double w = (double)(1 << k);
  s->dims = 1; s->rule = rule; s->domain_transform_a_size = 1; s->domain_transform_b_size = 1; s->conformal_asin_power_size = 0;
  s->domain_transform_a[0] = (double) ai;
  if (FAM_LAGUERRE(rule)) s->domain_transform_b[0] = w;
  else if (FAM_HERMITE(rule)) s->domain_transform_b[0] = w * w;
  else s->domain_transform_b[0] = (double) ai + w;
}

//@ lemma lemma_roundtrip
void lemma_roundtrip(int rule_i, int ai, int k, int xi)
__CPROVER_requires(rule_i >= rule_none && rule_i <= rule_fourier && FAMILY(rule_i))
__CPROVER_requires(-(1 << LB) <= ai && ai <= (1 << LB) && 0 <= k && k <= KMAX && -(1 << LX) <= xi && xi <= (1 << LX))
__CPROVER_ensures(1)
__CPROVER_assigns(tsg_exc)
{
  TypeOneDRule rule = (TypeOneDRule) rule_i;
  TSGT s; lattice_transform(&s, rule, ai, k);
  double x = (double) xi / (double)(1 << LX);            /* canonical lattice point in [-1,1] */
  double y = x;
  mapCanonicalToTransformed(&s, 1, 1, rule, &y);
  double z = y;
  mapTransformedToCanonical(&s, 1, 1, rule, &z);
  __CPROVER_assert(z == x, "L10a mapTransformedToCanonical(mapCanonicalToTransformed(x)) == x on the exact lattice");
  double t = (double) ai + (double) xi;                   /* a transformed lattice point */
  double c = t; mapTransformedToCanonical(&s, 1, 1, rule, &c);
  double t2 = c; mapCanonicalToTransformed(&s, 1, 1, rule, &t2);
  __CPROVER_assert(t2 == t, "L10a mapCanonicalToTransformed(mapTransformedToCanonical(t)) == t on the exact lattice");
  /* end points */
  double lo = (FAM_LAGUERRE(rule) || FAM_HERMITE(rule) || rule == rule_fourier) ? 0.0 : -1.0, e = lo;
  mapCanonicalToTransformed(&s, 1, 1, rule, &e);
  __CPROVER_assert(e == s.domain_transform_a[0], "L10a the canonical lower end point (or origin) maps to a");
  if (!FAM_LAGUERRE(rule) && !FAM_HERMITE(rule)) {
    double hi = 1.0; mapCanonicalToTransformed(&s, 1, 1, rule, &hi);
    __CPROVER_assert(hi == s.domain_transform_b[0], "L10a the canonical upper end point maps to b");
  }
}
//@ harness h_lemma_roundtrip
void h_lemma_roundtrip(void){ int a_rule = nondet_int(), a_a = nondet_int(), a_k = nondet_int(), a_x = nondet_int(); lemma_roundtrip(a_rule, a_a, a_k, a_x); __CPROVER_assert(0, "VACUITY-CANARY"); }

//@ lemma lemma_jacobian
void lemma_jacobian(int rule_i, int ai, int k, int xi)
__CPROVER_requires(rule_i >= rule_none && rule_i <= rule_fourier && FAMILY(rule_i))
__CPROVER_requires(-(1 << LB) <= ai && ai <= (1 << LB) && 0 <= k && k <= KMAX && -(1 << LX) <= xi && xi <= (1 << LX))
__CPROVER_ensures(1)
__CPROVER_assigns(tsg_exc)
{
  TypeOneDRule rule = (TypeOneDRule) rule_i;
  TSGT s; lattice_transform(&s, rule, ai, k);
  double t = (double) ai + (double) xi;                   /* a transformed lattice point */
  double c = t; mapTransformedToCanonical(&s, 1, 1, rule, &c);
  double jac[TSG_NDIM]; tsg_exc = 0;
  diffCanonicalTransform(&s, jac);
  double c1 = t + 1.0; mapTransformedToCanonical(&s, 1, 1, rule, &c1);
  __CPROVER_assert(tsg_exc == 0 && c1 - c == jac[0], "L10b diffCanonicalTransform is the multiplicative rate of mapTransformedToCanonical");
}
//@ harness h_lemma_jacobian
void h_lemma_jacobian(void){ int a_rule = nondet_int(), a_a = nondet_int(), a_k = nondet_int(), a_x = nondet_int(); lemma_jacobian(a_rule, a_a, a_k, a_x); __CPROVER_assert(0, "VACUITY-CANARY"); }

//@ lemma lemma_qscale
void lemma_qscale(int rule_i, int a0, int k0, int a1, int k1)
__CPROVER_requires(rule_i >= rule_none && rule_i <= rule_fourier && FAMILY(rule_i))
__CPROVER_requires(-(1 << LB) <= a0 && a0 <= (1 << LB) && 0 <= k0 && k0 <= KMAX && -(1 << LB) <= a1 && a1 <= (1 << LB) && 0 <= k1 && k1 <= KMAX)
__CPROVER_ensures(1)
__CPROVER_assigns(g_npow, __CPROVER_object_whole(g_pow_base), __CPROVER_object_whole(g_pow_exp), __CPROVER_object_whole(g_pow_ret))
{
  TypeOneDRule rule = (TypeOneDRule) rule_i;
  TSGT s; s.dims = 2; s.rule = rule; s.domain_transform_a_size = 2; s.domain_transform_b_size = 2; s.conformal_asin_power_size = 0;
  s.alpha = nondet_double(); s.beta = nondet_double();
  double w0 = (double)(1 << k0), w1 = (double)(1 << k1);
  s.domain_transform_a[0] = (double) a0; s.domain_transform_a[1] = (double) a1;
  s.domain_transform_b[0] = (FAM_LAGUERRE(rule) || FAM_HERMITE(rule)) ? w0 : (double) a0 + w0;
  s.domain_transform_b[1] = (FAM_LAGUERRE(rule) || FAM_HERMITE(rule)) ? w1 : (double) a1 + w1;
  g_npow = 0;
  double q = getQuadratureScale(&s, 2, rule);
  if (rule == rule_fourier) {
    __CPROVER_assert(g_npow == 0 && q == w0 * w1, "L10c Fourier: the quadrature scale is the product of the widths b-a");
  } else if (FAM_JACOBI(rule)) {
    double al = (rule == rule_gausschebyshev1 || rule == rule_gausschebyshev1odd) ? -0.5 : (rule == rule_gausschebyshev2 || rule == rule_gausschebyshev2odd) ? 0.5 : s.alpha;
    double be = (rule == rule_gausschebyshev1 || rule == rule_gausschebyshev1odd) ? -0.5 : (rule == rule_gausschebyshev2 || rule == rule_gausschebyshev2odd) ? 0.5 :
                (rule == rule_gaussgegenbauer || rule == rule_gaussgegenbauerodd) ? s.alpha : s.beta;
    __CPROVER_assert(g_npow == 2 && g_pow_base[0] == 0.5 * w0 && g_pow_base[1] == 0.5 * w1, "L10c Jacobi family: the base of the scale is the half width (b-a)/2 of each dimension");
    __CPROVER_assert(TSG_SAME(g_pow_exp[0], al + be + 1.0) && TSG_SAME(g_pow_exp[1], al + be + 1.0), "L10c Jacobi family: the exponent is alpha + beta + 1");
  } else if (FAM_LAGUERRE(rule)) {
    __CPROVER_assert(g_npow == 2 && g_pow_base[0] == w0 && g_pow_base[1] == w1 && TSG_SAME(g_pow_exp[0], -(1.0 + s.alpha)) && TSG_SAME(g_pow_exp[1], -(1.0 + s.alpha)), "L10c Laguerre: scale b^-(1+alpha) per dimension");
  } else if (FAM_HERMITE(rule)) {
    __CPROVER_assert(g_npow == 2 && g_pow_base[0] == w0 && g_pow_base[1] == w1 && TSG_SAME(g_pow_exp[0], -0.5 * (1.0 + s.alpha)) && TSG_SAME(g_pow_exp[1], -0.5 * (1.0 + s.alpha)), "L10c Hermite: scale b^(-(1+alpha)/2) per dimension");
  }
  if (FAM_JACOBI(rule) || FAM_LAGUERRE(rule) || FAM_HERMITE(rule)) {
    __CPROVER_assert(g_npow != 2 || q == g_pow_ret[0] * g_pow_ret[1], "L10c the quadrature scale is the PRODUCT of the per-dimension factors (all dimensions contribute)");
  } else if (rule != rule_fourier) {
    __CPROVER_assert(g_npow == 0 && q == (w0 / 2.0) * (w1 / 2.0), "L10c [-1,1] rules: the quadrature scale is the product of the half widths (the forward rates)");
  }
}
//@ harness h_lemma_qscale
void h_lemma_qscale(void){ int a_rule = nondet_int(), a_a0 = nondet_int(), a_k0 = nondet_int(), a_a1 = nondet_int(), a_k1 = nondet_int(); lemma_qscale(a_rule, a_a0, a_k0, a_a1, a_k1); __CPROVER_assert(0, "VACUITY-CANARY"); }

//@ text2
/* chain rule at grid level (C10 / C05): every entry of the canonical Jacobian (outputs x dimensions, row-major)
 * is multiplied exactly once by the diagonal entry of ITS dimension; nothing else is written.
 * The product is an uninterpreted function (rule R13) whose evaluations are logged: the obligation is about the indexing. */
#define CH_ND 2
#ifndef CH_NO
#define CH_NO 2
#endif
#define CH_N (CH_ND * CH_NO)
double cl_a[CH_N], cl_b[CH_N], cl_r[CH_N]; int cl_n;
double tsg_fmul(double a, double b){
  double r = nondet_double();
  __CPROVER_assert(cl_n < CH_N, "L10b-grid at most one product per Jacobian entry");
  if (cl_n < CH_N) { cl_a[cl_n] = a; cl_b[cl_n] = b; cl_r[cl_n] = r; }
  cl_n++; return r;
}
//@ harness h_chain
void h_chain(void){
  int a_nd = nondet_int(), a_no = nondet_int();
  __CPROVER_assume(a_nd >= 1 && a_nd <= CH_ND && a_no >= 0 && a_no <= CH_NO);
  double jac[2 * CH_N], in[2 * CH_N], diag[CH_ND];
  for (int q = 0; q < 2 * CH_N; q++) { in[q] = nondet_double(); jac[q] = in[q]; }
  for (int q = 0; q < CH_ND; q++) diag[q] = nondet_double();
  cl_n = 0;
  CHAIN(a_nd, a_no, jac, diag);
  __CPROVER_assert(cl_n == a_nd * a_no, "L10b-grid exactly one product per entry of the outputs x dimensions Jacobian");
  for (int k = 0; k < CH_NO; k++) for (int j = 0; j < CH_ND; j++) if (k < a_no && j < a_nd) {
    bool found = false;
    for (int q = 0; q < CH_N; q++) if (q < cl_n && TSG_SAME(cl_a[q], in[k * a_nd + j]) && TSG_SAME(cl_b[q], diag[j]) && TSG_SAME(cl_r[q], jac[k * a_nd + j])) found = true;
    __CPROVER_assert(found, "L10b-grid the entry (output k, dimension j) holds the product of its canonical value and the rate of dimension j");
  }
  for (int q = 0; q < 2 * CH_N; q++) if (q >= a_nd * a_no) __CPROVER_assert(TSG_SAME(jac[q], in[q]), "L10b-grid nothing beyond the outputs x dimensions entries is written");
  __CPROVER_assert(0, "VACUITY-CANARY");
}

//@ harness h_domain_inside
/* C10: the predicate of getDomainInside() accepts exactly the points of the transformed domain of the rule family:
 *   Hermite: everything;  Laguerre: x_i >= a_i (0 without a transform);  otherwise a_i <= x_i <= b_i ([0,1] Fourier, [-1,1] else, without a transform). */
void h_domain_inside(void){
  TSGT s; s.dims = nondet_int(); __CPROVER_assume(s.dims >= 1 && s.dims <= TSG_NDIM);
  s.rule = (TypeOneDRule) nondet_int(); __CPROVER_assume(s.rule >= rule_none && s.rule <= rule_fourier);
  bool a_set = nondet_bool(); s.domain_transform_a_size = a_set ? (size_t) s.dims : 0; s.domain_transform_b_size = s.domain_transform_a_size; s.conformal_asin_power_size = 0;
  double x[TSG_NDIM];
  for (int d = 0; d < TSG_NDIM; d++) { s.domain_transform_a[d] = nondet_double(); s.domain_transform_b[d] = nondet_double(); x[d] = nondet_double();
    __CPROVER_assume(x[d] == x[d] && s.domain_transform_a[d] == s.domain_transform_a[d] && s.domain_transform_b[d] == s.domain_transform_b[d]); }
  bool got = getDomainInside_apply(&s, x, (size_t) s.dims);
  bool expect = true;
  for (int d = 0; d < TSG_NDIM; d++) if (d < s.dims) {
    if (FAM_HERMITE(s.rule)) continue;
    double lo = a_set ? s.domain_transform_a[d] : ((FAM_LAGUERRE(s.rule) || s.rule == rule_fourier) ? 0.0 : -1.0);
    double hi = a_set ? s.domain_transform_b[d] : (s.rule == rule_fourier ? 1.0 : 1.0);
    if (x[d] < lo) expect = false;
    if (!FAM_LAGUERRE(s.rule) && x[d] > hi) expect = false;
  }
  __CPROVER_assert(got == expect, "C10 getDomainInside(): the predicate accepts exactly the points of the (transformed) domain of the rule family");
  __CPROVER_assert(0, "VACUITY-CANARY");
}
