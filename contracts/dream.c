/* C15 -- SampleDREAM: memory safety (F13), per-iteration accept/reject contract (F14),
 * history bookkeeping (F15).  The callbacks are arbitrary: the random source returns ANY
 * double in the closed interval [0,1]; pdf, domain test and updates are nondeterministic.
 * Ghost state records what the callbacks saw/returned; the state-object stubs carry the
 * obligations as their preconditions (checked at every call in every iteration).        */

//@ text
#ifndef TSG_NCH
#define TSG_NCH 3
#endif
#ifndef TSG_NDIM
#define TSG_NDIM 2
#endif
typedef struct TasmanianDREAM {
  size_t num_chains, num_dimensions;
  bool init_state, init_values;
  size_t accepted;
  double state[TSG_NCH * TSG_NDIM];
  double pdf_values[TSG_NCH];
  size_t history_size, pdf_history_size;       /* lengths of the history vectors */
} TasmanianDREAM;

/* ---- ghost */
static int tsg_fdiv_n, tsg_fsub_n;
double g_prop[TSG_NCH][TSG_NDIM];   /* proposal shown to the domain test, per chain */
bool   g_inside[TSG_NCH];           /* answer of the domain test, per chain */
size_t g_inside_calls;              /* domain tests in this iteration */
double g_pdf[TSG_NCH];              /* pdf value returned for the proposal of the chain */
bool   g_pdf_called;
double g_draw[3 * TSG_NCH]; size_t g_ndraw;      /* uniform draws of this iteration, in order */
double g_logv[TSG_NCH]; size_t g_nlog;           /* results of log(draw), in order */
double g_old_state[TSG_NCH * TSG_NDIM], g_old_pdf[TSG_NCH];  /* state at the start of the iteration */
bool   g_expect_move[TSG_NCH];
bool   g_state_inside[TSG_NCH];     /* the current state of the chain passed the domain test */
size_t g_saves, g_iterations;
int    g_form;
TasmanianDREAM *g_state;

static void ghost_begin_iteration(TasmanianDREAM *s){
  for (size_t i = 0; i < TSG_NCH * TSG_NDIM; i++) g_old_state[i] = s->state[i];
  for (size_t i = 0; i < TSG_NCH; i++) g_old_pdf[i] = s->pdf_values[i];
  g_inside_calls = 0; g_ndraw = 0; g_nlog = 0; g_pdf_called = false;
  tsg_fdiv_n = 0; tsg_fsub_n = 0;
}

/* ---- rule R13: uninterpreted floating-point operations (deterministic: equal arguments give
 * the equal result; otherwise arbitrary).  Used only by the full-body jobs; the F13 block keeps
 * IEEE arithmetic. */
#define TSG_MEMO (TSG_NCH + 1)   /* per iteration: the table is cleared when an iteration begins */
#define DEF_FP_OP(name) \
static double name##_a[TSG_MEMO], name##_b[TSG_MEMO], name##_r[TSG_MEMO]; \
double name(double a, double b){ \
  for (int k = 0; k < TSG_MEMO; k++) if (k < name##_n && TSG_SAME(a, name##_a[k]) && TSG_SAME(b, name##_b[k])) return name##_r[k]; \
  __CPROVER_assert(name##_n < TSG_MEMO, "shim: memo table of the uninterpreted operation suffices"); \
  double r = nondet_double(); name##_a[name##_n] = a; name##_b[name##_n] = b; name##_r[name##_n] = r; name##_n++; return r; }
/* the product draw*num_chains is never recomputed by the contract: any value at all (no determinism needed) */
double tsg_fmul(double a, double b){ return nondet_double(); }
DEF_FP_OP(tsg_fdiv)
DEF_FP_OP(tsg_fsub)

/* ---- callbacks (rule R8): contracts = assumptions on the user's functions */
double cb_get_random01(void){
  double r = nondet_double();
  __CPROVER_assume(r >= 0.0 && r <= 1.0);          /* CLOSED interval, endpoints included */
  __CPROVER_assert(g_ndraw < 3 * TSG_NCH, "F14 at most three uniform draws per chain and iteration");
  g_draw[g_ndraw++] = r;
  return r;
}
double cb_differential_update(void){ return nondet_double(); }
void cb_independent_update(double *x, size_t n){
  __CPROVER_assert(n == g_state->num_dimensions, "F14 update sees a vector of num_dimensions entries");
  for (size_t d = 0; d < TSG_NDIM; d++) if (d < n) x[d] = nondet_double();
}
bool cb_inside(const double *x, size_t n){
  __CPROVER_assert(n == g_state->num_dimensions, "F14 domain test sees a vector of num_dimensions entries");
  __CPROVER_assert(g_inside_calls < g_state->num_chains, "F14 one domain test per chain and iteration");
  size_t i = g_inside_calls++;
  for (size_t d = 0; d < TSG_NDIM; d++) if (d < n) g_prop[i][d] = x[d];
  g_inside[i] = nondet_bool();
  return g_inside[i];
}
void cb_probability_distribution(const double *cand, size_t ncand, double *values, size_t nvalues){
  size_t nd = g_state->num_dimensions, v = 0;
  __CPROVER_assert(!g_pdf_called, "F14 one batched pdf evaluation per iteration");
  g_pdf_called = true;
  for (size_t i = 0; i < TSG_NCH; i++) if (i < g_state->num_chains && g_inside[i]) {
    __CPROVER_assert(v < nvalues && (v + 1) * nd <= ncand, "F14 every in-domain proposal is among the candidates");
    for (size_t d = 0; d < TSG_NDIM; d++) if (d < nd)
      __CPROVER_assert(TSG_SAME(cand[v * nd + d], g_prop[i][d]), "F14 candidates are exactly the in-domain proposals, in chain order");
    values[v] = nondet_double();
    g_pdf[i] = values[v];
    v++;
  }
  __CPROVER_assert(v == nvalues && ncand == nvalues * nd, "F14 the pdf is evaluated only at in-domain proposals (sizes match)");
}
double cb_log(double x){ double r = nondet_double(); __CPROVER_assert(g_nlog < TSG_NCH, "F14 at most one log per chain"); g_logv[g_nlog++] = r; return r; }

/* ---- state object: small members as stated stubs; their preconditions are obligations of SampleDREAM */
int  TasmanianDREAM_getNumChains(const TasmanianDREAM *s){ return (int) s->num_chains; }
int  TasmanianDREAM_getNumDimensions(const TasmanianDREAM *s){ return (int) s->num_dimensions; }
bool TasmanianDREAM_isStateReady(const TasmanianDREAM *s){ return s->init_state; }
bool TasmanianDREAM_isPDFReady(const TasmanianDREAM *s){ return s->init_values; }
void TasmanianDREAM_expandHistory(TasmanianDREAM *s, int num_snapshots){ __CPROVER_assert(num_snapshots > 0, "F15 expandHistory is called with a positive count"); }
double TasmanianDREAM_getPDFvalue(const TasmanianDREAM *s, size_t i){
  __CPROVER_assert(i < s->num_chains, "F13 getPDFvalue: chain index in range");
  return s->pdf_values[i];
}
void TasmanianDREAM_getChainState(const TasmanianDREAM *s, size_t i, double *x){
  __CPROVER_assert(i < s->num_chains, "F13 getChainState: chain index in range");
  for (size_t d = 0; d < TSG_NDIM; d++) if (d < s->num_dimensions) x[d] = s->state[i * s->num_dimensions + d];
}
void TasmanianDREAM_setPDFvalues_fn(TasmanianDREAM *s){
  if (!s->init_state) { tsg_exc = TSG_RUNTIME_ERROR; return; }
  for (size_t i = 0; i < TSG_NCH; i++) s->pdf_values[i] = nondet_double();
  s->init_values = true;
  ghost_begin_iteration(s);
}
#ifndef DREAM_GETIJK_BODY
void TasmanianDREAM_getIJKdelta(const TasmanianDREAM *self, size_t i, size_t j, size_t k, double w, double *x, size_t x_size)
{
  __CPROVER_assert(i < self->num_chains, "F13 getIJKdelta: chain index i in range");
  __CPROVER_assert(j < self->num_chains, "F13 getIJKdelta: chain index j in range");
  __CPROVER_assert(k < self->num_chains, "F13 getIJKdelta: chain index k in range");
  __CPROVER_assert(x_size == self->num_dimensions, "F13 getIJKdelta: output has num_dimensions entries");
  for (size_t d = 0; d < TSG_NDIM; d++) if (d < x_size) x[d] = nondet_double();
}
#endif
#ifndef DREAM_MEMBERS_BODY
void TasmanianDREAM_setState_vec(TasmanianDREAM *s, const double *v, size_t n){
  size_t nd = s->num_dimensions, r = 0, l = 0;
  __CPROVER_assert(n == s->num_chains * nd, "F14 setState receives num_chains x num_dimensions values");
  __CPROVER_assert(g_inside_calls == s->num_chains, "F14 every chain made exactly one proposal");
  for (size_t i = 0; i < TSG_NCH; i++) if (i < s->num_chains) {
    bool move = false;
    if (g_inside[i]) {
      double vnew = g_pdf[i], vold = g_old_pdf[i];
      if (vnew > vold) move = true;
      else if (g_form == 0) { move = (tsg_fdiv(vnew, vold) >= g_draw[2 * s->num_chains + r]); r++; }
      else { move = (tsg_fsub(vnew, vold) >= g_logv[l]); l++; r++; }
    }
    g_expect_move[i] = move;
    for (size_t d = 0; d < TSG_NDIM; d++) if (d < nd) {
      if (move) __CPROVER_assert(TSG_SAME(v[i * nd + d], g_prop[i][d]), "F14 an accepted chain moves to its in-domain proposal");
      else      __CPROVER_assert(TSG_SAME(v[i * nd + d], g_old_state[i * nd + d]), "F14 a rejected or out-of-domain chain keeps its state");
    }
    if (move) g_state_inside[i] = g_inside[i];
  }
  __CPROVER_assert(g_ndraw == 2 * s->num_chains + r, "F14 one acceptance draw exactly for the chains that need the random test");
  for (size_t q = 0; q < TSG_NCH * TSG_NDIM; q++) if (q < n) s->state[q] = v[q];
  s->init_state = true; s->init_values = false;
}
void TasmanianDREAM_setPDFvalues_vec(TasmanianDREAM *s, const double *v, size_t n){
  __CPROVER_assert(n == s->num_chains, "F14 setPDFvalues receives num_chains values");
  for (size_t i = 0; i < TSG_NCH; i++) if (i < s->num_chains) {
    if (g_expect_move[i]) __CPROVER_assert(TSG_SAME(v[i], g_pdf[i]), "F14 the recorded probability of a moved chain is the pdf value returned for its proposal");
    else                  __CPROVER_assert(TSG_SAME(v[i], g_old_pdf[i]), "F14 the recorded probability of a chain that stays is unchanged");
    s->pdf_values[i] = v[i];
  }
  s->init_values = true;
  g_iterations++;
  ghost_begin_iteration(s);
}
void TasmanianDREAM_saveStateHistory(TasmanianDREAM *s, size_t num_accepted){
  size_t moves = 0;
  for (size_t i = 0; i < TSG_NCH; i++) if (i < s->num_chains) {
    __CPROVER_assert(g_state_inside[i], "F14 every recorded sample satisfies the domain test");
    if (g_expect_move[i]) moves++;
  }
  __CPROVER_assert(num_accepted == moves, "F15 the acceptance count is the number of chains that moved");
  s->history_size += s->num_chains * s->num_dimensions;
  s->pdf_history_size += s->num_chains;
  s->accepted += num_accepted;
  g_saves++;
}
#endif

//@ harness h_SampleDREAM
void h_SampleDREAM(void){
  TasmanianDREAM st;
  int a_burnup = nondet_int(), a_collect = nondet_int();
  st.num_chains = nondet_size_t(); st.num_dimensions = nondet_size_t();
  __CPROVER_assume(st.num_chains <= TSG_NCH && st.num_dimensions >= 1 && st.num_dimensions <= TSG_NDIM);
  __CPROVER_assume(a_burnup <= TSG_NITER && a_collect <= TSG_NITER);
  __CPROVER_assume((a_burnup > 0 ? a_burnup : 0) + (a_collect > 0 ? a_collect : 0) <= TSG_NITER);
  st.init_state = nondet_bool(); st.init_values = nondet_bool();
  __CPROVER_assume(!st.init_values || st.init_state);
  st.history_size = nondet_size_t(); st.pdf_history_size = nondet_size_t(); st.accepted = nondet_size_t();
  __CPROVER_assume(st.history_size < 1000000 && st.pdf_history_size < 1000000 && st.accepted < 1000000);
  for (size_t i = 0; i < TSG_NCH; i++) g_state_inside[i] = true;      /* initial state inside the domain (hypothesis of C15) */
  g_state = &st; g_form = TSG_FORM; g_saves = 0; g_iterations = 0; tsg_exc = 0;
  size_t h0 = st.history_size, p0 = st.pdf_history_size;
  bool ready = st.init_state;
  ghost_begin_iteration(&st);
  TSG_SAMPLE(a_burnup, a_collect, &st);
  size_t collect = a_collect > 0 ? (size_t) a_collect : 0, total = (a_burnup > 0 ? (size_t) a_burnup : 0) + collect;
  if (st.num_chains == 0) {
    __CPROVER_assert(tsg_exc == 0 && st.history_size == h0, "F15 a null state is left alone");
  } else if (!ready) {
    __CPROVER_assert(tsg_exc == TSG_RUNTIME_ERROR && st.history_size == h0 && g_iterations == 0, "F15 sampling without setState raises runtime_error and does nothing");
  } else {
    __CPROVER_assert(tsg_exc == 0, "F15 no exception for a ready state");
    __CPROVER_assert(g_iterations == total, "F15 exactly max(burnup,0)+max(collect,0) iterations");
    __CPROVER_assert(g_saves == collect, "F15 exactly num_collect snapshots are recorded");
    __CPROVER_assert(st.history_size == h0 + collect * st.num_chains * st.num_dimensions, "F15 history grows by num_collect x chains x dimensions");
    __CPROVER_assert(st.pdf_history_size == p0 + collect * st.num_chains, "F15 pdf history grows by num_collect x chains");
  }
  __CPROVER_assert(0, "VACUITY-CANARY");
}

//@ contract TasmanianDREAM_getIJKdelta
__CPROVER_requires(__CPROVER_is_fresh(self, sizeof(*self)))
__CPROVER_requires(self->num_dimensions >= 1 && self->num_dimensions <= TSG_NDIM && self->num_chains >= 1 && self->num_chains <= TSG_NCH)
__CPROVER_requires(i < self->num_chains && j < self->num_chains && k < self->num_chains)
__CPROVER_requires(x_size == self->num_dimensions && __CPROVER_is_fresh(x, TSG_NDIM * sizeof(double)))
__CPROVER_assigns(__CPROVER_object_whole(x))
__CPROVER_ensures(w == 0.0 ==> TSG_SAME(x[0], self->state[i * self->num_dimensions]))
__CPROVER_ensures(1)

//@ harness h_getIJKdelta
void h_getIJKdelta(void){
  TasmanianDREAM *s = 0; double *x = 0;
  size_t a_i = nondet_size_t(), a_j = nondet_size_t(), a_k = nondet_size_t(), a_n = nondet_size_t();
  double a_w = nondet_double();
  TasmanianDREAM_getIJKdelta(s, a_i, a_j, a_k, a_w, x, a_n);
  __CPROVER_assert(0, "VACUITY-CANARY");
}

//@ harness h_F13_block
/* The five lines that turn two draws into chain indices, cut out of SampleDREAM as a block
 * and wrapped; num_chains is ANY positive size (unbounded), the draws ANY doubles in [0,1]. */
size_t g13_num_chains; bool g13_called;
void F13_getIJKdelta(size_t i, size_t j, size_t k){
  __CPROVER_assert(i < g13_num_chains, "F13 chain index i in range at the call of getIJKdelta");
  __CPROVER_assert(j < g13_num_chains, "F13 chain index j in range at the call of getIJKdelta");
  __CPROVER_assert(k < g13_num_chains, "F13 chain index k in range at the call of getIJKdelta");
  g13_called = true;
}
double g13_r1, g13_r2; int g13_calls;
double cb13_get_random01(void){ g13_calls++; return (g13_calls == 1) ? g13_r1 : g13_r2; }
void h_F13_block(void){
  size_t a_num_chains = nondet_size_t(), a_i = nondet_size_t();
  double a_r1 = nondet_double(), a_r2 = nondet_double();
  __CPROVER_assume(a_r1 >= 0.0 && a_r1 <= 1.0 && a_r2 >= 0.0 && a_r2 <= 1.0);   /* closed interval */
  size_t num_chains = a_num_chains, i = a_i;
  g13_r1 = a_r1; g13_r2 = a_r2; g13_calls = 0;
  __CPROVER_assume(num_chains >= 1 && num_chains <= (1ul << 40) && i < num_chains);
  g13_num_chains = num_chains; g13_called = false;
  double unitlength = (double) num_chains;
  F13_BLOCK
  __CPROVER_assert(g13_called, "F13 the block reaches the call");
  __CPROVER_assert(0, "VACUITY-CANARY");
}

//@ text2
/* the small state members, extracted and enforced against their own contracts (job dream.state_members) */
double g_hist_last[TSG_NCH * TSG_NDIM], g_pdf_hist_last[TSG_NCH];
void hist_append(TasmanianDREAM *s, const double *v, size_t n){ for (size_t k = 0; k < TSG_NCH * TSG_NDIM; k++) if (k < n) g_hist_last[k] = v[k]; s->history_size += n; }
void pdf_hist_append(TasmanianDREAM *s, const double *v, size_t n){ for (size_t k = 0; k < TSG_NCH; k++) if (k < n) g_pdf_hist_last[k] = v[k]; s->pdf_history_size += n; }
enum { VEC_state, VEC_pdf_values, VEC_history, VEC_pdf_history };
bool g_dropped[4];      /* ghost: the vector was replaced by an empty one */
void vec_drop(TasmanianDREAM *s, int which){ g_dropped[which] = true; if (which == VEC_history) s->history_size = 0; if (which == VEC_pdf_history) s->pdf_history_size = 0; }
//@ harness h_state_members
void h_state_members(void){
  TasmanianDREAM st, old;
  st.num_chains = nondet_size_t(); st.num_dimensions = nondet_size_t();
  __CPROVER_assume(st.num_chains >= 1 && st.num_chains <= TSG_NCH && st.num_dimensions >= 1 && st.num_dimensions <= TSG_NDIM);
  st.init_state = nondet_bool(); st.init_values = nondet_bool(); st.accepted = nondet_size_t(); st.history_size = nondet_size_t(); st.pdf_history_size = nondet_size_t();
  __CPROVER_assume(st.accepted < 1000000 && st.history_size < 1000000 && st.pdf_history_size < 1000000);
  for (size_t k = 0; k < TSG_NCH * TSG_NDIM; k++) st.state[k] = nondet_double();
  for (size_t k = 0; k < TSG_NCH; k++) st.pdf_values[k] = nondet_double();
  old = st;
  double arg[TSG_NCH * TSG_NDIM]; size_t a_n = nondet_size_t(), a_acc = nondet_size_t(); int a_which = nondet_int();
  __CPROVER_assume(a_n <= TSG_NCH * TSG_NDIM && a_acc <= TSG_NCH && a_which >= 0 && a_which <= 4);
  for (int k = 0; k < 4; k++) g_dropped[k] = false;
  for (size_t k = 0; k < TSG_NCH * TSG_NDIM; k++) arg[k] = nondet_double();
  tsg_exc = 0;
  size_t nd = st.num_chains * st.num_dimensions;
  if (a_which == 0) {
    TasmanianDREAM_setState_vec(&st, arg, a_n);
    if (a_n != nd) __CPROVER_assert(tsg_exc == TSG_RUNTIME_ERROR && st.init_state == old.init_state && st.init_values == old.init_values, "F15 setState rejects a vector of the wrong size and changes nothing");
    else {
      __CPROVER_assert(tsg_exc == 0 && st.init_state && !st.init_values, "F15 a new state is marked ready and invalidates the cached probability values");
      for (size_t k = 0; k < TSG_NCH * TSG_NDIM; k++) if (k < nd) __CPROVER_assert(TSG_SAME(st.state[k], arg[k]), "F15 setState stores the given chain states");
    }
  } else if (a_which == 1) {
    TasmanianDREAM_setPDFvalues_vec(&st, arg, a_n);
    if (a_n != st.num_chains) __CPROVER_assert(tsg_exc == TSG_RUNTIME_ERROR && st.init_values == old.init_values, "F15 setPDFvalues rejects a vector of the wrong size");
    else {
      __CPROVER_assert(tsg_exc == 0 && st.init_values && st.init_state == old.init_state, "F15 setPDFvalues marks the probability values ready");
      for (size_t k = 0; k < TSG_NCH; k++) if (k < st.num_chains) __CPROVER_assert(TSG_SAME(st.pdf_values[k], arg[k]), "F15 setPDFvalues stores the given values");
    }
  } else if (a_which == 3) {
    TasmanianDREAM_clearPDFvalues(&st);
    __CPROVER_assert(g_dropped[VEC_pdf_values] && !st.init_values, "F15 clearPDFvalues frees the cached probability values and marks them not ready (representation invariant: init_values implies num_chains stored values)");
    __CPROVER_assert(!g_dropped[VEC_state] && !g_dropped[VEC_history] && !g_dropped[VEC_pdf_history] && st.init_state == old.init_state && st.history_size == old.history_size && st.pdf_history_size == old.pdf_history_size && st.accepted == old.accepted, "F15 clearPDFvalues touches nothing else");
  } else if (a_which == 4) {
    TasmanianDREAM_clearHistory(&st);
    __CPROVER_assert(g_dropped[VEC_history] && g_dropped[VEC_pdf_history] && st.history_size == 0 && st.pdf_history_size == 0 && st.accepted == 0, "F15 clearHistory empties the samples AND their probability values and resets the acceptance count (history holds dimensions numbers per recorded value)");
    __CPROVER_assert(!g_dropped[VEC_state] && !g_dropped[VEC_pdf_values] && st.init_state == old.init_state && st.init_values == old.init_values, "F15 clearHistory keeps the current chain states and their cached values");
  } else {
    TasmanianDREAM_saveStateHistory(&st, a_acc);
    __CPROVER_assert(st.history_size == old.history_size + nd && st.pdf_history_size == old.pdf_history_size + st.num_chains && st.accepted == old.accepted + a_acc, "F15 a snapshot appends chains x dimensions states, chains probability values and the acceptance count");
    for (size_t k = 0; k < TSG_NCH * TSG_NDIM; k++) if (k < nd) __CPROVER_assert(TSG_SAME(g_hist_last[k], old.state[k]), "F15 the recorded samples are the current chain states");
    for (size_t k = 0; k < TSG_NCH; k++) if (k < st.num_chains) __CPROVER_assert(TSG_SAME(g_pdf_hist_last[k], old.pdf_values[k]), "F15 the recorded probability values are the current ones");
  }
  __CPROVER_assert(0, "VACUITY-CANARY");
}
