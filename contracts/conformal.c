/* C10 -- conformal (asin) maps.  R13: lgamma/log/exp/abs are uninterpreted (any value); R14: every access to a
 * per-dimension table is checked to use the row of the coordinate being mapped.  Decided here, for every input:
 *   - separability: coordinate j is computed from x[j] and row j of c/p/dc/dp/cm/conformal_asin_power only;
 *   - table safety: every column index is inside the row that was sized for it;
 *   - no conformal transform => the points / weights are untouched; a coordinate equal to 0 stays 0;
 *   - frame: only x (or weights) is written.
 * NOT decided: the values of the map, convergence of the Newton iteration (the exit test is an uninterpreted
 * predicate; at most TSG_NEWTON iterations are explored).                                                   */
//@ text
#ifndef TSG_NDIM
#define TSG_NDIM 2
#endif
#ifndef TSG_NP
#define TSG_NP 3
#endif
#ifndef TSG_NPTS
#define TSG_NPTS 1
#endif
#ifndef TSG_NEWTON
#define TSG_NEWTON 2
#endif
typedef struct { int dims; int conformal_asin_power[TSG_NDIM]; size_t conformal_asin_power_size; } TSGT;
static int tsg_rowchk(int e, int j){ __CPROVER_assert(e == j, "C10 separable map: data of coordinate j are taken from row j of the per-dimension tables"); return e; }
static int tsg_colchk(int b, size_t len){ __CPROVER_assert(b >= 0 && (size_t) b < len, "C10 table column inside the row sized for this dimension"); return b; }
#define TSG_ROW(e) tsg_rowchk((e), j)
#define TSG_COL(v, a, b) tsg_colchk((b), v##_len[(a)])
double tsg_u_lgamma(double x){ return nondet_double(); }
double tsg_u_log(double x){ return nondet_double(); }
double tsg_u_exp(double x){ return nondet_double(); }
double tsg_u_fabs(double x){ return nondet_double(); }
int g_newton;
bool tsg_fp_gt(double a, double tol){ if (g_newton >= TSG_NEWTON) return false; g_newton++; return nondet_bool(); }
void base_getPoints(const TSGT *self, double *x){ for (int k = 0; k < TSG_NDIM * TSG_NPTS; k++) x[k] = nondet_double(); }

//@ harness h_conformal
void h_conformal(void){
  TSGT s; int a_which = TSG_WHICH, a_np = nondet_int(), a_nd = nondet_int(); bool a_set = nondet_bool();
  __CPROVER_assume(a_nd >= 1 && a_nd <= TSG_NDIM && a_np >= 0 && a_np <= TSG_NPTS && a_which >= 0 && a_which <= 2);
  s.dims = a_nd; s.conformal_asin_power_size = a_set ? (size_t) a_nd : 0;
  for (int d = 0; d < TSG_NDIM; d++) { s.conformal_asin_power[d] = nondet_int(); __CPROVER_assume(s.conformal_asin_power[d] >= 0 && s.conformal_asin_power[d] < TSG_NP); }
  double x[TSG_NDIM * TSG_NPTS], x0[TSG_NDIM * TSG_NPTS];
  for (int k = 0; k < TSG_NDIM * TSG_NPTS; k++) { x[k] = nondet_double(); x0[k] = x[k]; }
  g_newton = 0;
  if (a_which == 0) mapConformalCanonicalToTransformed(&s, a_nd, a_np, x);
  else if (a_which == 1) mapConformalTransformedToCanonical(&s, a_nd, a_np, x);
  else mapConformalWeights(&s, a_nd, a_np, x);
  for (int k = 0; k < TSG_NDIM * TSG_NPTS; k++) {
    if (!a_set) __CPROVER_assert(TSG_SAME(x[k], x0[k]), "C10 without a conformal transform the points and weights are untouched");
    if (a_which <= 1 && x0[k] == 0.0) __CPROVER_assert(TSG_SAME(x[k], x0[k]), "C10 the conformal map and its inverse keep a zero coordinate");
    if (k >= a_nd * a_np || (a_which == 2 && k >= a_np)) __CPROVER_assert(TSG_SAME(x[k], x0[k]), "C10 nothing beyond the given points is written");
  }
  __CPROVER_assert(0, "VACUITY-CANARY");
}

//@ text2
/* composition order: the four maps are stubs that log their identity; contracts of the maps themselves: transforms.c (linear), above (conformal) */
typedef int TypeOneDRule;
typedef struct { size_t domain_transform_a_size, conformal_asin_power_size; int dims; } TSGC;
enum { M_CONF_FWD = 1, M_LIN_FWD, M_CONF_INV, M_LIN_INV };
int g_log[4], g_nlog; const double *g_arg[4];
static void g_push(int m, const double *x){ if (g_nlog < 4) { g_log[g_nlog] = m; g_arg[g_nlog] = x; } g_nlog++; }
int base_getNumDimensions(const TSGC *self){ return self->dims; }
TypeOneDRule base_getRule(const TSGC *self){ return 0; }
/* as in the repository, the conformal maps return at once when no conformal transform is set; the linear ones are guarded by their callers */
void mapConformalCanonicalToTransformed(const TSGC *self, int nd, int np, double x[]){ if (self->conformal_asin_power_size != 0) g_push(M_CONF_FWD, x); }
void mapConformalTransformedToCanonical(const TSGC *self, int nd, int np, double x[]){ if (self->conformal_asin_power_size != 0) g_push(M_CONF_INV, x); }
void mapCanonicalToTransformed(const TSGC *self, int nd, int np, TypeOneDRule r, double x[]){ __CPROVER_assert(self->domain_transform_a_size != 0, "C10 the linear map is applied only when a domain transform is set"); g_push(M_LIN_FWD, x); }
void mapTransformedToCanonical(const TSGC *self, int nd, int np, TypeOneDRule r, double x[]){ __CPROVER_assert(self->domain_transform_a_size != 0, "C10 the linear map is applied only when a domain transform is set"); g_push(M_LIN_INV, x); }
static void tsg_data2d_copy(double *dst, int nd, int np, const double *src){ for (int k = 0; k < 2; k++) if (k < nd * np) dst[k] = src[k]; }

//@ harness h_composition
void h_composition(void){
  TSGC s; s.dims = 2; s.domain_transform_a_size = nondet_bool() ? 2 : 0; s.conformal_asin_power_size = nondet_bool() ? 2 : 0;
  double x[2] = { nondet_double(), nondet_double() }, tmp[2];
  g_nlog = 0;
  formTransformedPoints(&s, 1, x);
  int nf = g_nlog; int f0 = g_log[0], f1 = g_log[1];
  __CPROVER_assert(nf == (s.domain_transform_a_size != 0) + (s.conformal_asin_power_size != 0), "C10 formTransformedPoints applies exactly the transforms that are set");
  g_nlog = 0;
  const double *r = formCanonicalPoints(&s, x, tmp, 1);
  __CPROVER_assert(g_nlog == nf, "C10 formCanonicalPoints undoes exactly the transforms that are set");
  if (nf == 0) __CPROVER_assert(r == x, "C10 without transforms the points are used as they are");
  if (nf >= 1) __CPROVER_assert(r == tmp && g_arg[0] == tmp, "C10 the caller's points are not overwritten: the pull-back works on the copy");
  /* the inverse of a composition is the composition of the inverses in the REVERSE order */
  if (nf == 2) __CPROVER_assert(f0 == M_CONF_FWD && f1 == M_LIN_FWD && g_log[0] == M_LIN_INV && g_log[1] == M_CONF_INV, "C10 the conformal map composes with the linear transform: points = linear(conformal(canonical)), pull-back = conformal^-1(linear^-1(x))");
  if (nf == 1) __CPROVER_assert((f0 == M_CONF_FWD && g_log[0] == M_CONF_INV) || (f0 == M_LIN_FWD && g_log[0] == M_LIN_INV), "C10 a single transform is undone by its own inverse");
  __CPROVER_assert(0, "VACUITY-CANARY");
}

//@ text3
/* integrate() / getQuadratureWeights(): composition of the conformal correction (weights) and the linear scale.  Ghost: every entry records how often it was scaled and by what. */
typedef int TypeOneDRule;
#ifndef TSG_NPNT
#define TSG_NPNT 3
#endif
typedef struct { size_t domain_transform_a_size, conformal_asin_power_size; int dims, outs, npoints, loaded; } TSGC;
double g_scale; int g_nscaled; bool g_scaled_wrong; bool g_conf_applied, g_base_got_correction, g_base_called;
int base_getNumDimensions(const TSGC *s){ return s->dims; }
TypeOneDRule base_getRule(const TSGC *s){ return 0; }
int base_getNumPoints(const TSGC *s){ return s->npoints; }
int base_getNumOutputs(const TSGC *s){ return s->outs; }
int base_getNumLoaded(const TSGC *s){ return s->loaded; }        /* 0 while nothing is loaded, otherwise the number of points */
int base_getNumNeeded(const TSGC *s){ return s->loaded == 0 ? s->npoints : nondet_int(); }
void base_integrateHierarchicalFunctions(const TSGC *s, double *w){ g_base_called = true; for (int i = 0; i < TSG_NPNT; i++) if (i < s->npoints) w[i] = nondet_double(); }
const double *g_corr;
void mapConformalWeights(const TSGC *s, int nd, int np, double w[]){ __CPROVER_assert(nd == s->dims && np == s->npoints, "C10 the conformal weights are computed for all points of the grid"); if (s->conformal_asin_power_size != 0) { g_conf_applied = true; g_corr = w; } }
void base_integrate(const TSGC *s, double q[], const double *correction){ g_base_called = true; g_base_got_correction = (correction != 0) && (correction == g_corr); for (int k = 0; k < 2; k++) if (k < s->outs) q[k] = nondet_double(); }
void base_getQuadratureWeights(const TSGC *s, double *w){ g_base_called = true; for (int i = 0; i < TSG_NPNT; i++) if (i < s->npoints) w[i] = nondet_double(); }
double getQuadratureScale(const TSGC *s, int nd, TypeOneDRule r){ __CPROVER_assert(s->domain_transform_a_size != 0 && nd == s->dims, "C10 the linear scale is computed only for a grid with a domain transform, for all its dimensions"); g_scale = nondet_double(); return g_scale; }
double tsg_scaled(double v, double sc){ g_nscaled++; if (!TSG_SAME(sc, g_scale)) g_scaled_wrong = true; return nondet_double(); }

//@ harness h_integrate
void h_integrate(void){
  TSGC s; s.dims = 2; s.outs = nondet_int(); s.npoints = nondet_int();
  __CPROVER_assume(s.outs >= 0 && s.outs <= 2 && s.npoints >= 0 && s.npoints <= TSG_NPNT);
  s.domain_transform_a_size = nondet_bool() ? 2 : 0; s.conformal_asin_power_size = nondet_bool() ? 2 : 0;
  s.loaded = nondet_bool() ? s.npoints : 0;
  double q[TSG_NPNT];
  g_nscaled = 0; g_scaled_wrong = false; g_conf_applied = false; g_base_got_correction = false; g_base_called = false; g_corr = 0;
#if TSG_WHICH == 0
  TSG_integrate(&s, q);
  int n = s.outs;
  __CPROVER_assert(g_base_called && (g_base_got_correction == (s.conformal_asin_power_size != 0)), "C10 integrate(): the family integrates with the conformal correction exactly when a conformal transform is set");
#elif TSG_WHICH == 1
  TSG_getQuadratureWeights(&s, q);
  int n = s.npoints;
  __CPROVER_assert(g_base_called && (g_conf_applied == (s.conformal_asin_power_size != 0)), "C10 getQuadratureWeights(): the conformal factor is applied exactly when a conformal transform is set");
#else
  TSG_integrateHierarchicalFunctions(&s, q);
  int n = s.npoints;          /* one integral per point of the grid, loaded or not */
  __CPROVER_assert(g_base_called, "C10 integrateHierarchicalFunctions(): the family computes the canonical integrals");
#endif
  __CPROVER_assert(g_nscaled == (s.domain_transform_a_size != 0 ? n : 0) && !g_scaled_wrong, "C10 the quadrature scale of the linear transform multiplies every entry exactly once whenever a domain transform is set, with or without a conformal transform");
  __CPROVER_assert(0, "VACUITY-CANARY");
}
