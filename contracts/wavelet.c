/* C12 (narrow claim) -- a const query writes nothing but its output arguments.
 * For non-mutable members the C++ compiler enforces this; the only CPU-side `mutable` member is
 * GridWavelet::inter_matrix.  F12: the frame of the three wavelet weight queries is the `weights`
 * array only -- enforced by goto-instrument's assigns-clause instrumentation (dfcc), with the
 * callees replaced by their contracts (buildInterpolationMatrix assigns the cached matrix).        */

//@ text
#ifndef TSG_NPMAX
#define TSG_NPMAX 3
#endif
#define TSG_NDMAX 2
typedef struct { int rows; int version; } WaveletBasisMatrix;
int tsg_expected_rows;      /* ghost: the size of the working set of the grid under test (bound by the contracts below) */
typedef struct GridWavelet { int num_dimensions, num_outputs, points_n, needed_n; WaveletBasisMatrix inter_matrix; } GridWavelet;

//@ stub GridWavelet_evalIntegral
double GridWavelet_evalIntegral(const GridWavelet *self, int i)
__CPROVER_requires(1) __CPROVER_ensures(1) __CPROVER_assigns()
;
double GridWavelet_evalBasis(const GridWavelet *self, int i, const double x[])
__CPROVER_requires(1) __CPROVER_ensures(1) __CPROVER_assigns()
;
void GridWavelet_evalDiffBasis(const GridWavelet *self, int i, const double x[], double *out)
__CPROVER_requires(__CPROVER_w_ok(out, TSG_NDMAX * 0 + sizeof(double))) __CPROVER_ensures(1) __CPROVER_assigns(*out)
;
int WaveletBasisMatrix_getNumRows(const WaveletBasisMatrix *m)
__CPROVER_requires(1) __CPROVER_ensures(__CPROVER_return_value == m->rows) __CPROVER_assigns()
;
void WaveletBasisMatrix_invertTransposed(const WaveletBasisMatrix *m, double *b)
__CPROVER_requires(m->rows == tsg_expected_rows)      /* C04: the system solved is the one of the current working set (one row per point), not a stale cache */ __CPROVER_ensures(1) __CPROVER_assigns(__CPROVER_object_whole(b))
;
/* the const method that fills the mutable cache */
void GridWavelet_buildInterpolationMatrix(GridWavelet *self)
__CPROVER_requires(1)
__CPROVER_ensures(self->inter_matrix.rows == ((self->points_n == 0) ? self->needed_n : self->points_n))
__CPROVER_assigns(self->inter_matrix)
;

//@ contract GridWavelet_getQuadratureWeights
__CPROVER_requires(__CPROVER_is_fresh(self, sizeof(*self)) && __CPROVER_is_fresh(weights, TSG_NPMAX * TSG_NDMAX * sizeof(double)))
__CPROVER_requires(self->points_n >= 0 && self->points_n <= TSG_NPMAX && self->needed_n >= 0 && self->needed_n <= TSG_NPMAX && self->num_dimensions >= 1 && self->num_dimensions <= TSG_NDMAX)
__CPROVER_requires(tsg_expected_rows == ((self->points_n == 0) ? self->needed_n : self->points_n))
@WARM@
__CPROVER_ensures(1)
__CPROVER_assigns(__CPROVER_object_whole(weights)@CACHE@)
//@ contract GridWavelet_getInterpolationWeights
__CPROVER_requires(__CPROVER_is_fresh(self, sizeof(*self)) && __CPROVER_is_fresh(weights, TSG_NPMAX * TSG_NDMAX * sizeof(double)) && __CPROVER_is_fresh(x, TSG_NDMAX * sizeof(double)))
__CPROVER_requires(self->points_n >= 0 && self->points_n <= TSG_NPMAX && self->needed_n >= 0 && self->needed_n <= TSG_NPMAX && self->num_dimensions >= 1 && self->num_dimensions <= TSG_NDMAX)
__CPROVER_requires(tsg_expected_rows == ((self->points_n == 0) ? self->needed_n : self->points_n))
@WARM@
__CPROVER_ensures(1)
__CPROVER_assigns(__CPROVER_object_whole(weights)@CACHE@)
//@ contract GridWavelet_getDifferentiationWeights
__CPROVER_requires(__CPROVER_is_fresh(self, sizeof(*self)) && __CPROVER_is_fresh(weights, TSG_NPMAX * TSG_NDMAX * sizeof(double)) && __CPROVER_is_fresh(x, TSG_NDMAX * sizeof(double)))
__CPROVER_requires(self->points_n >= 0 && self->points_n <= TSG_NPMAX && self->needed_n >= 0 && self->needed_n <= TSG_NPMAX && self->num_dimensions >= 1 && self->num_dimensions <= TSG_NDMAX)
__CPROVER_requires(tsg_expected_rows == ((self->points_n == 0) ? self->needed_n : self->points_n))
@WARM@
__CPROVER_ensures(1)
__CPROVER_assigns(__CPROVER_object_whole(weights)@CACHE@)

//@ harness h_getQuadratureWeights
void h_getQuadratureWeights(void){ const GridWavelet *s = 0; double *w = 0; GridWavelet_getQuadratureWeights(s, w); __CPROVER_assert(0, "VACUITY-CANARY"); }
//@ harness h_getInterpolationWeights
void h_getInterpolationWeights(void){ const GridWavelet *s = 0; double *w = 0; const double *x = 0; GridWavelet_getInterpolationWeights(s, x, w); __CPROVER_assert(0, "VACUITY-CANARY"); }
//@ harness h_getDifferentiationWeights
void h_getDifferentiationWeights(void){ const GridWavelet *s = 0; double *w = 0; const double *x = 0; GridWavelet_getDifferentiationWeights(s, x, w); __CPROVER_assert(0, "VACUITY-CANARY"); }
