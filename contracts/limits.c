/* C08 -- level limits bound every proposed point (F7 - F11), and C07-F5 (children added by the
 * classic refinement are exactly the missing kids in the chosen direction).
 * The obligations sit in the ghost `append_strip` (every strip a selector appends is checked):
 *   - it differs from its parent strip in exactly one coordinate, the one that was incremented /
 *     replaced by a kid;
 *   - that coordinate obeys the limit OF THAT DIMENSION; a limit of -1 never rejects.         */

//@ text
#ifndef TSG_NDIM
#define TSG_NDIM 3
#endif
enum { SET_EXCLUDE = 0, SET_TENSORS = 1 };
const int *g_parent; const int *g_limits; size_t g_nd;
int g_mode;             /* 0: multi-index children (coordinate + 1), 1: hierarchy children (kid of a point) */
int g_direction;        /* mode 1: the refined direction */
int g_appended; bool g_missing_answer[2]; bool g_lower_complete; int g_expected_appends;
bool g_check_limits;
int  g_last_dim;
bool set_missing(int which, const int *strip, size_t n){ return nondet_bool(); }
bool is_lower_complete(const int *strip, size_t n){ return nondet_bool(); }

//@ text
void append_strip(const int *kid, size_t n){
  __CPROVER_assert(n == g_nd, "F a whole strip is appended");
  int changed = -1, nchanged = 0;
  for (size_t j = 0; j < TSG_NDIM; j++) if (j < n && kid[j] != g_parent[j]) { changed = (int) j; nchanged++; }
  __CPROVER_assert(nchanged == 1, "F5/F9 a proposed strip differs from its parent in exactly one coordinate");
  if (nchanged == 1) {
    if (g_mode == 0) {
      __CPROVER_assert(kid[changed] == g_parent[changed] + 1, "F8/F9 the child index is the parent index plus one in that dimension");
      if (g_check_limits)
        __CPROVER_assert(g_limits[changed] == -1 || kid[changed] <= g_limits[changed], "F8/F9 a proposed child obeys the level limit of the dimension that was incremented");
    } else {
      __CPROVER_assert(changed == g_direction, "F5 only the refined direction changes");
      __CPROVER_assert(kid[changed] != -1 && (kid[changed] == HKID(g_parent[changed], 0) || kid[changed] == HKID(g_parent[changed], 1) || kid[changed] == HKID(g_parent[changed], 2) || kid[changed] == HKID(g_parent[changed], 3)),
                       "F5 the new coordinate is a kid of the refined point");
      if (g_check_limits)
        __CPROVER_assert(g_limits[changed] == -1 || HLEVEL(kid[changed]) <= g_limits[changed], "F7 the level of a proposed kid does not exceed the limit of its direction");
    }
  }
  g_appended++;
}

//@ harness h_addChildLimited
void h_addChildLimited(void){
  int point[TSG_NDIM], lim[TSG_NDIM];
  size_t a_nd = nondet_size_t(); int a_dir = nondet_int();
  __CPROVER_assume(a_nd >= 1 && a_nd <= TSG_NDIM && a_dir >= 0 && (size_t) a_dir < a_nd);
  for (size_t j = 0; j < TSG_NDIM; j++) { point[j] = nondet_int(); lim[j] = nondet_int(); __CPROVER_assume(point[j] >= 0 && point[j] < HPMAX && lim[j] >= -1 && lim[j] <= 40); }
  g_parent = point; g_limits = lim; g_nd = a_nd; g_mode = 1; g_direction = a_dir; g_appended = 0; g_check_limits = true;
  HADDLIMITED(a_nd, point, a_dir, lim);
  __CPROVER_assert(g_appended <= 4, "F7 at most one strip per kid slot");
  /* a limit of -1 leaves the dimension unrestricted: the limited variant then behaves like the unlimited one */
  __CPROVER_assert(0, "VACUITY-CANARY");
}
//@ harness h_addChild
void h_addChild(void){
  int point[TSG_NDIM];
  size_t a_nd = nondet_size_t(); int a_dir = nondet_int();
  __CPROVER_assume(a_nd >= 1 && a_nd <= TSG_NDIM && a_dir >= 0 && (size_t) a_dir < a_nd);
  for (size_t j = 0; j < TSG_NDIM; j++) { point[j] = nondet_int(); __CPROVER_assume(point[j] >= 0 && point[j] < HPMAX); }
  g_parent = point; g_limits = 0; g_nd = a_nd; g_mode = 1; g_direction = a_dir; g_appended = 0; g_check_limits = false;
  HADD(a_nd, point, a_dir);
  __CPROVER_assert(0, "VACUITY-CANARY");
}
//@ harness h_addExclusiveChildren
void h_addExclusiveChildren(void){
  int idx[2 * TSG_NDIM], lim[TSG_NDIM];
  int a_nd = nondet_int(), a_n = nondet_int();
  __CPROVER_assume(a_nd >= 1 && a_nd <= TSG_NDIM && a_n >= 0 && a_n <= 2);
  for (size_t j = 0; j < 2 * TSG_NDIM; j++) { idx[j] = nondet_int(); __CPROVER_assume(idx[j] >= 0 && idx[j] < 1000); }
  for (size_t j = 0; j < TSG_NDIM; j++) { lim[j] = nondet_int(); __CPROVER_assume(lim[j] >= -1 && lim[j] <= 1000); }
  g_limits = lim; g_nd = (size_t) a_nd; g_mode = 0; g_appended = 0; g_check_limits = true;
  addExclusiveChildren_limited(a_nd, a_n, idx, lim);
  __CPROVER_assert(0, "VACUITY-CANARY");
}
//@ harness h_selectFlaggedChildren
void h_selectFlaggedChildren(void){
  int idx[2 * TSG_NDIM], lim[TSG_NDIM]; bool fl[2];
  size_t a_nd = nondet_size_t(); int a_n = nondet_int();
  __CPROVER_assume(a_nd >= 1 && a_nd <= TSG_NDIM && a_n >= 0 && a_n <= 2);
  for (size_t j = 0; j < 2 * TSG_NDIM; j++) { idx[j] = nondet_int(); __CPROVER_assume(idx[j] >= 0 && idx[j] < 1000); }
  for (size_t j = 0; j < TSG_NDIM; j++) { lim[j] = nondet_int(); __CPROVER_assume(lim[j] >= -1 && lim[j] <= 1000); }
  fl[0] = nondet_bool(); fl[1] = nondet_bool();
  g_limits = lim; g_nd = a_nd; g_mode = 0; g_appended = 0; g_check_limits = true;
  selectFlaggedChildren_limited(a_nd, a_n, fl, idx, lim);
  __CPROVER_assert(0, "VACUITY-CANARY");
}
//@ harness h_limit_filter
void h_limit_filter(void){
  int index[TSG_NDIM], lim[TSG_NDIM];
  size_t a_nd = nondet_size_t();
  __CPROVER_assume(a_nd >= 1 && a_nd <= TSG_NDIM);
  bool violates = false;
  for (size_t j = 0; j < TSG_NDIM; j++) {
    index[j] = nondet_int(); lim[j] = nondet_int();
    __CPROVER_assume(index[j] >= 0 && lim[j] >= -1);
    if (j < a_nd && lim[j] > -1 && index[j] > lim[j]) violates = true;
  }
  bool accepted = LIMIT_FILTER(a_nd, index, lim);
  __CPROVER_assert(!(accepted && violates), "F10 an index accepted by the selection criterion obeys every non-negative level limit");
  __CPROVER_assert(accepted || violates, "F10 a limit of -1 never rejects an index (only a violated non-negative limit does)");
  __CPROVER_assert(0, "VACUITY-CANARY");
}
//@ harness h_full_tensor_clamp
void h_full_tensor_clamp(void){
  int np[TSG_NDIM], np0[TSG_NDIM], lim[TSG_NDIM];
  size_t a_nd = nondet_size_t(), a_ls = nondet_size_t();
  __CPROVER_assume(a_nd >= 1 && a_nd <= TSG_NDIM && (a_ls == 0 || a_ls == a_nd));
  for (size_t j = 0; j < TSG_NDIM; j++) { np[j] = nondet_int(); np0[j] = np[j]; lim[j] = nondet_int(); __CPROVER_assume(np[j] >= 1 && lim[j] >= -1 && lim[j] < 2147483647); }
  full_tensor_clamp(a_nd, np, lim, a_ls);
  for (size_t j = 0; j < TSG_NDIM; j++) if (j < a_nd) {
    if (a_ls != 0 && lim[j] >= 0) __CPROVER_assert(np[j] <= lim[j] + 1 && np[j] <= np0[j], "F11 the full tensor has at most limit+1 points (levels 0..limit) in a limited dimension");
    else __CPROVER_assert(np[j] == np0[j], "F11 a limit of -1 (or no limits) leaves the dimension unrestricted");
  }
  __CPROVER_assert(0, "VACUITY-CANARY");
}

//@ text
/* F11b: termination of the grow loop when the level limits are saturated.  Family contract (assumed):
 * with every limit >= 0 the points of updateGrid(level) lie in the full tensor of the limits, so the
 * needed count is non-decreasing in the level and constant (g_nsat) from the saturation level g_lsat on. */
int g_lsat, g_nsat, g_needed, g_updates;
void family_updateGrid(int level){
  __CPROVER_assert(level >= 1, "F11b updateGrid is called with increasing positive levels");
  int n = nondet_int();
  __CPROVER_assume(n >= g_needed && n <= g_nsat && (level < g_lsat || n == g_nsat));
  g_needed = n; g_updates++;
}
int family_getNumNeeded(void){ return g_needed; }
//@ loop growloop 0
__CPROVER_assigns(level, g_needed, g_updates)
__CPROVER_loop_invariant(0 <= level && level <= g_lsat && 0 <= g_needed && g_needed <= g_nsat)
__CPROVER_decreases(g_lsat - level)
//@ harness h_growloop
void h_growloop(void){
  int a_min_growth = nondet_int();
  g_lsat = nondet_int(); g_nsat = nondet_int();
  __CPROVER_assume(a_min_growth >= 1 && g_lsat >= 1 && g_lsat <= 1000000 && g_nsat >= 0);   /* every level limit is non-negative: a saturation level exists */
  g_needed = 0; g_updates = 0;
  GROWLOOP(a_min_growth);
  __CPROVER_assert(g_needed >= a_min_growth || g_needed == g_nsat, "F11b on return the requested growth is reached or no admissible point is left");
  __CPROVER_assert(0, "VACUITY-CANARY");
}

//@ text2
/* C08 "when the limits leave no admissible new point, refinement returns with zero needed points": ghost index sets (empty or not) */
typedef struct { bool empty; } gset;
typedef struct { gset needed, updated_tensors; } GS;
bool g_children_empty;
static gset gset_children(void){ gset s = { nondet_bool() }; g_children_empty = s.empty; return s; }       /* selectFlaggedChildren under the limits: any outcome */
static gset gset_plus_points(gset a){ gset s = { false }; return s; }
static gset gset_complete(gset a){ return a; }
static gset gset_minus_points(gset a){ gset s = { nondet_bool() }; return s; }
void fam_clearRefinement(GS *self){ self->needed.empty = true; self->updated_tensors.empty = true; }
void fam_proposeUpdatedTensors(GS *self){ self->needed.empty = nondet_bool(); }
void fam_prepareSequence(GS *self){ }

//@ harness h_surplus_sets
void h_surplus_sets(void){
  GS g; g.needed.empty = nondet_bool(); g.updated_tensors.empty = nondet_bool();      /* any earlier refinement may be pending */
  SURPLUS(&g);
  __CPROVER_assert(!g_children_empty || g.needed.empty, "C08 when the level limits (or the tolerance) leave no admissible child, surplus refinement returns with zero needed points: no stale refinement survives");
  __CPROVER_assert(!g_children_empty || g.updated_tensors.empty, "C08 ... and with no pending tensors");
  __CPROVER_assert(0, "VACUITY-CANARY");
}
