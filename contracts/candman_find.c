/* C17 / C18 -- CandidateManager::find (binary search over the sorted candidate list), the callee that the F16c job of
 * CandidateManager::complete replaces by "any slot or num_candidates".  Contract F16f: for every list size (loop contract, no unwinding)
 * the search terminates, never indexes outside `sorted` / `candidates`, writes nothing and returns a slot <= num_candidates, whatever compare() answers
 * (compare is replaced by a pure contract with an arbitrary answer: the tolerance comparisons of doubles made the solver time out, so that a
 * found slot matches the point is NOT stated here).                                                                                */

//@ text
#ifndef TSG_NC
#define TSG_NC 8
#endif
#define TSG_NDIM 2
static const double num_tol = 1.E-12;
typedef struct CandidateManager {
  size_t num_dimensions, num_batch, num_candidates, num_running, num_done;
  double candidates[TSG_NC * TSG_NDIM];
  size_t sorted[TSG_NC];
  int status[TSG_NC];
} CandidateManager;

//@ contract compare
__CPROVER_requires(1)
__CPROVER_ensures(1)
__CPROVER_assigns()
//@ contract find
__CPROVER_requires(__CPROVER_is_fresh(self, sizeof(*self)) && __CPROVER_is_fresh(point, TSG_NDIM * sizeof(double)))
__CPROVER_requires(self->num_dimensions >= 1 && self->num_dimensions <= TSG_NDIM && self->num_candidates <= TSG_NC)
__CPROVER_requires(__CPROVER_forall { size_t k; (k < TSG_NC) ==> ((k < self->num_candidates) ==> self->sorted[k] < self->num_candidates) })
__CPROVER_ensures(__CPROVER_return_value <= self->num_candidates)
__CPROVER_assigns()

//@ loop find 0
__CPROVER_assigns(sstart, send, current)
__CPROVER_loop_invariant(0 <= sstart && send < (int) self->num_candidates && sstart <= send + 1)
__CPROVER_loop_invariant(current == (sstart + send) / 2)
__CPROVER_decreases(send - sstart + 1)

//@ harness h_find
void h_find(void){
  const CandidateManager *s = 0; const double *p = 0;
  size_t r = CandidateManager_find(s, p); (void) r;
  __CPROVER_assert(0, "VACUITY-CANARY");
}
