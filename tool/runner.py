"""Runner: C text -> goto-cc -> (unwindset) -> goto-instrument --dfcc -> cbmc,
result parsing, solver portfolio, vacuity canaries, evidence, replay."""
import os, sys, json, subprocess, time, shutil, re, resource, signal, threading, hashlib
from concurrent.futures import ThreadPoolExecutor, as_completed

VERIF = os.path.dirname(os.path.dirname(os.path.abspath(__file__)))
WORK = os.path.join(VERIF, ".work")
INCLUDE = os.path.join(VERIF, "include")
MEM_LIMIT = 16 * 1024 ** 3

CHECK_FLAGS = ["--bounds-check", "--pointer-check", "--signed-overflow-check",
               "--undefined-shift-check", "--div-by-zero-check"]

class Job:
    def __init__(self, name, ctext, entry, enforce=None, replace=(), loop_contracts=False,
                 unwind=None, unwindset=None, pre_unwindset=None, cbmc_args=(), backends=None,
                 timeout=300, bounded=None, split=False, defines=None, functions=(),
                 replay=None, info=None, object_bits=None, expect_fail=(), no_canary=False,
                 assumed=(), label=None, checks=None):
        self.name = name              # unique within the property run
        self.ctext = ctext
        self.entry = entry
        self.enforce = enforce
        self.replace = list(replace)
        self.loop_contracts = loop_contracts
        self.unwind = unwind
        self.unwindset = unwindset or {}          # {function-name-regex or loop id: N} applied at cbmc level
        self.pre_unwindset = pre_unwindset or {}  # applied by goto-instrument before dfcc
        self.cbmc_args = list(cbmc_args)
        self.backends = backends or [[]]
        self.timeout = timeout
        self.bounded = bounded        # None => unbounded / width-complete; str => bound description
        self.split = split
        self.defines = defines or {}
        self.functions = list(functions)   # functions under contract / in the unit (repo path:line)
        self.replay = replay          # callable(job, obligation, trace_values, workdir) -> (path, confirmed)
        self.info = info or {}
        self.object_bits = object_bits
        self.no_canary = no_canary
        self.assumed = list(assumed)  # assumed callee contracts / stubs
        self.label = label or name
        self.checks = CHECK_FLAGS if checks is None else checks

class JobResult:
    def __init__(self, job):
        self.job = job
        self.status = "undecided"    # ok | fail | undecided
        self.reason = ""
        self.obligations = []        # dicts: name, description, status, location
        self.canary = None
        self.backend = None
        self.solver_s = 0.0
        self.cmds = []
        self.traces = {}             # obligation name -> {var: value}
        self.raw_fail = {}           # obligation name -> text
        self.workdir = None

def _limits():
    resource.setrlimit(resource.RLIMIT_AS, (MEM_LIMIT, MEM_LIMIT))
    os.setsid()

def run_cmd(cmd, cwd, timeout, log=None):
    t0 = time.time()
    try:
        p = subprocess.Popen(cmd, cwd=cwd, stdout=subprocess.PIPE, stderr=subprocess.PIPE,
                             preexec_fn=_limits, text=True)
        try:
            out, err = p.communicate(timeout=timeout)
        except subprocess.TimeoutExpired:
            try: os.killpg(p.pid, signal.SIGKILL)
            except Exception: pass
            out, err = p.communicate()
            return None, out, err, time.time() - t0
        return p.returncode, out, err, time.time() - t0
    except Exception as e:
        return -99, "", str(e), time.time() - t0

def _loop_ids(gb, cwd):
    """Map function name -> list of loop ids, from goto-instrument --show-loops."""
    rc, out, err, _ = run_cmd(["goto-instrument", "--show-loops", gb], cwd, 120)
    ids = {}
    for m in re.finditer(r'^Loop ([\w$.:]+?)\.(\d+):', out or "", re.M):
        ids.setdefault(m.group(1), []).append(int(m.group(2)))
    return ids

def _resolve_unwindset(spec, ids):
    """spec: {regex on function name (or 'fn.N'): bound} -> ['fn.N:bound', ...]"""
    items = []
    for key, bound in spec.items():
        hit = False
        if re.match(r'^[\w$]+\.\d+$', key):
            items.append("%s:%d" % (key, bound)); continue
        for fn, lst in ids.items():
            if re.fullmatch(key, fn):
                for k in lst:
                    items.append("%s.%d:%d" % (fn, k, bound)); hit = True
        # a pattern that matches no loop is fine (function may be loop-free for this binding)
    return items

def parse_cbmc_json(out):
    try:
        data = json.loads(out)
    except Exception:
        return None, None, "unparsable cbmc output"
    results, status, errs = None, None, []
    for el in data:
        if not isinstance(el, dict):
            continue
        if "result" in el:
            results = el["result"]
        if "cProverStatus" in el:
            status = el["cProverStatus"]
        if el.get("messageType") == "ERROR":
            errs.append(el.get("messageText", ""))
    return results, status, "; ".join(errs)

def trace_values(trace):
    """Last assignment to each variable (base name) in a CBMC json trace; doubles are
    reconstructed from the binary representation."""
    vals = {}
    for st in trace or []:
        if st.get("stepType") != "assignment":
            continue
        lhs = st.get("lhs")
        v = st.get("value", {})
        if lhs is None or not isinstance(v, dict):
            continue
        data = v.get("data")
        if v.get("name") == "float" and "binary" in v and len(v["binary"]) == 64:
            import struct
            data = repr(struct.unpack(">d", int(v["binary"], 2).to_bytes(8, "big"))[0])
        if data is None:
            continue
        if isinstance(data, str) and re.match(r'^-?\d+[uUlL]+$', data):
            data = re.sub(r'[uUlL]+$', '', data)
        fn = (st.get("sourceLocation") or {}).get("function", "")
        vals[lhs] = data
        vals["%s::%s" % (fn, lhs)] = data
    return vals

CANARY = "VACUITY-CANARY"

_SLOTS = threading.BoundedSemaphore(max(2, (os.cpu_count() or 4)))     # at most one solver process per core

def run_job(job, propdir, verbose=False):
    res = JobResult(job)
    wd = os.path.join(propdir, re.sub(r'[^\w.-]', '_', job.name))
    os.makedirs(wd, exist_ok=True)
    res.workdir = wd
    with open(os.path.join(wd, "unit.c"), "w") as f:
        f.write(job.ctext)
    defs = ["-D%s=%s" % (k, v) for k, v in job.defines.items()]
    cmd = ["goto-cc", "-I" + INCLUDE, "-DTSG_CBMC"] + defs + ["--function", job.entry, "unit.c", "-o", "a.gb"]
    res.cmds.append(" ".join(cmd))
    rc, out, err, _ = run_cmd(cmd, wd, 120)
    if rc != 0:
        res.reason = "goto-cc failed: " + (err or out)[-800:]
        return res
    cur = "a.gb"
    if job.pre_unwindset:
        ids = _loop_ids(cur, wd)
        items = _resolve_unwindset(job.pre_unwindset, ids)
        if items:
            cmd = ["goto-instrument", "--unwindset", ",".join(items), "--unwinding-assertions", cur, "a1.gb"]
            res.cmds.append(" ".join(cmd))
            rc, out, err, _ = run_cmd(cmd, wd, 300)
            if rc != 0:
                res.reason = "goto-instrument --unwindset failed: " + (err or out)[-800:]
                return res
            cur = "a1.gb"
    if job.enforce or job.replace or job.loop_contracts:
        cmd = ["goto-instrument", "--dfcc", job.entry]
        if job.enforce:
            cmd += ["--enforce-contract", job.enforce]
        for g in job.replace:
            cmd += ["--replace-call-with-contract", g]
        if job.loop_contracts:
            cmd += ["--apply-loop-contracts"]
        cmd += [cur, "b.gb"]
        res.cmds.append(" ".join(cmd))
        rc, out, err, _ = run_cmd(cmd, wd, 600)
        if rc != 0:
            res.reason = "goto-instrument --dfcc failed: " + (err or out)[-1200:]
            return res
        cur = "b.gb"
    base = ["cbmc", cur] + job.checks + ["--json-ui", "--trace"]
    base += ["--object-bits", str(job.object_bits or 12)]
    if job.unwind:
        base += ["--unwind", str(job.unwind), "--unwinding-assertions"]
    if job.unwindset:
        ids = _loop_ids(cur, wd)
        items = _resolve_unwindset(job.unwindset, ids)
        if items:
            base += ["--unwindset", ",".join(items), "--unwinding-assertions"]
    base += job.cbmc_args

    def one_call(extra, tmo):
        """Run the portfolio; first definite answer wins."""
        procs = []
        lock = threading.Lock()
        winner = {}
        def run_backend(be):
            cmd = base + extra + be
            _SLOTS.acquire()
            try:
                with lock:
                    if winner.get("results") is not None:
                        return          # another back end already answered
                t0 = time.time()
                try:
                    p = subprocess.Popen(cmd, cwd=wd, stdout=subprocess.PIPE, stderr=subprocess.PIPE,
                                         preexec_fn=_limits, text=True)
                except Exception as e:
                    return
                with lock:
                    procs.append(p)
                try:
                    out, err = p.communicate(timeout=tmo)
                except subprocess.TimeoutExpired:
                    try: os.killpg(p.pid, signal.SIGKILL)
                    except Exception: pass
                    p.communicate()
                    return
            finally:
                _SLOTS.release()
            results, status, errs = parse_cbmc_json(out)
            if results is not None and status in ("success", "failure"):
                with lock:
                    if not winner:
                        winner.update(dict(results=results, status=status, backend=" ".join(be) or "minisat(default)",
                                           secs=time.time() - t0, cmd=" ".join(cmd)))
                        for q in procs:
                            if q is not p and q.poll() is None:
                                try: os.killpg(q.pid, signal.SIGKILL)
                                except Exception: pass
            else:
                with lock:
                    winner.setdefault("_errors", []).append((" ".join(be), (errs or "")[:500] + (err or "")[-500:]))
        ths = [threading.Thread(target=run_backend, args=(be,)) for be in job.backends]
        for t in ths: t.start()
        for t in ths: t.join()
        return winner

    calls = []
    if job.split:
        rc, out, err, _ = run_cmd(["cbmc", cur] + job.checks + ["--show-properties", "--json-ui"] +
                                  [a for a in base[2:] if a.startswith("--unwind") or a.startswith("--object") or re.match(r'^[\w.$,:]+$', a)], wd, 300)
        names = []
        try:
            for el in json.loads(out):
                if isinstance(el, dict) and "properties" in el:
                    names = [p["name"] for p in el["properties"]]
        except Exception:
            pass
        if not names:
            res.reason = "could not list properties for split run: " + (err or out)[-500:]
            return res
        # user assertions one per call; all automatically generated checks in one further call
        rest = []
        for nm in names:
            if re.search(job.split if isinstance(job.split, str) else r'\.assertion\.\d+$', nm):
                calls.append(["--property", nm])
            else:
                rest.append(nm)
        if rest:
            c = []
            for nm in rest:
                c += ["--property", nm]
            calls.append(c)
    else:
        calls.append([])
    allres = {}
    t_used = 0.0
    if len(calls) > 1:
        with ThreadPoolExecutor(max_workers=min(8, len(calls))) as ex:
            futs = {ex.submit(one_call, c, job.timeout): c for c in calls}
            outs = [(futs[f], f.result()) for f in as_completed(futs)]
    else:
        outs = [(calls[0], one_call(calls[0], job.timeout))]
    backends_used = set()
    for c, w in outs:
        if "results" not in w:
            res.reason = "no definite answer (timeout/memory/solver error) for %s %s: %s" % (
                job.name, " ".join(c), w.get("_errors", "timeout after %ds" % job.timeout))
            res.status = "undecided"
            return res
        res.cmds.append(w["cmd"])
        backends_used.add(w["backend"])
        t_used += w["secs"]
        wanted = set(c[1::2]) if c else None
        for r in w["results"]:
            if wanted is not None and r.get("property") not in wanted:
                continue
            allres[r["property"]] = r
    res.backend = ", ".join(sorted(backends_used))
    res.solver_s = round(t_used, 2)
    failed = False
    bound_fail = None
    for nm, r in sorted(allres.items()):
        desc = r.get("description", "")
        st = r.get("status", "")
        loc = r.get("sourceLocation", {}) or {}
        ob = {"name": nm, "description": desc, "status": st,
              "location": "%s:%s" % (loc.get("file", "?"), loc.get("line", "?")), "function": loc.get("function", "")}
        if CANARY in desc:
            if ob["function"] in ("", job.entry):      # a canary of another harness in the same text is unreachable from this entry: not this job's canary
                res.canary = (st == "FAILURE")
            continue
        res.obligations.append(ob)
        if st == "FAILURE" and "shim:" in desc:
            res.status = "undecided"
            res.reason = "bound of the run is insufficient (not a property violation): %s %s at %s" % (nm, desc, ob["location"])
            return res
        if st == "FAILURE" and (".unwind." in nm or "recursion" in nm):
            # paths beyond the bound are cut (assume false after the unwinding assertion): nothing is known beyond it, but a
            # counterexample of another obligation found within the bound is a real trace
            bound_fail = "bound of the run is insufficient (not a property violation): %s %s at %s" % (nm, desc, ob["location"])
            ob["status"] = "UNDECIDED"
            continue
        if st == "FAILURE":
            failed = True
            res.traces[nm] = trace_values(r.get("trace"))
            res.raw_fail[nm] = json.dumps({k: v for k, v in r.items() if k != "trace"}, indent=1)
        elif st != "SUCCESS":
            # CBMC leaves obligations UNKNOWN once paths are cut by a failed unwinding assertion; a FAILURE next to them still has a real trace
            bound_fail = bound_fail or "obligation %s has status %s" % (nm, st)
            ob["status"] = "UNDECIDED"
    if not res.obligations:
        res.reason = "vacuity: zero obligations generated"
        return res
    if not job.no_canary and res.canary is not True:
        res.reason = "vacuity: canary at the end of the harness is not reachable (contradictory requires?)"
        res.status = "undecided"
        return res
    if bound_fail and not failed:
        res.status = "undecided"
        res.reason = bound_fail
        return res
    if bound_fail:
        res.reason = bound_fail + " -- the failed obligations below have counterexamples within the bound"
    res.status = "fail" if failed else "ok"
    return res

def run_jobs(jobs, propdir, workers=None):
    """Run jobs in parallel.  Heavier jobs first."""
    jobs = sorted(jobs, key=lambda j: -j.timeout)
    ncpu = os.cpu_count() or 4
    results = []
    def weight(j):
        return max(1, len(j.backends)) * (4 if j.split else 1)
    w = workers or max(2, min(len(jobs), 2 * ncpu))      # solver processes are throttled by _SLOTS, not by the number of job threads
    with ThreadPoolExecutor(max_workers=w) as ex:
        futs = [ex.submit(run_job, j, propdir) for j in jobs]
        for f in futs:
            results.append(f.result())
    return results
