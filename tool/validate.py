import json, jsonschema, glob, sys
jsonschema.validate(json.load(open('/verif/MANIFEST.json')), json.load(open('/root/.vp/MANIFEST.schema.json')))
es = json.load(open('/root/.vp/EVIDENCE.schema.json'))
for f in sorted(glob.glob('/verif/evidence/*.json')):
    jsonschema.validate(json.load(open(f)), es)
    print("valid", f)
print("manifest valid")
