"""check <ID> [--tier quick|thorough] [--only REGEX] [--keep]
exit 0: every obligation discharged (failures only if listed as known findings)
exit 1: VIOLATION property=<id> replay=<path>
exit 2: undecided (extraction break, solver timeout, tool error) -- never a violation."""
import os, sys, json, time, re, shutil, argparse, importlib, traceback
from . import tsg2c as X
from . import runner, replay as RP
from .props import PROPS, PROP_META

VERIF = runner.VERIF

def load_findings():
    fs = []
    p = os.path.join(VERIF, "known_findings.txt")
    if os.path.exists(p):
        for line in open(p):
            line = line.strip()
            if not line.startswith("finding:"):
                continue
            m = re.match(r'finding:\s*property=(\w+)\s+job=(\S+)\s+obligation=(\S+)\s*::\s*(.*)$', line)
            if m:
                fs.append({"property": m.group(1), "job": m.group(2), "obligation": m.group(3), "text": m.group(4)})
    return fs

def selftest():
    import subprocess
    for t in ("cbmc", "goto-cc", "goto-instrument", "g++"):
        if shutil.which(t) is None:
            print("missing tool: " + t); return 2
    v = subprocess.run(["cbmc", "--version"], capture_output=True, text=True).stdout.strip()
    print("selftest ok: cbmc " + v)
    return 0

def main(argv=None):
    if (argv or sys.argv[1:])[:1] == ["--selftest"]:
        return selftest()
    ap = argparse.ArgumentParser()
    ap.add_argument("prop")
    ap.add_argument("--tier", default=os.environ.get("VERIF_TIER", "quick"))
    ap.add_argument("--only", default=None)
    ap.add_argument("--keep", action="store_true")
    ap.add_argument("--replay", default=None)
    a = ap.parse_args(argv)
    prop = a.prop
    tier = a.tier if a.tier in ("quick", "thorough") else "quick"
    seed = int(os.environ.get("VERIF_SEED", "0") or 0)
    if a.replay:
        return RP.rerun(a.replay)
    if prop not in PROPS:
        print("unknown or not-applicable property %s" % prop); return 2
    t0 = time.time()
    propdir = os.path.join(runner.WORK, "%s.%d" % (prop, os.getpid()))
    shutil.rmtree(propdir, ignore_errors=True)
    os.makedirs(propdir, exist_ok=True)
    rdir = os.path.join(RP.REPLAY_DIR, prop)
    shutil.rmtree(rdir, ignore_errors=True)
    evpath = os.path.join(VERIF, "evidence", "%s.json" % prop)
    os.makedirs(os.path.dirname(evpath), exist_ok=True)
    meta = PROP_META.get(prop, {})
    ev = {"property_id": prop, "tier": tier, "seed": seed, "level": "proof",
          "coverage": {"obligations": 0, "discharged": 0, "checker_cmd": "", "trusted_base": []},
          "assumptions": [], "wall_s": 0.0, "violations": 0}
    jobs = []
    breaks = []
    for modname in PROPS[prop]:
        try:
            mod = importlib.import_module("tool.units." + modname)
            jobs += mod.jobs(tier, seed, prop)
        except X.ExtractionBreak as e:
            breaks.append("%s: %s" % (modname, e))
        except Exception as e:
            breaks.append("%s: internal error %s\n%s" % (modname, e, traceback.format_exc()[-1500:]))
    if a.only:
        jobs = [j for j in jobs if re.search(a.only, j.name)]
    results = []
    if not breaks:
        results = runner.run_jobs(jobs, propdir)
    findings = [f for f in load_findings() if f["property"] == prop]
    n_obl = n_dis = 0
    units = []
    violations = []
    known_hits = []
    undecided = list(breaks)
    samples = []
    functions = set()
    bounded_units = []
    assumed = set()
    drops = set()
    fidelity = {}
    solver_total = 0.0
    for r in results:
        j = r.job
        u = {"job": j.name, "what": j.label, "status": r.status, "backend": r.backend, "solver_s": r.solver_s,
             "obligations": len(r.obligations), "bound": j.bounded or "none (all inputs in the stated precondition; loops closed by contracts or width-complete unwinding)",
             "entry": j.entry, "enforced_contract": j.enforce, "replaced_by_contract": j.replace,
             "vacuity_canary_reached": r.canary}
        if j.info.get("rules_fired"): u["extraction_rules_fired"] = j.info["rules_fired"]
        units.append(u)
        solver_total += r.solver_s
        for f in j.functions: functions.add(f)
        for s in j.assumed: assumed.add(s)
        if j.bounded: bounded_units.append({"job": j.name, "bound": j.bounded})
        if j.info.get("fidelity"): fidelity[j.name.split(".")[0]] = j.info["fidelity"]
        for dct in j.info.get("drops", []): drops.add(dct)
        if r.status == "undecided":
            u["reason"] = r.reason[:600]
            undecided.append("%s: %s" % (j.name, r.reason[:600]))
            continue
        for ob in r.obligations:
            key = "%s %s" % (ob["name"], ob["description"])
            if ob["status"] == "SUCCESS":
                n_obl += 1; n_dis += 1
                if len(samples) < 8 and ("L" in ob["description"][:2] or "ensures" in ob["description"] or len(samples) < 3):
                    samples.append({"job": j.name, "obligation": ob["name"], "description": ob["description"], "at": ob["location"], "status": "SUCCESS"})
            elif ob["status"] == "FAILURE":
                hit = None
                for f in findings:
                    if re.search(f["job"], j.name) and re.search(f["obligation"], key):
                        hit = f; break
                if hit:
                    known_hits.append({"finding": hit["text"], "job": j.name, "obligation": ob["name"], "description": ob["description"]})
                else:
                    n_obl += 1
                    violations.append((r, ob))
    ev["coverage"].update({
        "obligations": n_obl, "discharged": n_dis,
        "checker_cmd": "goto-cc --function <harness> unit.c; goto-instrument [--unwindset ... --unwinding-assertions] --dfcc <harness> --enforce-contract <f> [--replace-call-with-contract g] [--apply-loop-contracts]; cbmc --bounds-check --pointer-check --signed-overflow-check --undefined-shift-check --div-by-zero-check (CBMC 6.11.0, SAT back ends)",
        "trusted_base": ["CBMC 6.11.0 (goto-cc, goto-instrument --dfcc, cbmc with MiniSat/CaDiCaL/--refine-arithmetic)",
                         "tsg2c extraction rules (token-level rewrite of C++ to C; fidelity by token diff and native differential runs, not proved)",
                         "IEEE-754 binary64 round-to-nearest as modelled by CBMC equals the target's arithmetic (x86-64 SSE2, no -ffast-math)"] + meta.get("trusted", []),
        "functions_under_contract": sorted(functions),
        "units": units, "bounded_units": bounded_units,
        "assumed_callee_contracts": sorted(assumed),
        "extraction_drops": sorted(drops) + ["namespaces, access control, template generality beyond the listed instantiations, exception unwinding, allocation failure, OpenMP pragmas, the float instantiations"],
        "fidelity": fidelity,
        "solver_seconds_total": round(solver_total, 2),
        "samples": samples, "known_finding_obligations": known_hits,
        "undecided": undecided,
        "not_decided_parts_of_the_property": meta.get("not_decided", []),
    })
    ev["assumptions"] = meta.get("assumptions", []) + sorted(assumed)
    code = 0
    lines = []
    if undecided:
        code = 2
    if violations:
        code = 1
        ev["violations"] = len(violations)
        vlist = []
        for r, ob in violations:
            j = r.job
            path, confirmed, out = None, None, ""
            if j.replay:
                try:
                    path, confirmed, out = j.replay(j, ob, r.traces.get(ob["name"], {}), r.workdir)
                except Exception as e:
                    path, confirmed, out = None, None, "replay generator failed: %s" % e
            if path is None or not confirmed:
                txt = ("failed obligation (passed on the pinned tree, fails on this tree)\nproperty %s job %s\nobligation %s: %s\nat %s\n\n"
                       "CBMC result:\n%s\n\ncounterexample values (last assignment per variable):\n%s\n\nnative replay: %s\n" % (
                           prop, j.name, ob["name"], ob["description"], ob["location"], r.raw_fail.get(ob["name"], ""),
                           json.dumps({k: v for k, v in r.traces.get(ob["name"], {}).items() if "::" not in k and not k.startswith("__")}, indent=1)[:6000],
                           out or "no replay generator for this obligation"))
                npath = RP.no_input_replay(prop, j.name + "." + ob["name"], txt)
                if path is None: path = npath
                lines.append("VIOLATION property=%s replay=%s obligation=%s::%s no-failing-input-found" % (prop, path, j.name, ob["name"]))
            else:
                lines.append("VIOLATION property=%s replay=%s obligation=%s::%s" % (prop, path, j.name, ob["name"]))
            vlist.append({"job": j.name, "obligation": ob["name"], "description": ob["description"], "at": ob["location"],
                          "replay": path, "replay_confirmed_natively": bool(confirmed)})
        ev["coverage"]["violating_obligations"] = vlist
    seen_kf = set()
    for k in known_hits:
        if (k["finding"], k["job"]) in seen_kf:
            continue
        seen_kf.add((k["finding"], k["job"]))
        print("KNOWN-FINDING: property=%s %s [job %s, obligations %s]" % (prop, k["finding"], k["job"],
              ", ".join(h["obligation"] for h in known_hits if h["job"] == k["job"] and h["finding"] == k["finding"])))
    ev["wall_s"] = round(time.time() - t0, 2)
    if code == 2 and not violations:
        ev["level"] = "other"
        ev["coverage"]["explanation"] = "UNDECIDED run (exit 2): " + "; ".join(undecided)[:1500]
    with open(evpath, "w") as f:
        json.dump(ev, f, indent=1)
    for l in lines:
        print(l)
    print("property %s tier %s: %d jobs, %d obligations, %d discharged, %d violations, %d known-finding obligations, %d undecided, %.1fs wall, %.1fs solver"
          % (prop, tier, len(results), n_obl, n_dis, len(violations), len(known_hits), len(undecided), ev["wall_s"], solver_total))
    for u in undecided:
        print("UNDECIDED: " + u[:400].replace("\n", " "))
    RP.cleanup_libs()
    if not a.keep:
        shutil.rmtree(propdir, ignore_errors=True)
    return code

if __name__ == "__main__":
    sys.exit(main())
