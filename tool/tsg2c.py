"""tsg2c -- mechanical, rule-based extraction of C text from TASMANIAN's C++ sources.

The verified text is produced from /repo's *current working tree* on every run.
Nothing here is a hand-written copy of a function body: a unit names a source
file and a selector, the body is cut out by brace matching on comment-stripped
text, and an ordered list of token-level rewrite rules (each with an id and a
must-fire minimum) turns the C++ constructs into C.  Anything that does not fit
(selector not matching exactly once, a rule that should fire and does not, C++
tokens left over) raises ExtractionBreak, which the runner turns into exit 2
(undecided) -- never into a violation and never into a pass.
"""
import re, os, difflib

class ExtractionBreak(Exception):
    pass

REPO = os.environ.get("VERIF_REPO", "/repo")

def read_source(rel):
    p = os.path.join(REPO, rel)
    if not os.path.exists(p):
        raise ExtractionBreak("source file missing: %s" % rel)
    with open(p, encoding="utf-8", errors="replace") as f:
        return f.read()

def strip_comments(text):
    """Replace comments by blanks (newlines kept, so offsets and lines stay)."""
    out = []
    i, n = 0, len(text)
    while i < n:
        c = text[i]
        if c == '/' and i + 1 < n and text[i+1] == '/':
            j = text.find('\n', i)
            if j < 0: j = n
            out.append(' ' * (j - i)); i = j
        elif c == '/' and i + 1 < n and text[i+1] == '*':
            j = text.find('*/', i + 2)
            if j < 0: j = n - 2
            seg = text[i:j+2]
            out.append(''.join('\n' if ch == '\n' else ' ' for ch in seg)); i = j + 2
        elif c == '"':
            j = i + 1
            while j < n and text[j] != '"':
                if text[j] == '\\': j += 1
                j += 1
            out.append(text[i:j+1]); i = j + 1
        elif c == "'":
            j = i + 1
            while j < n and text[j] != "'":
                if text[j] == '\\': j += 1
                j += 1
            out.append(text[i:j+1]); i = j + 1
        else:
            out.append(c); i += 1
    return ''.join(out)

def match_close(text, i, open_ch='{', close_ch='}'):
    """text[i] == open_ch; return index of the matching close_ch."""
    assert text[i] == open_ch, (text[i-20:i+20], open_ch)
    depth = 0
    n = len(text)
    j = i
    while j < n:
        c = text[j]
        if c == '"':
            j += 1
            while j < n and text[j] != '"':
                if text[j] == '\\': j += 1
                j += 1
        elif c == "'":
            j += 1
            while j < n and text[j] != "'":
                if text[j] == '\\': j += 1
                j += 1
        elif c == open_ch:
            depth += 1
        elif c == close_ch:
            depth -= 1
            if depth == 0:
                return j
        j += 1
    raise ExtractionBreak("unbalanced %s at offset %d" % (open_ch, i))

class Piece:
    """A cut-out piece of source: header (signature up to '{') and body ({...})."""
    def __init__(self, rel, line, header, body, name=None):
        self.rel, self.line, self.header, self.body, self.name = rel, line, header, body, name
        self.src_header, self.src_body = header, body
    def text(self):
        return self.header + self.body

def cut(rel, sig_regex, text=None, expect=1, flags=re.S):
    """Cut the definition(s) whose signature matches sig_regex (which must end
    just before the opening brace).  Exactly `expect` matches are required."""
    if text is None:
        text = strip_comments(read_source(rel))
    rx = re.compile(sig_regex, flags)
    out = []
    for m in rx.finditer(text):
        k = m.end()
        while k < len(text) and text[k] in ' \t\r\n':
            k += 1
        if k >= len(text) or text[k] != '{':
            continue
        e = match_close(text, k)
        line = text.count('\n', 0, m.start()) + 1
        out.append(Piece(rel, line, text[m.start():k], text[k:e+1]))
    if len(out) != expect:
        raise ExtractionBreak("selector %r in %s matched %d times, expected %d"
                              % (sig_regex, rel, len(out), expect))
    return out

def cut_block(rel, func_sig, start_rx, end_rx, text=None):
    """Cut a block of statements between two anchor regexes inside one function."""
    (p,) = cut(rel, func_sig, text)
    ms = list(re.finditer(start_rx, p.body))
    if len(ms) != 1:
        raise ExtractionBreak("block start %r matched %d times" % (start_rx, len(ms)))
    me = list(re.finditer(end_rx, p.body[ms[0].start():]))
    if len(me) < 1:
        raise ExtractionBreak("block end %r not found" % end_rx)
    s = ms[0].start(); e = s + me[0].end()
    line = p.line + (p.header + p.body[:s]).count('\n')
    return Piece(rel, line, "", p.body[s:e])

class Rules:
    """Ordered rewrite rules with fire counts."""
    def __init__(self):
        self.counts = {}
        self.log = []
    def sub(self, rid, pattern, repl, text, flags=0, count=0):
        new, n = re.subn(pattern, repl, text, count=count, flags=flags)
        self.counts[rid] = self.counts.get(rid, 0) + n
        return new
    def replace(self, rid, old, new, text):
        n = text.count(old)
        self.counts[rid] = self.counts.get(rid, 0) + n
        return text.replace(old, new)
    def require(self, minima):
        for rid, mn in minima.items():
            got = self.counts.get(rid, 0)
            if got < mn:
                raise ExtractionBreak("rule %s fired %d times, expected at least %d" % (rid, got, mn))

# ---------------------------------------------------------------- common rules
QUALIFIERS = ["TasGrid::", "Maths::", "RuleLocal::", "OneDimensionalMeta::", "Utils::",
              "IO::", "TasDREAM::", "TasOptimization::", "HierarchyManipulator::",
              "MultiIndexManipulations::", "Optimizer::"]

def r1_qualifiers(R, t, extra=()):
    for q in list(QUALIFIERS) + list(extra):
        t = R.replace("R1-qualifier", q, "", t)
    return t

def balanced_call_sub(R, rid, t, head_rx, build):
    """Rewrite  HEAD( balanced-args )  where HEAD matches head_rx (ending just
    before '('); build(match, args_text) returns the replacement."""
    rx = re.compile(head_rx)
    pos = 0
    out = []
    n = 0
    while True:
        m = rx.search(t, pos)
        if not m:
            break
        k = m.end()
        if k >= len(t) or t[k] != '(':
            out.append(t[pos:m.end()]); pos = m.end(); continue
        e = match_close(t, k, '(', ')')
        out.append(t[pos:m.start()])
        out.append(build(m, t[k+1:e]))
        pos = e + 1
        n += 1
    out.append(t[pos:])
    R.counts[rid] = R.counts.get(rid, 0) + n
    return ''.join(out)

def r2_casts(R, t):
    # static_cast<T>(e) -> ((T)(e)); nested casts handled by repeating
    for _ in range(4):
        t = balanced_call_sub(R, "R2-static_cast", t, r'static_cast<\s*([\w ]+?\s*\*?)\s*>\s*(?=\()',
                              lambda m, a: "((%s)(%s))" % (m.group(1), a))
    t = R.sub("R2-constexpr", r'\bconstexpr\b', 'const', t)
    t = R.sub("R2-inline", r'\binline\s+', '', t)
    t = R.sub("R2-nullptr", r'\bnullptr\b', '0', t)
    return t

def r2_std_math(R, t):
    t = R.sub("R2-std-abs", r'\bstd::abs\s*\(', 'fabs(', t)
    t = R.sub("R2-std-fabs", r'\bstd::fabs\s*\(', 'fabs(', t)
    t = R.sub("R2-std-min", r'\bstd::min\s*\(', 'TSG_MIN(', t)
    t = R.sub("R2-std-max", r'\bstd::max\s*\(', 'TSG_MAX(', t)
    t = R.sub("R2-std-sqrt", r'\bstd::sqrt\s*\(', 'sqrt(', t)
    t = R.sub("R2-std-pow", r'\bstd::pow\s*\(', 'pow(', t)
    t = R.sub("R2-std-exp", r'\bstd::exp\s*\(', 'exp(', t)
    t = R.sub("R2-std-log", r'\bstd::log\s*\(', 'log(', t)
    t = R.sub("R2-std-isnan", r'\bstd::isnan\s*\(', 'isnan(', t)
    return t

LEFTOVER = [
    (r'\bstd\s*::', 'std::'), (r'::', '::'), (r'\bauto\b', 'auto'), (r'\btemplate\b', 'template'),
    (r'\[\s*[&=]?\s*\]\s*\(', 'lambda'), (r'\bstatic_cast\b', 'static_cast'),
    (r'\bthrow\b', 'throw'), (r'\bnew\b', 'new'), (r'\bdelete\b', 'delete'),
    (r'\bnullptr\b', 'nullptr'), (r'\bconstexpr\b', 'constexpr'), (r'\bnamespace\b', 'namespace'),
    (r'\btry\b', 'try'), (r'\bcatch\b', 'catch'), (r'\bclass\b', 'class'),
    (r'\b\w+\s*<\s*\w+\s*>\s*\(', 'template call f<T>('),
    (r'#\s*pragma\s+omp', 'omp pragma'),
]

def check_leftover(t, what):
    for rx, nm in LEFTOVER:
        m = re.search(rx, t)
        if m:
            ln = t.count('\n', 0, m.start()) + 1
            raise ExtractionBreak("C++ construct '%s' left over in %s (emitted line %d): %r"
                                  % (nm, what, ln, t[max(0, m.start()-40):m.end()+40]))

# -------------------------------------------------- loops and contract splicing
LOOP_KW = re.compile(r'\b(for|while|do)\b')

def loop_sites(body):
    """Return the list of loops of a function body in source order; each entry is
    (kind, insert_offset) where insert_offset is where a loop contract goes."""
    sites = []
    pending_do = []   # stack of (brace_depth) of open do-loops awaiting their while
    i = 0
    n = len(body)
    # we walk tokens; to pair do/while we track the end offsets of do bodies
    do_while_positions = set()
    for m in LOOP_KW.finditer(body):
        kw = m.group(1)
        if m.start() in do_while_positions:
            continue
        if kw in ('for', 'while'):
            k = m.end()
            while k < n and body[k] in ' \t\r\n': k += 1
            if k >= n or body[k] != '(':
                continue
            e = match_close(body, k, '(', ')')
            sites.append((kw, e + 1, m.start()))
        else:  # do
            k = m.end()
            while k < n and body[k] in ' \t\r\n': k += 1
            if k >= n or body[k] != '{':
                raise ExtractionBreak("do without braces")
            e = match_close(body, k)
            k2 = e + 1
            while k2 < n and body[k2] in ' \t\r\n': k2 += 1
            if not body.startswith('while', k2):
                raise ExtractionBreak("do-block not followed by while")
            do_while_positions.add(k2)
            k3 = k2 + 5
            while k3 < n and body[k3] in ' \t\r\n': k3 += 1
            e2 = match_close(body, k3, '(', ')')
            sites.append(('do', m.end(), m.start()))   # CBMC: the contract of a do-while follows the `do` keyword
    sites.sort(key=lambda s: s[2])
    return sites

def splice(piece_header, piece_body, fn_contract=None, loop_contracts=None):
    """Insert a function contract between signature and body and loop contracts
    after the N-th loop header (N in source order)."""
    body = piece_body
    if loop_contracts:
        sites = loop_sites(body)
        mx = max(loop_contracts)
        if mx >= len(sites):
            raise ExtractionBreak("loop contract for loop %d but the function has %d loops" % (mx, len(sites)))
        for idx in sorted(loop_contracts, reverse=True):
            off = sites[idx][1]
            body = body[:off] + "\n" + loop_contracts[idx].strip() + "\n" + body[off:]
    mid = ("\n" + fn_contract.strip() + "\n") if fn_contract else ""
    return piece_header + mid + body

def count_loops(body):
    return len(loop_sites(body))

# ------------------------------------------------------------------ fidelity
TOKEN = re.compile(r'[A-Za-z_]\w*|\d[\w.]*|::|->|<<=|>>=|<<|>>|<=|>=|==|!=|&&|\|\||\+\+|--|[-+*/%&|^!~<>=?:;,.(){}\[\]#]|"(?:\\.|[^"\\])*"|\'(?:\\.|[^\'\\])*\'')

CXX_ONLY = set("static_cast template typename constexpr inline auto std :: and or not nullptr "
               "bool throw try catch const & < > erule effective_rule effrule [ ] true false "
               "size_t vector function unique_ptr override noexcept new delete this "
               "Maths OneDimensionalMeta TasGrid RuleLocal Utils IO TasDREAM TasOptimization".split())

def tokens(t):
    return TOKEN.findall(t)

SIG_OPS = set("+ - / % == != <= >= && || ! = += -= *= /= ++ -- ? << >> <<= >>=".split())
C_KEYWORDS_SAME = set("if else for while do switch case default return break continue int double float char void unsigned long short sizeof struct".split())

def fidelity(src, emitted, extra_vocab=(), slack=0, window=60):
    """Order-preserving token check: every *significant* source token (identifiers that
    are not C++-only / unit-declared rewrite vocabulary, numeric literals, C keywords,
    arithmetic / comparison / assignment operators) must reappear in the emitted text in
    the same order (a rule may rename f -> f_<binding> or <cls>_f).  So a rule can
    translate C++ constructs but cannot drop, reorder or alter the C part of a body.
    Violation -> ExtractionBreak (exit 2)."""
    a, b = tokens(src), tokens(emitted)
    vocab = CXX_ONLY | set(extra_vocab)
    def significant(tk):
        if tk in vocab: return False
        if tk in SIG_OPS or tk in C_KEYWORDS_SAME: return True
        return bool(re.match(r'^[A-Za-z_]\w*$|^\d', tk))
    sig = [t for t in a if significant(t)]
    sigset = sorted(set(t for t in sig if re.match(r'^[A-Za-z_]', t)), key=len, reverse=True)
    def canon(e):
        if not re.match(r'^[A-Za-z_]', e) or e in sigset:
            return e
        for t in sigset:
            if e.startswith(t + '_'):
                return t
        for t in sigset:
            if e.endswith('_' + t) or ('_' + t + '_') in e:
                return t
        return e
    nb = [canon(e) for e in b]
    # exact LCS length (bit-parallel, Hyyro 2004); difflib only supplies a readable listing
    m = len(sig)
    masks = {}
    for i_, t in enumerate(sig):
        masks[t] = masks.get(t, 0) | (1 << i_)
    full = (1 << m) - 1
    V = full
    for t in nb:
        U = V & masks.get(t, 0)
        if U:
            V = ((V + U) | (V - U)) & full
    matched = m - bin(V).count('1')
    n_unmatched = m - matched
    unmatched = []
    if n_unmatched:
        sm0 = difflib.SequenceMatcher(None, sig, nb, autojunk=False)
        for tag, i1, i2, j1, j2 in sm0.get_opcodes():
            if tag in ('replace', 'delete'):
                unmatched += sig[i1:i2]
        unmatched = unmatched[:max(n_unmatched, 1)]
    if n_unmatched > slack:
        raise ExtractionBreak("fidelity: %d significant source tokens have no counterpart in order in the emitted text (allowed %d): %r"
                              % (n_unmatched, slack, unmatched[:12]))
    sm = difflib.SequenceMatcher(None, a, b, autojunk=False)
    same = sum(i2 - i1 for tag, i1, i2, j1, j2 in sm.get_opcodes() if tag == 'equal')
    hunks = [(' '.join(a[i1:i2]), ' '.join(b[j1:j2])) for tag, i1, i2, j1, j2 in sm.get_opcodes() if tag != 'equal']
    return {"source_tokens": len(a), "emitted_tokens": len(b), "identical_tokens": same,
            "significant_source_tokens_preserved_in_order": matched,
            "significant_source_tokens_rewritten_away": unmatched,
            "rewrite_hunks": len(hunks), "sample_hunks": hunks[:6]}

# ------------------------------------------------------------- R5: std::vector
def split_top(s, sep=','):
    out, depth, cur = [], 0, []
    for ch in s:
        if ch in '([{<' and ch != '<': depth += 1
        elif ch in ')]}': depth -= 1
        if ch == sep and depth == 0:
            out.append(''.join(cur)); cur = []
        else:
            cur.append(ch)
    out.append(''.join(cur))
    return [x.strip() for x in out]

def r5_local_vectors(R, t, caps):
    """`std::vector<T> a, b(n), c(n, v);` -> fixed-capacity arrays.  caps: {name: capacity expr}."""
    rx = re.compile(r'std::vector<\s*(\w+)\s*>\s+([^;=]*?);')
    def repl(m):
        T = m.group(1)
        decls = split_top(m.group(2))
        out = []
        for d in decls:
            mm = re.match(r'^(\w+)\s*(?:\((.*)\))?$', d, re.S)
            if not mm:
                raise ExtractionBreak("R5: cannot parse vector declarator %r" % d)
            nm, args = mm.group(1), mm.group(2)
            if nm not in caps:
                raise ExtractionBreak("R5: no capacity declared for local vector %s" % nm)
            out.append("TSG_VEC_NEW(%s, %s, %s);" % (T, nm, caps[nm]))
            if args is not None:
                a = split_top(args)
                init = a[1] if len(a) > 1 else "0"
                out.append(" tsg_sized_%s(%s, &%s_size, %s_cap, %s, %s);" % (T, nm, nm, nm, a[0], init))
            R.counts["R5-local-vector"] = R.counts.get("R5-local-vector", 0) + 1
        return ' '.join(out)
    return rx.sub(repl, t)

def r5_vector_methods(R, t, vecs):
    """vecs: {name: elem ctype} for every vector-like name in scope (locals, params, members
    already flattened to name/name_size)."""
    for v, T in vecs.items():
        e = re.escape(v)
        t = R.sub("R5-size", r'\b%s\s*\.\s*size\s*\(\s*\)' % e, v + '_size', t)
        t = R.sub("R5-empty", r'\b%s\s*\.\s*empty\s*\(\s*\)' % e, '(%s_size == 0)' % v, t)
        t = R.sub("R5-data", r'\b%s\s*\.\s*data\s*\(\s*\)' % e, v, t)
        t = balanced_call_sub(R, "R5-reserve", t, r'\b%s\s*\.\s*reserve\s*(?=\()' % e, lambda m, a, v=v: "TSG_RESERVE(%s, %s)" % (v, a))
        t = balanced_call_sub(R, "R5-resize", t, r'\b%s\s*\.\s*resize\s*(?=\()' % e,
                              lambda m, a, v=v, T=T: "tsg_resize_%s(%s, &%s_size, %s_cap, %s)" % (T, v, v, v, a))
        def ins(m, a, v=v, T=T):
            parts = split_top(a)
            mm = re.match(r'^(\w+)\s*\.\s*begin\s*\(\s*\)$', parts[1]) if len(parts) == 3 else None
            if len(parts) != 3 or not re.match(r'^%s\s*\.\s*end\s*\(\s*\)$' % re.escape(v), parts[0]) or not mm \
               or not re.match(r'^%s\s*\.\s*end\s*\(\s*\)$' % re.escape(mm.group(1)), parts[2]):
                raise ExtractionBreak("R5: unsupported insert form %r" % a)
            return "tsg_append_%s(%s, &%s_size, %s_cap, %s, %s_size)" % (T, v, v, v, mm.group(1), mm.group(1))
        t = balanced_call_sub(R, "R5-insert-end", t, r'\b%s\s*\.\s*insert\s*(?=\()' % e, ins)
        t = R.sub("R5-begin", r'\b%s\s*\.\s*begin\s*\(\s*\)' % e, v, t)
    return t

def r5_iterators(R, t, iters):
    """iters: {iterator name: container name}.  `auto it = c.begin();` -> `size_t it = 0;`
    (index form, never pointer form); *it -> c[it]; std::advance(it, n) -> it += n."""
    for it, c in iters.items():
        t = R.sub("R5-iter-decl", r'\bauto\s+%s\s*=\s*%s\s*(?:\.\s*begin\s*\(\s*\))?\s*;' % (it, c), 'size_t %s = 0;' % it, t)
        t = balanced_call_sub(R, "R5-advance", t, r'\bstd::advance\s*(?=\(\s*%s\s*,)' % it,
                              lambda m, a, it=it: "%s += %s" % (it, split_top(a)[1]))
        t = R.sub("R5-iter-deref", r'\*\s*%s\b(?!\s*\+\+)' % it, '%s[%s]' % (c, it), t)
        t = R.sub("R5-iter-deref-inc", r'\*\s*%s\s*\+\+' % it, '%s[%s++]' % (c, it), t)
    return t

def r5_copy_n(R, t, T="double", iters=None):
    iters = iters or {}
    def build(m, a):
        parts = split_top(a)
        src = parts[0]
        if src in iters:
            src = "&%s[%s]" % (iters[src], src)
        return "tsg_copy_n_%s(%s, %s, %s)" % (T, src, parts[1], parts[2])
    return balanced_call_sub(R, "R5-copy_n", t, r'\bstd::copy_n\s*(?=\()', build)

def r9_throws(R, t, ret="return;"):
    t = R.sub("R9-throw-invalid_argument", r'\bthrow\s+std::invalid_argument\s*\((?:[^()"]|"(?:\\.|[^"\\])*"|\([^()]*\))*\)\s*;',
              '{ tsg_exc = TSG_INVALID_ARGUMENT; %s }' % ret, t)
    t = R.sub("R9-throw-runtime_error", r'\bthrow\s+std::runtime_error\s*\((?:[^()"]|"(?:\\.|[^"\\])*"|\([^()]*\))*\)\s*;',
              '{ tsg_exc = TSG_RUNTIME_ERROR; %s }' % ret, t)
    t = R.sub("R9-throw-other", r'\bthrow\s+[^;]*;', '{ tsg_exc = TSG_OTHER; %s }' % ret, t)
    return t

def r10_receiver_calls(R, t, obj, cls, overloads=None, ptr=True):
    """obj.method(args) -> cls_method(obj[, args]); overloads: {(method, first-arg-text): suffix}."""
    overloads = overloads or {}
    def build(m, a):
        meth = m.group(1)
        key = (meth, a.strip())
        name = "%s_%s%s" % (cls, meth, overloads.get(key, overloads.get((meth, None), "")))
        if key in overloads and overloads[key].endswith("!"):   # argument is a callback: dropped (R8)
            return "%s_%s%s(%s)" % (cls, meth, overloads[key][:-1], obj)
        return "%s(%s%s)" % (name, obj, (", " + a) if a.strip() else "")
    return balanced_call_sub(R, "R10-receiver-call", t, r'\b%s\s*\.\s*(\w+)\s*(?=\()' % re.escape(obj), build)

def r5_copy_init(R, t, caps, size_of=None):
    """`std::vector<T> a = EXPR;` (copy of another vector) -> array + element-wise assign."""
    size_of = size_of or (lambda e: e + "_size")
    def repl(m):
        T, nm, e = m.group(1), m.group(2), m.group(3).strip()
        if nm not in caps:
            raise ExtractionBreak("R5: no capacity declared for local vector %s" % nm)
        return "TSG_VEC_NEW(%s, %s, %s); tsg_assign_%s(%s, &%s_size, %s_cap, %s, %s);" % (T, nm, caps[nm], T, nm, nm, nm, e, size_of(e))
    return R.sub("R5-copy-init", r'std::vector<\s*(\w+)\s*>\s+(\w+)\s*=\s*([^;{}()]+);', repl, t)

def r5_swap(R, t, vecs, scalar_type="double", size_of=None, cap_of=None):
    """std::swap(a, b): element-wise for vectors (vecs: {expr: elem type}), scalar otherwise."""
    size_of = size_of or (lambda e: e + "_size")
    cap_of = cap_of or (lambda e: e + "_cap")
    def build(m, a):
        x, y = [q.strip() for q in split_top(a)]
        if x in vecs and y in vecs:
            T = vecs[x]
            return "tsg_swap_vec_%s(%s, &%s, %s, %s, &%s, %s)" % (T, x, size_of(x), cap_of(x), y, size_of(y), cap_of(y))
        if x in vecs or y in vecs:
            raise ExtractionBreak("R5: swap of a vector with a non-vector: %s" % a)
        return "TSG_SWAP(%s, %s, %s)" % (scalar_type, x, y)
    return balanced_call_sub(R, "R5-swap", t, r'\bstd::swap\s*(?=\()', build)

def r2_paren_init(R, t, ctype="double"):
    """`double a(expr), b, c(0);` -> `double a = (expr), b, c = (0);`"""
    rx = re.compile(r'\b%s\s+((?:\w+\s*(?:\([^;]*?\))?\s*,\s*)*\w+\s*(?:\([^;]*?\))?)\s*;' % ctype)
    def repl(m):
        ds = split_top(m.group(1))
        out = []
        hit = False
        for d in ds:
            mm = re.match(r'^(\w+)\s*\((.*)\)$', d, re.S)
            if mm:
                out.append("%s = (%s)" % (mm.group(1), mm.group(2))); hit = True
            else:
                out.append(d)
        if hit:
            R.counts["R2-paren-init"] = R.counts.get("R2-paren-init", 0) + 1
        return "%s %s;" % (ctype, ", ".join(out))
    return rx.sub(repl, t)

def hoist_lambda(R, t, hoisted_name, captures, ordinal=0, ret_default="void"):
    """R7: hoist the ordinal-th lambda `[&](params) -> T { body }` of text t into a static C
    function.  captures: list of (name, ctype, by_ref) appended BEFORE the lambda's own
    parameters.  Handles `auto NAME = [&](..)->T{..};` (calls NAME(args) are rewritten) and
    immediately invoked lambdas `[&](..)->T{..}(args)`.  Returns (function_text, new_t)."""
    ms = list(re.finditer(r'\[[&=]\]\s*\(([^)]*)\)\s*(?:->\s*([\w:<>]+)\s*)?(?=\{)', t))
    if ordinal >= len(ms):
        raise ExtractionBreak("R7: lambda #%d not found (have %d)" % (ordinal, len(ms)))
    m = ms[ordinal]
    params = m.group(1).strip()
    rtype = m.group(2) or ret_default
    e = match_close(t, m.end())
    body = t[m.end():e + 1]
    cap_params = ", ".join("%s %s%s" % (ct, '*' if ref else '', nm) for nm, ct, ref in captures)
    cap_args = ", ".join(("&" + nm) if ref else nm for nm, ct, ref in captures)
    for nm, ct, ref in captures:
        if ref:
            body = re.sub(r'(?<![\w.>])%s\b' % re.escape(nm), '(*%s)' % nm, body)
    allp = ", ".join(x for x in (cap_params, params) if x)
    fn = "static %s %s(%s)\n%s\n" % (rtype, hoisted_name, allp, body)
    R.counts["R7-hoist"] = R.counts.get("R7-hoist", 0) + 1
    # bound or immediately invoked?
    pre = t[:m.start()]
    post = t[e + 1:]
    mb = re.search(r'auto\s+(\w+)\s*=\s*$', pre)
    if mb:
        nm = mb.group(1)
        mp = re.match(r'\s*;', post)
        if not mp:
            raise ExtractionBreak("R7: bound lambda %s not terminated by ';'" % nm)
        new_t = pre[:mb.start()] + post[mp.end():]
        def call(mm, a):
            return "%s(%s)" % (hoisted_name, ", ".join(x for x in (cap_args, a.strip()) if x))
        new_t = balanced_call_sub(R, "R7-call", new_t, r'(?<![\w.>])%s\s*(?=\()' % nm, call)
        hoist_lambda.fid_view = pre[:mb.start()] + fn + balanced_call_sub(Rules(), "x", post[mp.end():], r'(?<![\w.>])%s\s*(?=\()' % nm, call)
        return fn, new_t
    mi = re.match(r'\s*\(', post)
    if not mi:
        raise ExtractionBreak("R7: lambda is neither bound to a name nor immediately invoked")
    k = len(pre) + (e + 1 - m.start()) + mi.end() - 1
    # position of '(' in original t
    k = e + 1 + mi.end() - 1
    ce = match_close(t, k, '(', ')')
    args = t[k + 1:ce]
    new_t = pre + "%s(%s)" % (hoisted_name, ", ".join(x for x in (cap_args, args.strip()) if x)) + t[ce + 1:]
    R.counts["R7-call"] = R.counts.get("R7-call", 0) + 1
    hoist_lambda.fid_view = pre + fn + "%s(%s)" % (hoisted_name, ", ".join(x for x in (cap_args, args.strip()) if x)) + t[ce + 1:]
    return fn, new_t
