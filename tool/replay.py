"""Native replay of a CBMC counterexample against the real TASMANIAN code."""
import os, subprocess, re, glob
from . import runner
REPO = os.environ.get("VERIF_REPO", "/repo")
VERIF = runner.VERIF
REPLAY_DIR = os.path.join(VERIF, "replays")
INC = ["-I%s/SparseGrids" % REPO, "-I%s/InterfaceTPL" % REPO, "-I%s/DREAM" % REPO, "-I%s/DREAM/Optimization" % REPO,
       "-I%s/Addons" % REPO, "-I%s/include/configured" % VERIF]

PRELUDE = r'''
#include <cstdio>
#include <cmath>
#include <cstdlib>
static int replay_failures = 0;
#define __CPROVER_assert(c, msg) do{ if(!(c)){ std::printf("REPLAY-FAIL: %s\n", msg); replay_failures++; } else { std::printf("replay-ok:   %s\n", msg);} }while(0)
#define __CPROVER_assume(c) do{ if(!(c)){ std::printf("REPLAY-SKIP: assumption not met by these inputs: %s\n", #c); std::exit(3);} }while(0)
#define __CPROVER_requires(x)
#define __CPROVER_ensures(x)
#define __CPROVER_assigns(...)
#define TSG_SAME(a,b) (((a) == (b)) || (((a) != (a)) && ((b) != (b))))
#define TSG_MIN(a,b) (((a) < (b)) ? (a) : (b))
#define TSG_MAX(a,b) (((a) > (b)) ? (a) : (b))
'''

def cxx_double(s):
    s = str(s)
    if s in ("nan", "-nan", "NaN", "+NaN", "-NaN"): return "std::nan(\"\")"
    if s in ("inf", "+inf", "Infinity", "+INFINITY", "INFINITY"): return "INFINITY"
    if s in ("-inf", "-Infinity", "-INFINITY"): return "(-INFINITY)"
    return s

def write_and_run(prop, name, header_comment, includes, body, main_body, sources=(), flags=(), timeout=120, libs=(), lib=None):
    d = os.path.join(REPLAY_DIR, prop)
    os.makedirs(d, exist_ok=True)
    path = os.path.join(d, re.sub(r'[^\w.-]', '_', name) + ".cpp")
    with open(path, "w") as f:
        f.write("/*\n" + header_comment.replace("*/", "* /") + "\n*/\n")
        f.write("// replay-build: lib=%s flags=%s sources=%s libs=%s\n" % (lib or "-", ",".join(flags) or "-", ",".join(sources) or "-", ",".join(libs) or "-"))
        for inc in includes:
            f.write('#include %s\n' % inc)
        f.write(PRELUDE)
        f.write(body)
        f.write("\nint main(){\n" + main_body + "\n  return replay_failures ? 1 : 0;\n}\n")
    exe = path[:-4] + ".exe"
    srcs = []
    for s in sources:
        srcs += sorted(glob.glob(os.path.join(REPO, s)))
    if lib:
        objs = build_lib(lib, flags)
        if objs is None:
            return path, None, "replay: the working tree's library sources do not compile"
        srcs += objs
    cmd = ["g++", "-std=c++14", "-O1", "-g", "-w", "-pthread"] + list(flags) + INC + [path] + srcs + ["-o", exe] + list(libs)
    try:
        c = subprocess.run(cmd, capture_output=True, text=True, timeout=600)
    except subprocess.TimeoutExpired:
        return path, None, "replay compile timed out"
    if c.returncode != 0:
        with open(path, "a") as f:
            f.write("\n/* replay did not compile:\n%s\n*/\n" % c.stderr[-3000:].replace("*/", "* /"))
        return path, None, "replay compile failed: " + c.stderr[-600:]
    try:
        r = subprocess.run([exe], capture_output=True, text=True, timeout=timeout)
        out = r.stdout[-4000:] + r.stderr[-2000:]
        rc = r.returncode
    except subprocess.TimeoutExpired:
        out, rc = "replay timed out after %ds (non-termination counts as confirmation only where the obligation is a termination obligation)" % timeout, 124
    try: os.remove(exe)
    except OSError: pass
    with open(path, "a") as f:
        f.write("\n/* native replay against %s: exit %s\n%s\n*/\n" % (REPO, rc, out.replace("*/", "* /")))
    return path, (rc == 1 or rc == 124 or rc < 0 or rc >= 128), out

def no_input_replay(prop, name, text):
    d = os.path.join(REPLAY_DIR, prop)
    os.makedirs(d, exist_ok=True)
    path = os.path.join(d, re.sub(r'[^\w.-]', '_', name) + ".txt")
    with open(path, "w") as f:
        f.write(text)
    return path

SG_SOURCES = ["SparseGrids/TasmanianSparseGrid.cpp", "SparseGrids/TasmanianSparseGridWrapC.cpp",
    "SparseGrids/tsgAcceleratedDataStructures.cpp", "SparseGrids/tsgCoreOneDimensional.cpp",
    "SparseGrids/tsgDConstructGridGlobal.cpp", "SparseGrids/tsgGridGlobal.cpp", "SparseGrids/tsgGridWavelet.cpp",
    "SparseGrids/tsgHardCodedTabulatedRules.cpp", "SparseGrids/tsgGridLocalPolynomial.cpp", "SparseGrids/tsgGridSequence.cpp",
    "SparseGrids/tsgGridFourier.cpp", "SparseGrids/tsgIndexManipulator.cpp", "SparseGrids/tsgHierarchyManipulator.cpp",
    "SparseGrids/tsgIndexSets.cpp", "SparseGrids/tsgLinearSolvers.cpp", "SparseGrids/tsgRuleWavelet.cpp",
    "SparseGrids/tsgSequenceOptimizer.cpp", "InterfaceTPL/tsgGpuNull.cpp"]
DREAM_SOURCES = ["DREAM/tsgDreamState.cpp", "DREAM/tsgDreamLikelyGaussian.cpp", "DREAM/tsgDreamSampleWrapC.cpp",
    "DREAM/Optimization/tsgParticleSwarm.cpp", "DREAM/Optimization/tsgGradientDescent.cpp"]

_lib_cache = {}
def build_lib(kind="sg", flags=()):
    """Compile the library sources of the *working tree* into objects (parallel, ~15 s); returns the list of
    object files.  Used only by replays of API-level obligations."""
    from concurrent.futures import ThreadPoolExecutor
    key = (kind, tuple(flags))
    if key in _lib_cache:
        return _lib_cache[key]
    srcs = list(SG_SOURCES) + (DREAM_SOURCES if kind == "dream" else [])
    d = os.path.join(runner.WORK, "lib_%s_%d" % (kind, os.getpid()))
    os.makedirs(d, exist_ok=True)
    objs = []
    def cc(s):
        o = os.path.join(d, os.path.basename(s) + ".o")
        c = subprocess.run(["g++", "-std=c++14", "-O1", "-g", "-w", "-fPIC"] + list(flags) + INC + ["-c", os.path.join(REPO, s), "-o", o],
                           capture_output=True, text=True)
        return o if c.returncode == 0 else None
    with ThreadPoolExecutor(max_workers=16) as ex:
        objs = list(ex.map(cc, srcs))
    if any(o is None for o in objs):
        return None
    _lib_cache[key] = objs
    return objs

def cleanup_libs():
    import shutil
    for objs in _lib_cache.values():
        if objs:
            shutil.rmtree(os.path.dirname(objs[0]), ignore_errors=True)
    _lib_cache.clear()


def rerun(path, timeout=300):
    """`./check <ID> --replay <file>`: compile a stored replay program against the current working tree and run it.  Returns the exit status to report
    (1: the violation reproduces, 0: it does not, 2: the file cannot be replayed)."""
    if not path.endswith(".cpp"):
        print(open(path).read())
        print("(this violation has no replayable input: the file above holds the failed obligation and the solver's output)")
        return 1 if "failed obligation" in open(path).read() else 2
    text = open(path).read()
    m = re.search(r'^// replay-build: lib=(\S+) flags=(\S+) sources=(\S+) libs=(\S+)$', text, re.M)
    if not m:
        print("no replay-build line in %s" % path); return 2
    lib, flags, sources, libs = [None if x == "-" else x for x in m.groups()]
    flags = flags.split(",") if flags else []
    srcs = []
    for s_ in (sources.split(",") if sources else []):
        srcs += sorted(glob.glob(os.path.join(REPO, s_)))
    if lib:
        objs = build_lib(lib, flags)
        if objs is None:
            print("the working tree's library sources do not compile"); return 2
        srcs += objs
    code = text[:text.index("\n/* native replay against")] if "\n/* native replay against" in text else text
    src = path[:-4] + ".rerun.cpp"; exe = path[:-4] + ".rerun.exe"
    open(src, "w").write(code)
    c = subprocess.run(["g++", "-std=c++14", "-O1", "-g", "-w", "-pthread"] + flags + INC + [src] + srcs + ["-o", exe] + (libs.split(",") if libs else []), capture_output=True, text=True, timeout=900)
    try: os.remove(src)
    except OSError: pass
    if c.returncode != 0:
        print("replay does not compile against this tree:\n" + c.stderr[-1500:]); cleanup_libs(); return 2
    try:
        r = subprocess.run([exe], capture_output=True, text=True, timeout=timeout); out, rc = r.stdout[-4000:] + r.stderr[-2000:], r.returncode
    except subprocess.TimeoutExpired:
        out, rc = "replay timed out after %ds" % timeout, 124
    try: os.remove(exe)
    except OSError: pass
    cleanup_libs()
    print(out)
    print("replay of %s against %s: exit %s -> %s" % (path, REPO, rc, "the violation reproduces" if (rc == 1 or rc == 124 or rc < 0 or rc >= 128) else "does not reproduce on this tree"))
    return 1 if (rc == 1 or rc == 124 or rc < 0 or rc >= 128) else 0
