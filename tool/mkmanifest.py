"""Regenerate /verif/MANIFEST.json from tool/props.py (kept in sync mechanically)."""
import json, os
from .props import PROPS, PROP_META, NOT_APPLICABLE
VERIF = os.path.dirname(os.path.dirname(os.path.abspath(__file__)))

def main():
    checks = []
    for pid in sorted(PROPS):
        m = PROP_META[pid]
        checks.append({
            "property_id": pid,
            "quick_cmd": "./check %s --tier quick" % pid,
            "thorough_cmd": "./check %s --tier thorough" % pid,
            "evidence_file": "/verif/evidence/%s.json" % pid,
            "replay_cmd_template": "./check %s --replay {path}" % pid,
            "engine": "cbmc-contracts",
            "level_claimed": {"category": "proof", "text": m["level_text"], "design_ref": m.get("design_ref", "DESIGN.md section 6 " + pid)},
            "level_note": m["level_note"],
            "technique": m.get("technique", "CBMC function/loop contracts (goto-instrument --dfcc) on C extracted mechanically from /repo each run"),
        })
    man = {
        "version": 1,
        "setup_cmd": "python3 -m compileall -q tool && ./check --selftest",
        "hooks": {"guard": "TASMANIAN_VERIF",
                  "enable": "no source hooks: contracts live in /verif/contracts and are spliced into C text extracted from /repo's working tree on every run (tool/tsg2c.py); the guard name is reserved and unused",
                  "baseline_off_cmd": "cmake --build /repo/_build && ctest --test-dir /repo/_build -j8 --timeout 900",
                  "source_commits": [], "add_only": True},
        "engines": [{"name": "cbmc-contracts", "path": "/verif/tool", "serves_properties": sorted(PROPS),
                     "kind_free_text": "contract-based deductive verification: tsg2c extraction -> goto-cc -> goto-instrument --dfcc (enforce/replace/loop contracts) -> cbmc; native replay of counterexamples against the real C++"}],
        "checks": checks,
        "notes": "Exit codes: 0 held, 1 VIOLATION, 2 undecided (extraction break / solver timeout; never reported as violation). See DESIGN.md.",
        "not_applicable": [{"property_id": k, "reason": v} for k, v in sorted(NOT_APPLICABLE.items()) if k not in PROPS],
    }
    with open(os.path.join(VERIF, "MANIFEST.json"), "w") as f:
        json.dump(man, f, indent=1)
    print("MANIFEST.json: %d checks, %d not applicable" % (len(checks), len(man["not_applicable"])))

if __name__ == "__main__":
    main()
