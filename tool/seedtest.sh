#!/bin/bash
# usage: seedtest.sh <PROP> <variant a|b> [check-args]   -- confirm a seeded mutant and run the check against it
# (1) in the scratch worktree /tmp/mut/<PROP>: apply patch, build, ctest (must be 14/14), demo (must fail); revert, rebuild, demo (must pass)
# (2) apply the patch to /repo, run ./check <PROP>, undo
P=$1; V=$2; shift; shift
SRC=/tmp/mut/out/$P/$V; WT=/tmp/mut/$P; OUT=/verif/seeded/${P}_$V
[ -f $SRC/patch.diff ] || { echo "no patch in $SRC"; exit 2; }
mkdir -p $OUT; cp $SRC/patch.diff $SRC/demo.cpp $SRC/run.sh $SRC/notes.md $OUT/ 2>/dev/null
FAST=no
if [ "$SEED_FAST" = "1" ] && grep -q '"confirmed_by_me": true' $OUT/meta.json 2>/dev/null; then FAST=yes; fi
if [ $FAST = yes ]; then
  TESTS=$(python3 -c "import json; print(json.load(open('$OUT/meta.json'))['tests_with_mutant'])"); DM=$(python3 -c "import json; print(json.load(open('$OUT/meta.json'))['demo_exit_mutant'])"); DC=0
  echo "scratch: (confirmed earlier) tests with mutant: $TESTS ; demo exit on mutant: $DM ; demo exit on clean: $DC"
else
cd $WT && git checkout -q -- . && git apply $SRC/patch.diff || { echo "patch does not apply in scratch worktree"; exit 2; }
cmake --build _build -j8 > /tmp/mut/$P.build.log 2>&1 || { echo "mutant does not build"; git checkout -q -- .; exit 2; }
TESTS=$(ctest --test-dir _build -j8 --timeout 900 2>&1 | grep "tests passed" )
( cd $SRC && timeout 120 bash run.sh $WT/_build $WT > /tmp/mut/$P.demo_mut.log 2>&1 ); DM=$?
git checkout -q -- . && cmake --build _build -j8 > /tmp/mut/$P.build.log 2>&1
( cd $SRC && timeout 120 bash run.sh $WT/_build $WT > /tmp/mut/$P.demo_clean.log 2>&1 ); DC=$?
echo "scratch: tests with mutant: $TESTS ; demo exit on mutant: $DM ; demo exit on clean: $DC"
fi
RP=${SEED_REPO:-/repo}; VF=${SEED_VERIF:-/verif}      # SEED_REPO: a worktree of /repo at the same HEAD, SEED_VERIF: a copy of /verif (used while another run owns /repo and /verif)
cd $RP && git apply --check $SRC/patch.diff 2>/dev/null || { echo "patch does not apply to $RP HEAD"; APPLY=no; }
RES="not-run"; RC=-1
if [ "$APPLY" != "no" ]; then
  git apply $SRC/patch.diff
  cd $VF && VERIF_REPO=$RP ./check $P "$@" > /tmp/mut/$P.$V.check.log 2>&1; RC=$?
  git -C $RP checkout -q -- .
  RES=$(grep -c "^VIOLATION" /tmp/mut/$P.$V.check.log); cp /tmp/mut/$P.$V.check.log $OUT/check.log
  echo "check exit $RC, VIOLATION lines: $RES"; grep "^VIOLATION\|^UNDECIDED\|^property" /tmp/mut/$P.$V.check.log | cut -c1-260 | head -8
fi
python3 - <<PY
import json
json.dump({"property": "$P", "variant": "$V", "tests_with_mutant": "$TESTS".strip(), "demo_exit_mutant": $DM, "demo_exit_clean": $DC,
           "check_exit": $RC, "violation_lines": "$RES", "confirmed_by_me": ("100% tests passed" in "$TESTS") and $DM != 0 and $DC == 0,
           "what_i_ran": "tool/seedtest.sh $P $V: scratch worktree /tmp/mut/$P (patch, cmake --build, ctest -j8, run.sh on mutated and clean build); then git -C ${SEED_REPO:-/repo} apply, ./check $P (in ${SEED_VERIF:-/verif}), git checkout",
           "needs_to_manifest": open("$SRC/notes.md").read()[:1500]}, open("$OUT/meta.json", "w"), indent=1)
PY
