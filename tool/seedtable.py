"""Markdown table of the seeded changes: what was changed, what the registered quick check reported (from seeded/<ID>_<v>/meta.json and the check log kept by tool/seedtest.sh)."""
import json, os, re, glob
OVERRIDE = {"C01-c": "RuleLocal::van_matrix (semilocalp): values of columns 1 and 2 pushed in swapped order", "C01-d": "beginConstruction() no longer drops a pending refinement"}
rows = []
FIRST = json.load(open("/verif/seeded/first_results.json")) if os.path.exists("/verif/seeded/first_results.json") else {}
for d in sorted(glob.glob("/verif/seeded/*_?")):
    m = json.load(open(os.path.join(d, "meta.json")))
    P, V = m["property"], m["variant"]
    notes = m.get("needs_to_manifest", "").strip().split("\n")
    title = re.sub(r'^#\s*', '', notes[0]) if notes else ""
    title = re.sub(r'^%s\s+mutant\s+%s\s*[:\-]?\s*' % (P, V), '', title, flags=re.I).strip()
    if not title:   # the title line has no text: use the first content line
        title = next((re.sub(r'^[-*\s]+', '', l).strip() for l in notes[1:] if l.strip()), "")
    title = OVERRIDE.get("%s-%s" % (P, V), title)
    log = os.path.join(d, "check.log")      # copy of the log of the last confirmation run (tool/seedtest.sh writes /tmp/mut/<P>.<V>.check.log)
    if not os.path.exists(log):
        log = "/tmp/mut/%s.%s.check.log" % (P, V)
    obs, conf = [], 0
    if os.path.exists(log):
        for line in open(log):
            mm = re.match(r'VIOLATION property=\S+ replay=\S+ obligation=(\S+)(.*)', line)
            if mm:
                ob = mm.group(1)
                job = ob.split("::")[0]
                if job not in obs: obs.append(job)
                if "no-failing-input-found" not in mm.group(2): conf += 1
    res = {0: "**missed**", 1: "caught", 2: "undecided (exit 2)"}.get(m["check_exit"], str(m["check_exit"]))
    if m["check_exit"] == 1:
        res += " by " + ", ".join("`%s`" % o for o in obs[:3]) + (" …" if len(obs) > 3 else "")
        res += "; replay confirmed on the real code" if conf else "; no replayable input (obligation + solver output in the replay file)"
    if "%s-%s" % (P, V) in FIRST:
        res += ". *First run:* " + FIRST["%s-%s" % (P, V)]
    rows.append("| %s-%s | %s | %s |" % (P, V, title[:150].replace("|", "/"), res))
print("| change | what was changed | quick check of that property |\n|---|---|---|")
print("\n".join(rows))
