"""Contract files: plain C fragments between `//@ <kind> <args...>` marker lines.
kinds: ghost | contract <fn> | loop <fn> <ordinal> | lemma <name> | harness <name> | stub <name> | text
`@R@`-style placeholders are substituted by the unit before parsing."""
import os, re
VERIF = os.path.dirname(os.path.dirname(os.path.abspath(__file__)))

class ContractFile:
    def __init__(self, relpath, subst=None):
        self.path = os.path.join(VERIF, relpath)
        txt = open(self.path).read()
        for k, v in (subst or {}).items():
            txt = txt.replace("@%s@" % k, str(v))
        self.sections = []   # (kind, args, text)
        cur = None
        for line in txt.split("\n"):
            m = re.match(r'^//@\s*(\w+)\s*(.*)$', line)
            if m:
                cur = [m.group(1), m.group(2).split(), []]
                self.sections.append(cur)
            elif cur is not None:
                cur[2].append(line)
        self.sections = [(k, a, "\n".join(t)) for k, a, t in self.sections]
    def contracts(self):
        return {a[0]: t for k, a, t in self.sections if k == "contract"}
    def loops(self):
        d = {}
        for k, a, t in self.sections:
            if k == "loop":
                d.setdefault(a[0], {})[int(a[1])] = t
        return d
    def text(self, kinds=("ghost", "stub", "lemma", "harness", "text"), names=None):
        out = []
        for k, a, t in self.sections:
            if k in kinds and (names is None or not a or a[0] in names or k in ("ghost", "text")):
                out.append(t)
        return "\n".join(out)
    def names(self, kind):
        return [a[0] for k, a, t in self.sections if k == kind and a]
