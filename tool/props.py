"""Which unit modules decide which property, and the per-property scope text."""
PROPS = {
    "C07": ["u_hier", "u_apiwrap", "u_indexsets", "u_limits"],
    "C08": ["u_apiwrap", "u_limits"],
    "C02": ["u_tables"],
    "C15": ["u_dream"],
    "C19": ["u_graddesc"],
    "C17": ["u_surrogate"],
    "C14": ["u_apiwrap"],
    "C01": ["u_indexsets", "u_basis"],
    "C03": ["u_tables", "u_basis"],
    "C04": ["u_basis"],
    "C18": ["u_candman"],
    "C20": ["u_pswarm"],
    "C10": ["u_transforms"],
    "C12": ["u_wavelet"],
}
COMMON_ASSUME = [
    "CBMC 6.11 and its C semantics are trusted; double is IEEE-754 binary64 round-to-nearest",
    "tsg2c rewrite rules preserve semantics on the constructs they touch (token-diff fidelity + native replay, not proved)",
    "libm / libstdc++ are external: stubbed with stated contracts or out of scope",
]
PROP_META = {
 "C07": {
  "level_text": "Proof of a stated part: the 1-D parent/kid/level hierarchy lemmas (L7) of all five local-polynomial rules for all point indices in the stated ranges, discharged by CBMC on C extracted from the working tree. Whole-history statements of C07 are not decided.",
  "level_note": "Trusted: CBMC, tsg2c extraction rules. Bounded: pwc point index (ternary arithmetic). Not decided: see evidence.not_decided_parts_of_the_property.",
  "assumptions": COMMON_ASSUME,
  "not_decided": ["direction-selective / fds strategies, completeToLower, global/sequence surplus refinement, anisotropic weight inference"],
 },
 "C02": {
  "level_text": "Proof of a stated part: the declared 1-D quadrature exactness (getQExact) never exceeds an independent theoretical bound of the rule, for all 39 non-custom rules + Fourier and all levels without int overflow; point counts strictly increase. The weights, tensor assembly and integrate() are not decided.",
  "level_note": "Trusted: CBMC, tsg2c, the theory table in contracts/tables.c (cross-checked natively on levels 0-6). Not decided: nodes/weights (eigen-solves, cos), computeTensorWeights, integrate, custom/exotic rules, domain transforms (C10).",
  "assumptions": COMMON_ASSUME, "not_decided": ["1-D nodes and weights", "computeTensorWeights / tensor assembly", "integrate()", "custom tabulated and exotic rules"],
 },
 "C15": {
  "level_text": "pending", "level_note": "pending", "assumptions": COMMON_ASSUME, "not_decided": [],
 },
 "C19": {
  "level_text": "pending", "level_note": "pending", "assumptions": COMMON_ASSUME, "not_decided": [],
 },
 "C17": {
  "level_text": "pending", "level_note": "pending", "assumptions": COMMON_ASSUME, "not_decided": [],
 },
 "C14": {
  "level_text": "pending", "level_note": "pending", "assumptions": COMMON_ASSUME, "not_decided": [],
 },
 "C08": {
  "level_text": "pending", "level_note": "pending", "assumptions": COMMON_ASSUME, "not_decided": [],
 },
 "C01": {
  "level_text": "pending", "level_note": "pending", "assumptions": COMMON_ASSUME, "not_decided": [],
 },
 "C18": {
  "level_text": "pending", "level_note": "pending", "assumptions": COMMON_ASSUME, "not_decided": [],
 },
 "C20": {
  "level_text": "pending", "level_note": "pending", "assumptions": COMMON_ASSUME, "not_decided": [],
 },
 "C03": {
  "level_text": "pending", "level_note": "pending", "assumptions": COMMON_ASSUME, "not_decided": [],
 },
 "C04": {
  "level_text": "pending", "level_note": "pending", "assumptions": COMMON_ASSUME, "not_decided": [],
 },
 "C10": {
  "level_text": "pending", "level_note": "pending", "assumptions": COMMON_ASSUME, "not_decided": [],
 },
 "C12": {
  "level_text": "pending", "level_note": "pending", "assumptions": COMMON_ASSUME, "not_decided": [],
 },
}
PENDING = "not built yet in this round (planned, see DESIGN.md section 8); no check is registered, so nothing is claimed"
NOT_APPLICABLE = {
 "C09": "relational property between two histories of loadConstructedPoints over forward_list surgery and floating-point surplus updates; no single-call contract expresses it and tsg2c cannot bring the code into C without hand rewriting (DESIGN.md section 7)",
 "C13": "quantifies over OpenMP schedules; extraction drops pragmas, CBMC has no OpenMP semantics, the pinned build has OpenMP off (DESIGN.md section 7)",
 "C16": "quantifies over command scripts and compares files written by an executable with API results; a contract would be a second copy of the dispatch table (DESIGN.md section 7)",
}
for _p in ["C01","C02","C03","C04","C05","C06","C08","C10","C11","C12","C14","C15","C17","C18","C19","C20"]:
    NOT_APPLICABLE.setdefault(_p, PENDING)
