"""Unit: public wrappers of TasmanianSparseGrid (C14, C07-G2/F6, C08-G3)."""
import re
from .. import tsg2c as X
from ..runner import Job
from ..contractfile import ContractFile
from .. import replay as RP
from . import apiwrap, tables

PRED_CPP = "SparseGrids/tsgCoreOneDimensional.cpp"

def emit_predicates(R):
    text = X.strip_comments(X.read_source(PRED_CPP))
    out = []
    for f in ("isNonNested", "isSequence", "isGlobal", "isLocalPolynomial"):
        (p,) = X.cut(PRED_CPP, r'bool\s+OneDimensionalMeta::%s\s*\(\s*TypeOneDRule\s+rule\s*\)' % f, text)
        h = X.r1_qualifiers(R, p.header)
        out.append('#line %d "%s"\n%s%s' % (p.line, X.REPO + "/" + p.rel, h, p.body))
    return "\n".join(out) + "\n"

NONDET = {"int": "nondet_int()", "double": "nondet_double()", "bool": "nondet_bool()", "size_t": "nondet_size_t()",
          "gvec": "gvec_symbolic()", "gptr": "gptr_symbolic()", "gobj": "gobj_symbolic()",
          "TypeDepth": "(TypeDepth) nondet_int()", "TypeOneDRule": "(TypeOneDRule) nondet_int()", "TypeRefinement": "(TypeRefinement) nondet_int()"}

def harness(tag, params, post):
    L = ["void h_%s(void){" % tag, "  TSG s; tsg_symbolic(&s);"]
    for n, k in params:
        L.append("  %s %s = %s;" % (k, n, NONDET[k]))
        if k == "gvec" and tag.startswith("setDomainTransform"):
            L.append("  %s.size = nondet_size_t(); __CPROVER_assume(%s.size <= 16);" % (n, n))
        if k == "TypeOneDRule":
            L.append("  __CPROVER_assume(%s >= rule_none && %s <= rule_fourier);" % (n, n))
        if k == "int" and n in ("dimensions", "outputs", "depth", "order"):
            L.append("  __CPROVER_assume(%s > -1000 && %s < 1000);" % (n, n))
    L.append("  TSG old = s;")
    L.append("  TSGW_%s(&s%s);" % (tag, "".join(", " + n for n, k in params)))
    L.append("  common_post(&old, &s, %s);" % ("true" if tag.startswith("make") else "false"))
    if post:
        L.append(post)
    L.append('  __CPROVER_assert(0, "VACUITY-CANARY");')
    L.append("}")
    return "\n".join(L) + "\n"

SERVES = {
    "C14": lambda tag: True,
    "C10": lambda tag: tag in ("setDomainTransform_vec", "clearDomainTransform", "clear"),
    "C07": lambda tag: tag.startswith(("setSurplus", "setAniso", "clearRef", "mergeRef", "update", "loadNeeded")),
    "C08": lambda tag: tag.startswith(("make", "update", "setSurplus", "setAniso")),
}

REPLAY_F6 = r'''
/* F6 on the real library: a local polynomial grid with loaded values and a pending refinement
 * (so that getNumLoaded() != getNumNeeded()); the scale correction has the documented size. */
int main_replay(){
  using namespace TasGrid;
  auto grid = makeLocalPolynomialGrid(2, 2, 3, 1, rule_localp);
  std::vector<double> pts = grid.getNeededPoints(); std::vector<double> v(grid.getNumNeeded() * 2);
  for (int i = 0; i < grid.getNumNeeded(); i++){ v[2*i] = std::exp(pts[2*i] + pts[2*i+1]); v[2*i+1] = pts[2*i]; }
  grid.loadNeededValues(v);
  int output = @OUTPUT@;
  size_t documented = (size_t) grid.getNumLoaded() * (size_t)((output == -1) ? grid.getNumOutputs() : 1);
  std::vector<double> scale(documented, 1.0);
  std::printf("loaded %d, needed %d, outputs %d, output argument %d, scale_correction.size() = %zu (documented size)\n", grid.getNumLoaded(), grid.getNumNeeded(), grid.getNumOutputs(), output, documented);
  bool rejected = false;
  try{ grid.setSurplusRefinement(1.E-4, refine_classic, output, std::vector<int>(), scale); }
  catch(std::invalid_argument &e){ rejected = true; std::printf("invalid_argument: %s\n", e.what()); }
  __CPROVER_assert(!rejected, "F6 a scale correction of the documented size getNumLoaded() x active outputs is accepted");
  return 0;
}
'''
REPLAY_EMPTY = {
 "loadNeededValues_vec": "  TasGrid::TasmanianSparseGrid g; std::vector<double> v(3, 1.0);\n  try{ g.loadNeededValues(v); std::printf(\"no exception\\n\"); }\n  catch(std::runtime_error &e){ std::printf(\"runtime_error: %s\\n\", e.what()); return 0; }\n  catch(std::invalid_argument &e){ std::printf(\"invalid_argument: %s\\n\", e.what()); return 0; }\n  return 0;",
}
def make_replay(prop):
    def rp(job, ob, vals, wd):
        tag = job.name.split(".", 1)[1]
        if "base is dereferenced" in ob["description"] and tag in REPLAY_EMPTY:
            hdr = ("Replay against the real library: the wrapper is called on an EMPTY grid; a null base pointer is dereferenced\n(the process dies with SIGSEGV instead of raising a documented exception).\nproperty %s job %s\nobligation %s: %s\nat %s"
                   % (prop, job.name, ob["name"], ob["description"], ob["location"]))
            return RP.write_and_run(prop, job.name + "." + ob["name"], hdr, ['"TasmanianSparseGrid.hpp"'], "", REPLAY_EMPTY[tag], lib="sg")
        if "F6" not in ob["description"]:
            return None, None, "ghost-protocol obligation: no concrete API input is derived"
        out = vals.get("output", "-1")
        try:
            o = int(out)
        except Exception:
            o = -1
        o = -1 if o < 0 else min(o, 1)
        hdr = "Replay against the real library.\nproperty %s job %s\nobligation %s: %s\nat %s\ncounterexample output=%s" % (prop, job.name, ob["name"], ob["description"], ob["location"], out)
        return RP.write_and_run(prop, job.name + "." + ob["name"], hdr, ['"TasmanianSparseGrid.hpp"'], REPLAY_F6.replace("@OUTPUT@", str(o)),
                                "  { int rc_ = main_replay(); if (rc_) return rc_; }", lib="sg")
    return rp

def jobs(tier, seed, prop):
    R = X.Rules()
    enums = "".join(tables.cut_enum(n, R)[0] for n in ("TypeOneDRule", "TypeDepth", "TypeRefinement"))
    preds = emit_predicates(R)
    wtext, info = apiwrap.emit(R)
    cf = ContractFile("contracts/apiwrap.c")
    posts = {a[0]: t for k, a, t in cf.sections if k == "post"}
    pre = '#include "tsg_shim.h"\nint tsg_exc;\n#define PROP_C07 %d\n#define PROP_C08 %d\n#define PROP_C14 %d\n' % (prop == "C07", prop == "C08", prop == "C14") + enums + '#line 1 "/verif/contracts/apiwrap.c"\n' + cf.text(("text",)) + preds + wtext
    out = []
    byname = {f["name"].split("[")[1].rstrip("]"): f for f in info["functions"]}
    sel = SERVES.get(prop, lambda t: True)
    for w in apiwrap.WRAPPERS:
        if not sel(w.tag):
            continue
        f = byname[w.tag]
        h = harness(w.tag, f["params"], posts.get(w.tag, ""))
        out.append(Job("api.%s" % w.tag, pre + h, "h_%s" % w.tag, timeout=120, unwind=9,
                       functions=["%s:%d %s" % (f["file"], f["line"], f["name"])], info=info, replay=make_replay(prop),
                       assumed=["family objects (GridGlobal/Sequence/LocalPolynomial/Wavelet/Fourier constructors, updateGrid, set*Refinement, loadNeededValues, clear/mergeRefinement) are stubs: they throw only before they mutate, refinement touches only `needed`",
                                "vector / array arguments are ghost descriptors (identity and length)"],
                       label="wrapper TasmanianSparseGrid::%s over the ghost receiver" % w.tag))
    return out
