"""Unit: public wrappers of TasmanianSparseGrid (C14, C07-G2/F6, C08-G3)."""
import re
from .. import tsg2c as X
from ..runner import Job
from ..contractfile import ContractFile
from .. import replay as RP
from . import apiwrap, tables

PRED_CPP = "SparseGrids/tsgCoreOneDimensional.cpp"

def emit_predicates(R):
    text = X.strip_comments(X.read_source(PRED_CPP))
    out = []
    for f in ("isNonNested", "isSequence", "isGlobal", "isLocalPolynomial", "isWavelet", "isFourier", "isSingleNodeGrowth"):
        (p,) = X.cut(PRED_CPP, r'bool\s+OneDimensionalMeta::%s\s*\(\s*TypeOneDRule\s+rule\s*\)' % f, text)
        h = X.r1_qualifiers(R, p.header)
        out.append('#line %d "%s"\n%s%s' % (p.line, X.REPO + "/" + p.rel, h, p.body))
    return "\n".join(out) + "\n"

NONDET = {"int": "nondet_int()", "double": "nondet_double()", "bool": "nondet_bool()", "size_t": "nondet_size_t()",
          "gvec": "gvec_symbolic()", "gptr": "gptr_symbolic()", "gobj": "gobj_symbolic()",
          "TypeDepth": "(TypeDepth) nondet_int()", "TypeOneDRule": "(TypeOneDRule) nondet_int()", "TypeRefinement": "(TypeRefinement) nondet_int()"}

def harness(tag, params, post, ret="void"):
    L = ["void h_%s(void){" % tag, "  TSG s; tsg_symbolic(&s);"]
    if ret == "gvec":
        L.append("  gvec ret_ = gvec_empty();")
    for n, k in params:
        L.append("  %s %s = %s;" % (k, n, NONDET[k]))
        if k == "gvec" and tag.startswith("setDomainTransform"):
            L.append("  %s.size = nondet_size_t(); __CPROVER_assume(%s.size <= 16);" % (n, n))
        if k == "TypeOneDRule":
            L.append("  __CPROVER_assume(%s >= rule_none && %s <= rule_fourier);" % (n, n))
        if k == "int" and n in ("dimensions", "outputs", "depth", "order"):
            L.append("  __CPROVER_assume(%s > -1000 && %s < 1000);" % (n, n))
    L.append("  TSG old = s;")
    L.append("  TSGW_%s(&s%s%s);" % (tag, "".join(", " + n for n, k in params), ", &ret_" if ret == "gvec" else ""))
    L.append("  common_post(&old, &s, %s);" % ("true" if tag.startswith("make") else "false"))
    if post:
        L.append(post)
    L.append('  __CPROVER_assert(0, "VACUITY-CANARY");')
    L.append("}")
    return "\n".join(L) + "\n"

SERVES = {
    "C14": lambda tag: True,
    "C10": lambda tag: tag in ("setDomainTransform_vec", "clearDomainTransform", "clear"),
    "C07": lambda tag: tag.startswith(("setSurplus", "setAniso", "clearRef", "mergeRef", "update", "loadNeeded", "beginConstruction")),
    "C01": lambda tag: tag in ("beginConstruction", "loadNeededValues_vec", "loadNeededValues_ptr", "mergeRefinement", "clearRefinement"),
    "C08": lambda tag: tag.startswith(("make", "update", "setSurplus", "setAniso", "getCandidate")),
}

REPLAY_F6 = r'''
/* F6 on the real library: a local polynomial grid with loaded values and a pending refinement
 * (so that getNumLoaded() != getNumNeeded()); the scale correction has the documented size. */
int main_replay(){
  using namespace TasGrid;
  auto grid = makeLocalPolynomialGrid(2, 2, 3, 1, rule_localp);
  std::vector<double> pts = grid.getNeededPoints(); std::vector<double> v(grid.getNumNeeded() * 2);
  for (int i = 0; i < grid.getNumNeeded(); i++){ v[2*i] = std::exp(pts[2*i] + pts[2*i+1]); v[2*i+1] = pts[2*i]; }
  grid.loadNeededValues(v);
  int output = @OUTPUT@;
  size_t documented = (size_t) grid.getNumLoaded() * (size_t)((output == -1) ? grid.getNumOutputs() : 1);
  std::vector<double> scale(documented, 1.0);
  std::printf("loaded %d, needed %d, outputs %d, output argument %d, scale_correction.size() = %zu (documented size)\n", grid.getNumLoaded(), grid.getNumNeeded(), grid.getNumOutputs(), output, documented);
  bool rejected = false;
  try{ grid.setSurplusRefinement(1.E-4, refine_classic, output, std::vector<int>(), scale); }
  catch(std::invalid_argument &e){ rejected = true; std::printf("invalid_argument: %s\n", e.what()); }
  __CPROVER_assert(!rejected, "F6 a scale correction of the documented size getNumLoaded() x active outputs is accepted");
  return 0;
}
'''
REPLAY_G3 = r'''
/* G3 on the real library: level limits set at make time (or by an earlier call) persist across every refinement / update / candidate call that passes none,
 * for the vector and the raw-array overloads; getLevelLimits() reports them and no proposed point exceeds them (local polynomial: level = depth in the tree). */
int main_replay(){
  using namespace TasGrid;
  int bad = 0;
  std::vector<int> lim = {1, 2};
  auto load = [](TasmanianSparseGrid &g){ std::vector<double> p = g.getNeededPoints(); std::vector<double> v(g.getNumNeeded()); for (int i = 0; i < g.getNumNeeded(); i++) v[i] = std::exp(p[2*i] + 2.0 * p[2*i+1]); g.loadNeededValues(v); };
  auto check = [&](TasmanianSparseGrid &g, const char *what){ if (g.getLevelLimits() != lim) { std::printf("%s: the stored level limits were lost or replaced\n", what); bad++; } };
  { auto g = makeLocalPolynomialGrid(2, 1, 1, 1, rule_localp, lim); load(g);
    g.setSurplusRefinement(1.E-6, refine_classic, 0, std::vector<int>(), std::vector<double>()); check(g, "setSurplusRefinement(tol, criteria, output, {} , {}) on a local polynomial grid");
    g.setSurplusRefinement(1.E-6, refine_classic, 0, (const int*) nullptr, (const double*) nullptr); check(g, "setSurplusRefinement(tol, criteria, output, nullptr) on a local polynomial grid"); }
  { auto g = makeWaveletGrid(2, 1, 1, 1, lim); load(g);
    g.setSurplusRefinement(1.E-6, refine_classic, 0, std::vector<int>(), std::vector<double>()); check(g, "setSurplusRefinement(tol, criteria, output, {}, {}) on a wavelet grid"); }
  { auto g = makeSequenceGrid(2, 1, 1, type_level, rule_leja, std::vector<int>(), lim); load(g);
    g.setSurplusRefinement(1.E-6, 0, std::vector<int>()); check(g, "setSurplusRefinement(tol, output, {}) on a sequence grid");
    g.setAnisotropicRefinement(type_iptotal, 2, 0, std::vector<int>()); check(g, "setAnisotropicRefinement(type, growth, output, {}) on a sequence grid");
    g.updateSequenceGrid(2, type_level, std::vector<int>(), std::vector<int>()); check(g, "updateSequenceGrid(depth, type, {}, {})"); }
  { auto g = makeGlobalGrid(2, 1, 1, type_level, rule_clenshawcurtis, std::vector<int>(), 0.0, 0.0, nullptr, lim); load(g);
    g.setAnisotropicRefinement(type_iptotal, 2, 0, std::vector<int>()); check(g, "setAnisotropicRefinement on a global grid");
    g.updateGlobalGrid(2, type_level, std::vector<int>(), std::vector<int>()); check(g, "updateGlobalGrid(depth, type, {}, {})");
    g.beginConstruction(); g.getCandidateConstructionPoints(type_level, 0, std::vector<int>()); check(g, "getCandidateConstructionPoints(type, output, {})"); }
  __CPROVER_assert(bad == 0, "G3 level limits persist across calls that pass none");
  return 0;
}
'''
REPLAY_BEGIN = r'''
/* beginConstruction() on a grid with loaded values and a pending refinement, on the real library: load some candidates, finish, load the points still
 * reported as needed; every loaded value must be reproduced by evaluate() (C01) and loaded / needed sets stay disjoint (C07). */
int main_replay(){
  using namespace TasGrid;
  int bad = 0;
  for (int fam = 0; fam < 3; fam++) {
    TasmanianSparseGrid g = (fam == 0) ? makeSequenceGrid(2, 1, 2, type_level, rule_leja) : (fam == 1) ? makeLocalPolynomialGrid(2, 1, 2, 1, rule_localp) : makeGlobalGrid(2, 1, 2, type_level, rule_clenshawcurtis);
    auto f = [](double a, double b)->double{ return std::exp(a - 0.5 * b) + a * b; };
    std::vector<double> p = g.getNeededPoints(), v(g.getNumNeeded()); for (int i = 0; i < g.getNumNeeded(); i++) v[i] = f(p[2*i], p[2*i+1]);
    g.loadNeededValues(v);
    if (fam == 1) g.setSurplusRefinement(1.E-5, refine_classic, 0); else g.setAnisotropicRefinement(type_iptotal, 4, 0, std::vector<int>());
    g.beginConstruction();
    if (g.getNumNeeded() != 0) { std::printf("family %d: %d needed points survive beginConstruction()\n", fam, g.getNumNeeded()); bad++; }
    std::vector<double> c = (fam == 1) ? g.getCandidateConstructionPoints(1.E-5, refine_classic, 0) : g.getCandidateConstructionPoints(type_level, 0);
    size_t n = c.size() / 2; if (n > 6) n = 6;
    for (size_t i = 0; i < n; i++) g.loadConstructedPoints(std::vector<double>{c[2*i], c[2*i+1]}, std::vector<double>{f(c[2*i], c[2*i+1])});
    g.finishConstruction();
    if (g.getNumNeeded() > 0) { p = g.getNeededPoints(); v.resize(g.getNumNeeded()); for (int i = 0; i < g.getNumNeeded(); i++) v[i] = f(p[2*i], p[2*i+1]); g.loadNeededValues(v); }
    p = g.getLoadedPoints(); int miss = 0;
    for (int i = 0; i < g.getNumLoaded(); i++) { double y; g.evaluate(&p[2*i], &y); if (!(std::abs(y - f(p[2*i], p[2*i+1])) < 1.E-9)) miss++; }
    if (miss) { std::printf("family %d: %d of %d loaded points are not reproduced\n", fam, miss, g.getNumLoaded()); bad++; }
  }
  __CPROVER_assert(bad == 0, "beginConstruction drops a pending refinement; afterwards loaded values are reproduced");
  return 0;
}
'''
REPLAY_EMPTY = {
 "loadNeededValues_vec": "  TasGrid::TasmanianSparseGrid g; std::vector<double> v(3, 1.0);\n  try{ g.loadNeededValues(v); std::printf(\"no exception\\n\"); }\n  catch(std::runtime_error &e){ std::printf(\"runtime_error: %s\\n\", e.what()); return 0; }\n  catch(std::invalid_argument &e){ std::printf(\"invalid_argument: %s\\n\", e.what()); return 0; }\n  return 0;",
}
def make_replay(prop):
    def rp(job, ob, vals, wd):
        tag = job.name.split(".", 1)[1]
        if "base is dereferenced" in ob["description"] and tag in REPLAY_EMPTY:
            hdr = ("Replay against the real library: the wrapper is called on an EMPTY grid; a null base pointer is dereferenced\n(the process dies with SIGSEGV instead of raising a documented exception).\nproperty %s job %s\nobligation %s: %s\nat %s"
                   % (prop, job.name, ob["name"], ob["description"], ob["location"]))
            return RP.write_and_run(prop, job.name + "." + ob["name"], hdr, ['"TasmanianSparseGrid.hpp"'], "", REPLAY_EMPTY[tag], lib="sg")
        for key, body in (("G3 ", REPLAY_G3), ("beginConstruction", REPLAY_BEGIN)):
            if key in ob["description"]:
                hdr = "Replay through the public API of the real library (fixed scenarios for this obligation).\nproperty %s job %s\nobligation %s: %s\nat %s" % (prop, job.name, ob["name"], ob["description"], ob["location"])
                return RP.write_and_run(prop, job.name + "." + ob["name"], hdr, ['"TasmanianSparseGrid.hpp"', '<cmath>'], body, "  main_replay();", lib="sg", timeout=60)
        if "F6" not in ob["description"]:
            return None, None, "ghost-protocol obligation: no concrete API input is derived"
        out = vals.get("output", "-1")
        try:
            o = int(out)
        except Exception:
            o = -1
        o = -1 if o < 0 else min(o, 1)
        hdr = "Replay against the real library.\nproperty %s job %s\nobligation %s: %s\nat %s\ncounterexample output=%s" % (prop, job.name, ob["name"], ob["description"], ob["location"], out)
        return RP.write_and_run(prop, job.name + "." + ob["name"], hdr, ['"TasmanianSparseGrid.hpp"'], REPLAY_F6.replace("@OUTPUT@", str(o)),
                                "  { int rc_ = main_replay(); if (rc_) return rc_; }", lib="sg")
    return rp

def jobs(tier, seed, prop):
    R = X.Rules()
    enums = "".join(tables.cut_enum(n, R)[0] for n in ("TypeOneDRule", "TypeDepth", "TypeRefinement"))
    preds = emit_predicates(R)
    wtext, info = apiwrap.emit(R)
    cf = ContractFile("contracts/apiwrap.c")
    posts = {a[0]: t for k, a, t in cf.sections if k == "post"}
    pre = '#include "tsg_shim.h"\nint tsg_exc;\n#define PROP_C07 %d\n#define PROP_C08 %d\n#define PROP_C14 %d\n' % (prop in ("C07", "C01"), prop in ("C08", "C07"), prop == "C14") + enums + '#line 1 "/verif/contracts/apiwrap.c"\n' + cf.text(("text",)) + preds + wtext
    out = []
    byname = {f["name"].split("[")[1].rstrip("]"): f for f in info["functions"]}
    sel = SERVES.get(prop, lambda t: True)
    for w in apiwrap.WRAPPERS:
        if not sel(w.tag):
            continue
        f = byname[w.tag]
        h = harness(w.tag, f["params"], posts.get(w.tag, ""), f.get("ret", "void"))
        out.append(Job("api.%s" % w.tag, pre + h, "h_%s" % w.tag, timeout=120, unwind=9,
                       functions=["%s:%d %s" % (f["file"], f["line"], f["name"])], info=info, replay=make_replay(prop),
                       assumed=["family objects (GridGlobal/Sequence/LocalPolynomial/Wavelet/Fourier constructors, updateGrid, set*Refinement, loadNeededValues, clear/mergeRefinement) are stubs: they throw only before they mutate, refinement touches only `needed`",
                                "vector / array arguments are ghost descriptors (identity and length)"],
                       label="wrapper TasmanianSparseGrid::%s over the ghost receiver" % w.tag))
    if prop == "C14":
        # the rule classes the make* wrappers test partition the rules: a rule that is accepted by two families (or by none) defeats the documented invalid_argument
        lem = preds + '''
void h_rule_classes(void){
  TypeOneDRule r = (TypeOneDRule) nondet_int(); __CPROVER_assume(r >= rule_none && r <= rule_fourier);
  int classes = (isGlobal(r) ? 1 : 0) + (isLocalPolynomial(r) ? 1 : 0) + (isWavelet(r) ? 1 : 0) + (isFourier(r) ? 1 : 0) + (r == rule_none ? 1 : 0);
  __CPROVER_assert(classes == 1, "C14 every rule belongs to exactly one of the classes global / local polynomial / wavelet / fourier / none that the make* wrappers accept or reject");
  __CPROVER_assert(!isSequence(r) || isGlobal(r), "C14 a sequence rule is a global rule");
  __CPROVER_assert(!isNonNested(r) || isGlobal(r), "C14 a non-nested rule is a global rule");
  __CPROVER_assert(!isSingleNodeGrowth(r) || isGlobal(r), "C14 single-node-growth rules are global rules");
  __CPROVER_assert(!(isSequence(r) && isNonNested(r)), "C14 sequence rules are nested");
  __CPROVER_assert(0, "VACUITY-CANARY");
}
'''
        out.append(Job("api.rule_classes", '#include "tsg_shim.h"\nint tsg_exc;\n' + enums + lem, "h_rule_classes", timeout=60, functions=["SparseGrids/tsgCoreOneDimensional.cpp OneDimensionalMeta::isGlobal/isLocalPolynomial/isWavelet/isFourier/isSequence/isNonNested/isSingleNodeGrowth"],
                       info={"functions": [], "rules_fired": {}}, label="rule-class predicates partition the rules"))
    return out
