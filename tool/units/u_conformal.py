"""Unit C10 (conformal part): index discipline, table safety and frame of the conformal (asin) maps."""
from .. import tsg2c as X
from ..runner import Job
from ..contractfile import ContractFile
from .. import replay as RP
from . import conformal

REPLAY = r'''
/* The obligations of this unit are about the internals of private functions, so the replay goes through the
 * public API of the real code: with a conformal transform of different truncation per dimension
 *   (1) evaluate() at the (transformed) points of a nested grid returns the loaded values (inverse o forward = id),
 *   (2) the quadrature weights integrate 1 and a low polynomial exactly (weights carry the derivative of the map). */
int main_replay(){
  int bad = 0;
  for (auto trunc : std::vector<std::vector<int>>{{4, 1, 6}, {2, 5}, {0, 3}, {3}}) {
    int dims = (int) trunc.size();
    TasGrid::TasmanianSparseGrid grid = TasGrid::makeGlobalGrid(dims, 1, 4, TasGrid::type_level, TasGrid::rule_clenshawcurtis);
    grid.setConformalTransformASIN(trunc);
    std::vector<double> pnts = grid.getPoints();
    int n = grid.getNumPoints();
    std::vector<double> vals(n);
    for (int i = 0; i < n; i++) { double v = 1.0; for (int d = 0; d < dims; d++) v += (d + 1) * std::sin(pnts[i*dims + d] + 0.3 * d); vals[i] = v; }
    grid.loadNeededValues(vals);
    for (int i = 0; i < n; i++) {
      std::vector<double> y(1);
      grid.evaluate(&pnts[i*dims], y.data());
      if (!(std::abs(y[0] - vals[i]) < 1.E-8)) { if (bad < 5) std::printf("dims %d point %d: evaluate at its own node gives %.15g, loaded %.15g\n", dims, i, y[0], vals[i]); bad++; }
    }
    if (dims > 2) continue;
    /* full tensor grid, 17 Clenshaw-Curtis points per direction: exact to degree 17 >= 2*6 + 2 in each variable */
    TasGrid::TasmanianSparseGrid tens = TasGrid::makeGlobalGrid(dims, 0, 4, TasGrid::type_tensor, TasGrid::rule_clenshawcurtis);
    tens.setConformalTransformASIN(trunc);
    std::vector<double> w = tens.getQuadratureWeights();
    pnts = tens.getPoints(); n = tens.getNumPoints();
    double s1 = 0.0, s2 = 0.0;
    for (int i = 0; i < n; i++) { s1 += w[i]; s2 += w[i] * pnts[i*dims] * pnts[i*dims]; }
    double vol = std::pow(2.0, dims);
    if (!(std::abs(s1 - vol) < 1.E-8)) { std::printf("dims %d: weights sum to %.15g, volume %.15g\n", dims, s1, vol); bad++; }
    if (!(std::abs(s2 - vol / 3.0) < 1.E-8)) { std::printf("dims %d: integral of x0^2 is %.15g, exact %.15g\n", dims, s2, vol / 3.0); bad++; }
  }
  __CPROVER_assert(bad == 0, "C10 conformal map: inverse o forward is the identity at the nodes and the weights integrate low polynomials exactly");
  return 0;
}
'''
REPLAY_BOTH = r'''
/* Through the public API of the real code: a linear domain transform AND a conformal transform; evaluate() at the grid's own (transformed) points must return the loaded values. */
int main_replay(){
  int bad = 0;
  TasGrid::TasmanianSparseGrid grid = TasGrid::makeGlobalGrid(2, 1, 4, TasGrid::type_level, TasGrid::rule_clenshawcurtis);
  grid.setDomainTransform({3.0, -2.0}, {7.0, 5.0});
  grid.setConformalTransformASIN({4, 2});
  std::vector<double> p = grid.getPoints(); int n = grid.getNumPoints();
  std::vector<double> v(n); for (int i = 0; i < n; i++) v[i] = std::sin(p[2*i]) + p[2*i+1];
  grid.loadNeededValues(v);
  for (int i = 0; i < n; i++) { double y; grid.evaluate(&p[2*i], &y); if (!(std::abs(y - v[i]) < 1.E-8)) { if (bad < 5) std::printf("point %d (%g, %g): evaluate gives %.15g, loaded %.15g\n", i, p[2*i], p[2*i+1], y, v[i]); bad++; } }
  __CPROVER_assert(bad == 0, "C10 with a linear and a conformal transform evaluate() at the grid's points returns the loaded values");
  return 0;
}
'''
REPLAY_INT = r'''
/* On the real library: with a linear AND a conformal transform, integrate() equals quadrature weights times values, and both scale with the volume of the box. */
int main_replay(){
  int bad = 0;
  for (int conf = 0; conf < 2; conf++) for (int lin = 0; lin < 2; lin++) {
    TasGrid::TasmanianSparseGrid g = TasGrid::makeGlobalGrid(2, 1, 5, TasGrid::type_level, TasGrid::rule_clenshawcurtis);
    if (lin) g.setDomainTransform({1.0, -2.0}, {4.0, 0.0});
    if (conf) g.setConformalTransformASIN({4, 2});
    std::vector<double> p = g.getPoints(); int n = g.getNumPoints(); std::vector<double> v(n, 1.0);
    g.loadNeededValues(v);
    std::vector<double> w = g.getQuadratureWeights(); double sw = 0.0; for (double x : w) sw += x;
    double q; g.integrate(&q);
    double vol = lin ? 6.0 : 4.0;
    if (!(std::abs(q - sw) < 1.E-9) || !(std::abs(q - vol) < 1.E-6)) { std::printf("conformal %d, linear %d: integrate() of the constant 1 gives %.12g, weights sum to %.12g, volume %.12g\n", conf, lin, q, sw, vol); bad++; }
  }
  for (int loaded = 0; loaded < 2; loaded++) {      /* basis integrals of a grid with a linear transform, before and after values are loaded */
    TasGrid::TasmanianSparseGrid c = TasGrid::makeLocalPolynomialGrid(2, 1, 2, 1, TasGrid::rule_localp), t = TasGrid::makeLocalPolynomialGrid(2, 1, 2, 1, TasGrid::rule_localp);
    t.setDomainTransform({1.0, -2.0}, {4.0, 0.0});
    if (loaded) { std::vector<double> v(c.getNumNeeded(), 1.0); c.loadNeededValues(v); t.loadNeededValues(v); }
    std::vector<double> ic = c.integrateHierarchicalFunctions(), it = t.integrateHierarchicalFunctions();
    for (size_t i = 0; i < ic.size(); i++) if (!(std::abs(it[i] - 1.5 * ic[i]) < 1.E-12)) { std::printf("%s grid: basis integral %zu is %.12g, canonical %.12g times the scale 1.5 expected\n", loaded ? "loaded" : "unloaded", i, it[i], ic[i]); bad++; break; }
  }
  __CPROVER_assert(bad == 0, "C10 integrate() and the quadrature weights carry the scale of the linear transform with and without a conformal transform");
  return 0;
}
'''
def replay(prop, body=None):
    body = body or REPLAY
    def rp(job, ob, vals, wd):
        hdr = "Replay through the public API of the real code.\nproperty %s job %s\nobligation %s: %s\nat %s" % (prop, job.name, ob["name"], ob["description"], ob["location"])
        return RP.write_and_run(prop, job.name + "." + ob["name"], hdr, ['"TasmanianSparseGrid.hpp"', '<cmath>'], body, "  main_replay();", lib="sg", timeout=60)
    return rp

def jobs(tier, seed, prop):
    R = X.Rules()
    t, info = conformal.emit(R)
    cf = ContractFile("contracts/conformal.c")
    out = []
    for w, fn in enumerate(("mapConformalCanonicalToTransformed", "mapConformalTransformedToCanonical", "mapConformalWeights")):
        # the inverse map (Newton iteration) is the heavy one: larger tables exhaust the memory limit
        nd, np_, npts, newton = (2, 2, 1, 1) if tier == "quick" else ((2, 2, 1, 2) if w == 1 else (3, 3, 2, 2))
        pre = '#include "tsg_shim.h"\nint tsg_exc;\n#define TSG_NDIM %d\n#define TSG_NP %d\n#define TSG_NPTS %d\n#define TSG_NEWTON %d\n#define TSG_WHICH %d\n' % (nd, np_, npts, newton, w)
        src = pre + '#line 1 "/verif/contracts/conformal.c"\n' + cf.text(("text",)) + t + cf.text(("harness",), ["h_conformal"])
        out.append(Job("conformal." + fn, src, "h_conformal", unwind=max(nd, npts, np_, newton, nd * npts) + 1, timeout=600 if tier == "quick" else 2400, backends=[["--refine-arithmetic"], ["--sat-solver", "cadical"]],
                functions=["%s:%d %s" % (f["file"], f["line"], f["name"]) for f in info["functions"] if f["name"].endswith(fn)], info=info, replay=replay(prop),
                bounded="dimensions <= %d, truncation power < %d, points <= %d, Newton iterations <= %d (full unwinding; the Newton exit test is an uninterpreted predicate)" % (nd, np_, npts, newton),
                assumed=["R13: lgamma, log, exp, abs return any value: the values of the conformal map (and that the two maps are numerically inverse) are NOT decided by this unit",
                         "convergence of the Newton iteration is not decided"],
                label=fn + ": separability (row j for coordinate j), table safety, untouched without a transform, zero stays zero, frame"))
    Rc = X.Rules()
    ct, cinfo = conformal.emit_composition(Rc)
    t2 = [t_ for k, a, t_ in cf.sections if k == "text2"][0]
    out.append(Job("conformal.composition", '#include "tsg_shim.h"\nint tsg_exc;\n#line 1 "/verif/contracts/conformal.c"\n' + t2 + ct + cf.text(("harness",), ["h_composition"]), "h_composition", unwind=4, timeout=120,
                   functions=["%s:%d %s" % (f["file"], f["line"], f["name"]) for f in cinfo["functions"]], info=cinfo, replay=replay(prop, REPLAY_BOTH),
                   assumed=["the four maps are stubs that log their identity (their own contracts: transforms.* and conformal.map*)"],
                   label="formTransformedPoints / formCanonicalPoints: the pull-back undoes the linear and conformal maps in the reverse order of the push-forward"))
    Ri = X.Rules()
    it, iinfo = conformal.emit_integrate(Ri)
    t3 = [t_ for k, a, t_ in cf.sections if k == "text3"][0]
    for w, fn in enumerate(("integrate", "getQuadratureWeights", "integrateHierarchicalFunctions")):
        out.append(Job("conformal.scale." + fn, '#include "tsg_shim.h"\nint tsg_exc;\n#define TSG_WHICH %d\n#line 1 "/verif/contracts/conformal.c"\n' % w + t3 + it + cf.text(("harness",), ["h_integrate"]), "h_integrate", unwind=5, timeout=120,
                       functions=["%s:%d %s" % (f["file"], f["line"], f["name"]) for f in iinfo["functions"] if f["name"].endswith(fn)], info=iinfo, replay=replay(prop, REPLAY_INT),
                       bounded="outputs <= 2, points <= 3 (full unwinding)",
                       assumed=["the family integrate / weights, mapConformalWeights and getQuadratureScale are stubs that log (their own contracts: transforms.lemma_qscale, conformal.mapConformalWeights)", "R13: the product entry * scale is uninterpreted"],
                       label="TasmanianSparseGrid::%s: conformal correction and linear scale compose (each applied exactly when set)" % fn))
    return out
