"""Unit C14: the size guard of TasmanianSparseGrid::setHierarchicalCoefficients(const std::vector<double>&): a vector is handed to the array overload only
if it holds what the family object reads from it (2 x points x outputs numbers for a Fourier grid, points x outputs otherwise); every other size raises
std::runtime_error before anything is touched."""
import re
from .. import tsg2c as X
from ..runner import Job
from .. import replay as RP
CPP = "SparseGrids/TasmanianSparseGrid.cpp"

def emit(R):
    text = X.strip_comments(X.read_source(CPP))
    (p,) = X.cut(CPP, r'void\s+TasmanianSparseGrid::setHierarchicalCoefficients\s*\(\s*const\s+std::vector<double>\s*&c\s*\)', text)
    b = p.body
    b = X.balanced_call_sub(R, "R2-size_mult", b, r'\bUtils::size_mult\s*(?=\()', lambda m, a: "(((size_t)(%s)) * ((size_t)(%s)))" % tuple(X.split_top(a)))
    b = X.r9_throws(R, b)
    b = R.sub("R5-size", r'\bc\.size\(\)', 'c_size', b)
    b = R.sub("R10-self-call", r'(?<![\w>.:])setHierarchicalCoefficients\(\s*c\.data\(\)\s*\)\s*;', 'gh_array_overload(c_size);', b)
    for k in ("getNumOutputs", "getNumPoints", "isFourier"):
        b = R.sub("R10-member-call", r'(?<![\w>.:])%s\(\)' % k, 'g_' + k, b)
    X.check_leftover(b, "setHierarchicalCoefficients(vector)")
    R.require({"R10-self-call": 1, "R5-size": 1, "R9-throw-runtime_error": 1})
    info = {"functions": [{"name": "TasmanianSparseGrid::setHierarchicalCoefficients(const std::vector<double>&)", "file": p.rel, "line": p.line, "loops": 0}], "rules_fired": {k: v for k, v in R.counts.items() if v},
            "fidelity": X.fidelity(p.body, b, extra_vocab=["Utils", "size_mult", "getNumOutputs", "getNumPoints", "isFourier", "c", "size", "data", "setHierarchicalCoefficients", "runtime_error"], slack=10)}
    return '#line %d "%s"\nvoid TSG_setHierarchicalCoefficients_vec(size_t c_size)%s\n' % (p.line, X.REPO + "/" + p.rel, b), info

HARNESS = r'''
int g_getNumOutputs, g_getNumPoints; bool g_isFourier; int g_forwarded; size_t g_forwarded_size;
void gh_array_overload(size_t n){ g_forwarded++; g_forwarded_size = n; }
'''
TAIL = r'''
void h_coefguard(void){
  size_t a_size = nondet_size_t(); g_getNumOutputs = nondet_int(); g_getNumPoints = nondet_int(); g_isFourier = nondet_bool();
  __CPROVER_assume(g_getNumOutputs >= 0 && g_getNumOutputs <= 1000 && g_getNumPoints >= 0 && g_getNumPoints <= 100000 && a_size <= 1000000000);
  /* what the array overload of the family reads (GridFourier::setHierarchicalCoefficients: real parts then imaginary parts; the other families: one number per point and output) */
  size_t reads = (size_t) g_getNumOutputs * (size_t) g_getNumPoints * (g_isFourier ? 2 : 1);
  tsg_exc = 0; g_forwarded = 0;
  TSG_setHierarchicalCoefficients_vec(a_size);
  if (a_size == reads) __CPROVER_assert(tsg_exc == 0 && g_forwarded == 1 && g_forwarded_size == a_size, "C14 a coefficient vector of the size the family reads is accepted and handed on");
  else __CPROVER_assert(tsg_exc == TSG_RUNTIME_ERROR && g_forwarded == 0, "C14 a coefficient vector of any other size raises std::runtime_error and is not handed to the family object (which would read past its end)");
  __CPROVER_assert(0, "VACUITY-CANARY");
}
'''
REPLAY = r'''
/* On the real library (AddressSanitizer): for a grid of each family, vectors one short, one long and (Fourier) of half the size must be rejected with
 * std::runtime_error and leave the grid as it was; the right size must be accepted. */
int main_replay(){
  using namespace TasGrid;
  int bad = 0;
  const char *names[5] = {"Global", "Sequence", "LocalPolynomial", "Wavelet", "Fourier"};
  for (int fam = 0; fam < 5; fam++) {
    TasmanianSparseGrid g = fam == 0 ? makeGlobalGrid(2, 2, 2, type_level, rule_clenshawcurtis) : fam == 1 ? makeSequenceGrid(2, 2, 2, type_level, rule_leja)
                          : fam == 2 ? makeLocalPolynomialGrid(2, 2, 2, 1, rule_localp) : fam == 3 ? makeWaveletGrid(2, 2, 1, 1) : makeFourierGrid(2, 2, 1, type_level);
    size_t right = (size_t) g.getNumPoints() * 2 * (fam == 4 ? 2 : 1);
    for (size_t n : {right - 1, right + 1, right / 2, (size_t) 0}) {
      int before_needed = g.getNumNeeded(), before_loaded = g.getNumLoaded(); bool threw = false;
      try { g.setHierarchicalCoefficients(std::vector<double>(n, 0.25)); } catch (std::runtime_error &) { threw = true; }
      if (!threw || g.getNumNeeded() != before_needed || g.getNumLoaded() != before_loaded) { std::printf("%s: a vector of %zu coefficients (the grid reads %zu) was %s; loaded %d -> %d, needed %d -> %d\n", names[fam], n, right, threw ? "rejected" : "ACCEPTED", before_loaded, g.getNumLoaded(), before_needed, g.getNumNeeded()); bad++; }
    }
    bool threw = false; try { g.setHierarchicalCoefficients(std::vector<double>(right, 0.25)); } catch (std::runtime_error &) { threw = true; }
    if (threw || g.getNumLoaded() == 0) { std::printf("%s: the vector of the right size (%zu) was rejected\n", names[fam], right); bad++; }
  }
  __CPROVER_assert(bad == 0, "C14 setHierarchicalCoefficients(vector) accepts exactly the size the grid reads");
  return 0;
}
'''
def replay(prop):
    def rp(job, ob, vals, wd):
        hdr = "Replay through the public API of the real library.\nproperty %s job %s\nobligation %s: %s\nat %s" % (prop, job.name, ob["name"], ob["description"], ob["location"])
        return RP.write_and_run(prop, job.name + "." + ob["name"], hdr, ['"TasmanianSparseGrid.hpp"', '<stdexcept>'], REPLAY, "  main_replay();", lib="sg", flags=["-fsanitize=address", "-fno-omit-frame-pointer"], timeout=120)
    return rp

def jobs(tier, seed, prop):
    R = X.Rules()
    t, info = emit(R)
    return [Job("coefguard.setHierarchicalCoefficients_vec", '#include "tsg_shim.h"\nint tsg_exc;\n' + HARNESS + t + TAIL, "h_coefguard", timeout=120,
                functions=["%s:%d %s" % (f["file"], f["line"], f["name"]) for f in info["functions"]], info=info, replay=replay(prop),
                assumed=["the array overload of a Fourier grid reads 2 x points x outputs numbers, of the other families points x outputs (read off GridFourier::setHierarchicalCoefficients and its siblings; not under contract here)"],
                label="setHierarchicalCoefficients(vector): accepted exactly when the vector holds what the family object reads, runtime_error otherwise")]
