"""Unit C01 (Local Polynomial grids): RuleLocal::van_matrix<effrule> - the sparse lower-triangular matrix of basis values at the nodes that
recomputeSurpluses() solves with.  Rule R13: evalRaw and getNode are uninterpreted; every stored value carries the provenance (column, x) it was
computed for.  Obligations: CSR shape; in every row the columns increase strictly and end in the diagonal; every value was computed for the
column it is stored under and for the node of its row; literal ones only where the basis function is identically one or on the diagonal; the
columns between the fixed first ones and the diagonal are exactly the chain of parents of the row."""
import re
from .. import tsg2c as X
from ..runner import Job
from ..contractfile import ContractFile
from .. import replay as RP
from . import rulelocal
HPP = rulelocal.HPP

def emit(R, rule):
    text = X.strip_comments(X.read_source(HPP))
    (p,) = X.cut(HPP, r'template<erule\s+effrule>\s*void\s+van_matrix\s*\(\s*int\s+max_order\s*,\s*int\s+num_rows\s*,\s*std::vector<int>\s*&pntr\s*,\s*std::vector<int>\s*&indx\s*,\s*std::vector<double>\s*&vals\s*\)', text)
    b = p.body
    b = R.sub("R3-enum-const", r'\berule::(\w+)', r'erule_\1', b)
    b = R.sub("R3-template-param", r'\beffrule\b', 'erule_%s' % rule, b)
    b = R.sub("R13-evalRaw", r'evalRaw<erule_%s>\(\s*max_order\s*,\s*([^,()]+)\s*,\s*x\s*\)' % rule, r'PV_EVAL(\1, x)', b)
    b = R.sub("R13-getNode", r'getNode<erule_%s>\(\s*r\s*\)' % rule, 'tsg_node(r)', b)
    b = R.sub("R3-template-call", r'\b(getLevel)<erule_%s>\(' % rule, r'\1_%s(' % rule, b)
    # initializer-list assignments
    def lst(m):
        v, items = m.group(1), [q for q in (s_.strip() for s_ in m.group(2).split(",")) if q]
        R.counts["R5-init-list"] = R.counts.get("R5-init-list", 0) + 1
        if v == "vals":
            return "pv_clear(vals); " + " ".join("pv_push_lit(vals, %s);" % q for q in items)
        return "%s_size = 0; " % v + " ".join("iv_push(%s, &%s_size, %s_cap, %s);" % (v, v, v, q) for q in items)
    b = re.sub(r'\b(indx|vals|pntr)\s*=\s*\{([^}]*)\}\s*;', lst, b)
    b = R.sub("R5-sized-assign", r'\bpntr\s*=\s*std::vector<int>\(\s*([^;]*?)\s*,\s*0\s*\)\s*;', r'iv_sized(pntr, &pntr_size, pntr_cap, (\1));', b)
    b = R.sub("R6-range-for-array", r'for\s*\(\s*auto\s+(\w+)\s*:\s*std::array<int,\s*(\d+)>\s*\{([^}]*)\}\s*\)', r'for (int q_ = 0, arr_[] = {\3}, \1 = arr_[0]; q_ < \2; q_++, \1 = arr_[q_ < \2 ? q_ : 0])', b)
    b = R.sub("R5-local-vector", r'std::vector<int>\s+ancestors\s*;', 'int ancestors[TSG_ML]; size_t ancestors_size = 0; const size_t ancestors_cap = TSG_ML;', b)
    b = R.sub("R5-local-vector", r'std::vector<double>\s+ancestors_vals\s*;', 'pvec ancestors_vals_s; pvec *ancestors_vals = &ancestors_vals_s; pv_clear(ancestors_vals);', b)
    b = R.sub("R5-clear", r'\b(indx|ancestors)\.clear\(\)', r'\1_size = 0', b)
    b = R.sub("R5-clear", r'\b(vals|ancestors_vals)\.clear\(\)', r'pv_clear(\1)', b)
    b = R.sub("R5-reserve", r'\b(indx|vals|ancestors|ancestors_vals)\.reserve\([^;]*\)\s*;', '', b)
    b = R.sub("R5-insert-reversed", r'\bindx\.insert\(\s*indx\.end\(\)\s*,\s*ancestors\.rbegin\(\)\s*,\s*ancestors\.rend\(\)\s*\)', 'iv_append_reversed(indx, &indx_size, indx_cap, ancestors, ancestors_size)', b)
    b = R.sub("R5-insert-reversed", r'\bvals\.insert\(\s*vals\.end\(\)\s*,\s*ancestors_vals\.rbegin\(\)\s*,\s*ancestors_vals\.rend\(\)\s*\)', 'pv_append_reversed(vals, ancestors_vals)', b)
    b = X.balanced_call_sub(R, "R5-push_back", b, r'\b(indx|ancestors)\.push_back\s*(?=\()', lambda m, a: "iv_push(%s, &%s_size, %s_cap, %s)" % (m.group(1), m.group(1), m.group(1), a))
    def pvpush(m, a):
        a = a.strip()
        mm = re.match(r'^PV_EVAL\((.*),\s*x\)$', a, re.S)
        return "pv_push_eval(%s, %s, x)" % (m.group(1), mm.group(1)) if mm else "pv_push_lit(%s, %s)" % (m.group(1), a)
    b = X.balanced_call_sub(R, "R5-push_back", b, r'\b(vals|ancestors_vals)\.push_back\s*(?=\()', pvpush)
    b = R.sub("R5-size", r'\b(indx|ancestors)\.size\(\)', r'\1_size', b)
    b = R.sub("R5-back", r'\bpntr\.back\(\)', 'pntr[pntr_size - 1]', b)
    b = X.r2_casts(R, b)
    X.check_leftover(b, "van_matrix<%s>" % rule)
    if "PV_EVAL" in b:
        raise X.ExtractionBreak("van_matrix<%s>: a value of evalRaw is used outside a push_back" % rule)
    R.require({"R5-init-list": 10, "R5-push_back": 20, "R5-insert-reversed": 5, "R13-evalRaw": 4, "R5-back": 3})
    chdr = "void van_matrix_%s(int max_order, int num_rows, int *pntr, size_t pntr_cap, size_t *pntr_size_, int *indx, size_t indx_cap, size_t *indx_size_, pvec *vals)" % rule
    body = "{ size_t pntr_size = 0, indx_size = 0;\n" + b + "\n *pntr_size_ = pntr_size; *indx_size_ = indx_size; }"
    info = {"functions": [{"name": "RuleLocal::van_matrix<%s>" % rule, "file": p.rel, "line": p.line, "loops": X.count_loops(b)}], "rules_fired": {k: v for k, v in R.counts.items() if v},
            "fidelity": X.fidelity(p.body, b, extra_vocab=["effrule", "erule", "evalRaw", "getNode", "getLevel", "max_order", "x", "r", "indx", "vals", "pntr", "ancestors", "ancestors_vals", "std", "vector", "array", "auto", "int", "double", "size_t",
                                                            "clear", "reserve", "push_back", "insert", "end", "rbegin", "rend", "size", "back", "static_cast", "num_rows", "max_level", "i", "0", "1", "2", "1.0", "5", "*", "+", "=", "<", ">", "(", ")", "{", "}", ",", ";", ".", ":"], slack=60)}
    return '#line %d "%s"\n%s%s\n' % (p.line, X.REPO + "/" + p.rel, chdr, body), info

REPLAY = r'''
/* On the real library: local polynomial grids of every rule in 3 and 4 dimensions (the sparse-Kronecker path of recomputeSurpluses uses van_matrix),
 * a model that is not symmetric; every loaded value must be reproduced at its point. */
int main_replay(){
  using namespace TasGrid;
  int bad = 0;
  for (auto rule : {rule_localp, rule_semilocalp, rule_localp0, rule_localpb}) for (int dims = 3; dims <= 4; dims++) for (int order = 1; order <= 2; order++) {
    TasmanianSparseGrid g = makeLocalPolynomialGrid(dims, 2, 3, order, rule);
    std::vector<double> p = g.getNeededPoints(); int n = g.getNumNeeded(); std::vector<double> v(2 * n);
    for (int i = 0; i < n; i++) { double s = 0.3, t = 1.0; for (int d = 0; d < dims; d++) { s += (d + 1) * p[i*dims + d]; t *= (1.3 + p[i*dims + d] * (0.2 + 0.1 * d)); } v[2*i] = std::exp(0.3 * s); v[2*i+1] = t + std::sin(s); }
    g.loadNeededValues(v);
    int miss = 0;
    for (int i = 0; i < n; i++) { double y[2]; g.evaluate(&p[i*dims], y); if (!(std::abs(y[0] - v[2*i]) < 1.E-9 && std::abs(y[1] - v[2*i+1]) < 1.E-9)) miss++; }
    if (miss) { std::printf("rule %d, %d dimensions, order %d: %d of %d loaded values are not reproduced\n", (int) rule, dims, order, miss, n); bad++; }
  }
  __CPROVER_assert(bad == 0, "C01 local polynomial grids (sparse-Kronecker surplus computation) reproduce the loaded values");
  return 0;
}
'''
def replay(prop):
    def rp(job, ob, vals, wd):
        hdr = "Replay through the public API of the real library.\nproperty %s job %s\nobligation %s: %s\nat %s" % (prop, job.name, ob["name"], ob["description"], ob["location"])
        return RP.write_and_run(prop, job.name + "." + ob["name"], hdr, ['"TasmanianSparseGrid.hpp"', '<cmath>'], REPLAY, "  main_replay();", lib="sg", timeout=120)
    return rp

SPECIAL = {"pwc": 1, "localp": 1, "semilocalp": 3, "localp0": 1, "localpb": 2}   # number of fixed leading columns of a generic row
def jobs(tier, seed, prop):
    cf = ContractFile("contracts/vanmat.c")
    nr = 9 if tier == "quick" else 14
    out = []
    for rule in ("localp", "semilocalp", "localp0", "localpb", "pwc"):
        Rh = X.Rules()
        ht, hinfo = rulelocal.emit(Rh, rules=[rule], funcs=["getParent", "getStepParent", "getLevel"], minima={"R3-enum-const": 0, "R3-template-call": 0})
        R = X.Rules()
        t, info = emit(R, rule)
        pre = ht + 'int tsg_exc;\n#define TSG_NR %d\n#define TSG_ML 8\n#define RULE_%s 1\n#define GETPARENT getParent_%s\n#define VAN van_matrix_%s\n#define NSPECIAL %d\n#line 1 "/verif/contracts/vanmat.c"\n' % (nr, rule, rule, rule, SPECIAL[rule]) + cf.text(("text",))
        out.append(Job("vanmat." + rule, pre + t + cf.text(("harness",), ["h_van"]), "h_van", unwind=nr + 3, timeout=600 if tier == "quick" else 2400, backends=[["--sat-solver", "cadical"], []],
                       functions=["%s:%d %s" % (f["file"], f["line"], f["name"]) for f in info["functions"]], info=info, replay=replay(prop),
                       bounded="num_rows <= %d (full unwinding with unwinding assertions)" % nr,
                       assumed=["R13: evalRaw and getNode are uninterpreted (the delta property phi_r(node_r) = 1 and the zero pattern of the basis are lemmas L1 / L4 of the basis unit)",
                                "getParent / getLevel are the extracted functions of the hierarchy unit (L7)"],
                       label="van_matrix<%s>: CSR shape, value provenance (column and node), parents chain" % rule))
    return out
