"""Extraction of CandidateManager::next / find / compare / match (Addons/tsgCandidateManager.hpp)."""
import re
from .. import tsg2c as X
HPP = "Addons/tsgCandidateManager.hpp"

MEMBERS = ["num_dimensions", "num_batch", "num_candidates", "num_running", "num_done", "candidates", "sorted", "status"]

def _members(R, b):
    for m in MEMBERS:
        b = R.sub("R10-member", r'(?<![\w.>])%s\b' % m, 'self->' + m, b)
    return b

def _status_enum(R, b):
    b = R.sub("R3-enum-const", r'(?<![\w.>])free\b', 'st_free', b)
    b = R.sub("R3-enum-const", r'(?<![\w.>])running\b(?!_)', 'st_running', b)
    b = R.sub("R3-enum-const", r'(?<![\w.>])done\b', 'st_done', b)
    return b

def emit_next(R, contract=None, loops=None):
    text = X.strip_comments(X.read_source(HPP))
    (p,) = X.cut(HPP, r'std::vector<double>\s+next\s*\(\s*size_t\s+remaining_budget\s*\)', text)
    chdr = "void CandidateManager_next(CandidateManager *self, size_t remaining_budget, double *ret, size_t *ret_size)"
    b = p.body
    b = X.r2_std_math(R, b)
    RANGE = r'&candidates\[i\*num_dimensions\]\s*,\s*&candidates\[i\*num_dimensions\]\s*\+\s*num_dimensions'
    b = R.sub("R5-range-ctor", r'std::vector<double>\s+result\s*\(\s*' + RANGE + r'\s*\)\s*;',
              'TSG_VEC_NEW(double, result, TSG_RCAP); tsg_assign_double(result, &result_size, result_cap, &candidates[i*num_dimensions], num_dimensions);', b)
    b = R.sub("R12-list-push", r'running_jobs\.push_front\(\s*result\s*\)\s*;', 'fl_push_front(self, result, result_size);', b)
    b = R.sub("R12-list-push", r'running_jobs\.push_front\(\s*std::vector<double>\(\s*' + RANGE + r'\s*\)\s*\)\s*;', 'fl_push_front(self, &candidates[i*num_dimensions], num_dimensions);', b)
    b = R.sub("R5-insert-range", r'result\.insert\(\s*result\.end\(\)\s*,\s*' + RANGE + r'\s*\)\s*;', 'tsg_append_double(result, &result_size, result_cap, &candidates[i*num_dimensions], num_dimensions);', b)
    b = R.sub("R5-return-vector", r'return\s+std::vector<double>\(\)\s*;', '{ *ret_size = 0; return; }', b)
    b = R.sub("R5-return-vector", r'return\s+result\s*;', '{ tsg_copy_n_double(result, result_size, ret); *ret_size = result_size; return; }', b)
    b = _status_enum(R, b)
    b = _members(R, b)
    X.check_leftover(chdr + b, "CandidateManager::next")
    R.require({"R5-range-ctor": 1, "R12-list-push": 2, "R5-insert-range": 1, "R5-return-vector": 2, "R3-enum-const": 4, "R2-std-min": 1})
    out = '#line %d "%s"\n' % (p.line, X.REPO + "/" + p.rel) + X.splice(chdr, b, contract, loops)
    info = {"functions": [{"name": "CandidateManager::next", "file": p.rel, "line": p.line, "loops": X.count_loops(b)}],
            "fidelity": X.fidelity(p.src_body, b, extra_vocab=MEMBERS + ["result", "running_jobs", "push_front", "insert", "end", "free", "running", "done", "min", "return"], slack=12),
            "rules_fired": {k: v for k, v in R.counts.items() if v},
            "drops": ["std::forward_list running_jobs -> ghost list (count + rows)", "returned std::vector -> out parameter"]}
    return out, info

def emit_complete(R):
    """CandidateManager::complete: the counters, the status marks and the running-job list."""
    text = X.strip_comments(X.read_source(HPP))
    (p,) = X.cut(HPP, r'void\s+complete\s*\(\s*std::vector<double>\s+const\s*&\s*p\s*\)', text)
    chdr = "void CandidateManager_complete(CandidateManager *self, const double *p, size_t p_size)"
    b = p.body
    b = X.r1_qualifiers(R, b)
    b = R.sub("R5-size", r'\bp\.size\(\)', 'p_size', b)
    b = R.sub("R5-iter-loop", r'for\s*\(\s*auto\s+ip\s*=\s*p\.begin\(\)\s*;\s*ip\s*!=\s*p\.end\(\)\s*;\s*std::advance\(\s*ip\s*,\s*num_dimensions\s*\)\s*\)', 'for (size_t ip = 0; ip != p_size; ip += num_dimensions)', b)
    b = R.sub("R5-iter-deref", r'auto\s+i\s*=\s*find\(\s*&\*ip\s*\)\s*;', 'size_t i = CandidateManager_find(self, &p[ip]);', b)
    # the helper lambda (iterator successor) belongs to the list walk below and goes with it
    b = R.sub("R7-list-helper", r'auto\s+inext\s*=\s*\[\]\([^)]*\)\s*->\s*[\w:<>\s]+?\{\s*return\s*\+\+ib\s*;\s*\}\s*;', '', b)
    b = R.sub("R12-list-erase", r'auto\s+ib\s*=\s*running_jobs\.before_begin\(\)\s*;\s*while\s*\(\s*(?:not|!)\s*match\(\s*(&p\[[^\]]*\])\s*,\s*inext\(ib\)->data\(\)\s*\)\s*\)\s*ib\+\+\s*;\s*running_jobs\.erase_after\(\s*ib\s*\)\s*;',
              r'fl_erase_match(self, \1);', b)
    b = _status_enum(R, b)
    b = _members(R, b)
    X.check_leftover(chdr + b, "CandidateManager::complete")
    R.require({"R5-size": 1, "R5-iter-loop": 1, "R5-iter-deref": 1, "R7-list-helper": 1, "R12-list-erase": 1})
    out = '#line %d "%s"\n' % (p.line, X.REPO + "/" + p.rel) + chdr + b + "\n"
    info = {"functions": [{"name": "CandidateManager::complete", "file": p.rel, "line": p.line, "loops": X.count_loops(b)}],
            "fidelity": X.fidelity(p.src_body, b, extra_vocab=MEMBERS + ["p", "size", "begin", "end", "advance", "ip", "auto", "find", "i", "done", "inext", "ib", "running_jobs", "before_begin", "match", "data", "erase_after", "not",
                                                                        "std", "forward_list", "vector", "double", "iterator", "return", "while"], slack=40),
            "rules_fired": {k: v for k, v in R.counts.items() if v},
            "drops": ["std::forward_list running_jobs -> ghost list: the walk to the matching job and erase_after become one ghost call (the match itself is not checked here)"]}
    return out, info

def emit_find(R, contract=None, loops=None):
    text = X.strip_comments(X.read_source(HPP))
    outs = []
    infos = []
    for nm, sig, chdr in (
        ("compare", r'bool\s+compare\s*\(\s*double\s+const\s+a\[\]\s*,\s*double\s+const\s+b\[\]\s*\)\s*const', "bool CandidateManager_compare(const CandidateManager *self, double const a[], double const b[])"),
        ("find", r'size_t\s+find\s*\(\s*double\s+const\s+point\[\]\s*\)\s*const', "size_t CandidateManager_find(const CandidateManager *self, double const point[])")):
        (p,) = X.cut(HPP, sig, text)
        b = p.body
        b = X.r1_qualifiers(R, b)
        b = R.sub("R10-self-call", r'(?<![\w.>_])compare\s*\(', 'CandidateManager_compare(self, ', b)
        b = _members(R, b)
        X.check_leftover(chdr + b, nm)
        outs.append('#line %d "%s"\n' % (p.line, X.REPO + "/" + p.rel) + X.splice(chdr, b, (contract or {}).get(nm), (loops or {}).get(nm)))
        infos.append({"name": "CandidateManager::" + nm, "file": p.rel, "line": p.line, "loops": X.count_loops(b)})
    return "\n".join(outs), {"functions": infos, "rules_fired": {k: v for k, v in R.counts.items() if v}}
