"""Extraction of TasOptimization::GradientDescent (adaptive/projected and constant-step
variants, DREAM/Optimization/tsgGradientDescent.cpp)."""
import re
from .. import tsg2c as X
CPP = "DREAM/Optimization/tsgGradientDescent.cpp"

def emit_adaptive(R, contract=None, loop_contracts=None, abstract_test=False):
    text = X.strip_comments(X.read_source(CPP))
    (p,) = X.cut(CPP, r'OptimizationStatus\s+GradientDescent\s*\(\s*const\s+ObjectiveFunctionSingle\s*&func\s*,\s*const\s+GradientFunctionSingle\s*&grad\s*,\s*const\s+ProjectionFunctionSingle\s*&proj\s*,[^{]*?GradientDescentState\s*&state\s*\)', text)
    for nm in ("increase_coeff", "decrease_coeff", "max_iterations", "tolerance"):
        if nm not in p.header:
            raise X.ExtractionBreak("GradientDescent signature changed: %s missing" % nm)
    R.counts["R8-callback-params"] = 3; R.counts["R4-ref-param"] = 1
    chdr = "OptimizationStatus GradientDescent_adaptive(const double increase_coeff, const double decrease_coeff, const int max_iterations, const double tolerance, GradientDescentState *state)"
    b = p.body
    b = X.r1_qualifiers(R, b)
    b = R.sub("R2-brace-init", r'OptimizationStatus\s+status\s*\{([^}]*)\}\s*;', r'OptimizationStatus status = {\1};', b)
    b = R.sub("R10-receiver-call", r'\bstate\.getNumDimensions\(\)', 'state->x_size', b)
    b = R.sub("R10-member", r'\bstate\.(x|adaptive_stepsize)\b', r'state->\1', b)
    caps = {k: "TSG_NDIM" for k in ("x0", "gx0", "gx", "z0", "xStep")}
    b = X.r5_copy_init(R, b, caps)
    b = X.r5_local_vectors(R, b, caps)
    b = X.r2_paren_init(R, b, "double")
    vecs = {"x0": "double", "gx0": "double", "gx": "double", "z0": "double", "xStep": "double", "state->x": "double"}
    b = X.r5_swap(R, b, vecs)
    # R8 callbacks with vector arguments as (data, size)
    def vs(e): return "%s, %s_size" % (e, e)
    b = X.balanced_call_sub(R, "R8-callback", b, r'(?<![\w>.])func\s*(?=\()', lambda m, a: "cb_func(%s)" % vs(a.strip()))
    b = X.balanced_call_sub(R, "R8-callback", b, r'(?<![\w>.])grad\s*(?=\()', lambda m, a: "cb_grad(%s)" % ", ".join(vs(q) for q in X.split_top(a)))
    b = X.balanced_call_sub(R, "R8-callback", b, r'(?<![\w>.])proj\s*(?=\()', lambda m, a: "cb_proj(%s)" % ", ".join(vs(q) for q in X.split_top(a)))
    b = X.balanced_call_sub(R, "R5-vector-arg", b, r'\bcomputeStationarityResidual\s*(?=\()',
                            lambda m, a: "computeStationarityResidual(%s, %s)" % (", ".join(vs(q) for q in X.split_top(a)[:4]), X.split_top(a)[4]))
    if abstract_test:
        # R13: the descent test becomes an uninterpreted predicate of its two sides (F17 does not depend on what the test is)
        b = R.sub("R13-fp-test", r'while\s*\(\s*lhs\s*>\s*rhs\s*\+\s*num_tol\s*\)', 'while (tsg_descent_fails(lhs, rhs + num_tol))', b)
        # R13: the candidate step and the quadratic term of the test as uninterpreted operations that log the step-size they are given
        b = R.sub("R13-fp-step", r'=\s*x0\[j\]\s*-\s*gx0\[j\]\s*\*\s*([^;]+);', r'= tsg_step(x0[j], gx0[j], \1);', b)
        b = R.sub("R13-fp-rhs", r'\+=\s*delta\s*\*\s*delta\s*/\s*\(\s*2\.0\s*\*\s*([^;]+)\)\s*;', r'+= tsg_rhs_term(delta, \1);', b)
        R.require({"R13-fp-test": 1, "R13-fp-step": 1, "R13-fp-rhs": 1})
    X.check_leftover(chdr + b, "GradientDescent")
    R.require({"R2-brace-init": 1, "R10-member": 8, "R5-copy-init": 1, "R5-local-vector": 4, "R2-paren-init": 2, "R5-swap": 5, "R8-callback": 5, "R5-vector-arg": 1})
    out = '#line %d "%s"\n' % (p.line, X.REPO + "/" + p.rel) + X.splice(chdr, b, contract, loop_contracts)
    info = {"functions": [{"name": "TasOptimization::GradientDescent(func,grad,proj,...)", "file": p.rel, "line": p.line, "loops": X.count_loops(b)}],
            "fidelity": X.fidelity(p.src_body, b, extra_vocab=["state", "func", "grad", "proj", "swap", "getNumDimensions", "x", "x0", "gx0", "gx", "z0", "xStep", "delta", "2.0", "j"], slack=1 + (6 if abstract_test else 0)),
            "abstract_test": abstract_test,
            "drops": ["std::function indirection of func/grad/proj (R8)"], "rules_fired": {k: v for k, v in R.counts.items() if v}}
    return out, info

def emit_const(R, contract=None, loop_contracts=None):
    text = X.strip_comments(X.read_source(CPP))
    (p,) = X.cut(CPP, r'OptimizationStatus\s+GradientDescent\s*\(\s*const\s+GradientFunctionSingle\s*&grad\s*,\s*const\s+double\s+stepsize\s*,\s*const\s+int\s+max_iterations\s*,\s*const\s+double\s+tolerance\s*,\s*std::vector<double>\s*&state\s*\)', text)
    R.counts["R8-callback-params"] = 1; R.counts["R4-ref-param"] = 1
    chdr = "OptimizationStatus GradientDescent_const(const double stepsize, const int max_iterations, const double tolerance, double *state, size_t state_size)"
    b = p.body
    b = R.sub("R2-brace-init", r'OptimizationStatus\s+status\s*\{([^}]*)\}\s*;', r'OptimizationStatus status = {\1};', b)
    b = X.r5_local_vectors(R, b, {"gx": "TSG_NDIM"})
    b = X.r5_vector_methods(R, b, {"state": "double"})
    b = X.balanced_call_sub(R, "R8-callback", b, r'(?<![\w>.])grad\s*(?=\()', lambda m, a: "cb_grad(%s)" % ", ".join("%s, %s_size" % (q, q) for q in X.split_top(a)))
    b = X.r2_std_math(R, b)
    X.check_leftover(chdr + b, "GradientDescent_const")
    R.require({"R2-brace-init": 1, "R5-local-vector": 1, "R8-callback": 2, "R5-size": 1, "R2-std-sqrt": 1})
    out = '#line %d "%s"\n' % (p.line, X.REPO + "/" + p.rel) + X.splice(chdr, b, contract, loop_contracts)
    info = {"functions": [{"name": "TasOptimization::GradientDescent(grad,stepsize,...)", "file": p.rel, "line": p.line, "loops": X.count_loops(b)}],
            "fidelity": X.fidelity(p.src_body, b, extra_vocab=["state", "grad", "gx", "sqrt", "size"]),
            "rules_fired": {k: v for k, v in R.counts.items() if v}}
    return out, info
