"""Unit C17: checkpoint protocol of constructSurrogate against the ghost file system."""
import re
from .. import tsg2c as X
from ..runner import Job
from ..contractfile import ContractFile
from .. import replay as RP
from . import surrogate

CRASH_REPLAY = open(__file__.replace("u_surrogate.py", "crash_replay.cpp.in")).read() if __import__("os").path.exists(__file__.replace("u_surrogate.py", "crash_replay.cpp.in")) else ""

def make_replay(prop, scenario):
    def rp(job, ob, vals, wd):
        hdr = ("Replay against the real code: a real process is killed in the middle of writing a checkpoint\n(RLIMIT_FSIZE makes the kernel deliver SIGXFSZ inside the write), then constructSurrogate is run again.\n"
               "property %s job %s\nobligation %s: %s\nat %s\nscenario: %s" % (prop, job.name, ob["name"], ob["description"], ob["location"], scenario))
        sc = "1" if scenario == "initial" else "2"
        if "emptied" in ob["description"] or "starts over" in ob["description"]:
            sc = "3"
        body = CRASH_REPLAY.replace("@SCENARIO@", sc)
        return RP.write_and_run(prop, job.name + "." + ob["name"], hdr, ['"TasmanianAddons.hpp"'], body, "  { int rc_ = main_replay(); if (rc_) return rc_; }", lib="sg", timeout=300)
    return rp

def jobs(tier, seed, prop):
    R = X.Rules()
    blocks, info = surrogate.emit(R)
    cf = ContractFile("contracts/checkpoint.c")
    fl = ["%s:%d %s" % (f["file"], f["line"], f["name"]) for f in info["functions"]]
    pre = '#include "tsg_shim.h"\nint tsg_exc;\n#line 1 "/verif/contracts/checkpoint.c"\n' + cf.text(("text",))
    assumed = ["ghost file system: open-for-write truncates, a file is complete only after close, torn files are PARTIAL",
               "grid.read on a missing/torn file clears the grid and throws runtime_error, on a complete file it restores that version (assumed reader contract; IO::readNumber does not check short reads)",
               "complete.read/complete.write do not throw"]
    out = [
        Job("checkpoint.lambda", pre + blocks["checkpoint"] + cf.text(("harness",), ["h_checkpoint"]), "h_checkpoint", timeout=120,
            functions=fl, info=info, assumed=assumed, replay=make_replay(prop, "lambda"),
            label="the `checkpoint` lambda of constructCommon against the crash invariant (asserted after every file operation)"),
        Job("checkpoint.recovery_initial", pre + blocks["recovery"] + blocks["initial"] + cf.text(("harness",), ["h_recovery_initial"]), "h_recovery_initial", timeout=120,
            functions=fl, info=info, assumed=assumed, replay=make_replay(prop, "initial"),
            label="recovery block + initial checkpoint of constructCommon from any file-system state that satisfies the crash invariant"),
    ]
    # G5 budget accounting on ghost counters
    cfb = ContractFile("contracts/budget.c")
    Rb = X.Rules()
    bt, binfo = surrogate.emit_budget(Rb, cfb.loops()["sequential_loop"][0])
    out.append(Job("budget.sequential", '#include "tsg_shim.h"\nint tsg_exc;\n#line 1 "/verif/contracts/budget.c"\n' + cfb.text(("text",)) + bt + cfb.text(("harness",)), "h_budget",
                   loop_contracts=True, timeout=300, functions=["%s:%d %s" % (f["file"], f["line"], f["name"]) for f in binfo["functions"]], info=binfo,
                   assumed=["CandidateManager::next(b) returns at most b points (F16, proved in candman.next)", "complete.load / complete.add / candidates(grid) act on the counts as stated in contracts/budget.c",
                            "the recovered state itself is within the budget"],
                   label="constructCommon budget accounting (sequential mode): total samples <= max_num_points, recovered samples counted, candidates refreshed only after loading"))
    return out
