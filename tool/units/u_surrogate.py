"""Unit C17: checkpoint protocol of constructSurrogate against the ghost file system."""
import re
from .. import tsg2c as X
from ..runner import Job
from ..contractfile import ContractFile
from .. import replay as RP
from . import surrogate

CRASH_REPLAY = open(__file__.replace("u_surrogate.py", "crash_replay.cpp.in")).read() if __import__("os").path.exists(__file__.replace("u_surrogate.py", "crash_replay.cpp.in")) else ""

def make_replay(prop, scenario):
    def rp(job, ob, vals, wd):
        hdr = ("Replay against the real code: a real process is killed in the middle of writing a checkpoint\n(RLIMIT_FSIZE makes the kernel deliver SIGXFSZ inside the write), then constructSurrogate is run again.\n"
               "property %s job %s\nobligation %s: %s\nat %s\nscenario: %s" % (prop, job.name, ob["name"], ob["description"], ob["location"], scenario))
        sc = "1" if scenario == "initial" else "2"
        if "emptied" in ob["description"] or "starts over" in ob["description"]:
            sc = "3"
        body = CRASH_REPLAY.replace("@SCENARIO@", sc)
        return RP.write_and_run(prop, job.name + "." + ob["name"], hdr, ['"TasmanianAddons.hpp"'], body, "  { int rc_ = main_replay(); if (rc_) return rc_; }", lib="sg", timeout=300)
    return rp

REPLAY_PAR = r'''
/* On the real library: a parallel construction that ends on the budget with more than 1000 loaded points (completed samples are then loaded in batches):
 * every sample the model computed must be loaded when constructSurrogate returns. */
int main_replay(){
  int bad = 0;
  for (int threads = 1; threads <= 3; threads += 2) {
    TasGrid::TasmanianSparseGrid grid = TasGrid::makeLocalPolynomialGrid(2, 1, 1, 1, TasGrid::rule_localp);
    std::atomic<int> count(0);
    auto model = [&](std::vector<double> const &x, std::vector<double> &y, size_t)->void{ y.resize(x.size() / 2); for (size_t i = 0; i < y.size(); i++) { y[i] = std::exp(-x[2*i] * x[2*i] - 0.5 * x[2*i+1]); count++; } };
    TasGrid::constructSurrogate<TasGrid::mode_parallel, TasGrid::no_initial_guess>(model, 1200, threads, 1, grid, 1.E-12, TasGrid::refine_classic);
    if (grid.getNumLoaded() != count.load()) { std::printf("%d threads: the model computed %d samples, %d are loaded\n", threads, count.load(), grid.getNumLoaded()); bad++; }
    if (count.load() > 1200) { std::printf("%d threads: %d samples computed, budget 1200\n", threads, count.load()); bad++; }
  }
  __CPROVER_assert(bad == 0, "C18 every value returned by the model is loaded, within the budget (parallel mode)");
  return 0;
}
'''
def replay_parallel(prop):
    def rp(job, ob, vals, wd):
        hdr = "Replay through the public API of the real library.\nproperty %s job %s\nobligation %s: %s\nat %s" % (prop, job.name, ob["name"], ob["description"], ob["location"])
        return RP.write_and_run(prop, job.name + "." + ob["name"], hdr, ['"TasmanianAddons.hpp"', '<cmath>', '<atomic>'], REPLAY_PAR, "  main_replay();", lib="sg", timeout=120)
    return rp

REPLAY_FWD = r'''
/* On the real library: every signature of the loadNeededValues() addon in overwrite mode on a fully loaded grid must call the model once per loaded point and store its values. */
int main_replay(){
  using namespace TasGrid;
  int bad = 0;
  for (int sig = 0; sig < 4; sig++) {
    TasmanianSparseGrid g = makeGlobalGrid(2, 1, 2, type_level, rule_clenshawcurtis);
    loadNeededValues<mode_sequential>([](double const x[], double y[], size_t)->void{ y[0] = x[0] + x[1]; }, g, 1);
    int n = g.getNumLoaded(); std::atomic<int> calls(0);
    auto arr = [&](double const x[], double y[], size_t)->void{ calls++; y[0] = 10.0 + x[0] * x[1]; };
    auto vec = [&](std::vector<double> const &x, std::vector<double> &y, size_t)->void{ calls++; y[0] = 10.0 + x[0] * x[1]; };
    if (sig == 0) loadNeededValues<mode_parallel, true>(arr, g, 2);
    if (sig == 1) loadNeededValues<mode_parallel, true>(vec, g, 2);
    if (sig == 2) loadNeededPoints<mode_parallel, true>(arr, g, 2);
    if (sig == 3) loadNeededPoints<mode_parallel, true>(vec, g, 2);
    std::vector<double> p = g.getLoadedPoints(); const double *v = g.getLoadedValues(); int miss = 0;
    for (int i = 0; i < g.getNumLoaded(); i++) if (std::abs(v[i] - (10.0 + p[2*i] * p[2*i+1])) > 1.E-12) miss++;
    if (calls != n || miss || g.getNumLoaded() != n) { std::printf("signature %d, overwrite mode: %d model calls for %d loaded points, %d points keep the old values\n", sig, (int) calls, n, miss); bad++; }
  }
  __CPROVER_assert(bad == 0, "C18 every signature of loadNeededValues() honours the overwrite mode it was instantiated with");
  return 0;
}
'''
def forwarding_job(prop):
    """the convenience overloads of loadNeededValues forward both template arguments (an omitted argument is the default of the primary template)"""
    HPP = "Addons/tsgLoadNeededValues.hpp"
    ft = X.strip_comments(X.read_source(HPP))
    heads = list(re.finditer(r'template<\s*bool\s+parallel_construction\s*(?:=\s*(\w+)\s*)?,\s*bool\s+overwrite_loaded\s*(?:=\s*(\w+)\s*)?>\s*void\s+loadNeeded(?:Values|Points)\s*\(', ft))
    if len(heads) < 4:
        raise X.ExtractionBreak("expected the primary loadNeededValues template and its forwarding overloads, found %d" % len(heads))
    dflt = [heads[0].group(1) or "true", heads[0].group(2) or "false"]
    sites = []
    for hm in heads[1:]:
        k = ft.index("{", X.match_close(ft, hm.end() - 1, "(", ")"))
        e = X.match_close(ft, k)
        for cm in re.finditer(r'(?<![\w:.>])loadNeededValues\s*(?:<\s*([^<>]*?)\s*>)?\s*\(', ft[k:e]):
            args = [a.strip() for a in cm.group(1).split(",")] if cm.group(1) else []
            args = args + dflt[len(args):]
            sites.append((ft.count("\n", 0, k + cm.start()) + 1, args[0], args[1]))
    if len(sites) < len(heads) - 1:
        raise X.ExtractionBreak("a forwarding overload of loadNeededValues does not call loadNeededValues")
    src = '#include "tsg_shim.h"\nint tsg_exc;\nenum { mode_sequential = 0, mode_parallel = 1 };\n'
    for i, (ln, a0, a1) in enumerate(sites):
        src += '#line %d "%s"\nstatic bool fwd_pc_%d(bool parallel_construction, bool overwrite_loaded){ return (bool)(%s); }\n' % (ln, X.REPO + "/" + HPP, i, a0)
        src += '#line %d "%s"\nstatic bool fwd_ow_%d(bool parallel_construction, bool overwrite_loaded){ return (bool)(%s); }\n' % (ln, X.REPO + "/" + HPP, i, a1)
    src += "void h_forwarding(void){ bool pc = nondet_bool(), ow = nondet_bool();\n"
    for i in range(len(sites)):
        src += '  __CPROVER_assert(fwd_pc_%d(pc, ow) == pc, "C18 loadNeededValues overload, call %d: the parallel mode of the caller is passed on");\n' % (i, i)
        src += '  __CPROVER_assert(fwd_ow_%d(pc, ow) == ow, "C18 loadNeededValues overload, call %d: the overwrite mode of the caller is passed on (values go to the loaded points, not to the needed ones)");\n' % (i, i)
    src += '  __CPROVER_assert(0, "VACUITY-CANARY");\n}\n'
    def rp(job, ob, vals, wd):
        hdr = "Replay through the public addon API of the real library.\nproperty %s job %s\nobligation %s: %s\nat %s" % (prop, job.name, ob["name"], ob["description"], ob["location"])
        return RP.write_and_run(prop, job.name + "." + ob["name"], hdr, ['"TasmanianAddons.hpp"', '<atomic>', '<cmath>'], REPLAY_FWD, "  main_replay();", lib="sg", libs=["-lpthread"], timeout=120)
    return Job("loadneeded.forwarding", src, "h_forwarding", timeout=60, functions=["%s:%d loadNeededValues<parallel_construction, overwrite_loaded> forwarding call" % (HPP, ln) for ln, _, _ in sites],
               info={"functions": [], "rules_fired": {"R-expr-selector": 2 * len(sites)}, "drops": ["everything but the template arguments of the forwarding calls"]}, replay=rp,
               assumed=["only the template arguments of each forwarding call are extracted (expression selector); an omitted argument is the default of the primary template (%s, %s)" % tuple(dflt)],
               label="loadNeededValues convenience overloads forward the parallel and the overwrite mode")

def jobs(tier, seed, prop):
    R = X.Rules()
    blocks, info = surrogate.emit(R)
    cf = ContractFile("contracts/checkpoint.c")
    fl = ["%s:%d %s" % (f["file"], f["line"], f["name"]) for f in info["functions"]]
    pre = '#include "tsg_shim.h"\nint tsg_exc;\n#line 1 "/verif/contracts/checkpoint.c"\n' + cf.text(("text",))
    assumed = ["ghost file system: open-for-write truncates, a file is complete only after close, torn files are PARTIAL",
               "grid.read on a missing/torn file clears the grid and throws runtime_error, on a complete file it restores that version (assumed reader contract; IO::readNumber does not check short reads)",
               "complete.read/complete.write do not throw"]
    out = [
        Job("checkpoint.lambda", pre + blocks["checkpoint"] + cf.text(("harness",), ["h_checkpoint"]), "h_checkpoint", timeout=120,
            functions=fl, info=info, assumed=assumed, replay=make_replay(prop, "lambda"),
            label="the `checkpoint` lambda of constructCommon against the crash invariant (asserted after every file operation)"),
        Job("checkpoint.recovery_initial", pre + blocks["recovery"] + blocks["initial"] + cf.text(("harness",), ["h_recovery_initial"]), "h_recovery_initial", timeout=120,
            functions=fl, info=info, assumed=assumed, replay=make_replay(prop, "initial"),
            label="recovery block + initial checkpoint of constructCommon from any file-system state that satisfies the crash invariant"),
    ]
    # G5 budget accounting on ghost counters
    cfb = ContractFile("contracts/budget.c")
    Rb = X.Rules()
    bt, binfo = surrogate.emit_budget(Rb, cfb.loops()["sequential_loop"][0])
    out.append(Job("budget.sequential", '#include "tsg_shim.h"\nint tsg_exc;\n#line 1 "/verif/contracts/budget.c"\n' + cfb.text(("text",)) + bt + cfb.text(("harness",), ["h_budget"]), "h_budget",
                   loop_contracts=True, timeout=300, functions=["%s:%d %s" % (f["file"], f["line"], f["name"]) for f in binfo["functions"]], info=binfo,
                   assumed=["CandidateManager::next(b) returns at most b points (F16, proved in candman.next)", "complete.load / complete.add / candidates(grid) act on the counts as stated in contracts/budget.c",
                            "the recovered state itself is within the budget"],
                   label="constructCommon budget accounting (sequential mode): total samples <= max_num_points, recovered samples counted, candidates refreshed only after loading"))
    # the parallel half of G5: main-thread bookkeeping under every completion order of the workers
    Rp = X.Rules()
    pt, pinfo = surrogate.emit_parallel(Rp)
    t2 = [t_ for k, a, t_ in cfb.sections if k == "text2"][0]
    nj, nb = (2, 2) if tier == "quick" else (2, 3)
    out.append(Job("budget.parallel", '#include "tsg_shim.h"\nint tsg_exc;\n#define TSG_NJ %d\n#define TSG_BUDGET %d\n#line 1 "/verif/contracts/budget.c"\n' % (nj, nb) + cfb.text(("text",)) + t2 + bt + pt + cfb.text(("harness",), ["h_budget_parallel"]),
                   "h_budget_parallel", unwind=nb + nj + 3, timeout=600 if tier == "quick" else 2400, backends=[[], ["--sat-solver", "cadical"]],
                   functions=["%s:%d %s" % (f["file"], f["line"], f["name"]) for f in pinfo["functions"]], info=pinfo, replay=replay_parallel(prop),
                   bounded="job slots <= %d, at most %d new samples (full unwinding with unwinding assertions)" % (nj, nb),
                   assumed=["R11t: the worker lambda is replaced by its effect (model call on the batch, done flag, counter) inside the wait; at least one computing worker finishes per wait",
                            "mutual exclusion, wake-ups and the memory model are NOT decided (schedule properties): only the main thread's bookkeeping under every completion order",
                            "CandidateManager::next / complete / operator= act on the counts as in contracts/budget.c"],
                   label="constructCommon budget accounting (parallel mode, main thread): budget, flush of completed jobs, shutdown of every worker"))
    if prop == "C18":
        out.append(forwarding_job(prop))
    return out
