"""Unit C02: the offsets of the hard-coded Gauss-Patterson weights (TableGaussPatterson constructor, getWeight): level l starts after the points of
all lower levels, for every tabulated level 0..8, and every (level, point) addresses an entry of the table."""
import re
from .. import tsg2c as X
from ..runner import Job
from .. import replay as RP
from . import tables
CPP = "SparseGrids/tsgHardCodedTabulatedRules.cpp"

def emit(R):
    text = X.strip_comments(X.read_source(CPP))
    (p,) = X.cut(CPP, r'TableGaussPatterson::TableGaussPatterson\s*\(\s*\)', text)
    m = re.search(r'loadNodes\(\)\s*;', p.body)
    if not m:
        raise X.ExtractionBreak("TableGaussPatterson constructor: loadNodes() not found")
    b = p.body[:m.start()] + "}"
    src = b
    b = R.sub("R5-resize", r'\bweights_offsets\.resize\(\s*(\d+)\s*\)\s*;', r'weights_offsets_size = \1; __CPROVER_assert(\1 <= TSG_NOFF, "shim: offsets capacity");', b)
    b = R.sub("R1-qualifier", r'OneDimensionalMeta::', '', b)
    X.check_leftover(b, "TableGaussPatterson ctor")
    (g,) = X.cut(CPP, r'double\s+TableGaussPatterson::getWeight\s*\(\s*int\s+level\s*,\s*int\s+point\s*\)\s*const', text)
    gm = re.search(r'return\s+weights\s*\[([^;]*)\]\s*;', g.body)
    if not gm:
        raise X.ExtractionBreak("TableGaussPatterson::getWeight: index expression not found")
    # number of tabulated weights: the entries of the initialiser list of loadWeights
    (w,) = X.cut(CPP, r'void\s+TableGaussPatterson::loadWeights\s*\(\s*\)', text)
    wm = re.search(r'weights\s*=\s*\{([^}]*)\}', w.body)
    if not wm:
        raise X.ExtractionBreak("TableGaussPatterson::loadWeights: initialiser list not found")
    nweights = len([q for q in wm.group(1).split(",") if q.strip()])
    R.counts["R-count-init-list"] = nweights
    out = ('#define TSG_NOFF 16\nstatic int weights_offsets[TSG_NOFF]; static size_t weights_offsets_size;\n#line %d "%s"\nvoid TableGaussPatterson_ctor(void)%s\n' % (p.line, X.REPO + "/" + p.rel, b) +
           '#line %d "%s"\nstatic int getWeight_index(int level, int point){ return (%s); }\n#define TSG_NWEIGHTS %d\n' % (g.line, X.REPO + "/" + g.rel, gm.group(1), nweights))
    info = {"functions": [{"name": "TableGaussPatterson::TableGaussPatterson (offsets)", "file": p.rel, "line": p.line, "loops": 1}, {"name": "TableGaussPatterson::getWeight (index)", "file": g.rel, "line": g.line, "loops": 0}],
            "rules_fired": {k: v for k, v in R.counts.items() if v}, "fidelity": X.fidelity(src, b, extra_vocab=["weights_offsets", "resize", "OneDimensionalMeta"], slack=4),
            "drops": ["the tabulated numbers themselves (loadNodes / loadWeights); only their count is used"]}
    return out, info

REPLAY = r'''
/* On the real library: 1-D Gauss-Patterson grids of every tabulated level: the weights sum to 2 and integrate x^2 exactly. */
int main_replay(){
  using namespace TasGrid;
  int bad = 0;
  for (int l = 0; l <= 8; l++) {
    TasmanianSparseGrid g = makeGlobalGrid(1, 0, l, type_level, rule_gausspatterson);
    std::vector<double> p = g.getPoints(), w = g.getQuadratureWeights(); double s = 0.0, s2 = 0.0;
    for (size_t i = 0; i < w.size(); i++) { s += w[i]; s2 += w[i] * p[i] * p[i]; }
    if (!(std::abs(s - 2.0) < 1.E-10) || (l >= 1 && !(std::abs(s2 - 2.0 / 3.0) < 1.E-10))) { std::printf("level %d: the weights sum to %.12g, x^2 integrates to %.12g\n", l, s, s2); bad++; }
  }
  __CPROVER_assert(bad == 0, "C02 Gauss-Patterson weights of every tabulated level are the weights of that level");
  return 0;
}
'''
def replay(prop):
    def rp(job, ob, vals, wd):
        hdr = "Replay through the public API of the real library.\nproperty %s job %s\nobligation %s: %s\nat %s" % (prop, job.name, ob["name"], ob["description"], ob["location"])
        return RP.write_and_run(prop, job.name + "." + ob["name"], hdr, ['"TasmanianSparseGrid.hpp"', '<cmath>'], REPLAY, "  main_replay();", lib="sg", timeout=60)
    return rp

def jobs(tier, seed, prop):
    Rt = X.Rules()
    enums = tables.cut_enum("TypeOneDRule", Rt)[0]
    tt, tinfo = tables.emit(Rt, funcs=("getNumPoints",))
    R = X.Rules()
    t, info = emit(R)
    h = r'''
void h_gptable(void){
  TableGaussPatterson_ctor();
  int l = nondet_int(), i = nondet_int();
  __CPROVER_assume(l >= 0 && l <= 8);                               /* the tabulated levels: 1, 3, 7, ..., 511 points */
  __CPROVER_assert(weights_offsets_size == 9, "C02 Gauss-Patterson: one offset per tabulated level");
  int before = 0; for (int k = 0; k < 9; k++) if (k < l) before += getNumPoints(k, rule_gausspatterson);
  __CPROVER_assert(weights_offsets[l] == before, "C02 Gauss-Patterson: the weights of level l start after the weights of all lower levels, for every tabulated level");
  __CPROVER_assume(i >= 0 && i < getNumPoints(l, rule_gausspatterson));
  int idx = getWeight_index(l, i);
  __CPROVER_assert(idx == before + i && idx >= 0 && idx < TSG_NWEIGHTS, "C02 Gauss-Patterson: getWeight(level, point) addresses the point's own entry inside the table");
  __CPROVER_assert(0, "VACUITY-CANARY");
}
'''
    src = ('#include "tsg_shim.h"\nint tsg_exc;\n' if 'rule_none' in tt else '#include "tsg_shim.h"\nint tsg_exc;\n' + enums) + tt + t + h
    return [Job("gptable.offsets", src, "h_gptable", unwind=12, timeout=120, functions=["%s:%d %s" % (f["file"], f["line"], f["name"]) for f in info["functions"]], info=info, replay=replay(prop),
                assumed=["the tabulated numbers are the Gauss-Patterson nodes and weights (cross-checked natively by the replay)"],
                label="Gauss-Patterson table: offsets and indexing of the hard-coded weights")]
