"""Unit C05 / C04 (Local Polynomial family): the tensor-product assembly GridLocalPolynomial::evalBasisSupported / diffBasisSupported on an exact
power-of-two lattice (1-D values, derivatives and support flags come from stubs), and the Jacobian layout of the gradient accumulation in walkTree."""
import re
from .. import tsg2c as X
from ..runner import Job
from .. import replay as RP
HPP = "SparseGrids/tsgGridLocalPolynomial.hpp"

def emit(R):
    text = X.strip_comments(X.read_source(HPP))
    outs, fns, srcs, emis = [], [], [], []
    for nm, sig, chdr in (("evalBasisSupported", r'template<RuleLocal::erule\s+eff_rule>\s*double\s+evalBasisSupported\s*\(\s*const\s+int\s+point\[\]\s*,\s*const\s+double\s+x\[\]\s*,\s*bool\s*&isSupported\s*\)\s*const',
                           "double evalBasisSupported(int num_dimensions, const int point[], const double x[], bool *isSupported_)"),
                          ("diffBasisSupported", r'template<RuleLocal::erule\s+effrule>\s*void\s+diffBasisSupported\s*\(\s*const\s+int\s+point\[\]\s*,\s*const\s+double\s+x\[\]\s*,\s*double\s+diff_values\[\]\s*,\s*bool\s*&isSupported\s*\)\s*const',
                           "void diffBasisSupported(int num_dimensions, const int point[], const double x[], double diff_values[], bool *isSupported_)")):
        (p,) = X.cut(HPP, sig, text)
        b = p.body
        b = R.sub("R3-template-call", r'RuleLocal::(evalSupport|diffSupport)<\s*\w+\s*>\(\s*order\s*,', r'stub_\1(', b)
        b = R.sub("R4-ref-arg", r'(stub_\w+\([^;]*?),\s*isSupported\s*\)', r'\1, TSG_PTR_isSupported)', b)
        b = R.sub("R4-ref-arg", r'(stub_\w+\([^;]*?),\s*isDimSupported\s*\)', r'\1, &isDimSupported)', b)
        b = R.sub("R4-ref-use", r'(?<![\w&_])isSupported\b', '(*isSupported_)', b)
        b = b.replace("TSG_PTR_isSupported", "isSupported_")
        b = X.r1_qualifiers(R, b)
        X.check_leftover(b, nm)
        outs.append('#line %d "%s"\n%s%s' % (p.line, X.REPO + "/" + p.rel, chdr, b))
        fns.append({"name": "GridLocalPolynomial::" + nm, "file": p.rel, "line": p.line, "loops": X.count_loops(b)}); srcs.append(p.body); emis.append(b)
    R.require({"R3-template-call": 4, "R4-ref-arg": 4})
    info = {"functions": fns, "rules_fired": {k: v for k, v in R.counts.items() if v},
            "fidelity": X.fidelity("\n".join(srcs), "\n".join(emis), extra_vocab=["RuleLocal", "evalSupport", "diffSupport", "eff_rule", "effrule", "order", "isSupported", "isDimSupported", "or", "not", "and"], slack=12)}
    return "\n".join(outs) + "\n", info

def emit_layout(R):
    """every accumulation statement `y[...] += ...` of walkTree: sites that add a gradient must use the layout (output k, direction d) -> k*num_dimensions + d"""
    text = X.strip_comments(X.read_source(HPP))
    (p,) = X.cut(HPP, r'template<int\s+mode\s*,\s*RuleLocal::erule\s+effrule>\s*void\s+walkTree\s*\([^)]*\)\s*const', text)
    sites = list(re.finditer(r'\by\s*\[([^\]]+)\]\s*\+=\s*([^;]+);', p.body))
    grad = [m for m in sites if "basis_derivative" in m.group(2)]
    if len(sites) < 4 or len(grad) < 2:
        raise X.ExtractionBreak("walkTree: expected at least 4 accumulation statements (2 of gradients), found %d / %d" % (len(sites), len(grad)))
    fns = []
    for n, m in enumerate(grad):
        fm = re.match(r'^\s*basis_derivative\s*\[([^\]]+)\]\s*\*\s*s\s*\[([^\]]+)\]\s*$', m.group(2))
        if not fm:
            raise X.ExtractionBreak("walkTree: gradient accumulation %d has an unexpected right-hand side %r" % (n, m.group(2)))
        line = p.line + (p.header + p.body[:m.start()]).count('\n')
        fns.append('#line %d "%s"\nstatic void site_%d(int k, int d, int num_dimensions, int num_outputs, int *yi, int *di, int *si){ *yi = (%s); *di = (%s); *si = (%s); }' % (line, X.REPO + "/" + p.rel, n, m.group(1), fm.group(1), fm.group(2)))
    R.counts["R-expr-selector"] = len(grad)
    info = {"functions": [{"name": "GridLocalPolynomial::walkTree (the %d gradient accumulation statements)" % len(grad), "file": p.rel, "line": p.line, "loops": 0}], "rules_fired": {"R-expr-selector": len(grad), "accumulation-statements": len(sites)}}
    return "\n".join(fns) + "\n", len(grad), info

HARNESS = r'''
#ifndef TSG_NDIM
#define TSG_NDIM 3
#endif
int g_ev[TSG_NDIM], g_ed[TSG_NDIM]; bool g_sv[TSG_NDIM], g_sd[TSG_NDIM], g_supv[TSG_NDIM], g_supd[TSG_NDIM];
static double pow2s(int e, bool neg){ double v = (e >= 0) ? (double)(1 << e) : 1.0 / (double)(1 << -e); return neg ? -v : v; }
static int dim_of(double x){ int d = (int) x; __CPROVER_assert(d >= 0 && d < TSG_NDIM && (double) d == x, "the 1-D rule is evaluated at a coordinate of the point"); return d; }
/* a 1-D basis value is 0 outside its support (lemma L4/L5 of the basis unit), a signed power of two inside */
double stub_evalSupport(int p, double x, bool *sup){ int d = dim_of(x); *sup = g_supv[d]; return g_supv[d] ? pow2s(g_ev[d], g_sv[d]) : 0.0; }
double stub_diffSupport(int p, double x, bool *sup){ int d = dim_of(x); *sup = g_supd[d]; return g_supd[d] ? pow2s(g_ed[d], g_sd[d]) : 0.0; }
'''
TAIL = r'''
static void setup(int *nd, int p[], double x[]){
  *nd = nondet_int(); __CPROVER_assume(*nd >= 1 && *nd <= TSG_NDIM);
  for (int d = 0; d < TSG_NDIM; d++) { p[d] = nondet_int(); x[d] = (double) d; g_ev[d] = nondet_int(); g_ed[d] = nondet_int(); g_sv[d] = nondet_bool(); g_sd[d] = nondet_bool(); g_supv[d] = nondet_bool(); g_supd[d] = nondet_bool();
    __CPROVER_assume(g_ev[d] >= -3 && g_ev[d] <= 3 && g_ed[d] >= -3 && g_ed[d] <= 3);
    __CPROVER_assume(!g_supd[d] || g_supv[d]); }     /* derivative supported implies function supported (proved in basis.diff.*) */
}
//@@
void h_evalBasis(void){
  int nd, p[TSG_NDIM]; double x[TSG_NDIM]; setup(&nd, p, x);
  bool sup = nondet_bool();
  double f = evalBasisSupported(nd, p, x, &sup);
  bool all = true; int e = 0; bool neg = false;
  for (int d = 0; d < TSG_NDIM; d++) if (d < nd) { if (!g_supv[d]) all = false; e += g_ev[d]; neg = (neg != g_sv[d]); }
  double expect = (e >= 0) ? (double)(1 << e) : 1.0 / (double)(1 << -e); if (neg) expect = -expect;
  __CPROVER_assert(sup == all, "C04 a tensor basis function is supported at x exactly when every 1-D factor is");
  __CPROVER_assert(f == (all ? expect : 0.0), "C04 the tensor basis value is the product of the 1-D values of ALL directions (0 when some direction is unsupported)");
  __CPROVER_assert(0, "VACUITY-CANARY");
}
//@@
void h_diffBasis(void){
  int nd, p[TSG_NDIM]; double x[TSG_NDIM], dv[TSG_NDIM]; setup(&nd, p, x);
  bool sup = nondet_bool();
  diffBasisSupported(nd, p, x, dv, &sup);
  int a_i = nondet_int(); __CPROVER_assume(a_i >= 0 && a_i < nd);
  bool zero = !g_supd[a_i]; int e = g_ed[a_i]; bool neg = g_sd[a_i];
  for (int d = 0; d < TSG_NDIM; d++) if (d < nd && d != a_i) { if (!g_supv[d]) zero = true; e += g_ev[d]; neg = (neg != g_sv[d]); }
  double expect = (e >= 0) ? (double)(1 << e) : 1.0 / (double)(1 << -e); if (neg) expect = -expect;
  __CPROVER_assert(dv[a_i] == (zero ? 0.0 : expect) || (zero && dv[a_i] == -0.0), "C05 gradient of a tensor basis function: component i is the 1-D derivative in direction i times the 1-D values of ALL other directions");
  __CPROVER_assert(0, "VACUITY-CANARY");
}
'''
REPLAY = r'''
/* On the real library: local polynomial grids with two outputs and rules whose roots are not constant; differentiate() against central differences of evaluate(). */
int main_replay(){
  using namespace TasGrid;
  int bad = 0;
  for (auto rule : {rule_localp, rule_semilocalp, rule_localp0, rule_localpb}) for (int dims = 2; dims <= 3; dims++) for (int order = 1; order <= 2; order++) {
    TasmanianSparseGrid g = makeLocalPolynomialGrid(dims, 2, 3, order, rule);
    std::vector<double> p = g.getNeededPoints(), v(2 * g.getNumNeeded());
    for (int i = 0; i < g.getNumNeeded(); i++) { double s = 0.2; for (int d = 0; d < dims; d++) s += (1.0 + 0.4 * d) * p[i*dims + d]; v[2*i] = std::exp(0.4 * s); v[2*i+1] = 3.0 * s - s * s; }
    g.loadNeededValues(v);
    std::vector<double> x(dims); for (int d = 0; d < dims; d++) x[d] = 0.1371 + 0.0613 * d;
    std::vector<double> jac(2 * dims); g.differentiate(x.data(), jac.data());
    for (int d = 0; d < dims; d++) { std::vector<double> a = x, b = x; double h = 1.E-6; a[d] += h; b[d] -= h; double ya[2], yb[2]; g.evaluate(a.data(), ya); g.evaluate(b.data(), yb);
      for (int k = 0; k < 2; k++) { double fd = (ya[k] - yb[k]) / (2.0 * h);
        if (!(std::abs(fd - jac[k*dims + d]) < 1.E-4 * (1.0 + std::abs(fd)))) { if (bad < 6) std::printf("rule %d order %d, %d dimensions, output %d direction %d: differentiate %.10g, finite difference %.10g\n", (int) rule, order, dims, k, d, jac[k*dims + d], fd); bad++; } } }
  }
  __CPROVER_assert(bad == 0, "C05 local polynomial grids: differentiate() (outputs x dimensions) matches finite differences of evaluate()");
  return 0;
}
'''
def replay(prop):
    def rp(job, ob, vals, wd):
        hdr = "Replay through the public API of the real library.\nproperty %s job %s\nobligation %s: %s\nat %s" % (prop, job.name, ob["name"], ob["description"], ob["location"])
        return RP.write_and_run(prop, job.name + "." + ob["name"], hdr, ['"TasmanianSparseGrid.hpp"', '<cmath>'], REPLAY, "  main_replay();", lib="sg", timeout=60)
    return rp

def jobs(tier, seed, prop):
    out = []
    R = X.Rules()
    t, info = emit(R)
    nd = 3 if tier == "quick" else 4
    setup_c, h_eval, h_diff = TAIL.split("//@@\n")
    for h, lab in (("h_evalBasis", "evalBasisSupported: product over all directions, support = conjunction"), ("h_diffBasis", "diffBasisSupported: derivative of direction i times the values of all other directions")):
        if prop == "C04" and h == "h_diffBasis": continue
        src = '#include "tsg_shim.h"\nint tsg_exc;\n#define TSG_NDIM %d\n' % nd + HARNESS + t + setup_c + (h_eval if h == "h_evalBasis" else h_diff)
        out.append(Job("lpbasis." + h[2:], src, h, unwind=nd + 2, timeout=600, backends=[["--sat-solver", "cadical"], []],
                       functions=["%s:%d %s" % (f["file"], f["line"], f["name"]) for f in info["functions"]], info=info, replay=replay(prop),
                       bounded="dimensions <= %d; 1-D values / derivatives are signed powers of two with exponents in [-3,3] (every product exact), support flags arbitrary" % nd,
                       assumed=["RuleLocal::evalSupport / diffSupport are stubs (their contracts: basis.support.*, basis.diff.*): 0 when unsupported, a lattice value otherwise"],
                       label="GridLocalPolynomial::" + lab))
    if prop == "C05":
        Rl = X.Rules()
        lt, n, linfo = emit_layout(Rl)
        calls = "\n".join("  site_%d(a_k, a_d, a_nd, a_no, &yi, &di, &si); __CPROVER_assert(yi == a_k * a_nd + a_d && di == a_d && si == a_k, \"C05 gradient accumulation %d of walkTree: the derivative in direction d of output k goes to entry k*num_dimensions + d (row-major outputs x dimensions) and uses coefficient k\");" % (i, i) for i in range(n))
        hsrc = ('#include "tsg_shim.h"\nint tsg_exc;\n' + lt + 'void h_layout(void){ int a_k = nondet_int(), a_d = nondet_int(), a_nd = nondet_int(), a_no = nondet_int(), yi, di, si;\n'
                '  __CPROVER_assume(a_nd >= 1 && a_nd <= 64 && a_no >= 1 && a_no <= 64 && a_k >= 0 && a_k < a_no && a_d >= 0 && a_d < a_nd);\n' + calls + '\n  __CPROVER_assert(0, "VACUITY-CANARY");\n}\n')
        out.append(Job("lpbasis.jacobian_layout", hsrc, "h_layout", timeout=120, functions=["%s:%d %s" % (f["file"], f["line"], f["name"]) for f in linfo["functions"]], info=linfo, replay=replay(prop),
                       bounded="dimensions, outputs <= 64 (index arithmetic)", assumed=["only the subscripts of the accumulation statements are extracted (expression selector); the tree walk itself is not under contract"],
                       label="walkTree (differentiate): every gradient accumulation writes entry k*num_dimensions + d"))
    return out
