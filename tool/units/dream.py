"""Extraction of TasDREAM::SampleDREAM<form> (DREAM/tsgDreamSample.hpp) and of
TasmanianDREAM::getIJKdelta / setState / setPDFvalues / saveStateHistory
(DREAM/tsgDreamState.cpp).

Rules: R3 (template<TypeSamplingForm form> instantiated for regform and logform),
R5 (local vectors -> fixed-capacity arrays, iterators -> indices), R8 (std::function
parameters -> extern callbacks cb_*), R9 (throw), R10 (state.method(...) ->
TasmanianDREAM_method(state, ...))."""
import re
from .. import tsg2c as X

HPP = "DREAM/tsgDreamSample.hpp"
CPP = "DREAM/tsgDreamState.cpp"
SHPP = "DREAM/tsgDreamState.hpp"

CALLBACKS = {  # source parameter name -> (C callback, takes-vector-args)
    "probability_distribution": "cb_probability_distribution",
    "inside": "cb_inside", "independent_update": "cb_independent_update",
    "differential_update": "cb_differential_update", "get_random01": "cb_get_random01",
}

def emit_sample(R, form, contract=None, loop_contracts=None, abstract_fp=False):
    text = X.strip_comments(X.read_source(HPP))
    (p,) = X.cut(HPP, r'template<TypeSamplingForm\s+form\s*=\s*regform>\s*void\s+SampleDREAM\s*\(\s*int\s+num_burnup\s*,\s*int\s+num_collect\s*,\s*DreamPDF\s+probability_distribution\s*,\s*DreamDomain\s+inside\s*,\s*TasmanianDREAM\s*&state\s*,\s*std::function<void\(std::vector<double>\s*&x\)>\s*independent_update[^{]*?get_random01\s*=\s*tsgCoreUniform01\s*\)', text)
    hdr = p.header
    for nm in list(CALLBACKS) + ["TasmanianDREAM &state"]:
        if nm not in hdr:
            raise X.ExtractionBreak("SampleDREAM signature changed: %s missing" % nm)
    R.counts["R8-callback-params"] = 5
    R.counts["R3-template-header"] = 1
    R.counts["R4-ref-param"] = 1
    name = "SampleDREAM_%s" % form
    chdr = "void %s(int num_burnup, int num_collect, TasmanianDREAM *state)" % name
    b = p.body
    b = X.r9_throws(R, b)
    b = X.r10_receiver_calls(R, b, "state", "TasmanianDREAM",
                             overloads={("setPDFvalues", "probability_distribution"): "_fn!",
                                        ("setPDFvalues", "new_values"): "_vec", ("setState", "new_state"): "_vec"})
    b = X.r5_local_vectors(R, b, {"candidates": "TSG_NCH*TSG_NDIM", "values": "TSG_NCH", "valid": "TSG_NCH",
                                  "propose": "TSG_NDIM", "new_state": "TSG_NCH*TSG_NDIM", "new_values": "TSG_NCH"})
    b = X.r5_iterators(R, b, {"icand": "candidates", "ival": "values"})
    b = X.r5_copy_n(R, b, "double", {"icand": "candidates"})
    b = X.r5_vector_methods(R, b, {"candidates": "double", "values": "double", "valid": "bool", "propose": "double",
                                   "new_state": "double", "new_values": "double"})
    # R8: callbacks; vector arguments are passed as (data, size)
    b = R.sub("R8-callback", r'\bprobability_distribution\s*\(\s*candidates\s*,\s*values\s*\)', 'cb_probability_distribution(candidates, candidates_size, values, values_size)', b)
    b = R.sub("R8-callback", r'\binside\s*\(\s*propose\s*\)', 'cb_inside(propose, propose_size)', b)
    b = R.sub("R8-callback", r'\bindependent_update\s*\(\s*propose\s*\)', 'cb_independent_update(propose, propose_size)', b)
    b = R.sub("R8-callback", r'\bdifferential_update\s*\(\s*\)', 'cb_differential_update()', b)
    b = R.sub("R8-callback", r'\bget_random01\s*\(\s*\)', 'cb_get_random01()', b)
    # vector arguments of the receiver calls
    b = R.sub("R5-vector-arg", r'(TasmanianDREAM_getIJKdelta\(state, [^;]*?), propose\)', r'\1, propose, propose_size)', b)
    b = R.sub("R5-vector-arg", r'TasmanianDREAM_setState_vec\(state, new_state\)', 'TasmanianDREAM_setState_vec(state, new_state, new_state_size)', b)
    b = R.sub("R5-vector-arg", r'TasmanianDREAM_setPDFvalues_vec\(state, new_values\)', 'TasmanianDREAM_setPDFvalues_vec(state, new_values, new_values_size)', b)
    b = R.sub("R3-template-param", r'\bform\b', form, b)
    b = X.r2_std_math(R, b)
    b = R.sub("R8-libm-log", r'(?<![\w_])log\s*\(', 'cb_log(', b)
    if abstract_fp:
        # R13: the three floating-point operations of the body become calls of uninterpreted
        # (memoising, deterministic) functions; comparisons stay real.  Sound for every
        # interpretation of the operations, IEEE-754 included.
        b = R.sub("R13-fp-mul", r'\(cb_get_random01\(\) \* unitlength\)', '(tsg_fmul(cb_get_random01(), unitlength))', b)
        b = R.sub("R13-fp-div", r'\(values\[ival\] / TasmanianDREAM_getPDFvalue\(state, i\)\s*(>=?|<=?|==)', r'(tsg_fdiv(values[ival], TasmanianDREAM_getPDFvalue(state, i)) \1', b)
        b = R.sub("R13-fp-sub", r'\(values\[ival\] - TasmanianDREAM_getPDFvalue\(state, i\)\s*(>=?|<=?|==)', r'(tsg_fsub(values[ival], TasmanianDREAM_getPDFvalue(state, i)) \1', b)
        R.require({"R13-fp-mul": 2, "R13-fp-div": 1, "R13-fp-sub": 1})
    # after a throwing callee the C text returns as the exception would propagate
    b = R.sub("R9-propagate", r'(TasmanianDREAM_setPDFvalues_fn\(state\);)', r'\1 if (tsg_exc) return;', b)
    X.check_leftover(chdr + b, name)
    R.require({"R9-throw-runtime_error": 1, "R10-receiver-call": 12, "R5-local-vector": 6, "R5-iter-decl": 2,
               "R5-advance": 1, "R5-copy_n": 1, "R8-callback": 7, "R5-insert-end": 1, "R5-resize": 1, "R5-vector-arg": 3})
    out = '#line %d "%s"\n' % (p.line, X.REPO + "/" + p.rel) + X.splice(chdr, b, contract, loop_contracts)
    info = {"functions": [{"name": "TasDREAM::SampleDREAM<%s>" % form, "file": p.rel, "line": p.line, "loops": X.count_loops(b)}],
            "fidelity": X.fidelity(p.src_body, b, extra_vocab=["state", "candidates", "values", "propose", "new_state", "new_values", "valid", "icand", "ival",
                                                               "probability_distribution", "inside", "independent_update", "differential_update", "get_random01",
                                                               "form", "log", "max", "copy_n", "advance", "runtime_error", "insert", "resize", "reserve", "begin", "end", "empty", "size"],
                                   slack=2 if abstract_fp else 0),
            "drops": ["std::function indirection of the five callbacks (R8: extern functions with nondeterministic contracts)",
                      "default arguments of SampleDREAM (no_update, const_one, tsgCoreUniform01)"]}
    return out, info

def emit_state_fn(R, which, contract=None, loop_contracts=None):
    """TasmanianDREAM member functions on a C receiver struct `self`."""
    text = X.strip_comments(X.read_source(CPP))
    if which == "getIJKdelta":
        (p,) = X.cut(CPP, r'void\s+TasmanianDREAM::getIJKdelta\s*\(\s*size_t\s+i\s*,\s*size_t\s+j\s*,\s*size_t\s+k\s*,\s*double\s+w\s*,\s*std::vector<double>\s*&x\s*\)\s*const', text)
        chdr = "void TasmanianDREAM_getIJKdelta(const TasmanianDREAM *self, size_t i, size_t j, size_t k, double w, double *x, size_t x_size)"
        b = p.body
        b = R.sub("R10-member", r'\bstate\b', 'self->state', b)
        b = R.sub("R10-member", r'\bnum_dimensions\b', 'self->num_dimensions', b)
        # R6: range-for over x
        b = R.sub("R6-range-for", r'for\s*\(\s*auto\s*&\s*xv\s*:\s*x\s*\)\s*xv\s*\+=', 'for(size_t i_ = 0; i_ < x_size; i_++) x[i_] +=', b)
        b = R.sub("R5-iter-decl", r'\bauto\s+(ik|ij)\s*=\s*self->state\.begin\(\)\s*\+\s*([^;]+);', r'size_t \1 = \2;', b)
        b = R.sub("R5-iter-deref-inc", r'\*\s*(ik|ij)\s*\+\+', r'self->state[\1++]', b)
        b = X.r5_copy_n(R, b, "double")
        b = R.sub("R5-begin", r'self->state\.begin\(\)', 'self->state', b)
        b = R.sub("R5-data", r'\bx\.data\(\)', 'x', b)
        R.require({"R6-range-for": 1, "R5-iter-decl": 2, "R5-iter-deref-inc": 2, "R5-copy_n": 1})
    elif which in ("setState", "setPDFvalues"):
        arg = "new_state" if which == "setState" else "new_values"
        mem = "state" if which == "setState" else "pdf_values"
        (p,) = X.cut(CPP, r'void\s+TasmanianDREAM::%s\s*\(\s*const\s+std::vector<double>\s*&%s\s*\)' % (which, arg), text)
        chdr = "void TasmanianDREAM_%s_vec(TasmanianDREAM *self, const double *%s, size_t %s_size)" % (which, arg, arg)
        b = p.body
        b = X.r9_throws(R, b)
        b = R.sub("R5-size", r'\b%s\.size\(\)' % arg, arg + '_size', b)
        b = R.sub("R5-vector-assign", r'\b%s\s*=\s*%s\s*;' % (mem, arg), 'tsg_copy_n_double(%s, %s_size, self->%s);' % (arg, arg, mem), b)
        for mname in ("num_chains", "num_dimensions", "init_state", "init_values"):
            b = R.sub("R10-member", r'(?<![\w.>])%s\b' % mname, 'self->' + mname, b)
        R.require({"R5-vector-assign": 1, "R9-throw-runtime_error": 1})
    elif which == "saveStateHistory":
        (p,) = X.cut(CPP, r'void\s+TasmanianDREAM::saveStateHistory\s*\(\s*size_t\s+num_accepted\s*\)', text)
        chdr = "void TasmanianDREAM_saveStateHistory(TasmanianDREAM *self, size_t num_accepted)"
        b = p.body
        b = R.sub("R12-history-append", r'\bhistory\.insert\(\s*history\.end\(\)\s*,\s*state\.begin\(\)\s*,\s*state\.end\(\)\s*\)\s*;', 'hist_append(self, self->state, self->num_chains * self->num_dimensions);', b)
        b = R.sub("R12-history-append", r'\bpdf_history\.insert\(\s*pdf_history\.end\(\)\s*,\s*pdf_values\.begin\(\)\s*,\s*pdf_values\.end\(\)\s*\)\s*;', 'pdf_hist_append(self, self->pdf_values, self->num_chains);', b)
        b = R.sub("R10-member", r'(?<![\w.>])accepted\b', 'self->accepted', b)
        R.require({"R12-history-append": 2, "R10-member": 1})
    elif which in ("clearPDFvalues", "clearHistory"):
        (p,) = X.cut(CPP, r'void\s+TasmanianDREAM::%s\s*\(\s*\)' % which, text)
        chdr = "void TasmanianDREAM_%s(TasmanianDREAM *self)" % which
        b = p.body
        b = R.sub("R12-vector-drop", r'(?<![\w.>])(pdf_values|history|pdf_history|state)\s*=\s*std::vector<double>\(\)\s*;', r'vec_drop(self, VEC_\1);', b)
        for mname in ("init_state", "init_values", "accepted"):
            b = R.sub("R10-member", r'(?<![\w.>])%s\b' % mname, 'self->' + mname, b)
        R.require({"R12-vector-drop": 1})
    else:
        raise X.ExtractionBreak("unknown state function " + which)
    X.check_leftover(chdr + b, which)
    out = '#line %d "%s"\n' % (p.line, X.REPO + "/" + p.rel) + X.splice(chdr, b, contract, loop_contracts)
    info = {"functions": [{"name": "TasmanianDREAM::" + which, "file": p.rel, "line": p.line, "loops": X.count_loops(b)}],
            "fidelity": X.fidelity(p.src_body, b, extra_vocab=["state", "num_dimensions", "auto", "xv", "x", "ik", "ij", "begin", "data", "copy_n", "new_state", "new_values", "pdf_values", "history", "pdf_history", "insert", "end", "size",
                                                               "num_chains", "init_state", "init_values", "accepted", "runtime_error", "="], slack=4)}
    return out, info
