"""Unit C02: the recurrence coefficients (Jacobi matrix) handed to the eigen-solver by OneDimensionalNodes::getGaussJacobi / getGaussHermite /
getGaussLaguerre are finite numbers for every admissible parameter on a lattice (alpha, beta = k/16 > -1, including the line alpha + beta = 0), every m,
the arguments of the square roots are non-negative: the nodes and weights of those rules are not NaN because of their input."""
import re
from .. import tsg2c as X
from ..runner import Job
from .. import replay as RP
CPP = "SparseGrids/tsgCoreOneDimensional.cpp"

SPECS = [("getGaussJacobi", r'void\s+OneDimensionalNodes::getGaussJacobi\s*\(\s*int\s+m\s*,\s*std::vector<double>\s*&w\s*,\s*std::vector<double>\s*&x\s*,\s*double\s+alpha\s*,\s*double\s+beta\s*\)', "void getGaussJacobi(int m, double alpha, double beta)"),
         ("getGaussHermite", r'void\s+OneDimensionalNodes::getGaussHermite\s*\(\s*int\s+m\s*,\s*std::vector<double>\s*&w\s*,\s*std::vector<double>\s*&x\s*,\s*double\s+alpha\s*\)', "void getGaussHermite(int m, double alpha)"),
         ("getGaussLaguerre", r'void\s+OneDimensionalNodes::getGaussLaguerre\s*\(\s*int\s+m\s*,\s*std::vector<double>\s*&w\s*,\s*std::vector<double>\s*&x\s*,\s*double\s+alpha\s*\)', "void getGaussLaguerre(int m, double alpha)")]

def emit(R):
    text = X.strip_comments(X.read_source(CPP))
    outs, fns, srcs, emis = [], [], [], []
    for nm, sig, chdr in SPECS:
        (p,) = X.cut(CPP, sig, text)
        b = p.body
        b = X.r5_local_vectors(R, b, {"diag": "TSG_M", "off_diag": "TSG_M"})
        b = R.sub("R8-libm-sqrt", r'\bstd::sqrt\s*\(', 'tsg_sqrt_nn(', b)
        b = R.sub("R8-libm", r'(?<![\w.>:_])(pow|tgamma)\s*\(', r'tsg_\1(', b)
        b = R.sub("R10-callee", r'TasmanianTridiagonalSolver::decompose\(\s*diag\s*,\s*off_diag\s*,\s*mu0\s*,\s*x\s*,\s*w\s*\)', 'stub_decompose(diag, diag_size, off_diag, off_diag_size, mu0)', b)
        X.check_leftover(b, nm)
        outs.append('#line %d "%s"\n%s%s' % (p.line, X.REPO + "/" + p.rel, chdr, b))
        fns.append({"name": "OneDimensionalNodes::" + nm, "file": p.rel, "line": p.line, "loops": X.count_loops(b)}); srcs.append(p.body); emis.append(b)
    R.require({"R5-local-vector": 6, "R10-callee": 3, "R8-libm-sqrt": 3})
    info = {"functions": fns, "rules_fired": {k: v for k, v in R.counts.items() if v},
            "fidelity": X.fidelity("\n".join(srcs), "\n".join(emis), extra_vocab=["diag", "off_diag", "vector", "std", "sqrt", "pow", "tgamma", "TasmanianTridiagonalSolver", "decompose", "mu0", "x", "w", "double", "m"], slack=16),
            "drops": ["the eigen-solve (TasmanianTridiagonalSolver::decompose) and the zeroth moment mu0 (pow, tgamma: uninterpreted)"]}
    return "\n".join(outs) + "\n", info

HARNESS = r'''
#ifndef TSG_M
#define TSG_M 4
#endif
double g_diag[TSG_M], g_off[TSG_M]; size_t g_nd, g_no; bool g_called, g_sqrt_bad;
double tsg_pow(double a, double b){ return nondet_double(); }
double tsg_tgamma(double a){ return nondet_double(); }
/* sqrt: the argument must be a non-negative number; the result is some non-negative number */
double tsg_sqrt_nn(double v){
#if TSG_CHECK_SQRT
  if (!(v >= 0.0) || v > 1.0e300) g_sqrt_bad = true;
#endif
  double r = nondet_double(); __CPROVER_assume(r >= 0.0 && r <= 1.0e300); return r; }
void stub_decompose(const double *d, size_t nd, const double *o, size_t no, double mu0){
  g_called = true; g_nd = nd; g_no = no;
  for (size_t k = 0; k < TSG_M; k++) { if (k < nd) g_diag[k] = d[k]; if (k < no) g_off[k] = o[k]; }
}
'''
TAIL = r'''
void h_coeffs(void){
  int m = nondet_int(), ia = nondet_int(), ib = nondet_int();
  __CPROVER_assume(m >= 1 && m <= TSG_M && ia >= -15 && ia <= TSG_KMAX && ib >= -15 && ib <= TSG_KMAX);      /* alpha, beta = k/16 in (-1, TSG_KMAX/16], the line alpha + beta = 0 included */
  double alpha = (double) ia / 16.0, beta = (double) ib / 16.0;
  g_called = false; g_sqrt_bad = false;
#if TSG_WHICH == 0
  getGaussJacobi(m, alpha, beta);
#elif TSG_WHICH == 1
  getGaussHermite(m, alpha);
#else
  getGaussLaguerre(m, alpha);
#endif
  __CPROVER_assert(g_called && g_nd == (size_t) m && g_no == (size_t) m - 1, "C02 the eigen-solver gets m diagonal and m-1 off-diagonal recurrence coefficients");
  __CPROVER_assert(!g_sqrt_bad, "C02 every off-diagonal coefficient is the square root of a non-negative finite number");
  int k = nondet_int(); __CPROVER_assume(k >= 0 && k < m);
  __CPROVER_assert(g_diag[k] == g_diag[k] && g_diag[k] <= 1.0e300 && g_diag[k] >= -1.0e300, "C02 every diagonal recurrence coefficient is a finite number (no 0/0 on the line alpha + beta = 0)");
  __CPROVER_assert(0, "VACUITY-CANARY");
}
'''
REPLAY = r'''
/* On the real library: Gauss-Jacobi / Gegenbauer / Hermite / Laguerre grids for parameters on and off the line alpha + beta = 0: nodes and weights are numbers and the weights integrate 1 to the zeroth moment. */
int main_replay(){
  using namespace TasGrid;
  int bad = 0;
  struct { TypeOneDRule rule; double a, b; } cases[] = {{rule_gaussjacobi, 0.5, -0.5}, {rule_gaussjacobi, 0.0, 0.0}, {rule_gaussjacobi, -0.25, 0.25}, {rule_gaussjacobi, 0.3, 0.7}, {rule_gaussjacobiodd, 0.5, -0.5},
                                                        {rule_gaussgegenbauer, 0.0, 0.0}, {rule_gaussgegenbauer, 0.3, 0.0}, {rule_gausshermite, 0.0, 0.0}, {rule_gausshermite, 2.0, 0.0}, {rule_gausslaguerre, 0.0, 0.0}, {rule_gausslaguerre, 1.5, 0.0}};
  for (auto &c : cases) {
    TasmanianSparseGrid g = makeGlobalGrid(1, 0, 3, type_level, c.rule, std::vector<int>(), c.a, c.b);
    std::vector<double> p = g.getPoints(), w = g.getQuadratureWeights();
    bool ok = true; for (double v : p) if (!(v == v)) ok = false; for (double v : w) if (!(v == v)) ok = false;
    if (!ok) { std::printf("rule %d alpha %g beta %g: nodes or weights are NaN\n", (int) c.rule, c.a, c.b); bad++; }
  }
  __CPROVER_assert(bad == 0, "C02 nodes and weights of the Gauss rules with parameters are numbers");
  return 0;
}
'''
def replay(prop):
    def rp(job, ob, vals, wd):
        hdr = "Replay through the public API of the real library.\nproperty %s job %s\nobligation %s: %s\nat %s" % (prop, job.name, ob["name"], ob["description"], ob["location"])
        return RP.write_and_run(prop, job.name + "." + ob["name"], hdr, ['"TasmanianSparseGrid.hpp"', '<cmath>'], REPLAY, "  main_replay();", lib="sg", timeout=60)
    return rp

def jobs(tier, seed, prop):
    R = X.Rules()
    t, info = emit(R)
    m, kmax = (3, 1024) if tier == "quick" else (4, 1024)
    out = []
    for w, (nm, _, _) in enumerate(SPECS):
        src = '#include "tsg_shim.h"\nint tsg_exc;\n#define TSG_M %d\n#define TSG_WHICH %d\n#define TSG_CHECK_SQRT %d\n#define TSG_KMAX %d\n' % (m, w, 0 if nm == "getGaussJacobi" else 1, kmax) + HARNESS + t + TAIL
        out.append(Job("recurrence." + nm, src, "h_coeffs", unwind=m + 2, timeout=600 if tier == "quick" else 2400, backends=[["--sat-solver", "cadical"], [], ["--refine-arithmetic"]], checks=["--bounds-check"] if nm == "getGaussJacobi" else None, cbmc_args=["--slice-formula"],
                       functions=["%s:%d %s" % (f["file"], f["line"], f["name"]) for f in info["functions"] if f["name"].endswith(nm)], info=info, replay=replay(prop),
                       bounded="m <= %d points; alpha, beta on the lattice k/16 in (-1, %d] (within an ulp of -1 the coefficients do degenerate in double: observation, not claimed)" % (m, kmax // 16),
                       assumed=["sqrt returns a non-negative number for a non-negative argument; pow / tgamma (zeroth moment) are uninterpreted", "the eigen-solver itself is not under contract",
                                "getGaussJacobi: the sign of the square-root arguments (products of five factors) is not decided, the check did not finish; the diagonal entries are"],
                       label=nm + ": finite recurrence coefficients for every lattice parameter and size"))
    # the smallest size separately: one division, a counterexample (or the proof) comes back in seconds
    src1 = '#include "tsg_shim.h"\nint tsg_exc;\n#define TSG_M 1\n#define TSG_WHICH 0\n#define TSG_CHECK_SQRT 0\n#define TSG_KMAX 1024\n' + HARNESS + t + TAIL
    out.append(Job("recurrence.getGaussJacobi.m1", src1, "h_coeffs", unwind=3, timeout=300, backends=[["--sat-solver", "cadical"], []], checks=["--bounds-check"], cbmc_args=["--slice-formula"],
                   functions=["%s:%d %s" % (f["file"], f["line"], f["name"]) for f in info["functions"] if f["name"].endswith("getGaussJacobi")], info=info, replay=replay(prop),
                   bounded="m == 1 (the first diagonal coefficient); alpha, beta = k/16 in (-1, 64]", assumed=["pow / tgamma uninterpreted"],
                   label="getGaussJacobi, one point: the first recurrence coefficient is finite on the whole lattice"))
    return out
