"""Unit C04: the row partition of the block-wise sparse matrix builders (GridLocalPolynomial::buildSparseMatrixBlockForm, GridWavelet::buildInterpolationMatrix):
the blocks tile the rows 0..n-1, each row is visited exactly once (otherwise rows of the sparse hierarchical matrix stay empty and sparse != dense)."""
import re
from .. import tsg2c as X
from ..runner import Job
from .. import replay as RP

SPECS = [
    ("LocalPolynomial", "SparseGrids/tsgGridLocalPolynomial.cpp", r'void\s+GridLocalPolynomial::buildSparseMatrixBlockForm\s*\([^)]*\)\s*const', "num_x",
     r'int\s+num_blocks\s*=\s*([^;]+);', r'int\s+chunk_size\s*=\s*([^;]+);', r'for\s*\(\s*int\s+i\s*=\s*([^;]+);\s*i\s*<\s*([^;]+);\s*i\+\+\s*\)'),
    ("Wavelet", "SparseGrids/tsgGridWavelet.cpp", r'void\s+GridWavelet::buildInterpolationMatrix\s*\(\s*\)\s*const', "num_points",
     r'int\s+num_blocks\s*=\s*([^;]+);', r'int\s+block_end\s*=\s*([^;]+);', r'for\s*\(\s*int\s+i\s*=\s*([^;]+);\s*i\s*<\s*([^;]+);\s*i\+\+\s*\)'),
]
REPLAY = r'''
/* On the real library: the sparse hierarchical matrix of a batch whose size is a multiple of the chunk (32) equals the dense one, row by row. */
int main_replay(){
  using namespace TasGrid;
  int bad = 0;
  for (int fam = 0; fam < 2; fam++) for (int nx : {31, 32, 33, 64, 96}) {
    TasmanianSparseGrid g = fam == 0 ? makeLocalPolynomialGrid(2, 1, 3, 1, rule_localp) : makeWaveletGrid(2, 1, 2, 1);
    std::vector<double> x(2 * nx); for (int i = 0; i < 2 * nx; i++) x[i] = -0.95 + 1.9 * ((i * 37) % 101) / 101.0;
    std::vector<double> dense = g.evaluateHierarchicalFunctions(x);
    std::vector<int> pntr, indx; std::vector<double> vals;
    g.evaluateSparseHierarchicalFunctions(x, pntr, indx, vals);
    int np = g.getNumPoints(), miss = 0;
    for (int i = 0; i < nx; i++) { std::vector<double> row(np, 0.0); for (int j = pntr[i]; j < pntr[i+1]; j++) row[indx[j]] = vals[j]; for (int k = 0; k < np; k++) if (std::abs(row[k] - dense[(size_t) i * np + k]) > 1.E-12) { miss++; break; } }
    if (miss) { std::printf("%s grid, batch of %d points: %d rows of the sparse matrix differ from the dense one\n", fam ? "wavelet" : "local polynomial", nx, miss); bad++; }
  }
  __CPROVER_assert(bad == 0, "C04 the sparse hierarchical matrix equals the dense one entry by entry");
  return 0;
}
'''
def replay(prop):
    def rp(job, ob, vals, wd):
        hdr = "Replay through the public API of the real library.\nproperty %s job %s\nobligation %s: %s\nat %s" % (prop, job.name, ob["name"], ob["description"], ob["location"])
        return RP.write_and_run(prop, job.name + "." + ob["name"], hdr, ['"TasmanianSparseGrid.hpp"', '<cmath>'], REPLAY, "  main_replay();", lib="sg", timeout=60)
    return rp

def jobs(tier, seed, prop):
    out = []
    for fam, rel, sig, nvar, rx_nb, rx_sz, rx_loop in SPECS:
        R = X.Rules()
        text = X.strip_comments(X.read_source(rel))
        (p,) = X.cut(rel, sig, text)
        mb, ms = re.search(rx_nb, p.body), re.search(rx_sz, p.body)
        ml = re.search(rx_loop, p.body[ms.end():]) if ms else None
        if not (mb and ms and ml):
            raise X.ExtractionBreak("%s: block partition expressions not found" % fam)
        R.counts["R-expr-selector"] = 4
        szname = "chunk_size" if fam == "LocalPolynomial" else "block_end"
        line = p.line + (p.header + p.body[:mb.start()]).count('\n')
        c = ('#include "tsg_shim.h"\nint tsg_exc;\n#line %d "%s"\n' % (line, X.REPO + "/" + p.rel) +
             'static int f_num_blocks(int %s, int num_chunk){ return (%s); }\n' % (nvar, mb.group(1)) +
             'static void f_range(int b, int num_blocks, int %s, int num_chunk, int *lo, int *hi){ int %s = (%s); *lo = (%s); *hi = (%s); }\n' % (nvar, szname, ms.group(1), ml.group(1), ml.group(2)) +
             '''void h_blocks(void){
  int n = nondet_int(), ch = nondet_int();
  __CPROVER_assume(n >= 0 && n <= 1000000 && ch >= 1 && ch <= 64);
#ifdef FIXED_CHUNK
  ch = 32;      /* the chunk hard-wired by the callers */
#endif
  int nb = f_num_blocks(n, ch);
  __CPROVER_assert(nb >= 0 && (n == 0 ? nb == 0 : nb >= 1), "C04 block partition: no blocks for no rows, at least one otherwise");
  int b = nondet_int(); __CPROVER_assume(b >= 0 && b < nb);                       /* witness block */
  int lo, hi; f_range(b, nb, n, ch, &lo, &hi);
  __CPROVER_assert(0 <= lo && lo < hi && hi <= n && hi - lo <= ch, "C04 block partition: every block is a non-empty range of rows of at most one chunk");
  if (b == 0) __CPROVER_assert(lo == 0, "C04 block partition: the first block starts at row 0");
  if (b == nb - 1) __CPROVER_assert(hi == n, "C04 block partition: the last block ends at the last row (no row is left out)");
  if (b + 1 < nb) { int lo2, hi2; f_range(b + 1, nb, n, ch, &lo2, &hi2); __CPROVER_assert(lo2 == hi, "C04 block partition: consecutive blocks are adjacent (no row is skipped or visited twice)"); }
  __CPROVER_assert(0, "VACUITY-CANARY");
}
''')
        c = c.replace("#ifdef FIXED_CHUNK", "#if 1")
        if fam == "LocalPolynomial":   # every caller passes the literal 32
            calls = re.findall(r'\bbuild(?:SpareBasisMatrix|SpareBasisMatrixStatic)\s*\(\s*\w+\s*,\s*\w+\s*,\s*([^,]+),', text)
            lits = [q.strip() for q in calls if q.strip() != "int num_chunk" and not q.strip().startswith("int ")]
            if not lits or any(q != "32" for q in lits):
                raise X.ExtractionBreak("buildSpareBasisMatrix is no longer called with the chunk 32 only: %r" % lits)
        info = {"functions": [{"name": "Grid%s::%s (block partition expressions)" % (fam, "buildSparseMatrixBlockForm" if fam == "LocalPolynomial" else "buildInterpolationMatrix"), "file": p.rel, "line": line, "loops": 0}],
                "rules_fired": {"R-expr-selector": 4}, "drops": ["everything but the four expressions (number of blocks, size / end of a block, loop bounds)"]}
        out.append(Job("blocks." + fam, c, "h_blocks", timeout=300, backends=[[], ["--sat-solver", "cadical"]], functions=["%s:%d %s" % (f["file"], f["line"], f["name"]) for f in info["functions"]], info=info, replay=replay(prop),
                       bounded="rows <= 10^6, chunk == 32 (the literal every caller passes, checked textually; a symbolic chunk did not finish: division)",
                       assumed=["only the partition arithmetic is extracted (expression selectors); what is computed per row is the tree walk / basis evaluation (not under this contract)"],
                       label="Grid%s block-wise sparse matrix builder: the blocks tile the rows exactly" % fam))
    return out
