"""Extraction of the const weight queries of GridWavelet (getQuadratureWeights,
getInterpolationWeights, getDifferentiationWeights; SparseGrids/tsgGridWavelet.cpp)."""
import re
from .. import tsg2c as X
CPP = "SparseGrids/tsgGridWavelet.cpp"

SPECS = [
    ("getQuadratureWeights", r'void\s+GridWavelet::getQuadratureWeights\s*\(\s*double\s+weights\[\]\s*\)\s*const', "void GridWavelet_getQuadratureWeights(const GridWavelet *self, double weights[])"),
    ("getInterpolationWeights", r'void\s+GridWavelet::getInterpolationWeights\s*\(\s*const\s+double\s+x\[\]\s*,\s*double\s+weights\[\]\s*\)\s*const', "void GridWavelet_getInterpolationWeights(const GridWavelet *self, const double x[], double weights[])"),
    ("getDifferentiationWeights", r'void\s+GridWavelet::getDifferentiationWeights\s*\(\s*const\s+double\s+x\[\]\s*,\s*double\s+weights\[\]\s*\)\s*const', "void GridWavelet_getDifferentiationWeights(const GridWavelet *self, const double x[], double weights[])"),
]

def emit(R, contracts=None, loops=None):
    text = X.strip_comments(X.read_source(CPP))
    outs, fns, srcs, emis = [], [], [], []
    for nm, sig, chdr in SPECS:
        (p,) = X.cut(CPP, sig, text)
        b = p.body
        b = R.sub("R11-omp-pragma", r'#\s*pragma\s+omp[^\n]*', '', b)
        b = R.sub("R10-work-set", r'const\s+MultiIndexSet\s*&work\s*=\s*\(points\.empty\(\)\)\s*\?\s*needed\s*:\s*points\s*;', 'int work = (self->points_n == 0) ? self->needed_n : self->points_n;', b)
        b = R.sub("R10-receiver-call", r'\bwork\.getNumIndexes\(\)', 'work', b)
        b = R.sub("R10-receiver-call", r'\bwork\.getIndex\(\s*i\s*\)', 'i', b)
        b = R.sub("R10-set-size", r'(?<![\w.>_])(points|needed)\.getNumIndexes\(\)', r'self->\1_n', b)
        b = R.sub("R10-set-size", r'(?<![\w.>_])(points|needed)\.empty\(\)', r'(self->\1_n == 0)', b)
        b = R.sub("R10-self-call", r'(?<![\w.>_])(evalIntegral|evalBasis|evalDiffBasis)\s*\(', r'GridWavelet_\1(self, ', b)
        b = R.sub("R10-member-call", r'\binter_matrix\.getNumRows\(\)', 'WaveletBasisMatrix_getNumRows(&self->inter_matrix)', b)
        b = R.sub("R10-member-call", r'\binter_matrix\.invertTransposed\(\s*acceleration\s*,\s*', 'WaveletBasisMatrix_invertTransposed(&self->inter_matrix, ', b)
        # buildInterpolationMatrix() const writes the `mutable` member inter_matrix: in C the constness is cast away explicitly
        b = R.sub("R10-mutable-call", r'(?<![\w.>_])buildInterpolationMatrix\(\)', 'GridWavelet_buildInterpolationMatrix((GridWavelet *) self)', b)
        b = X.r5_local_vectors(R, b, {"local_weights": "TSG_NPMAX"})
        b = X.r5_vector_methods(R, b, {"local_weights": "double"})
        b = R.sub("R10-member", r'(?<![\w.>_])num_dimensions\b', 'self->num_dimensions', b)
        X.check_leftover(chdr + b, nm)
        name = "GridWavelet_" + nm
        outs.append('#line %d "%s"\n%s' % (p.line, X.REPO + "/" + p.rel, X.splice(chdr, b, (contracts or {}).get(name), (loops or {}).get(name))))
        fns.append({"name": "GridWavelet::" + nm, "file": p.rel, "line": p.line, "loops": X.count_loops(b)})
        srcs.append(p.body); emis.append(b)
    R.require({"R10-work-set": 3, "R10-mutable-call": 3, "R10-member-call": 6, "R10-self-call": 3, "R11-omp-pragma": 3})
    info = {"functions": fns, "rules_fired": {k: v for k, v in R.counts.items() if v},
            "fidelity": X.fidelity("\n".join(srcs), "\n".join(emis), extra_vocab=["work", "points", "needed", "empty", "getNumIndexes", "getIndex", "inter_matrix", "getNumRows", "invertTransposed",
                                                                               "acceleration", "buildInterpolationMatrix", "evalIntegral", "evalBasis", "evalDiffBasis", "pragma", "omp", "parallel", "for", "MultiIndexSet",
                                                                               "local_weights", "data", "num_dimensions"], slack=12),
            "drops": ["#pragma omp parallel for (3 loops)", "`mutable` becomes an explicit cast of the const receiver"]}
    return "\n".join(outs) + "\n", info

EVAL_SPECS = [
    ("evalBasis", r'double\s+GridWavelet::evalBasis\s*\(\s*const\s+int\s+p\[\]\s*,\s*const\s+double\s+x\[\]\s*\)\s*const', "double GridWavelet_evalBasis(const GridWavelet *self, const int p[], const double x[])"),
    ("evalIntegral", r'double\s+GridWavelet::evalIntegral\s*\(\s*const\s+int\s+p\[\]\s*\)\s*const', "double GridWavelet_evalIntegral(const GridWavelet *self, const int p[])"),
    ("evalDiffBasis", r'void\s+GridWavelet::evalDiffBasis\s*\(\s*const\s+int\s+p\[\]\s*,\s*const\s+double\s+x\[\]\s*,\s*double\s+jacobian\[\]\s*\)\s*const', "void GridWavelet_evalDiffBasis(const GridWavelet *self, const int p[], const double x[], double jacobian[])"),
]

def emit_eval(R, contracts=None):
    """The three basis evaluators that the weight queries call: GridWavelet::evalBasis, evalIntegral, evalDiffBasis."""
    text = X.strip_comments(X.read_source(CPP))
    outs, fns, srcs, emis = [], [], [], []
    for nm, sig, chdr in EVAL_SPECS:
        (p,) = X.cut(CPP, sig, text)
        b = p.body
        b = R.sub("R10-rule-call", r'\brule1D\s*\.\s*eval\s*<\s*([01])\s*>\s*\(', r'RuleWavelet_eval\1(self, ', b)
        b = R.sub("R10-rule-call", r'\brule1D\s*\.\s*getWeight\s*\(', 'RuleWavelet_getWeight(self, ', b)
        b = X.r5_local_vectors(R, b, {"value_cache": "TSG_NDMAX"})
        b = R.sub("R10-member", r'(?<![\w.>_])num_dimensions\b', 'self->num_dimensions', b)
        X.check_leftover(chdr + b, nm)
        name = "GridWavelet_" + nm
        outs.append('#line %d "%s"\n%s' % (p.line, X.REPO + "/" + p.rel, X.splice(chdr, b, (contracts or {}).get(name), None)))
        fns.append({"name": "GridWavelet::" + nm, "file": p.rel, "line": p.line, "loops": X.count_loops(b)})
        srcs.append(p.body); emis.append(b)
    R.require({"R10-rule-call": 4, "R10-member": 5, "R5-local-vector": 1})
    info = {"functions": fns, "rules_fired": {k: v for k, v in R.counts.items() if v},
            "fidelity": X.fidelity("\n".join(srcs), "\n".join(emis), extra_vocab=["rule1D", "eval", "getWeight", "value_cache", "num_dimensions"], slack=8),
            "drops": ["the template argument of rule1D.eval<mode> becomes part of the callee name"]}
    return "\n".join(outs) + "\n", info
