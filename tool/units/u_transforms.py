"""Unit C10: linear domain transforms on the exact lattice (L10a, L10b, L10c)."""
from .. import tsg2c as X
from ..runner import Job
from ..contractfile import ContractFile
from .. import replay as RP
from . import transforms, tables

def jobs(tier, seed, prop):
    R = X.Rules()
    enums = tables.cut_enum("TypeOneDRule", R)[0]
    t, info = transforms.emit(R)
    cf = ContractFile("contracts/transforms.c")
    LB, LX, KMAX = (3, 3, 3) if tier == "quick" else (12, 10, 10)
    pre = '#include "tsg_shim.h"\nint tsg_exc;\n#define TSG_NDIM 2\n#define LB %d\n#define LX %d\n#define KMAX %d\n' % (LB, LX, KMAX) + enums + '#line 1 "/verif/contracts/transforms.c"\n' + cf.text(("text",)) + t
    fl = ["%s:%d %s" % (f["file"], f["line"], f["name"]) for f in info["functions"]]
    out = []
    FAMS = {"laguerre": "FAM_LAGUERRE(r)", "hermite": "FAM_HERMITE(r)", "fourier": "((r) == rule_fourier)", "jacobi": "FAM_JACOBI(r)",
            "canonical": "(!FAM_LAGUERRE(r) && !FAM_HERMITE(r) && !FAM_JACOBI(r) && (r) != rule_fourier)"}
    pairs = [(l, f) for l in ("lemma_roundtrip", "lemma_qscale", "lemma_jacobian") for f in FAMS if not (l != "lemma_qscale" and f == "jacobi")]
    if tier == "quick":     # quick: the [-1,1] family always, one further family chosen by the seed; thorough: all families
        other = ["laguerre", "hermite", "fourier"][seed % 3]
        pairs = [(l, f) for l, f in pairs if f in ("canonical", other) or (l == "lemma_qscale" and f == "jacobi") or l == "lemma_jacobian"]
    if prop == "C05":       # C05: the Jacobian factor (L10b inside lemma_roundtrip) and the chain-rule loops below
        pairs = [(l, f) for l, f in pairs if l == "lemma_jacobian"]
    for lem, fam in pairs:
        fexpr = FAMS[fam]
        if lem != "lemma_qscale" and fam == "canonical":
            fexpr = "(!FAM_LAGUERRE(r) && !FAM_HERMITE(r) && (r) != rule_fourier)"   # the Jacobi-type rules share the [-1,1] map
        pre_f = pre.replace("#define LB ", "#define FAMILY(r) %s\n#define LB " % fexpr, 1)
        out.append(Job("transforms.%s.%s" % (lem, fam), pre_f + cf.text(("lemma",), [lem]) + cf.text(("harness",), ["h_" + lem]), "h_" + lem, enforce=lem, split=r'lemma_\w+\.assertion\.\d+$',
                       pre_unwindset={r'mapCanonicalToTransformed|mapTransformedToCanonical|getQuadratureScale|diffCanonicalTransform|tsg_\w+': 4},
                       timeout=600 if tier == "quick" else 3000, backends=[["--sat-solver", "cadical"], []], functions=fl, info=info,
                       bounded="exact lattice: |a| <= 2^%d, widths 2^k with k <= %d, canonical x = i*2^-%d; dimensions <= 2" % (LB, KMAX, LX),
                       assumed=["sqrt(x) returns r >= 0 with r*r == x on perfect squares (stub)", "pow is uninterpreted; only its arguments are checked",
                                "rounding off the lattice and the conformal (asin) map are not covered"],
                       label={"lemma_roundtrip": "L10a forward and inverse maps are mutual inverses, end points map to a and b",
                              "lemma_jacobian": "L10b the Jacobian of the pull-back is its multiplicative rate", "lemma_qscale": "L10c quadrature scale per rule family"}[lem] + " [family: %s]" % fam))
    # chain-rule scaling loops at grid level
    Rc = X.Rules()
    ct, cinfo = transforms.emit_chain_loops(Rc)
    t2 = [t_ for k, a, t_ in cf.sections if k == "text2"][0]
    for fn in ("chain_differentiate", "chain_weights"):
        out.append(Job("transforms." + fn, '#include "tsg_shim.h"\n#include <stdlib.h>\nint tsg_exc;\n#define CHAIN %s\n#define CH_NO %d\n#line 1 "/verif/contracts/transforms.c"\n' % (fn, 2 if tier == "quick" else 3) + t2 + ct + cf.text(("harness",), ["h_chain"]),
                       "h_chain", unwind=2 * 6 + 2, timeout=300 if tier == "quick" else 2400, backends=[[], ["--sat-solver", "cadical"]], functions=["%s:%d %s" % (f["file"], f["line"], f["name"]) for f in cinfo["functions"]], info=cinfo,
                       bounded="dimensions <= 2, outputs / points <= 2 quick, 3 thorough (full unwinding); canary cells behind the array detect out-of-range writes",
                       assumed=["R13: the product is an uninterpreted deterministic function"],
                       label="%s: chain-rule scaling touches each entry once with the rate of its own dimension" % fn))
    return out
