"""Unit C10: linear domain transforms on the exact lattice (L10a, L10b, L10c)."""
from .. import tsg2c as X
from ..runner import Job
from ..contractfile import ContractFile
from .. import replay as RP
from . import transforms, tables

REPLAY_INSIDE = r'''
/* On the real library: for one rule of every family, with and without a transform, the predicate accepts the grid's own points and a point well inside, and rejects a point below the lower bound. */
int main_replay(){
  using namespace TasGrid;
  int bad = 0;
  for (auto rule : {rule_clenshawcurtis, rule_gausslegendre, rule_gausslaguerre, rule_gausslaguerreodd, rule_gausshermite, rule_gausshermiteodd, rule_gaussjacobi}) for (int tr = 0; tr < 2; tr++) {
    TasmanianSparseGrid g = makeGlobalGrid(2, 0, 2, type_level, rule, std::vector<int>(), 0.5, 0.5);
    bool lag = (rule == rule_gausslaguerre || rule == rule_gausslaguerreodd), her = (rule == rule_gausshermite || rule == rule_gausshermiteodd);
    if (tr) g.setDomainTransform({2.0, 3.0}, {her || lag ? 0.5 : 4.0, her || lag ? 2.0 : 7.0});
    auto inside = g.getDomainInside();
    std::vector<double> p = g.getPoints();
    for (int i = 0; i < g.getNumPoints(); i++) if (!inside(std::vector<double>{p[2*i], p[2*i+1]})) { if (bad < 5) std::printf("rule %d transform %d: the grid point (%g, %g) is rejected\n", (int) rule, tr, p[2*i], p[2*i+1]); bad++; }
    double low = tr ? 2.0 : (lag ? 0.0 : -1.0);
    if (!her && inside(std::vector<double>{low - 0.25, tr ? 3.5 : 0.5})) { std::printf("rule %d transform %d: a point below the lower bound is accepted\n", (int) rule, tr); bad++; }
    if (lag && !inside(std::vector<double>{low + 1000.0, (tr ? 3.0 : 0.0) + 50.0})) { std::printf("rule %d transform %d: a large point of the half line is rejected\n", (int) rule, tr); bad++; }
  }
  __CPROVER_assert(bad == 0, "C10 getDomainInside() accepts the points of the transformed domain and rejects points beyond its bounds");
  return 0;
}
'''
def replay_inside(prop):
    def rp(job, ob, vals, wd):
        hdr = "Replay through the public API of the real library.\nproperty %s job %s\nobligation %s: %s\nat %s" % (prop, job.name, ob["name"], ob["description"], ob["location"])
        return RP.write_and_run(prop, job.name + "." + ob["name"], hdr, ['"TasmanianSparseGrid.hpp"', '<cmath>'], REPLAY_INSIDE, "  main_replay();", lib="sg", timeout=60)
    return rp

REPLAY_CHAIN = r'''
/* On the real library: grids of four families with 2 outputs on the box [1,3] x [-2,6] (different rates per dimension); differentiate() against central
 * differences of evaluate(), and the differentiation weights applied to the loaded values against differentiate(). */
int main_replay(){
  using namespace TasGrid;
  int bad = 0;
  const char *names[4] = {"Global", "Sequence", "LocalPolynomial", "Wavelet"};
  for (int fam = 0; fam < 4; fam++) {
    TasmanianSparseGrid g = fam == 0 ? makeGlobalGrid(2, 2, 3, type_level, rule_clenshawcurtis) : fam == 1 ? makeSequenceGrid(2, 2, 4, type_level, rule_leja)
                          : fam == 2 ? makeLocalPolynomialGrid(2, 2, 3, 2, rule_localp) : makeWaveletGrid(2, 2, 2, 3);
    g.setDomainTransform({1.0, -2.0}, {3.0, 6.0});
    std::vector<double> p = g.getNeededPoints(); int n = g.getNumNeeded(); std::vector<double> v(2 * n);
    for (int i = 0; i < n; i++) { v[2*i] = p[2*i] * p[2*i] * p[2*i+1] + 3.0 * p[2*i+1]; v[2*i+1] = std::exp(0.3 * p[2*i] - 0.1 * p[2*i+1]); }
    g.loadNeededValues(v);
    for (auto x : {std::vector<double>{1.7, 0.9}, std::vector<double>{2.3, -1.1}, std::vector<double>{1.2, 4.6}}) {
      std::vector<double> jac; g.differentiate(x, jac);       /* outputs x dimensions */
      std::vector<double> w = g.getDifferentiationWeights(x); /* points x dimensions */
      const double h = 1.E-6; double worst_fd = 0, worst_w = 0;
      for (int d = 0; d < 2; d++) {
        std::vector<double> xp = x, xm = x, yp, ym; xp[d] += h; xm[d] -= h; g.evaluate(xp, yp); g.evaluate(xm, ym);
        for (int k = 0; k < 2; k++) {
          double fd = (yp[k] - ym[k]) / (2 * h), sw = 0; for (int i = 0; i < n; i++) sw += w[2*i+d] * v[2*i+k];
          worst_fd = std::max(worst_fd, std::abs(fd - jac[2*k+d]) / (1.0 + std::abs(fd))); worst_w = std::max(worst_w, std::abs(sw - jac[2*k+d]) / (1.0 + std::abs(sw)));
        } }
      if (!(worst_fd < 1.E-4 && worst_w < 1.E-9)) { std::printf("%s at (%g, %g): differentiate vs central differences %.3e, differentiation weights vs differentiate %.3e\n", names[fam], x[0], x[1], worst_fd, worst_w); bad++; }
    }
  }
  __CPROVER_assert(bad == 0, "C05 on a transformed domain differentiate() is the gradient of evaluate() and the differentiation weights reproduce it");
  return 0;
}
'''
def replay_chain(prop):
    def rp(job, ob, vals, wd):
        hdr = "Replay through the public API of the real library.\nproperty %s job %s\nobligation %s: %s\nat %s" % (prop, job.name, ob["name"], ob["description"], ob["location"])
        return RP.write_and_run(prop, job.name + "." + ob["name"], hdr, ['"TasmanianSparseGrid.hpp"', '<cmath>', '<algorithm>'], REPLAY_CHAIN, "  main_replay();", lib="sg", timeout=60)
    return rp

REPLAY_DISC = r'''
/* On the real library: grids with a domain transform; every point-taking query must agree with the same query of an untransformed copy at the pulled-back point. */
int main_replay(){
  using namespace TasGrid;
  int bad = 0;
  const char *names[3] = {"LocalPolynomial", "Wavelet", "Global"};
  for (int fam = 0; fam < 3; fam++) {
    TasmanianSparseGrid g = fam == 0 ? makeLocalPolynomialGrid(2, 1, 3, 1, rule_localp) : fam == 1 ? makeWaveletGrid(2, 1, 2, 1) : makeGlobalGrid(2, 1, 3, type_level, rule_clenshawcurtis);
    TasmanianSparseGrid c = g;                                  /* canonical twin */
    g.setDomainTransform({1.0, -2.0}, {3.0, 6.0});
    { std::vector<double> p = c.getNeededPoints(), v(c.getNumNeeded()); for (size_t i = 0; i < v.size(); i++) v[i] = std::exp(0.4 * p[2*i] - 0.3 * p[2*i+1]); c.loadNeededValues(v); g.loadNeededValues(v); }
    std::vector<double> xt = {1.3, 0.7, 2.6, 4.9, 1.9, -1.2}, xc(6);
    for (int i = 0; i < 3; i++) { xc[2*i] = (xt[2*i] - 2.0) / 1.0; xc[2*i+1] = (xt[2*i+1] - 2.0) / 4.0; }
    auto differ = [&](std::vector<double> const &a, std::vector<double> const &b)->bool{ if (a.size() != b.size()) return true; for (size_t i = 0; i < a.size(); i++) if (std::abs(a[i] - b[i]) > 1.E-11) return true; return false; };
    std::vector<double> ya, yb; g.evaluateBatch(xt, ya); c.evaluateBatch(xc, yb);
    if (differ(ya, yb)) { std::printf("%s: evaluateBatch differs from the canonical twin\n", names[fam]); bad++; }
    g.evaluateHierarchicalFunctions(xt, ya); c.evaluateHierarchicalFunctions(xc, yb);
    if (differ(ya, yb)) { std::printf("%s: evaluateHierarchicalFunctions differs from the canonical twin\n", names[fam]); bad++; }
    for (int i = 0; i < 3; i++) { std::vector<double> wa = g.getInterpolationWeights(std::vector<double>{xt[2*i], xt[2*i+1]}), wb = c.getInterpolationWeights(std::vector<double>{xc[2*i], xc[2*i+1]});
      if (differ(wa, wb)) { std::printf("%s: getInterpolationWeights differs from the canonical twin\n", names[fam]); bad++; } }
    if (fam < 2) {
      std::vector<int> pa, ia, pb, ib; std::vector<double> va, vb;
      g.evaluateSparseHierarchicalFunctions(xt, pa, ia, va); c.evaluateSparseHierarchicalFunctions(xc, pb, ib, vb);
      if (pa != pb || ia != ib || differ(va, vb)) { std::printf("%s: evaluateSparseHierarchicalFunctions (vector form) differs from the canonical twin (%zu vs %zu non-zeros)\n", names[fam], va.size(), vb.size()); bad++; }
      int nza = g.evaluateSparseHierarchicalFunctionsGetNZ(xt.data(), 3), nzb = c.evaluateSparseHierarchicalFunctionsGetNZ(xc.data(), 3);
      if (nza != nzb) { std::printf("%s: evaluateSparseHierarchicalFunctionsGetNZ %d vs %d\n", names[fam], nza, nzb); bad++; }
      else { std::vector<int> qa(4), ja(nza), qb(4), jb(nzb); std::vector<double> wa(nza), wb(nzb);
        g.evaluateSparseHierarchicalFunctionsStatic(xt.data(), 3, qa.data(), ja.data(), wa.data()); c.evaluateSparseHierarchicalFunctionsStatic(xc.data(), 3, qb.data(), jb.data(), wb.data());
        if (qa != qb || ja != jb || differ(wa, wb)) { std::printf("%s: evaluateSparseHierarchicalFunctionsStatic differs from the canonical twin\n", names[fam]); bad++; } }
    }
  }
  __CPROVER_assert(bad == 0, "C10 every point-taking query of a transformed grid equals the query of the canonical grid at the pulled-back points");
  return 0;
}
'''
def discipline_job(prop):
    """every call that hands points to a family object inside a point-taking member of TasmanianSparseGrid passes the pulled-back points, never the caller's array"""
    import re
    CPP = "SparseGrids/TasmanianSparseGrid.cpp"
    t = X.strip_comments(X.read_source(CPP))
    calls, bad = [], []
    for m in re.finditer(r'TasmanianSparseGrid::(\w+)\s*\(([^)]*)\)\s*(?:const\s*)?(?=\{)', t):
        pm = re.search(r'(?:const\s+(?:double|float|FloatType|T)\s*\*?\s*|std::vector<\w+>\s*(?:const)?\s*&\s*|const\s+std::vector<\w+>\s*&\s*)(x|gpu_x)\b', m.group(2))
        if not pm:
            continue
        raw = pm.group(1)
        k = t.index("{", m.end() - 1); e = X.match_close(t, k); body = t[k:e + 1]
        for c in re.finditer(r'(?:base|get<\w+>\(\))\s*->\s*(\w+)\s*\(', body):
            ce = X.match_close(body, c.end() - 1, "(", ")")
            args = body[c.end():ce]
            ln = t.count("\n", 0, k + c.start()) + 1
            calls.append((ln, m.group(1), c.group(1)))
            rest = re.sub(r'formCanonicalPoints(?:GPU)?\s*\([^()]*(?:\([^()]*\)[^()]*)*\)', 'CANON', args)
            if re.search(r'(?<![\w.>])%s\b' % raw, rest):
                bad.append((ln, m.group(1), c.group(1)))
    if len(calls) < 20:
        raise X.ExtractionBreak("canonical-points scan found only %d calls into family objects from point-taking members: the scan no longer matches the sources" % len(calls))
    src = '#include "tsg_shim.h"\nint tsg_exc;\nvoid h_discipline(void){\n'
    for ln, fn, callee in calls:
        src += '#line %d "%s"\n  __CPROVER_assert(%d, "C10 %s -> %s: the family object receives the pulled-back (canonical) points, not the caller\'s array");\n' % (ln, X.REPO + "/" + CPP, 0 if (ln, fn, callee) in bad else 1, fn, callee)
    src += '  __CPROVER_assert(0, "VACUITY-CANARY");\n}\n'
    def rp(job, ob, vals, wd):
        hdr = "Replay through the public API of the real library.\nproperty %s job %s\nobligation %s: %s\nat %s" % (prop, job.name, ob["name"], ob["description"], ob["location"])
        return RP.write_and_run(prop, job.name + "." + ob["name"], hdr, ['"TasmanianSparseGrid.hpp"', '<cmath>'], REPLAY_DISC, "  main_replay();", lib="sg", timeout=120)
    return Job("transforms.canonical_discipline", src, "h_discipline", timeout=60, functions=["%s:%d %s -> %s" % (CPP, ln, fn, callee) for ln, fn, callee in calls],
               info={"functions": [], "rules_fired": {"scan-family-calls": len(calls)}, "drops": ["syntactic scan (supporting static fact): argument lists of the calls into family objects; decided by the extractor, CBMC evaluates the flags"]}, replay=rp,
               assumed=["a point array reaches a family object only as a direct argument of base-> / get<>()-> calls in TasmanianSparseGrid.cpp (GPU paths are scanned but cannot be replayed here)"],
               label="every point-taking member of TasmanianSparseGrid hands the pulled-back points to the family object (%d calls)" % len(calls))

REPLAY_QSCALE = r'''
/* On the real library: the quadrature weights of a 2-D / 3-D tensor grid on a transformed domain sum to the product of the sums of the 1-D grids with
 * the transform of each direction (every direction contributes its own scale factor), for one rule of each family of getQuadratureScale. */
int main_replay(){
  using namespace TasGrid;
  int bad = 0;
  for (auto rule : {rule_clenshawcurtis, rule_gausslegendre, rule_gausschebyshev2, rule_gaussgegenbauer, rule_gaussjacobi, rule_gausslaguerre, rule_gausshermite}) for (int dims = 2; dims <= 3; dims++) {
    bool unb = (rule == rule_gausslaguerre || rule == rule_gausshermite);
    std::vector<double> a = {-2.0, 1.0, 0.5}, b = {3.0, 2.0, 4.5};
    if (unb) { a = {0.5, -1.0, 2.0}; b = {2.0, 0.5, 3.0}; }
    a.resize(dims); b.resize(dims);
    TasmanianSparseGrid g = makeGlobalGrid(dims, 0, 2, type_tensor, rule, std::vector<int>(), 0.5, 1.5);
    g.setDomainTransform(a, b);
    double s = 0; for (double w : g.getQuadratureWeights()) s += w;
    double prod = 1.0;
    for (int d = 0; d < dims; d++) { TasmanianSparseGrid h = makeGlobalGrid(1, 0, 2, type_tensor, rule, std::vector<int>(), 0.5, 1.5); h.setDomainTransform({a[d]}, {b[d]}); double t = 0; for (double w : h.getQuadratureWeights()) t += w; prod *= t; }
    if (!(std::abs(s - prod) <= 1.E-10 * (1.0 + std::abs(prod)))) { std::printf("rule %d, %d dimensions: the weights sum to %.12g, the product of the 1-D sums is %.12g\n", (int) rule, dims, s, prod); bad++; }
  }
  __CPROVER_assert(bad == 0, "L10c the quadrature scale of a transformed domain is the product of the factors of all directions");
  return 0;
}
'''
def replay_qscale(prop):
    def rp(job, ob, vals, wd):
        hdr = "Replay through the public API of the real library.\nproperty %s job %s\nobligation %s: %s\nat %s" % (prop, job.name, ob["name"], ob["description"], ob["location"])
        return RP.write_and_run(prop, job.name + "." + ob["name"], hdr, ['"TasmanianSparseGrid.hpp"', '<cmath>'], REPLAY_QSCALE, "  main_replay();", lib="sg", timeout=60)
    return rp

def jobs(tier, seed, prop):
    R = X.Rules()
    enums = tables.cut_enum("TypeOneDRule", R)[0]
    t, info = transforms.emit(R)
    cf = ContractFile("contracts/transforms.c")
    LB, LX, KMAX = (3, 3, 3) if tier == "quick" else (12, 10, 10)
    pre = '#include "tsg_shim.h"\nint tsg_exc;\n#define TSG_NDIM 2\n#define LB %d\n#define LX %d\n#define KMAX %d\n' % (LB, LX, KMAX) + enums + '#line 1 "/verif/contracts/transforms.c"\n' + cf.text(("text",)) + t
    fl = ["%s:%d %s" % (f["file"], f["line"], f["name"]) for f in info["functions"]]
    out = []
    FAMS = {"laguerre": "FAM_LAGUERRE(r)", "hermite": "FAM_HERMITE(r)", "fourier": "((r) == rule_fourier)", "jacobi": "FAM_JACOBI(r)",
            "canonical": "(!FAM_LAGUERRE(r) && !FAM_HERMITE(r) && !FAM_JACOBI(r) && (r) != rule_fourier)"}
    pairs = [(l, f) for l in ("lemma_roundtrip", "lemma_qscale", "lemma_jacobian") for f in FAMS if not (l != "lemma_qscale" and f == "jacobi")]
    if tier == "quick":     # quick: the [-1,1] family always, one further family chosen by the seed; thorough: all families
        other = ["laguerre", "hermite", "fourier"][seed % 3]
        pairs = [(l, f) for l, f in pairs if f in ("canonical", other) or (l == "lemma_qscale" and f == "jacobi") or l == "lemma_jacobian"]
    if prop == "C02":       # C02: the quadrature scale of the transformed domain (product over the dimensions) only
        pairs = [(l, f) for l, f in pairs if l == "lemma_qscale"]
    if prop == "C05":       # C05: the Jacobian factor (L10b inside lemma_roundtrip) and the chain-rule loops below
        pairs = [(l, f) for l, f in pairs if l == "lemma_jacobian"]
    for lem, fam in pairs:
        fexpr = FAMS[fam]
        if lem != "lemma_qscale" and fam == "canonical":
            fexpr = "(!FAM_LAGUERRE(r) && !FAM_HERMITE(r) && (r) != rule_fourier)"   # the Jacobi-type rules share the [-1,1] map
        pre_f = pre.replace("#define LB ", "#define FAMILY(r) %s\n#define LB " % fexpr, 1)
        out.append(Job("transforms.%s.%s" % (lem, fam), pre_f + cf.text(("lemma",), [lem]) + cf.text(("harness",), ["h_" + lem]), "h_" + lem, enforce=lem, split=r'lemma_\w+\.assertion\.\d+$',
                       pre_unwindset={r'mapCanonicalToTransformed|mapTransformedToCanonical|getQuadratureScale|diffCanonicalTransform|tsg_\w+': 4},
                       timeout=600 if tier == "quick" else 3000, backends=[["--sat-solver", "cadical"], []], functions=fl, info=info, replay=replay_qscale(prop) if lem == "lemma_qscale" else None,
                       bounded="exact lattice: |a| <= 2^%d, widths 2^k with k <= %d, canonical x = i*2^-%d; dimensions <= 2" % (LB, KMAX, LX),
                       assumed=["sqrt(x) returns r >= 0 with r*r == x on perfect squares (stub)", "pow is uninterpreted; only its arguments are checked",
                                "rounding off the lattice and the conformal (asin) map are not covered"],
                       label={"lemma_roundtrip": "L10a forward and inverse maps are mutual inverses, end points map to a and b",
                              "lemma_jacobian": "L10b the Jacobian of the pull-back is its multiplicative rate", "lemma_qscale": "L10c quadrature scale per rule family"}[lem] + " [family: %s]" % fam))
    if prop == "C02":
        return out
    # chain-rule scaling loops at grid level
    Rc = X.Rules()
    ct, cinfo = transforms.emit_chain_loops(Rc)
    t2 = [t_ for k, a, t_ in cf.sections if k == "text2"][0]
    for fn in ("chain_differentiate", "chain_weights"):
        out.append(Job("transforms." + fn, '#include "tsg_shim.h"\n#include <stdlib.h>\nint tsg_exc;\n#define CHAIN %s\n#define CH_NO %d\n#line 1 "/verif/contracts/transforms.c"\n' % (fn, 2 if tier == "quick" else 3) + t2 + ct + cf.text(("harness",), ["h_chain"]),
                       "h_chain", unwind=2 * 6 + 2, timeout=300 if tier == "quick" else 2400, backends=[[], ["--sat-solver", "cadical"]], functions=["%s:%d %s" % (f["file"], f["line"], f["name"]) for f in cinfo["functions"]], info=cinfo, replay=replay_chain(prop),
                       bounded="dimensions <= 2, outputs / points <= 2 quick, 3 thorough (full unwinding); canary cells behind the array detect out-of-range writes",
                       assumed=["R13: the product is an uninterpreted deterministic function"],
                       label="%s: chain-rule scaling touches each entry once with the rate of its own dimension" % fn))
    if prop == "C10":
        out.append(discipline_job(prop))
        Rd = X.Rules()
        dt, dinfo = transforms.emit_domain_inside(Rd)
        out.append(Job("transforms.domain_inside", pre + dt + cf.text(("harness",), ["h_domain_inside"]), "h_domain_inside", unwind=4, timeout=300, backends=[["--sat-solver", "cadical"], []],
                       functions=["%s:%d %s" % (f["file"], f["line"], f["name"]) for f in dinfo["functions"]], info=dinfo, replay=replay_inside(prop),
                       bounded="dimensions <= 2 (full unwinding); any rule, any doubles",
                       assumed=["a lambda that captures by copy sees the members as they are when getDomainInside() is called (R7b)"],
                       label="getDomainInside(): the returned predicate, applied to any point, is the membership test of the family's domain"))
    return out
