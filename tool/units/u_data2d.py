"""Unit C01: Data2D<T>::appendStrip(pos, x) -- the insertion used by the single-point construction path (expandGrid of Sequence / LocalPolynomial grids):
the new strip lands at strip position pos, every other strip keeps its content (shifted by one strip behind pos)."""
import re
from .. import tsg2c as X
from ..runner import Job
from .. import replay as RP
HPP = "SparseGrids/tsgIndexSets.hpp"

def emit(R):
    text = X.strip_comments(X.read_source(HPP))
    (p,) = X.cut(HPP, r'void\s+appendStrip\s*\(\s*int\s+pos\s*,\s*const\s+std::vector<T>\s*&x\s*\)', text)
    b = p.body
    b = X.r2_casts(R, b)
    # vec.insert(vec.begin() + OFFSET, x.begin(), x.end())  ->  insertion of the whole of x at element offset OFFSET
    b = R.sub("R5-insert-at", r'\bvec\.insert\(\s*vec\.begin\(\)\s*(?:\+\s*([^,]+?))?\s*,\s*x\.begin\(\)\s*,\s*x\.end\(\)\s*\)\s*;', lambda m: 'tsg_insert_at(self, (size_t)(%s), x, x_size);' % (m.group(1) or "0"), b)
    for mem in ("stride", "num_strips"):
        b = R.sub("R10-member", r'(?<![\w.>])%s\b' % mem, 'self->' + mem, b)
    X.check_leftover(b, "Data2D::appendStrip(pos, x)")
    R.require({"R5-insert-at": 1, "R10-member": 1})
    info = {"functions": [{"name": "Data2D<T>::appendStrip(int pos, const std::vector<T>&)", "file": p.rel, "line": p.line, "loops": 0}], "rules_fired": {k: v for k, v in R.counts.items() if v},
            "fidelity": X.fidelity(p.body, b, extra_vocab=["vec", "insert", "begin", "end", "x", "static_cast", "size_t", "pos", "stride", "num_strips"], slack=8),
            "drops": ["the template parameter (double only)"]}
    return '#line %d "%s"\nvoid Data2D_appendStrip_at(D2 *self, int pos, const double *x, size_t x_size)%s\n' % (p.line, X.REPO + "/" + p.rel, b), info

HARNESS = r'''
#ifndef TSG_CAP
#define TSG_CAP 12
#endif
typedef struct { size_t stride, num_strips; double vec[TSG_CAP]; size_t vec_size; } D2;
/* std::vector::insert of n elements before element offset off */
void tsg_insert_at(D2 *self, size_t off, const double *x, size_t n){
  __CPROVER_assert(off <= self->vec_size, "C01 Data2D::appendStrip inserts inside the stored data (an iterator past the end is undefined behaviour)");
  __CPROVER_assert(self->vec_size + n <= TSG_CAP, "shim: vector capacity suffices");
  if (off > self->vec_size || self->vec_size + n > TSG_CAP) return;
  for (size_t k = self->vec_size; k > off; k--) self->vec[k - 1 + n] = self->vec[k - 1];
  for (size_t k = 0; k < n; k++) self->vec[off + k] = x[k];
  self->vec_size += n;
}
@FUNC@
void h_appendStrip(void){
  D2 d, old; double x[TSG_CAP]; int a_pos = nondet_int();
  d.stride = nondet_size_t(); d.num_strips = nondet_size_t();
  __CPROVER_assume(d.stride >= 1 && d.stride <= 3 && d.num_strips <= 3 && (d.num_strips + 1) * d.stride <= TSG_CAP && a_pos >= 0 && (size_t) a_pos <= d.num_strips);
  d.vec_size = d.stride * d.num_strips;        /* class invariant */
  for (size_t k = 0; k < TSG_CAP; k++) { d.vec[k] = nondet_double(); x[k] = nondet_double(); }
  old = d;
  Data2D_appendStrip_at(&d, a_pos, x, d.stride);
  __CPROVER_assert(d.num_strips == old.num_strips + 1 && d.vec_size == d.num_strips * d.stride && d.stride == old.stride, "C01 appendStrip(pos, x) adds one strip and keeps the class invariant");
  size_t a_s = nondet_size_t(), a_j = nondet_size_t();       /* witness: any strip, any entry */
  __CPROVER_assume(a_s < d.num_strips && a_j < d.stride);
  double got = d.vec[a_s * d.stride + a_j];
  if (a_s == (size_t) a_pos) __CPROVER_assert(TSG_SAME(got, x[a_j]), "C01 appendStrip(pos, x): strip pos is x (for every stride, not only one output)");
  else if (a_s < (size_t) a_pos) __CPROVER_assert(TSG_SAME(got, old.vec[a_s * d.stride + a_j]), "C01 appendStrip(pos, x): the strips before pos are untouched");
  else __CPROVER_assert(TSG_SAME(got, old.vec[(a_s - 1) * d.stride + a_j]), "C01 appendStrip(pos, x): the strips behind pos move back by exactly one strip");
  __CPROVER_assert(0, "VACUITY-CANARY");
}
'''
REPLAY = r'''
/* On the real library: Sequence and Local Polynomial grids with 3 outputs built one point per call (loadConstructedPoints with a single point goes through
 * expandGrid -> Data2D::appendStrip(pos, x)); afterwards every loaded point must return its values for every output. */
int main_replay(){
  using namespace TasGrid;
  int bad = 0;
  for (int fam = 0; fam < 2; fam++) {
    TasmanianSparseGrid g = fam == 0 ? makeSequenceGrid(2, 3, 2, type_level, rule_leja) : makeLocalPolynomialGrid(2, 3, 2, 1, rule_localp);
    auto f = [](double a, double b, int k)->double{ return std::exp(0.5 * a - 0.2 * b) * (k + 1) + k * a; };
    g.beginConstruction();
    for (int round = 0; round < 6; round++) {
      std::vector<double> c = fam == 0 ? g.getCandidateConstructionPoints(type_level, 0) : g.getCandidateConstructionPoints(1.E-5, refine_classic);
      size_t n = c.size() / 2; if (n == 0) break;
      for (size_t q = 0; q < n && q < 7; q++) { size_t i = (q * 5 + 3) % n;      /* out of order, one point per call */
        bool dup = false; for (size_t r = 0; r < q; r++) if ((r * 5 + 3) % n == i) dup = true; if (dup) continue;
        g.loadConstructedPoints(std::vector<double>{c[2*i], c[2*i+1]}, std::vector<double>{f(c[2*i], c[2*i+1], 0), f(c[2*i], c[2*i+1], 1), f(c[2*i], c[2*i+1], 2)}); }
    }
    g.finishConstruction();
    std::vector<double> p = g.getLoadedPoints(); int miss = 0;
    for (int i = 0; i < g.getNumLoaded(); i++) { double y[3]; g.evaluate(&p[2*i], y); for (int k = 0; k < 3; k++) if (!(std::abs(y[k] - f(p[2*i], p[2*i+1], k)) < 1.E-9)) { miss++; break; } }
    if (miss) { std::printf("%s grid with 3 outputs built one point per call: %d of %d loaded points do not return their values\n", fam ? "LocalPolynomial" : "Sequence", miss, g.getNumLoaded()); bad++; }
  }
  __CPROVER_assert(bad == 0, "C01 a grid constructed one point per call reproduces the supplied values for every output");
  return 0;
}
'''
def replay(prop):
    def rp(job, ob, vals, wd):
        hdr = "Replay through the public API of the real library.\nproperty %s job %s\nobligation %s: %s\nat %s" % (prop, job.name, ob["name"], ob["description"], ob["location"])
        return RP.write_and_run(prop, job.name + "." + ob["name"], hdr, ['"TasmanianSparseGrid.hpp"', '<cmath>'], REPLAY, "  main_replay();", lib="sg", timeout=120)
    return rp

def jobs(tier, seed, prop):
    R = X.Rules()
    t, info = emit(R)
    src = '#include "tsg_shim.h"\nint tsg_exc;\n#define TSG_CAP 12\n' + HARNESS.replace("@FUNC@", t)
    return [Job("data2d.appendStrip_at", src, "h_appendStrip", unwind=14, timeout=300, backends=[[], ["--sat-solver", "cadical"]],
                functions=["%s:%d %s" % (f["file"], f["line"], f["name"]) for f in info["functions"]], info=info, replay=replay(prop),
                bounded="stride <= 3, at most 3 strips before the call (full unwinding of the vector shift); any doubles",
                assumed=["std::vector::insert(iterator, first, last) as in the shim (elements behind the position move back by the number inserted)"],
                label="Data2D::appendStrip(pos, x): the new strip is strip pos for every stride; all other strips are preserved")]
