"""Unit C05 (Wavelet family): GridWavelet::evalDiffBasis - the gradient of a tensor-product basis function - on an exact lattice: the 1-D values
and derivatives are powers of two (stubs), so every product is exact and the result is determined by integer exponents:
jacobian[i] = derivative_i * prod_{j != i} value_j."""
import re
from .. import tsg2c as X
from ..runner import Job
from .. import replay as RP
CPP = "SparseGrids/tsgGridWavelet.cpp"

def emit(R):
    text = X.strip_comments(X.read_source(CPP))
    (p,) = X.cut(CPP, r'void\s+GridWavelet::evalDiffBasis\s*\(\s*const\s+int\s+p\[\]\s*,\s*const\s+double\s+x\[\]\s*,\s*double\s+jacobian\[\]\s*\)\s*const', text)
    b = p.body
    b = X.r5_local_vectors(R, b, {"value_cache": "TSG_NDIM"})
    b = R.sub("R10-member-call", r'\brule1D\.eval<\s*(\d)\s*>\(', r'rule1D_eval\1(', b)
    b = R.sub("R10-member", r'(?<![\w.>])num_dimensions\b', 'self_num_dimensions', b)
    X.check_leftover(b, "evalDiffBasis")
    R.require({"R5-local-vector": 1, "R10-member-call": 2})
    info = {"functions": [{"name": "GridWavelet::evalDiffBasis", "file": p.rel, "line": p.line, "loops": X.count_loops(b)}], "rules_fired": {k: v for k, v in R.counts.items() if v},
            "fidelity": X.fidelity(p.body, b, extra_vocab=["value_cache", "rule1D", "eval", "num_dimensions", "vector", "double", "std"], slack=6)}
    return '#line %d "%s"\nvoid evalDiffBasis(int self_num_dimensions, const int p[], const double x[], double jacobian[])%s\n' % (p.line, X.REPO + "/" + p.rel, b), info

HARNESS = r'''
#ifndef TSG_NDIM
#define TSG_NDIM 4
#endif
/* 1-D basis values and derivatives at the coordinates: signed powers of two with exponents in [-3,3] (any point index / coordinate) */
int g_ev[TSG_NDIM], g_ed[TSG_NDIM]; bool g_sv[TSG_NDIM], g_sd[TSG_NDIM];
static double pow2s(int e, bool neg){ double v = (e >= 0) ? (double)(1 << e) : 1.0 / (double)(1 << -e); return neg ? -v : v; }
/* the harness passes x[d] == d, so the stubs know which direction they are asked about */
static int dim_of(double x){ int d = (int) x; __CPROVER_assert(d >= 0 && d < TSG_NDIM && (double) d == x, "C05 the 1-D rule is evaluated at a coordinate of the point"); return d; }
double rule1D_eval0(int p, double x){ int d = dim_of(x); return pow2s(g_ev[d], g_sv[d]); }
double rule1D_eval1(int p, double x){ int d = dim_of(x); return pow2s(g_ed[d], g_sd[d]); }
'''
TAIL = r'''
void h_evalDiffBasis(void){
  int a_nd = nondet_int(); __CPROVER_assume(a_nd >= 1 && a_nd <= TSG_NDIM);
  int p[TSG_NDIM]; double x[TSG_NDIM], jac[TSG_NDIM];
  for (int d = 0; d < TSG_NDIM; d++) { p[d] = nondet_int(); x[d] = (double) d; g_ev[d] = nondet_int(); g_ed[d] = nondet_int(); g_sv[d] = nondet_bool(); g_sd[d] = nondet_bool();
    __CPROVER_assume(g_ev[d] >= -3 && g_ev[d] <= 3 && g_ed[d] >= -3 && g_ed[d] <= 3); }
  evalDiffBasis(a_nd, p, x, jac);
  int a_i = nondet_int(); __CPROVER_assume(a_i >= 0 && a_i < a_nd);       /* witness: any component of the gradient */
  int e = g_ed[a_i]; bool neg = g_sd[a_i];
  for (int d = 0; d < TSG_NDIM; d++) if (d < a_nd && d != a_i) { e += g_ev[d]; neg = (neg != g_sv[d]); }
  double expect = (e >= 0) ? (double)(1 << e) : 1.0 / (double)(1 << -e);
  if (neg) expect = -expect;
  __CPROVER_assert(jac[a_i] == expect, "C05 wavelet basis gradient: component i is the 1-D derivative in direction i times the 1-D values of ALL other directions");
  __CPROVER_assert(0, "VACUITY-CANARY");
}
'''
REPLAY = r'''
/* On the real library: wavelet grids in 3 and 4 dimensions, differentiate() against central differences of evaluate() away from the kinks. */
int main_replay(){
  using namespace TasGrid;
  int bad = 0;
  for (int dims = 2; dims <= 4; dims++) for (int order = 1; order <= 3; order += 2) {
    TasmanianSparseGrid g = makeWaveletGrid(dims, 1, 2, order);
    std::vector<double> p = g.getNeededPoints(), v(g.getNumNeeded());
    for (int i = 0; i < g.getNumNeeded(); i++) { double s = 0.2; for (int d = 0; d < dims; d++) s += (1.0 + 0.3 * d) * p[i*dims + d]; v[i] = std::exp(0.5 * s) + s * s; }
    g.loadNeededValues(v);
    std::vector<double> x(dims); for (int d = 0; d < dims; d++) x[d] = 0.137 + 0.0713 * d;
    std::vector<double> jac(dims); g.differentiate(x.data(), jac.data());
    for (int d = 0; d < dims; d++) { std::vector<double> a = x, b = x; double h = 1.E-6; a[d] += h; b[d] -= h; double ya, yb; g.evaluate(a.data(), &ya); g.evaluate(b.data(), &yb);
      double fd = (ya - yb) / (2.0 * h);
      if (!(std::abs(fd - jac[d]) < 1.E-4 * (1.0 + std::abs(fd)))) { std::printf("wavelet order %d, %d dimensions, direction %d: differentiate %.10g, finite difference %.10g\n", order, dims, d, jac[d], fd); bad++; } }
  }
  __CPROVER_assert(bad == 0, "C05 wavelet grids: differentiate() matches finite differences of evaluate()");
  return 0;
}
'''
def replay(prop):
    def rp(job, ob, vals, wd):
        hdr = "Replay through the public API of the real library.\nproperty %s job %s\nobligation %s: %s\nat %s" % (prop, job.name, ob["name"], ob["description"], ob["location"])
        return RP.write_and_run(prop, job.name + "." + ob["name"], hdr, ['"TasmanianSparseGrid.hpp"', '<cmath>'], REPLAY, "  main_replay();", lib="sg", timeout=60)
    return rp

def jobs(tier, seed, prop):
    R = X.Rules()
    t, info = emit(R)
    nd = 3 if tier == "quick" else 4
    src = '#include "tsg_shim.h"\nint tsg_exc;\n#define TSG_NDIM %d\n' % nd + HARNESS + t + TAIL
    return [Job("wavprod.evalDiffBasis", src, "h_evalDiffBasis", unwind=nd + 2, timeout=600, backends=[["--sat-solver", "cadical"], []],
                functions=["%s:%d %s" % (f["file"], f["line"], f["name"]) for f in info["functions"]], info=info, replay=replay(prop),
                bounded="dimensions <= %d; the 1-D values and derivatives are signed powers of two with exponents in [-3,3] (every product exact)" % nd,
                assumed=["RuleWavelet::eval<0>/<1> are stubs returning lattice values (their own numerics are not under contract)", "off the lattice rounding is not covered"],
                label="GridWavelet::evalDiffBasis: each gradient component multiplies the derivative of its direction with the values of all other directions")]
