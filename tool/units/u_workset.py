"""Unit: every selection of the WORKING SET of a grid family -- the expression
`(points.empty()) ? needed : points` that the evaluation, weight, support, tree and I/O routines
use -- denotes the loaded points when there are any and the needed points otherwise.  Each
occurrence in SparseGrids/tsgGrid*.cpp|hpp is cut out (expression selector) and proved equal to
the definition for all states; routines that pick different sets disagree with each other (C04)."""
import re, glob, os
from .. import tsg2c as X
from ..runner import Job

RX = re.compile(r'\b(points|needed)\.empty\(\)[ )]{0,4}\?[ (]{0,3}(?:grid->)?(needed|points)(?:\.getNumIndexes\(\))?[ )]{0,3}:[ (]{0,3}(?:grid->)?(points|needed)(?:\.getNumIndexes\(\))?')

def jobs(tier, seed, prop):
    R = X.Rules()
    files = sorted(glob.glob(os.path.join(X.REPO, "SparseGrids", "tsgGrid*.cpp")) + glob.glob(os.path.join(X.REPO, "SparseGrids", "tsgGrid*.hpp")))
    fns, checks, funcs = [], [], []
    for f in files:
        rel = os.path.relpath(f, X.REPO)
        text = X.strip_comments(X.read_source(rel))
        for m in RX.finditer(text):
            line = text.count('\n', 0, m.start()) + 1
            name = "workset_%s_%d" % (re.sub(r'\W', '_', os.path.basename(rel)), line)
            cond, a, b = m.group(1), m.group(2), m.group(3)
            R.counts["R12g-workset-expr"] = R.counts.get("R12g-workset-expr", 0) + 1
            fns.append('#line %d "%s"\nstatic int %s(gset points, gset needed){ return (%s.n == 0) ? %s.id : %s.id; }' % (line, f, name, cond, a, b))
            checks.append('  __CPROVER_assert(%s(p, q) == working, "G1w %s:%d selects the working set: the loaded points if there are any, otherwise the needed points");' % (name, rel, line))
            funcs.append("%s:%d working-set selection" % (rel, line))
    R.require({"R12g-workset-expr": 30})
    ctext = ('#include "tsg_shim.h"\nint tsg_exc;\ntypedef struct { int id; int n; } gset;\n' + "\n".join(fns) + '''
void h_workset(void){
  gset p, q; p.id = nondet_int(); p.n = nondet_int(); q.id = nondet_int(); q.n = nondet_int();
  __CPROVER_assume(p.n >= 0 && q.n >= 0 && p.id != q.id);
  int working = (p.n == 0) ? q.id : p.id;
''' + "\n".join(checks) + '\n  __CPROVER_assert(0, "VACUITY-CANARY");\n}\n')
    info = {"functions": [], "rules_fired": dict(R.counts), "drops": ["only the selecting expression of each routine is cut out; the routines themselves are not under this contract"]}
    return [Job("workset.selections", ctext, "h_workset", timeout=120, functions=funcs, info=info,
                label="%d working-set selections in the grid families agree with the definition" % len(fns))]
