"""Unit: floating-point lemmas on the local polynomial basis (L1/L5 delta, L4/L6 support, L3 affine)."""
from .. import tsg2c as X
from ..runner import Job
from ..contractfile import ContractFile
from .. import replay as RP
from . import rulelocal

def name_map(rule):
    out = []
    for f in rulelocal.FUNCS:
        if f in ("evalSupport", "diffSupport"):
            out.append("#define %s_%s(o, p, x, s) TasGrid::RuleLocal::%s<TasGrid::RuleLocal::erule::%s>(o, p, x, *(s))" % (f, rule, f, rule))
        else:
            out.append("#define %s_%s TasGrid::RuleLocal::%s<TasGrid::RuleLocal::erule::%s>" % (f, rule, f, rule))
    return "\n".join(out) + "\n"

def make_replay(prop, rule, lemma, text, args):
    def rp(job, ob, vals, wd):
        a = []
        for k in args:
            if k not in vals:
                return None, None, "no value for %s in the trace" % k
            a.append(RP.cxx_double(vals[k]))
        hdr = ("Replay against the real header.\nproperty %s job %s\nobligation %s: %s\nat %s\ninputs: %s"
               % (prop, job.name, ob["name"], ob["description"], ob["location"], ", ".join("%s=%s" % (k, vals[k]) for k in args)))
        return RP.write_and_run(prop, job.name + "." + ob["name"], hdr, ['"tsgRuleLocalPolynomial.hpp"'], name_map(rule) + text, "  %s(%s);" % (lemma, ", ".join(a)))
    return rp

ANC_H = r'''
void h_ancestors(void){
  int a_o = nondet_int(), a_p = nondet_int(); double a_x = nondet_double();
  __CPROVER_assume((a_o == -1 || a_o >= 4) && a_p >= 0 && a_p < (1 << 30));
  int ne = evalPWPower_anc_@R@(a_o, a_p, a_x), nd = diffPWPower_anc_@R@(a_o, a_p, a_x);
  __CPROVER_assert(ne == nd, "C05 L5p value and derivative of the high-order basis use the same ancestors (the clamp by the level and the clamp by the order agree; both use the cubic for the same points)");
  __CPROVER_assert(nd == -1 || nd >= 1, "C05 L5p the derivative has at least one ancestor node (left_prods[0] exists)");
  __CPROVER_assert(0, "VACUITY-CANARY");
}
'''
REPLAY_ANC = r'''
/* On the real library: 1-D local polynomial grids of orders 4..7 and the four rules; differentiate() against central differences of evaluate() away from the kinks. */
int main_replay(){
  using namespace TasGrid;
  int bad = 0;
  for (auto rule : {rule_localp, rule_semilocalp, rule_localp0, rule_localpb}) for (int order : {4, 5, 6, 7, -1}) {
    TasmanianSparseGrid g = makeLocalPolynomialGrid(1, 1, 6, order, rule);
    std::vector<double> p = g.getNeededPoints(), v(p.size());
    for (size_t i = 0; i < p.size(); i++) v[i] = std::exp(0.7 * p[i]) + std::sin(2.0 * p[i]);
    g.loadNeededValues(v);
    double worst = 0; const double h = 1.E-7;
    for (int k = 0; k < 200; k++) {
      double x = -0.99 + 1.98 * (k + 0.37) / 200.0;
      bool near = false; for (double q : p) if (std::abs(q - x) < 10 * h) near = true;
      if (near) continue;
      std::vector<double> d, yp, ym; g.differentiate({x}, d); g.evaluate({x + h}, yp); g.evaluate({x - h}, ym);
      worst = std::max(worst, std::abs(d[0] - (yp[0] - ym[0]) / (2 * h)));
    }
    if (!(worst < 1.E-5)) { std::printf("rule %d order %d: differentiate() differs from the central difference of evaluate() by %.3e\n", (int) rule, order, worst); bad++; }
  }
  __CPROVER_assert(bad == 0, "C05 differentiate() is the derivative of evaluate() for local polynomial grids of order > 3");
  return 0;
}
'''
def replay_anc(prop):
    def rp(job, ob, vals, wd):
        hdr = "Replay through the public API of the real library.\nproperty %s job %s\nobligation %s: %s\nat %s\ncounterexample of the lemma: order %s point %s" % (prop, job.name, ob["name"], ob["description"], ob["location"], vals.get("a_o"), vals.get("a_p"))
        return RP.write_and_run(prop, job.name + "." + ob["name"], hdr, ['"TasmanianSparseGrid.hpp"', '<cmath>', '<algorithm>'], REPLAY_ANC, "  main_replay();", lib="sg", timeout=120)
    return rp

NK = {"localp": 2, "semilocalp": 2, "localp0": 2, "localpb": 2, "pwc": 4}

def jobs(tier, seed, prop):
    out = []
    dy = ["localp", "semilocalp", "localp0", "localpb"]
    if tier == "thorough":
        rules = dy + ["pwc"]
        LV, LVS, LX = 14, 16, 14
    else:
        rules = ["localp", dy[1 + seed % 3]]
        LV, LVS, LX = 10, 12, 10
    want = {"C01": ("delta",), "C03": ("delta", "affine"), "C04": ("support", "nested"), "C05": ("diff",)}.get(prop, ("delta", "support", "nested", "affine"))
    for rule in rules:
        orders = (0,) if rule == "pwc" else (1, 2, 3)
        for kind in want:
            if kind == "affine" and rule in ("localp0", "pwc"):
                continue        # zero-boundary rule and piecewise constants do not reproduce affine functions (excluded by C03 itself)
            ords = orders if kind in ("delta", "affine") else ((2,) if tier == "quick" and rule != "pwc" else orders)
            if kind == "nested":
                ords = (orders[0],)
            if kind == "diff":
                if rule == "pwc":
                    continue
                ords = (2,) if rule == "semilocalp" else (1, 2)
            for o in ords:
                sub = {"R": rule, "O": o, "LV": (6 if tier == "quick" else 8) if kind == "diff" else (LVS if kind in ("support", "nested") else LV), "LX": (6 if tier == "quick" else 8) if kind == "diff" else (8 if (rule == "semilocalp" and tier == "quick") else LX),
                       "SF": ("2.0" if kind == "nested" else "1.0") if rule == "pwc" else "1.0", "NK": NK[rule], "ISB": 1 if rule == "localpb" else 0, "TOL": "0x1p-48" if rule == "pwc" else "0.0"}
                cf = ContractFile("contracts/basis.c", sub)
                lemma = "lemma_%s_%s" % (kind, rule)
                R = X.Rules()
                ctext, info = rulelocal.emit(R, rules=[rule])
                info["rules_fired"] = {k: v for k, v in R.counts.items() if v}
                ltxt = cf.text(("lemma",), [lemma])
                args = {"delta": ["a_p", "a_q"], "support": ["a_p", "a_x"], "nested": ["a_p", "a_kn"], "affine": ["a_i"], "diff": ["a_p", "a_i"]}[kind]
                lvl = sub["LV"]
                out.append(Job("basis.%s.%s.o%d" % (kind, rule, o),
                               ctext + "int tsg_exc;\ndouble diffPWPower_%s(int a, int b, double c){ return 0.0; }\n" % rule + '#line 1 "/verif/contracts/basis.c"\n' + ltxt + cf.text(("harness",), ["h_" + lemma]),
                               "h_" + lemma, enforce=lemma, split=r'lemma_\w+\.assertion\.\d+$',
                               pre_unwindset={r'intlog2|int2log2': 33, r'int3log3|getLevel_pwc|getNumPoints_pwc': 22, r'evalPWPower_\w+': lvl + 2},
                               timeout=900 if tier == "quick" else 3000,
                               backends=[[], ["--sat-solver", "cadical"]],
                               functions=["%s:%d %s<%s>" % (f["file"], f["line"], f["name"], rule) for f in info["functions"]], info=info,
                               bounded="point indices < 2^%d (solver time); x is ANY double of the canonical domain [-1,1] in the support lemma; lattice x = i*2^-%s in the derivative lemma" % (lvl, sub["LX"]) if kind != "affine" else "dyadic lattice x = i * 2^-%s" % sub["LX"],
                               replay=make_replay(prop, rule, lemma, ltxt, args),
                               label="%s for rule %s, order %d" % ({"delta": "L1/L5 hierarchical delta property", "support": "L4/L6a support radius and pruning test",
                                                                    "nested": "L6b nested support intervals", "affine": "L3 affine reproduction on a dyadic lattice", "diff": "C05 exact finite-difference identity of diffSupport on a dyadic lattice"}[kind], rule, o)))
    if prop == "C05":
        for rule in dy:
            R = X.Rules()
            ctext, info0 = rulelocal.emit(R, rules=[rule], funcs=["getNumPoints", "getLevel"], minima={"R3-enum-const": 0, "R3-template-call": 0})
            atext, info = rulelocal.emit_ancestors(R, rule)
            info["functions"] = info0["functions"] + info["functions"]
            h = ANC_H.replace("@R@", rule)
            out.append(Job("basis.ancestors." + rule, ctext + "int tsg_exc;\n" + atext + h, "h_ancestors", timeout=300, backends=[[], ["--sat-solver", "cadical"]],
                           pre_unwindset={r'intlog2|int2log2': 33, r'int3log3': 22},
                           functions=["%s:%d %s" % (f["file"], f["line"], f["name"]) for f in info["functions"]], info=info, replay=replay_anc(prop), bounded="point index < 2^30 (int arithmetic of getLevel); every order",
                           assumed=["only the integer prefix of evalPWPower / diffPWPower is under this lemma; the floating-point products that follow are not (orders 1 and 2 are covered by the exact derivative lemma)"],
                           label="C05 L5p for every order > 3 (or unbounded) and every point, the derivative of the high-order basis of rule %s is built from the same number of ancestor nodes as its value" % rule))
    return out
