"""Unit: floating-point lemmas on the local polynomial basis (L1/L5 delta, L4/L6 support, L3 affine)."""
from .. import tsg2c as X
from ..runner import Job
from ..contractfile import ContractFile
from .. import replay as RP
from . import rulelocal

def name_map(rule):
    out = []
    for f in rulelocal.FUNCS:
        if f in ("evalSupport", "diffSupport"):
            out.append("#define %s_%s(o, p, x, s) TasGrid::RuleLocal::%s<TasGrid::RuleLocal::erule::%s>(o, p, x, *(s))" % (f, rule, f, rule))
        else:
            out.append("#define %s_%s TasGrid::RuleLocal::%s<TasGrid::RuleLocal::erule::%s>" % (f, rule, f, rule))
    return "\n".join(out) + "\n"

def make_replay(prop, rule, lemma, text, args):
    def rp(job, ob, vals, wd):
        a = []
        for k in args:
            if k not in vals:
                return None, None, "no value for %s in the trace" % k
            a.append(RP.cxx_double(vals[k]))
        hdr = ("Replay against the real header.\nproperty %s job %s\nobligation %s: %s\nat %s\ninputs: %s"
               % (prop, job.name, ob["name"], ob["description"], ob["location"], ", ".join("%s=%s" % (k, vals[k]) for k in args)))
        return RP.write_and_run(prop, job.name + "." + ob["name"], hdr, ['"tsgRuleLocalPolynomial.hpp"'], name_map(rule) + text, "  %s(%s);" % (lemma, ", ".join(a)))
    return rp

NK = {"localp": 2, "semilocalp": 2, "localp0": 2, "localpb": 2, "pwc": 4}

def jobs(tier, seed, prop):
    out = []
    dy = ["localp", "semilocalp", "localp0", "localpb"]
    if tier == "thorough":
        rules = dy + ["pwc"]
        LV, LVS, LX = 14, 16, 14
    else:
        rules = ["localp", dy[1 + seed % 3]]
        LV, LVS, LX = 10, 12, 10
    want = {"C01": ("delta",), "C03": ("delta", "affine"), "C04": ("support", "nested"), "C05": ("diff",)}.get(prop, ("delta", "support", "nested", "affine"))
    for rule in rules:
        orders = (0,) if rule == "pwc" else (1, 2, 3)
        for kind in want:
            if kind == "affine" and rule in ("localp0", "pwc"):
                continue        # zero-boundary rule and piecewise constants do not reproduce affine functions (excluded by C03 itself)
            ords = orders if kind in ("delta", "affine") else ((2,) if tier == "quick" and rule != "pwc" else orders)
            if kind == "nested":
                ords = (orders[0],)
            if kind == "diff":
                if rule == "pwc":
                    continue
                ords = (2,) if rule == "semilocalp" else (1, 2)
            for o in ords:
                sub = {"R": rule, "O": o, "LV": (6 if tier == "quick" else 8) if kind == "diff" else (LVS if kind in ("support", "nested") else LV), "LX": (6 if tier == "quick" else 8) if kind == "diff" else (8 if (rule == "semilocalp" and tier == "quick") else LX),
                       "SF": ("2.0" if kind == "nested" else "1.0") if rule == "pwc" else "1.0", "NK": NK[rule], "ISB": 1 if rule == "localpb" else 0, "TOL": "0x1p-48" if rule == "pwc" else "0.0"}
                cf = ContractFile("contracts/basis.c", sub)
                lemma = "lemma_%s_%s" % (kind, rule)
                R = X.Rules()
                ctext, info = rulelocal.emit(R, rules=[rule])
                info["rules_fired"] = {k: v for k, v in R.counts.items() if v}
                ltxt = cf.text(("lemma",), [lemma])
                args = {"delta": ["a_p", "a_q"], "support": ["a_p", "a_x"], "nested": ["a_p", "a_kn"], "affine": ["a_i"], "diff": ["a_p", "a_i"]}[kind]
                lvl = sub["LV"]
                out.append(Job("basis.%s.%s.o%d" % (kind, rule, o),
                               ctext + "int tsg_exc;\ndouble diffPWPower_%s(int a, int b, double c){ return 0.0; }\n" % rule + '#line 1 "/verif/contracts/basis.c"\n' + ltxt + cf.text(("harness",), ["h_" + lemma]),
                               "h_" + lemma, enforce=lemma, split=r'lemma_\w+\.assertion\.\d+$',
                               pre_unwindset={r'intlog2|int2log2': 33, r'int3log3|getLevel_pwc|getNumPoints_pwc': 22, r'evalPWPower_\w+': lvl + 2},
                               timeout=900 if tier == "quick" else 3000,
                               backends=[[], ["--sat-solver", "cadical"]],
                               functions=["%s:%d %s<%s>" % (f["file"], f["line"], f["name"], rule) for f in info["functions"]], info=info,
                               bounded="point indices < 2^%d (solver time); x is ANY double of the canonical domain [-1,1] in the support lemma; lattice x = i*2^-%s in the derivative lemma" % (lvl, sub["LX"]) if kind != "affine" else "dyadic lattice x = i * 2^-%s" % sub["LX"],
                               replay=make_replay(prop, rule, lemma, ltxt, args),
                               label="%s for rule %s, order %d" % ({"delta": "L1/L5 hierarchical delta property", "support": "L4/L6a support radius and pruning test",
                                                                    "nested": "L6b nested support intervals", "affine": "L3 affine reproduction on a dyadic lattice", "diff": "C05 exact finite-difference identity of diffSupport on a dyadic lattice"}[kind], rule, o)))
    return out
