"""Unit C08 F7-F11 (+ C07 F5): level-limit filters of refinement and selection."""
from .. import tsg2c as X
from ..runner import Job
from ..contractfile import ContractFile
from .. import replay as RP
from . import limits, rulelocal

REPLAY_F9 = r'''
/* D9-style replay on the real library: dynamic construction with level limits; every candidate
 * must obey the limit of each dimension. */
int main_replay(){
  using namespace TasGrid;
  auto grid = makeGlobalGrid(2, 1, 1, type_level, rule_clenshawcurtis, std::vector<int>(), 0.0, 0.0, nullptr, std::vector<int>{5, 0});
  grid.beginConstruction();
  int bad = 0, total = 0;
  for (int round = 0; round < 6; round++){
    std::vector<double> cand = grid.getCandidateConstructionPoints(type_level, 0);
    if (cand.empty()) break;
    std::vector<double> vals(cand.size() / 2);
    for (size_t i = 0; i < vals.size(); i++){ vals[i] = std::exp(cand[2*i] + cand[2*i+1]); total++; if (cand[2*i+1] != 0.0) bad++; }
    grid.loadConstructedPoints(cand, vals);
  }
  std::printf("level limits {5, 0}: %d candidates proposed, %d of them off the line y = 0 (level > 0 in the second dimension)\n", total, bad);
  __CPROVER_assert(bad == 0, "F9 a construction candidate obeys the level limit of every dimension");
  return 0;
}
'''
REPLAY_F10 = r'''
/* D10-style replay: curved selection with limits {-1,-1} must equal the selection without limits */
int main_replay(){
  using namespace TasGrid;
  auto a = makeGlobalGrid(2, 1, 6, type_curved, rule_clenshawcurtis, std::vector<int>{1, 1, -2, -2});
  auto b = makeGlobalGrid(2, 1, 6, type_curved, rule_clenshawcurtis, std::vector<int>{1, 1, -2, -2}, 0.0, 0.0, nullptr, std::vector<int>{-1, -1});
  std::printf("curved selection, no limits: %d points; limits {-1,-1}: %d points\n", a.getNumPoints(), b.getNumPoints());
  __CPROVER_assert(a.getNumPoints() == b.getNumPoints(), "F10 a limit of -1 never rejects an index");
  return 0;
}
'''
REPLAY_F11B = r'''
/* the real call under a 10 s alarm: with saturated limits {1,1} no level ever adds a point */
#include <unistd.h>
#include <signal.h>
static void on_alarm(int){ const char m[] = "REPLAY-FAIL: F11b setAnisotropicRefinement did not return within 10 s (the grow loop has no exit when the level limits are saturated)\n"; write(1, m, sizeof(m) - 1); _exit(1); }
int main_replay(){
  using namespace TasGrid;
  signal(SIGALRM, on_alarm); alarm(10);
  std::string cls = "@CLS@";
  TasmanianSparseGrid grid;
  if (cls == "GridGlobal") grid.makeGlobalGrid(2, 1, 4, type_level, rule_clenshawcurtis, std::vector<int>(), 0.0, 0.0, nullptr, std::vector<int>{1, 1});
  else if (cls == "GridSequence") grid.makeSequenceGrid(2, 1, 4, type_level, rule_leja, std::vector<int>(), std::vector<int>{1, 1});
  else grid.makeFourierGrid(2, 1, 4, type_level, std::vector<int>(), std::vector<int>{1, 1});
  std::vector<double> pts = grid.getNeededPoints(), v(grid.getNumNeeded());
  for (size_t i = 0; i < v.size(); i++) v[i] = std::exp(pts[2*i] + 0.5 * pts[2*i+1]);
  grid.loadNeededValues(v);
  std::printf("%s with level limits {1,1}: %d points loaded (the full tensor of the limits); calling setAnisotropicRefinement(type_iptotal, 1, 0)\n", cls.c_str(), grid.getNumLoaded());
  std::fflush(stdout);
  grid.setAnisotropicRefinement(type_iptotal, 1, 0);
  std::printf("returned with %d needed points\n", grid.getNumNeeded());
  return 0;
}
'''
REPLAY_F4 = r'''
/* F4 on the real library: classic surplus refinement on ONE selected output of a two-output grid must propose exactly what the same refinement
 * proposes on a single-output grid that holds only that output (the other output has a very different magnitude). */
int main_replay(){
  using namespace TasGrid;
  int bad = 0;
  for (int fam = 0; fam < 2; fam++) for (int order = 1; order <= 3; order += 2) for (int sel = 0; sel < 2; sel++) {
    auto mk = [&](int outs)->TasmanianSparseGrid{ return fam == 0 ? makeLocalPolynomialGrid(2, outs, 3, order == 1 ? 1 : 2, rule_localp) : makeWaveletGrid(2, outs, 2, order); };
    TasmanianSparseGrid two = mk(2), one = mk(1);
    auto f0 = [](double a, double b)->double{ return 1000.0 * std::exp(-a * a - b * b); };
    auto f1 = [](double a, double b)->double{ return 0.001 * std::sin(3.0 * a + b) / (1.5 + b); };
    std::vector<double> p = two.getNeededPoints(); int n = two.getNumNeeded();
    std::vector<double> v2(2 * n), v1(n);
    for (int i = 0; i < n; i++) { v2[2*i] = f0(p[2*i], p[2*i+1]); v2[2*i+1] = f1(p[2*i], p[2*i+1]); v1[i] = sel == 0 ? v2[2*i] : v2[2*i+1]; }
    two.loadNeededValues(v2); one.loadNeededValues(v1);
    two.setSurplusRefinement(1.E-2, refine_classic, sel); one.setSurplusRefinement(1.E-2, refine_classic, 0);
    if (two.getNeededPoints() != one.getNeededPoints()) {
      std::printf("%s order %d, output %d: %d points proposed, the single-output reference proposes %d\n", fam ? "wavelet" : "local polynomial", order, sel, two.getNumNeeded(), one.getNumNeeded()); bad++; }
  }
  __CPROVER_assert(bad == 0, "F4 the selected output is normalized by its own magnitude");
  return 0;
}
'''
REPLAY_STALE = r'''
/* On the real library: two surplus refinements in a row without loading; the second one finds no admissible child under its limits and must return with zero needed points. */
int main_replay(){
  using namespace TasGrid;
  int bad = 0;
  for (int fam = 0; fam < 2; fam++) {
    TasmanianSparseGrid g = fam == 0 ? makeGlobalGrid(2, 1, 2, type_tensor, rule_leja, std::vector<int>(), 0.0, 0.0, nullptr, std::vector<int>{2, 2}) : makeSequenceGrid(2, 1, 2, type_tensor, rule_leja, std::vector<int>(), std::vector<int>{2, 2});
    std::vector<double> p = g.getNeededPoints(), v(g.getNumNeeded()); for (int i = 0; i < g.getNumNeeded(); i++) v[i] = std::exp(p[2*i] + 0.7 * p[2*i+1]);
    g.loadNeededValues(v);
    g.setSurplusRefinement(1.E-8, 0, std::vector<int>{3, 3});
    int first = g.getNumNeeded();
    g.setSurplusRefinement(1.E-8, 0, std::vector<int>{2, 2});
    if (g.getNumNeeded() != 0) { std::printf("%s: after limits {2,2} (the loaded tensor is full) %d needed points remain (first request proposed %d)\n", fam ? "Sequence" : "Global", g.getNumNeeded(), first); bad++; }
  }
  __CPROVER_assert(bad == 0, "C08 no admissible child: zero needed points");
  return 0;
}
'''
REPLAY_F4N = r'''
/* F4 on the real library: an output whose largest-magnitude value is negative; with a tolerance above every normalized coefficient nothing is proposed. */
int main_replay(){
  using namespace TasGrid;
  int bad = 0;
  for (int fam = 0; fam < 2; fam++) {
    TasmanianSparseGrid g = fam == 0 ? makeLocalPolynomialGrid(2, 1, 3, 1, rule_localp) : makeWaveletGrid(2, 1, 2, 1);
    std::vector<double> p = g.getNeededPoints(), v(g.getNumNeeded());
    for (int i = 0; i < g.getNumNeeded(); i++) v[i] = -100.0 + 0.5 * std::sin(3.0 * p[2*i] + p[2*i+1]);      /* all values negative, magnitude about 100 */
    g.loadNeededValues(v);
    const double *c = g.getHierarchicalCoefficients(); double cmax = 0.0; for (int i = 1; i < g.getNumLoaded(); i++) cmax = std::max(cmax, std::abs(c[i]));
    g.setSurplusRefinement(2.0 * cmax / 99.0 + 1.E-3, refine_classic, 0);      /* every coefficient / 100 is far below this tolerance except the first (the constant) */
    int n1 = g.getNumNeeded();
    TasmanianSparseGrid h = fam == 0 ? makeLocalPolynomialGrid(2, 1, 3, 1, rule_localp) : makeWaveletGrid(2, 1, 2, 1);
    for (auto &q : v) q = -q; h.loadNeededValues(v);      /* the mirrored (positive) data must give the same proposal */
    h.setSurplusRefinement(2.0 * cmax / 99.0 + 1.E-3, refine_classic, 0);
    if (n1 != h.getNumNeeded()) { std::printf("%s grid: %d points proposed for negative data, %d for the mirrored positive data\n", fam ? "wavelet" : "local polynomial", n1, h.getNumNeeded()); bad++; }
  }
  __CPROVER_assert(bad == 0, "F4 the normalization uses magnitudes: mirrored data give the same refinement");
  return 0;
}
'''
def mk_replay(prop, body):
    def rp(job, ob, vals, wd):
        hdr = "Replay against the real library.\nproperty %s job %s\nobligation %s: %s\nat %s" % (prop, job.name, ob["name"], ob["description"], ob["location"])
        return RP.write_and_run(prop, job.name + "." + ob["name"], hdr, ['"TasmanianSparseGrid.hpp"'], body, "  main_replay();", lib="sg")
    return rp

def jobs(tier, seed, prop):
    out = []
    cf = ContractFile("contracts/limits.c")
    nd = 3
    base = '#include "tsg_shim.h"\nint tsg_exc;\n#define TSG_NDIM %d\n' % nd
    ctext = '#line 1 "/verif/contracts/limits.c"\n'
    secs = [t for k, a, t in cf.sections if k == "text"]
    bound = "dimensions <= %d, at most 2 parent strips (full unwinding with unwinding assertions); point indices / limits unbounded in the stated ranges" % nd
    rules = ["localp", "semilocalp", "localp0", "localpb", "pwc"] if tier == "thorough" else ["localp", ["semilocalp", "localp0", "localpb", "pwc"][seed % 4]]
    for rule in rules:
        R = X.Rules()
        rt, rinfo = rulelocal.emit(R, rules=[rule], funcs=["getNumPoints", "getMaxNumKids", "getMaxNumParents", "getParent", "getStepParent", "getKid", "getLevel"])
        rt = rt.replace('#include "tsg_shim.h"', '')
        R2 = X.Rules()
        at, ainfo = limits.emit_addChild(R2, rule)
        pmax = "(1 << 29)" if rule != "pwc" else "100000"
        macros = "#define HKID(p, k) getKid_%s(p, k)\n#define HLEVEL(p) getLevel_%s(p)\n#define HPMAX %s\n#define HADDLIMITED addChildLimited_%s\n#define HADD addChild_%s\n" % (rule, rule, pmax, rule, rule)
        fwd = "void append_strip(const int *kid, size_t n);\n"
        pre = base + rt + macros + ctext + secs[0] + secs[1] + fwd + at
        fl = ["%s:%d %s" % (f["file"], f["line"], f["name"]) for f in ainfo["functions"]]
        for h in (("h_addChildLimited",) if prop == "C08" else ("h_addChild", "h_addChildLimited")):
            out.append(Job("limits.%s.%s" % (h[2:], rule), pre + cf.text(("harness",), [h]), h, unwind=33, timeout=600 if rule != "pwc" else 1200,
                           backends=[[], ["--sat-solver", "cadical"]], functions=fl, info=ainfo, bounded=bound + ("; pwc point index < 100000" if rule == "pwc" else ""),
                           assumed=["exclude.missing() answers arbitrarily (stub)", "Data2D::appendStrip is the ghost append_strip that carries the obligations"],
                           label="GridLocalPolynomial::%s<%s>: every appended strip is a missing kid in the refined direction within the limit" % (h[2:], rule)))
    if prop == "C08":
        macros0 = "#define HKID(p, k) (-7)\n#define HLEVEL(p) 0\n#define HPMAX 1\n"
        R3 = X.Rules(); et, einfo = limits.emit_addExclusiveChildren(R3)
        out.append(Job("limits.addExclusiveChildren", base + macros0 + ctext + secs[0] + secs[1] + et + cf.text(("harness",), ["h_addExclusiveChildren"]), "h_addExclusiveChildren",
                       unwind=2 * nd + 2, timeout=300, functions=["%s:%d %s" % (f["file"], f["line"], f["name"]) for f in einfo["functions"]], info=einfo, bounded=bound,
                       replay=mk_replay(prop, REPLAY_F9),
                       assumed=["exclude.missing / tensors.missing / isLowerComplete answer arbitrarily (stubs)"],
                       label="addExclusiveChildren<true>: every construction candidate obeys the limit of the incremented dimension (F9)"))
        R4 = X.Rules(); st, sinfo = limits.emit_selectFlaggedChildren_limited(R4)
        out.append(Job("limits.selectFlaggedChildren", base + macros0 + ctext + secs[0] + secs[1] + st + cf.text(("harness",), ["h_selectFlaggedChildren"]), "h_selectFlaggedChildren",
                       unwind=2 * nd + 2, timeout=300, functions=["%s:%d %s" % (f["file"], f["line"], f["name"]) for f in sinfo["functions"]], info=sinfo, bounded=bound,
                       assumed=["mset.missing answers arbitrarily (stub)"],
                       label="selectFlaggedChildren (limited, serial text): every child obeys the limit of the incremented dimension (F8)"))
        R5 = X.Rules(); ft, finfo = limits.emit_limit_filters(R5)
        for f in finfo["functions"]:
            if f["cname"].startswith("limit_filter"):
                out.append(Job("limits.%s" % f["cname"], base + "#define LIMIT_FILTER %s\n" % f["cname"] + ctext + ft + cf.text(("harness",), ["h_limit_filter"]), "h_limit_filter",
                               unwind=nd + 2, timeout=300, functions=["%s:%d %s" % (f["file"], f["line"], f["name"])], info=finfo, bounded="dimensions <= %d; indices and limits unbounded" % nd,
                               replay=mk_replay(prop, REPLAY_F10),
                               label="%s (F10)" % f["name"]))
            else:
                out.append(Job("limits.full_tensor_clamp", base + ctext + ft + cf.text(("harness",), ["h_full_tensor_clamp"]), "h_full_tensor_clamp",
                               unwind=nd + 2, timeout=300, functions=["%s:%d %s" % (f["file"], f["line"], f["name"])], info=finfo, bounded="dimensions <= %d" % nd,
                               label=f["name"] + " (F11)"))
    if prop == "C07":
        from . import tables
        Rm = X.Rules()
        enumt = tables.cut_enum("TypeRefinement", Rm)[0]
        ut, uinfo = limits.emit_buildUpdateMap_classic(Rm)
        cfu = ContractFile("contracts/updatemap.c")
        npnt = 3 if tier == "quick" else 4
        out.append(Job("limits.buildUpdateMap", '#include "tsg_shim.h"\nint tsg_exc;\n#define TSG_NP %d\n' % npnt + enumt + '#line 1 "/verif/contracts/updatemap.c"\n' + cfu.text(("text",)) + ut + cfu.text(("harness",)),
                       "h_buildUpdateMap", unwind=2 * npnt + 3, timeout=300, backends=[[], ["--sat-solver", "cadical"]],
                       functions=["%s:%d %s" % (f["file"], f["line"], f["name"]) for f in uinfo["functions"]], info=uinfo, replay=mk_replay(prop, "#include <cmath>\n" + REPLAY_F4),
                       bounded="points <= %d, outputs <= 2, dimensions <= 2 (full unwinding with unwinding assertions)" % npnt,
                       assumed=["R13: the criterion c*|s|/norm <= tolerance is an uninterpreted deterministic predicate of its four operands", "getNormalization returns arbitrary values (stub)"],
                       label="buildUpdateMap classic criterion: which correction, coefficient and norm meet (F4)"))
    if prop == "C07":
        Rw = X.Rules()
        wt, winfo = limits.emit_buildUpdateMap_classic_wavelet(Rw)
        out.append(Job("limits.buildUpdateMap.wavelet", '#include "tsg_shim.h"\nint tsg_exc;\n#define TSG_NP %d\n#define TSG_NO_SCALE 1\n' % npnt + enumt + '#line 1 "/verif/contracts/updatemap.c"\n' + cfu.text(("text",)) + wt + cfu.text(("harness",)),
                       "h_buildUpdateMap", unwind=2 * npnt + 3, timeout=300, backends=[[], ["--sat-solver", "cadical"]],
                       functions=["%s:%d %s" % (f["file"], f["line"], f["name"]) for f in winfo["functions"]], info=winfo, replay=mk_replay(prop, "#include <cmath>\n" + REPLAY_F4),
                       bounded="points <= %d, outputs <= 2, dimensions <= 2 (full unwinding with unwinding assertions)" % npnt,
                       assumed=["R13: the criterion |s|/norm > tolerance is (the negation of) an uninterpreted deterministic predicate of its operands", "getNormalization returns arbitrary values (stub)"],
                       label="GridWavelet::buildUpdateMap classic criterion: which coefficient and norm meet (F4)"))
    if prop == "C07":
        Rn = X.Rules()
        nt, ninfo = limits.emit_getNormalization(Rn)
        for fam in ("LocalPolynomial", "Wavelet"):
            hn = '''
#define TSG_NPN 3
#define TSG_NON 2
typedef struct { int num_points, num_outputs; double values[TSG_NPN * TSG_NON]; } GN;
''' + nt + '''
void h_norm(void){
  GN g; g.num_points = nondet_int(); g.num_outputs = nondet_int();
  __CPROVER_assume(g.num_points >= 0 && g.num_points <= TSG_NPN && g.num_outputs >= 1 && g.num_outputs <= TSG_NON);
  for (int k = 0; k < TSG_NPN * TSG_NON; k++) { g.values[k] = nondet_double(); __CPROVER_assume(g.values[k] == g.values[k]); }
  double out[TSG_NON];
  NORM(&g, out);
  int a_j = nondet_int(), a_i = nondet_int(); __CPROVER_assume(a_j >= 0 && a_j < g.num_outputs);
  /* norm[j] is an upper bound of |v[i][j]| for every point (witness i) and is attained (or 0 without points) */
  if (g.num_points > 0) { __CPROVER_assume(a_i >= 0 && a_i < g.num_points); double v = g.values[a_i * g.num_outputs + a_j]; if (v < 0.0) v = -v;
    __CPROVER_assert(out[a_j] >= v, "F4 the normalization of output j is at least the magnitude |value| of every loaded value of that output (negative values included)"); }
  bool attained = (g.num_points == 0 && out[a_j] == 0.0);
  for (int i = 0; i < TSG_NPN; i++) if (i < g.num_points) { double v = g.values[i * g.num_outputs + a_j]; if (v < 0.0) v = -v; if (v == out[a_j]) attained = true; }
  __CPROVER_assert(attained || out[a_j] == 0.0, "F4 the normalization is the magnitude of some loaded value of that output (or 0)");
  __CPROVER_assert(0, "VACUITY-CANARY");
}
'''
            out.append(Job("limits.getNormalization." + fam, '#include "tsg_shim.h"\nint tsg_exc;\n#define NORM getNormalization_%s\n' % fam + hn, "h_norm", unwind=8, timeout=300, backends=[[], ["--sat-solver", "cadical"]],
                           functions=["%s:%d %s" % (f["file"], f["line"], f["name"]) for f in ninfo["functions"] if fam in f["name"]], info=ninfo, replay=mk_replay(prop, "#include <cmath>\n" + REPLAY_F4N),
                           bounded="points <= 3, outputs <= 2 (full unwinding); any non-NaN doubles",
                           label="Grid%s::getNormalization: the per-output normalization of the classic criterion is max |value|" % fam))
    if prop == "C08":
        t2 = [t for k, a, t in cf.sections if k == "text2"][0]
        for fam in ("Global", "Sequence"):
            Rs = X.Rules()
            st, sinfo = limits.emit_surplus_refinement_sets(Rs, fam)
            out.append(Job("limits.surplus_sets." + fam, '#include "tsg_shim.h"\nint tsg_exc;\n#define SURPLUS setSurplusRefinement_%s\n' % fam + ctext + t2 + st + cf.text(("harness",), ["h_surplus_sets"]), "h_surplus_sets", timeout=120,
                           functions=["%s:%d %s" % (f["file"], f["line"], f["name"]) for f in sinfo["functions"]], info=sinfo, replay=mk_replay(prop, REPLAY_STALE),
                           assumed=["clearRefinement empties needed and the pending tensors; proposeUpdatedTensors / set difference may produce any needed set", "the flagging loops between the two blocks write locals only"],
                           label="Grid%s::setSurplusRefinement: no admissible child => zero needed points (no stale refinement)" % fam))
    if prop == "C08":
        lc = cf.loops()["growloop"][0]
        gtext = [t for k, a, t in cf.sections if k == "text"][2]
        for cls, rel in limits.GROW:
            R6 = X.Rules(); gt, ginfo = limits.emit_growloop(R6, cls, rel, lc)
            out.append(Job("limits.growloop.%s" % cls, base + "#define GROWLOOP growloop_%s\n" % cls + ctext + gtext + gt + cf.text(("harness",), ["h_growloop"]), "h_growloop",
                           enforce=None, loop_contracts=True, timeout=300, functions=["%s:%d %s" % (f["file"], f["line"], f["name"]) for f in ginfo["functions"]], info=ginfo,
                           replay=mk_replay(prop, REPLAY_F11B.replace("@CLS@", cls)),
                           assumed=["family updateGrid: the needed count is non-decreasing in the level and constant once the full tensor of the (non-negative) limits is reached (assumed family contract)"],
                           label="%s::setAnisotropicRefinement grow loop: terminates when the level limits leave no admissible point (F11b)" % cls))
    return out
