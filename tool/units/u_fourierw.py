"""Unit C03/C04 (Fourier family): the per-point block of GridFourier::getInterpolationWeights -- for one spatial point of one tensor, the product of the
1-D discrete-Fourier factors and the Tasmanian index of the point.  The complex arithmetic is abstracted (rule R13): the node test and the Dirichlet-type
quotient become uninterpreted functions of the cache entries they read, returning lattice values (a table per direction and digit), so every product is
exact and the result is determined by WHICH cache entries are read and HOW the factors are combined."""
import re
from .. import tsg2c as X
from ..runner import Job
from .. import replay as RP
CPP = "SparseGrids/tsgGridFourier.cpp"

def emit(R):
    text = X.strip_comments(X.read_source(CPP))
    (p,) = X.cut(CPP, r'void\s+GridFourier::getInterpolationWeights\s*\(\s*const\s+double\s+x\[\]\s*,\s*double\s+weights\[\]\s*\)\s*const', text)
    body = p.body
    m = re.search(r'for\s*\(\s*int\s+i\s*=\s*0\s*;\s*i\s*<\s*num_tensor_points\s*;\s*i\+\+\s*\)\s*(?=\{)', body)
    if not m:
        raise X.ExtractionBreak("GridFourier::getInterpolationWeights: the loop over the points of a tensor was not found")
    e = X.match_close(body, m.end())
    src = body[m.end():e + 1]
    line = p.line + body[:m.end()].count("\n")
    b = src
    IDX = r'\[(.+?)\]\[(.+?)\]'
    b = R.sub("R13-node-test", r'std::abs\(\s*1\.0\s*-\s*\(\s*numerator_cache' + IDX + r'\s*\*\s*expcache' + IDX + r'\s*\)\.real\(\)\s*\)\s*<\s*Maths::num_tol',
              r'tsg_at_node(\1, \2, \3, \4)', b)
    b = R.sub("R13-dirichlet", r'2\.0\s*\*\s*\(\s*\(\s*1\.0\s*-\s*numerator_cache' + IDX + r'\s*\*\s*expcache' + IDX + r'\s*\)\s*/\s*\(\s*1\.0\s*-\s*numerator_cache' + IDX + r'\s*\*\s*expcache' + IDX + r'\s*\)\s*\)\.real\(\)\s*-\s*1\.0',
              r'tsg_dirichlet(\1, \2, \3, \4, \5, \6, \7, \8)', b)
    b = R.sub("R12g-index-map", r'\bindex_map' + IDX, r'tsg_index_map(\1, \2)', b)
    b = R.sub("R12g-weight-add", r'weights\[\s*work\.getSlot\(\s*p\s*\)\s*\]\s*\+=\s*\(?\s*tensorw\s*\*\s*fftprod\s*\)?\s*;', 'tsg_weight_add(p, tensorw, fftprod);', b)
    X.check_leftover(b, "getInterpolationWeights point block")
    R.require({"R13-node-test": 1, "R13-dirichlet": 1, "R12g-index-map": 1, "R12g-weight-add": 1})
    info = {"functions": [{"name": "GridFourier::getInterpolationWeights (block: one spatial point of one tensor)", "file": p.rel, "line": line, "loops": X.count_loops(b)}],
            "rules_fired": {k: v for k, v in R.counts.items() if v},
            "fidelity": X.fidelity(src, b, extra_vocab=["std", "abs", "numerator_cache", "expcache", "real", "Maths", "num_tol", "index_map", "weights", "work", "getSlot", "tensorw", "fftprod", "1.0", "2.0"], slack=40),
            "drops": ["everything outside the loop body over the points of a tensor (the caches of complex exponentials, the loop over tensors, the tensor weight)",
                      "R13: the node test and the quotient of complex numbers become uninterpreted functions of the cache indices they read"]}
    return ('#line %d "%s"\nvoid fourier_point_block(int i, int num_dimensions, const int *levels, const int *num_oned_points, int *p, double tensorw)%s\n' % (line, X.REPO + "/" + p.rel, b)), info

HARNESS = r'''
#ifndef TSG_NDIM
#define TSG_NDIM 2
#endif
#define TSG_NMAX 9
/* lattice tables: per direction and digit, is the coordinate on that node, and the value of the quotient there: a signed power of two, exponent in [-3,3] */
bool g_node[TSG_NDIM][TSG_NMAX]; int g_qe[TSG_NDIM][TSG_NMAX]; bool g_qs[TSG_NDIM][TSG_NMAX];
int g_lev[TSG_NDIM], g_np[TSG_NDIM], g_digit[TSG_NDIM];      /* the tensor and the digits r_j of the point, set by the harness */
int g_adds; double g_added; int g_p[TSG_NDIM];
static double pow2s(int e, bool neg){ double v = (e >= 0) ? (double)(1 << e) : 1.0 / (double)(1 << -e); return neg ? -v : v; }
bool tsg_at_node(int jn, int an, int le, int re){
  __CPROVER_assert(jn >= 0 && jn < TSG_NDIM, "C04 Fourier weights: the node test reads the cache of a direction of the grid");
  __CPROVER_assert(an == 0 && le == g_lev[jn] && re == g_digit[jn], "C04 Fourier weights: the node test of direction j compares e^{2 pi i x_j} (entry 0 of its numerator cache) with the root of unity of the point's own digit r at the tensor's level");
  return g_node[jn][re % TSG_NMAX];
}
double tsg_dirichlet(int jn, int an, int le, int oe, int jd, int ad, int ld, int rd){
  __CPROVER_assert(jn >= 0 && jn < TSG_NDIM && jd == jn, "C04 Fourier weights: numerator and denominator of the quotient belong to the same direction");
  int N = g_np[jn], r = g_digit[jn];
  __CPROVER_assert(an == g_lev[jn] && le == g_lev[jn] && oe == (r * (N + 1) / 2) % N, "C04 Fourier weights: the numerator is 1 - e^{2 pi i x (N+1)/2} w^{offset(r)} at the tensor's level");
  __CPROVER_assert(ad == 0 && ld == g_lev[jn] && rd == r, "C04 Fourier weights: the denominator is 1 - e^{2 pi i x} w^{r} at the tensor's level");
  __CPROVER_assert(!g_node[jn][r], "C04 Fourier weights: the quotient is not formed at a node (zero divide)");
  return pow2s(g_qe[jn][r % TSG_NMAX], g_qs[jn][r % TSG_NMAX]);
}
int tsg_index_map(int l, int r){ return 1000 * l + r; }       /* injective ghost of generateIndexingMap()[l][r] (the map itself: iotape / hier units) */
void tsg_weight_add(const int *p, double tensorw, double fftprod){ g_adds++; g_added = tensorw * fftprod; for (int j = 0; j < TSG_NDIM; j++) g_p[j] = p[j]; }
'''
TAIL = r'''
void h_fourier_point(void){
  int a_nd = nondet_int(), a_i = nondet_int(); __CPROVER_assume(a_nd >= 1 && a_nd <= TSG_NDIM);
  int p[TSG_NDIM]; int total = 1;
  for (int j = 0; j < TSG_NDIM; j++) { g_lev[j] = nondet_int(); __CPROVER_assume(g_lev[j] >= 0 && g_lev[j] <= 2); g_np[j] = g_lev[j] == 0 ? 1 : g_lev[j] == 1 ? 3 : 9; if (j < a_nd) total *= g_np[j]; p[j] = -1;
    for (int r = 0; r < TSG_NMAX; r++) { g_node[j][r] = nondet_bool(); g_qe[j][r] = nondet_int(); g_qs[j][r] = nondet_bool(); __CPROVER_assume(g_qe[j][r] >= -3 && g_qe[j][r] <= 3); } }
  __CPROVER_assume(a_i >= 0 && a_i < total);
  /* the digits of the spatial index, last direction fastest */
  { int t = a_i; for (int j = TSG_NDIM - 1; j >= 0; j--) if (j < a_nd) { g_digit[j] = t % g_np[j]; t /= g_np[j]; } else g_digit[j] = 0; }
  double tensorw = 0.5; g_adds = 0;
  fourier_point_block(a_i, a_nd, g_lev, g_np, p, tensorw);
  double expect = 1.0;
  for (int j = TSG_NDIM - 1; j >= 0; j--) if (j < a_nd) { int r = g_digit[j]; expect *= g_node[j][r] ? (double) g_np[j] : pow2s(g_qe[j][r], g_qs[j][r]); }
  __CPROVER_assert(g_adds == 1, "C03/C04 Fourier weights: each spatial point of a tensor contributes once");
  __CPROVER_assert(g_added == tensorw * expect, "C03/C04 Fourier weights: the contribution is the tensor weight times the product over ALL directions of the 1-D factor (N at a node, the quotient elsewhere)");
  int a_j = nondet_int(); __CPROVER_assume(a_j >= 0 && a_j < a_nd);
  __CPROVER_assert(g_p[a_j] == tsg_index_map(g_lev[a_j], g_digit[a_j]), "C03/C04 Fourier weights: the contribution goes to the point whose index in direction j is the map of the digit r_j at the tensor's level");
  __CPROVER_assert(0, "VACUITY-CANARY");
}
'''
REPLAY = r'''
/* On the real library: Fourier grids in 2 and 3 dimensions; the interpolation weights applied to the loaded values against evaluate(), at generic points,
 * at points with ONE coordinate on a node of the grid, and at grid points; the weights of a constant sum to one. */
int main_replay(){
  using namespace TasGrid;
  int bad = 0;
  for (int dims = 2; dims <= 3; dims++) for (int depth = 1; depth <= 2; depth++) {
    TasmanianSparseGrid g = makeFourierGrid(dims, 1, depth, type_level);
    std::vector<double> p = g.getNeededPoints(); int n = g.getNumNeeded(); std::vector<double> v(n);
    for (int i = 0; i < n; i++) { double s = 0.3; for (int d = 0; d < dims; d++) s += std::sin(2.0 * 3.14159265358979323846 * p[i*dims+d] + 0.4 * d); v[i] = std::exp(0.3 * s); }
    g.loadNeededValues(v);
    std::vector<std::vector<double>> xs;
    xs.push_back(std::vector<double>(dims, 0.0)); for (int d = 0; d < dims; d++) xs.back()[d] = 0.137 + 0.211 * d;
    for (int d = 0; d < dims; d++) { std::vector<double> x(dims); for (int k = 0; k < dims; k++) x[k] = 0.29 + 0.17 * k; x[d] = 1.0 / 3.0; xs.push_back(x); x[d] = 2.0 / 9.0; xs.push_back(x); x[d] = 0.0; xs.push_back(x); }
    for (int i = 0; i < n; i += 3) xs.push_back(std::vector<double>(p.begin() + i * dims, p.begin() + (i + 1) * dims));
    for (auto const &x : xs) {
      std::vector<double> w = g.getInterpolationWeights(x); double y; g.evaluate(x.data(), &y);
      double s = 0, one = 0; for (int i = 0; i < n; i++) { s += w[i] * v[i]; one += w[i]; }
      if (!(std::abs(s - y) < 1.E-9 && std::abs(one - 1.0) < 1.E-9)) { if (bad < 6) std::printf("Fourier %d dimensions depth %d at x0 = %g: weights.values %.12g, evaluate %.12g, sum of the weights %.12g\n", dims, depth, x[0], s, y, one); bad++; }
    }
  }
  __CPROVER_assert(bad == 0, "C03/C04 Fourier grids: the interpolation weights reproduce evaluate() and sum to one, also with coordinates on nodes");
  return 0;
}
'''
def replay(prop):
    def rp(job, ob, vals, wd):
        hdr = "Replay through the public API of the real library.\nproperty %s job %s\nobligation %s: %s\nat %s" % (prop, job.name, ob["name"], ob["description"], ob["location"])
        return RP.write_and_run(prop, job.name + "." + ob["name"], hdr, ['"TasmanianSparseGrid.hpp"', '<cmath>'], REPLAY, "  main_replay();", lib="sg", timeout=120)
    return rp

def jobs(tier, seed, prop):
    R = X.Rules()
    t, info = emit(R)
    nd = 2 if tier == "quick" else 3
    src = '#include "tsg_shim.h"\nint tsg_exc;\n#define TSG_NDIM %d\n' % nd + HARNESS + t + TAIL
    return [Job("fourierw.point_block", src, "h_fourier_point", unwind=11, timeout=600 if tier == "quick" else 2400, backends=[["--sat-solver", "cadical"], []],
                functions=["%s:%d %s" % (f["file"], f["line"], f["name"]) for f in info["functions"]], info=info, replay=replay(prop),
                bounded="dimensions <= %d, levels <= 2 (1, 3 or 9 points per direction); the quotients are signed powers of two with exponents in [-3,3] (every product exact)" % nd,
                assumed=["R13: the values of the complex node test / quotient are arbitrary table entries; their numerics (std::complex, the caches of exponentials) are not under contract",
                         "generateIndexingMap is an injective ghost here", "the loop over tensors and the tensor weights are outside the block"],
                label="GridFourier::getInterpolationWeights, one point of one tensor: product of the 1-D factors over all directions, read from the cache entries of the point's own digits")]
