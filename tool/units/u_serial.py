"""Unit C06 / C17: the serializers of the containers every grid file and checkpoint is made of: MultiIndexSet::write / stream constructor,
StorageSet::write / stream constructor (SparseGrids/tsgIndexSets.*), CompleteStorage::write / read (Addons/tsgCandidateManager.hpp), on the ghost
token tape: what was written is read back, the reader consumes exactly what the writer produced, for every size including 0 and 1."""
import re
from .. import tsg2c as X
from ..runner import Job
from .. import replay as RP
CPP = "SparseGrids/tsgIndexSets.cpp"
HPP = "SparseGrids/tsgIndexSets.hpp"
ADD = "Addons/tsgCandidateManager.hpp"

def _io(R, b):
    def numbers(m, a):
        parts = X.split_top(a)
        return " ".join("tape_write_num((double)(%s));" % q for q in parts[1:]) + " (void)0"
    b = X.balanced_call_sub(R, "R12-writeNumbers", b, r'IO::writeNumbers<[^>]*>\s*(?=\()', numbers)
    b = X.balanced_call_sub(R, "R12-writeFlag", b, r'IO::writeFlag<[^>]*>\s*(?=\()', lambda m, a: "tape_write_num((%s) ? 1.0 : 0.0)" % X.split_top(a)[0])
    b = X.balanced_call_sub(R, "R12-writeVector", b, r'IO::writeVector<[^>]*>\s*(?=\()', lambda m, a: "tape_write_vec(self->%s)" % X.split_top(a)[0].strip())
    b = R.sub("R12-readNumber", r'IO::readNumber<\s*[\w:]+\s*,\s*(\w+)\s*>\(\s*is\s*\)', r'((\1) tape_read_num())', b)
    b = R.sub("R12-readFlag", r'IO::readFlag<\s*\w+\s*>\(\s*is\s*\)', '(tape_read_num() != 0.0)', b)
    b = X.balanced_call_sub(R, "R12-readVector", b, r'IO::readVector<\s*\w+\s*,\s*\w+\s*>\s*(?=\()', lambda m, a: "tape_read_vec((size_t)(%s))" % X.split_top(a)[1])
    b = R.sub("R12-readVector-inplace", r'IO::readVector<\s*[\w:]+\s*>\(\s*is\s*,\s*(\w+)\s*\)\s*;', r'self->\1 = tape_read_vec(self->\1.len);', b)
    b = R.sub("R5g-size-mult", r'Utils::size_mult\(\s*([^,()]+)\s*,\s*([^,()]+)\s*\)', r'((size_t)(\1) * (size_t)(\2))', b)
    b = R.sub("R5g-empty-vector", r'std::vector<(?:int|double)>\(\)', 'gvec_none()', b)
    b = X.r2_casts(R, b)
    return b

def emit(R):
    ct = X.strip_comments(X.read_source(CPP)); ht = X.strip_comments(X.read_source(HPP)); at = X.strip_comments(X.read_source(ADD))
    outs, fns, srcs, emis = [], [], [], []
    for cls, members, vec in (("MultiIndexSet", ("num_dimensions", "cache_num_indexes", "indexes"), "indexes"), ("StorageSet", ("num_outputs", "num_values", "values"), "values")):
        (p,) = X.cut(CPP, r'template<bool\s+iomode>\s*void\s+%s::write\s*\(\s*std::ostream\s*&os\s*\)\s*const' % cls, ct)
        b = _io(R, p.body)
        b = R.sub("R5g-size", r'(?<![\w.>])%s\.size\(\)' % vec, 'self->%s.len' % vec, b)
        for m_ in members:
            b = R.sub("R10-member", r'(?<![\w.>])%s\b' % m_, 'self->' + m_, b)
        b = b.replace("self->self->", "self->")
        X.check_leftover(b, cls + "::write")
        outs.append('#line %d "%s"\nvoid %s_write(const G%s *self)%s' % (p.line, X.REPO + "/" + p.rel, cls, cls, b))
        fns.append({"name": cls + "::write<iomode>", "file": p.rel, "line": p.line, "loops": 0}); srcs.append(p.body); emis.append(b)
        # the stream constructor: member initialisers in declaration order
        m = re.search(r'template<typename\s+iomode>\s*%s\s*\(\s*std::istream\s*&is\s*,\s*iomode\s*\)\s*:\s*([^{]*)\{\s*\}' % cls, ht)
        if not m:
            raise X.ExtractionBreak("%s stream constructor not found" % cls)
        inits = X.split_top(m.group(1))
        stm = []
        for ini, want in zip(inits, members):
            mm = re.match(r'^\s*(\w+)\s*\((.*)\)\s*$', ini, re.S)
            if not mm or mm.group(1) != want:
                raise X.ExtractionBreak("%s stream constructor: initialisers are not %r in this order" % (cls, members))
            ex = _io(R, mm.group(2))
            for m_ in members:
                ex = re.sub(r'(?<![\w.>])%s\b' % m_, 'self->' + m_, ex)
            stm.append("  self->%s = %s;" % (want, ex))
        body = "{\n" + "\n".join(stm) + "\n}"
        X.check_leftover(body, cls + " stream constructor")
        line = ht.count("\n", 0, m.start()) + 1
        outs.append('#line %d "%s"\nvoid %s_read(G%s *self)%s' % (line, X.REPO + "/" + HPP, cls, cls, body))
        fns.append({"name": cls + "::" + cls + "(std::istream&, iomode)", "file": HPP, "line": line, "loops": 0}); srcs.append(m.group(1)); emis.append(body)
    # CompleteStorage
    cs = at[at.index("class CompleteStorage"):]
    for nm, sig in (("write", r'void\s+write\s*\(\s*std::ostream\s*&os\s*\)\s*const\s*(?=\{)'), ("read", r'void\s+read\s*\(\s*std::istream\s*&is\s*\)\s*(?=\{)')):
        m = re.search(sig, cs)
        if not m:
            raise X.ExtractionBreak("CompleteStorage::%s not found" % nm)
        e = X.match_close(cs, m.end())
        b = cs[m.end():e + 1]
        src = b
        b = _io(R, b)
        b = R.sub("R5g-resize", r'(?<![\w.>])(points|values)\.resize\(([^;]*)\)\s*;', r'self->\1 = gvec_sized(\2);', b)
        b = R.sub("R5g-size", r'(?<![\w.>])(points|values)\.size\(\)', r'self->\1.len', b)
        b = R.sub("R10-member-call", r'(?<![\w.>])getNumStored\(\)', '(self->points.len / self->num_dimensions)', b)
        X.check_leftover(b, "CompleteStorage::" + nm)
        line = at[:at.index("class CompleteStorage")].count("\n") + cs[:m.start()].count("\n") + 1
        outs.append('#line %d "%s"\nvoid CompleteStorage_%s(%sGCompleteStorage *self)%s' % (line, X.REPO + "/" + ADD, nm, "const " if nm == "write" else "", b))
        fns.append({"name": "CompleteStorage::" + nm, "file": ADD, "line": line, "loops": 0}); srcs.append(src); emis.append(b)
    R.require({"R12-writeNumbers": 4, "R12-writeVector": 4, "R12-readNumber": 6, "R12-readVector": 2, "R12-readVector-inplace": 2})
    info = {"functions": fns, "rules_fired": {k: v for k, v in R.counts.items() if v},
            "fidelity": X.fidelity("\n".join(srcs), "\n".join(emis), extra_vocab=["IO", "writeNumbers", "writeVector", "writeFlag", "readNumber", "readVector", "readFlag", "iomode", "os", "is", "pad_rspace", "pad_line", "pad_auto", "mode_binary", "mode_binary_type",
                                   "static_cast", "int", "size_t", "double", "std", "vector", "Utils", "size_mult", "size", "resize", "num_dimensions", "cache_num_indexes", "indexes", "num_outputs", "num_values", "values", "points", "0", "!=", "(", ")", ",", "?", ":"], slack=40),
            "drops": ["byte / text layout of the primitives (tsgIOHelpers.hpp)", "contents of the vectors (ghost descriptors: identity and length)"]}
    return "\n".join(outs) + "\n", info

TEXT = r'''
typedef struct { int id; size_t len; } gvec;
enum { T_NUM = 1, T_VEC };
#define TAPE_MAX 8
typedef struct { int kind; double num; int id; size_t len; } token;
token tape[TAPE_MAX]; int tape_w, tape_r;
static void tape_push(token t){ __CPROVER_assert(tape_w < TAPE_MAX, "shim: token tape capacity suffices"); tape[tape_w++] = t; }
static token tape_pop(int kind){ token t = {0, 0.0, 0, 0}; __CPROVER_assert(tape_r < tape_w, "C06 the reader does not read past what the writer produced"); if (tape_r < tape_w) { t = tape[tape_r++]; __CPROVER_assert(t.kind == kind, "C06 the reader expects the kind of datum that was written at this position"); } return t; }
void tape_write_num(double v){ token t = {T_NUM, v, 0, 0}; tape_push(t); }
void tape_write_vec(gvec v){ if (v.len == 0) return; token t = {T_VEC, 0.0, v.id, v.len}; tape_push(t); }     /* an empty vector occupies no data */
double tape_read_num(void){ return tape_pop(T_NUM).num; }
gvec tape_read_vec(size_t n){ gvec v = {0, 0}; if (n == 0) return v; token t = tape_pop(T_VEC); __CPROVER_assert(t.len == n, "C06 the reader computes the length that was written"); v.id = t.id; v.len = t.len; return v; }
static gvec gvec_none(void){ gvec v = {0, 0}; return v; }
static gvec gvec_sized(size_t n){ gvec v = {0, n}; return v; }
static bool vec_eq(gvec a, gvec b){ return a.len == b.len && (a.len == 0 || a.id == b.id); }
typedef struct { size_t num_dimensions; int cache_num_indexes; gvec indexes; } GMultiIndexSet;
typedef struct { size_t num_outputs, num_values; gvec values; } GStorageSet;
typedef struct { size_t num_dimensions; gvec points, values; } GCompleteStorage;
'''
HARNESS = r'''
void h_serial(void){
  tape_w = 0; tape_r = 0;
#if TSG_WHICH == 0
  GMultiIndexSet g, r; g.num_dimensions = nondet_size_t(); g.cache_num_indexes = nondet_int(); g.indexes.id = nondet_int();
  __CPROVER_assume(g.num_dimensions >= 1 && g.num_dimensions <= 50 && g.cache_num_indexes >= 0 && g.cache_num_indexes <= 100000 && g.indexes.id > 0);
  g.indexes.len = g.num_dimensions * (size_t) g.cache_num_indexes;          /* well-formed: one multi-index per cached count (0, 1, many) */
  if (g.indexes.len == 0) g.indexes.id = 0;
  MultiIndexSet_write(&g); r.indexes = gvec_none(); MultiIndexSet_read(&r);
  __CPROVER_assert(r.num_dimensions == g.num_dimensions && r.cache_num_indexes == g.cache_num_indexes && vec_eq(r.indexes, g.indexes), "C06 MultiIndexSet: dimensions, number of indexes and the indexes are read back, for every size (0, 1, many)");
#elif TSG_WHICH == 1
  GStorageSet g, r; g.num_outputs = nondet_size_t(); g.num_values = nondet_size_t(); g.values.id = nondet_int(); bool a_has = nondet_bool();
  __CPROVER_assume(g.num_outputs <= 50 && g.num_values <= 100000 && g.values.id > 0);
  g.values.len = a_has ? g.num_outputs * g.num_values : 0;                    /* well-formed: no values yet, or outputs x points of them */
  if (g.values.len == 0) g.values.id = 0;
  StorageSet_write(&g); r.values = gvec_none(); StorageSet_read(&r);
  __CPROVER_assert(r.num_outputs == g.num_outputs && r.num_values == g.num_values && vec_eq(r.values, g.values), "C06 StorageSet: outputs, number of points and the values are read back");
#else
  GCompleteStorage g, r; g.num_dimensions = nondet_size_t(); size_t a_n = nondet_size_t(), a_outs = nondet_size_t(); g.points.id = nondet_int(); g.values.id = nondet_int();
  __CPROVER_assume(g.num_dimensions >= 1 && g.num_dimensions <= 50 && a_n <= 100000 && a_outs >= 1 && a_outs <= 50 && g.points.id > 0 && g.values.id > 0);
  g.points.len = a_n * g.num_dimensions; g.values.len = a_n * a_outs;           /* well-formed: n stored samples */
  if (a_n == 0) { g.points.id = 0; g.values.id = 0; }
  CompleteStorage_write(&g); r.num_dimensions = g.num_dimensions; r.points = gvec_none(); r.values = gvec_none(); CompleteStorage_read(&r);
  __CPROVER_assert(vec_eq(r.points, g.points) && vec_eq(r.values, g.values), "C17 CompleteStorage: the coordinates and the values of every stored sample are read back from a checkpoint");
#endif
  __CPROVER_assert(tape_r == tape_w, "C06 the reader consumes exactly what the writer produced");
  __CPROVER_assert(0, "VACUITY-CANARY");
}
'''
REPLAY = r'''
/* On the real library: (1) grids with exactly one loaded or one needed point round-trip; (2) a sequential construction whose model fails once is restarted from its checkpoint:
 * nothing that a completed checkpoint holds is computed again, the budget is kept. */
int main_replay(){
  using namespace TasGrid;
  int bad = 0;
  for (int binary = 0; binary < 2; binary++) {
    TasmanianSparseGrid g = makeLocalPolynomialGrid(2, 1, 0, 1, rule_localp);      /* exactly one point */
    std::stringstream s1, s2; g.write(s1, binary != 0); TasmanianSparseGrid r; r.read(s1, binary != 0); r.write(s2, binary != 0);
    if (s1.str() != s2.str() || r.getNumNeeded() != 1 || r.getNeededPoints() != g.getNeededPoints()) { std::printf("a grid with one needed point does not round-trip (%s)\n", binary ? "binary" : "ascii"); bad++; }
    g.loadNeededValues(std::vector<double>{2.5});
    std::stringstream s3; g.write(s3, binary != 0); TasmanianSparseGrid q; q.read(s3, binary != 0);
    if (q.getNumLoaded() != 1 || q.getLoadedValues()[0] != 2.5) { std::printf("a grid with one loaded point does not round-trip (%s)\n", binary ? "binary" : "ascii"); bad++; }
  }
  for (int crash_at = 3; crash_at <= 7; crash_at++) {
    std::remove("serial_ckpt"); std::remove("serial_ckpt_old");
    int calls = 0; std::vector<std::vector<double>> seen;
    auto model = [&](std::vector<double> const &x, std::vector<double> &y, size_t)->void{ calls++; if (calls == crash_at) throw std::runtime_error("model failure"); seen.push_back(x); y = {std::exp(x[0] + 0.5 * x[1])}; };
    TasmanianSparseGrid grid = makeLocalPolynomialGrid(2, 1, 1, 1, rule_localp);
    try { constructSurrogate<mode_sequential, no_initial_guess>(model, 12, 1, 1, grid, 1.E-9, refine_classic, 0, std::vector<int>(), "serial_ckpt"); } catch (std::runtime_error &) {}
    size_t before = seen.size();
    TasmanianSparseGrid grid2 = makeLocalPolynomialGrid(2, 1, 1, 1, rule_localp);
    constructSurrogate<mode_sequential, no_initial_guess>(model, 12, 1, 1, grid2, 1.E-9, refine_classic, 0, std::vector<int>(), "serial_ckpt");
    int dup = 0; for (size_t i = before; i < seen.size(); i++) for (size_t j = 0; j + 1 < before; j++) if (seen[i] == seen[j]) dup++;   /* the sample in flight at the failure may be repeated, earlier ones not */
    if (dup > 0 || seen.size() > 13) { std::printf("model failure at call %d: %d checkpointed samples were computed again, %zu evaluations for a budget of 12\n", crash_at, dup, seen.size()); bad++; }
    std::remove("serial_ckpt"); std::remove("serial_ckpt_old");
  }
  __CPROVER_assert(bad == 0, "C06/C17 containers of every size round-trip; a restart from a completed checkpoint repeats nothing");
  return 0;
}
'''
def replay(prop):
    def rp(job, ob, vals, wd):
        hdr = "Replay through the public API of the real library.\nproperty %s job %s\nobligation %s: %s\nat %s" % (prop, job.name, ob["name"], ob["description"], ob["location"])
        return RP.write_and_run(prop, job.name + "." + ob["name"], hdr, ['"TasmanianAddons.hpp"', '<cmath>', '<sstream>', '<cstdio>'], REPLAY, "  main_replay();", lib="sg", timeout=120)
    return rp

def jobs(tier, seed, prop):
    R = X.Rules()
    t, info = emit(R)
    out = []
    for w, nm in enumerate(("MultiIndexSet", "StorageSet", "CompleteStorage")):
        if prop == "C06" and nm == "CompleteStorage": continue
        src = '#include "tsg_shim.h"\nint tsg_exc;\n#define TSG_WHICH %d\n' % w + TEXT + t + HARNESS
        out.append(Job("serial." + nm, src, "h_serial", timeout=120, functions=["%s:%d %s" % (f["file"], f["line"], f["name"]) for f in info["functions"] if nm in f["name"]], info=info, replay=replay(prop),
                       assumed=["I/O primitives of tsgIOHelpers.hpp (token tape)", "member initialisers run in the order they are written (checked: it is the declaration order the unit expects)"],
                       label=nm + " write / read round trip on the token tape, every size"))
    return out
