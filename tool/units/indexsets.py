"""Extraction of MultiIndexSet::getSlot, StorageSet::addValues (SparseGrids/tsgIndexSets.cpp)
and Utils/Data2D split helpers onto C receiver structs."""
import re
from .. import tsg2c as X
CPP = "SparseGrids/tsgIndexSets.cpp"
HPP = "SparseGrids/tsgIndexSets.hpp"

def _enum_relation(R):
    text = X.strip_comments(X.read_source("SparseGrids/tsgEnumerates.hpp"))
    (p,) = X.cut("SparseGrids/tsgEnumerates.hpp", r'enum\s+TypeIndexRelation\s*', text)
    R.counts["R3-enum"] = R.counts.get("R3-enum", 0) + 1
    return '#line %d "%s"\n%s%s;\ntypedef enum TypeIndexRelation TypeIndexRelation;\n' % (p.line, X.REPO + "/" + p.rel, p.header, p.body)

def emit_getSlot(R, contract=None, loops=None):
    text = X.strip_comments(X.read_source(CPP))
    (p,) = X.cut(CPP, r'int\s+MultiIndexSet::getSlot\s*\(\s*const\s+int\s*\*\s*p\s*\)\s*const', text)
    chdr = "int MultiIndexSet_getSlot(const MultiIndexSet *self, const int *p)"
    b = p.body
    fn, b = X.hoist_lambda(R, b, "getSlot_compare", [("num_dimensions", "size_t", False)])
    fid_view = X.hoist_lambda.fid_view
    b = R.sub("R10-member", r'(?<![\w.>])cache_num_indexes\b', 'self->cache_num_indexes', b)
    b = R.sub("R10-member", r'(?<![\w.>])indexes\b', 'self->indexes', b)
    b = R.sub("R10-member", r'(?<![\w.>_])num_dimensions\b', 'self->num_dimensions', b)
    X.check_leftover(chdr + b + fn, "getSlot")
    R.require({"R7-hoist": 1, "R7-call": 1, "R10-member": 3})
    out = _enum_relation(R) + '#line %d "%s"\n' % (p.line, X.REPO + "/" + p.rel) + fn + '#line %d "%s"\n' % (p.line, X.REPO + "/" + p.rel) + X.splice(chdr, b, contract, loops)
    info = {"functions": [{"name": "MultiIndexSet::getSlot", "file": p.rel, "line": p.line, "loops": X.count_loops(b)}],
            "fidelity": X.fidelity(p.src_body, fid_view, extra_vocab=["num_dimensions", "indexes", "cache_num_indexes"], slack=1),
            "rules_fired": {k: v for k, v in R.counts.items() if v}}
    return out, info

def emit_addValues(R, contract=None, loops=None):
    text = X.strip_comments(X.read_source(CPP))
    (p,) = X.cut(CPP, r'void\s+StorageSet::addValues\s*\(\s*const\s+MultiIndexSet\s*&old_set\s*,\s*const\s+MultiIndexSet\s*&new_set\s*,\s*const\s+double\s+new_vals\[\]\s*\)', text)
    chdr = "void StorageSet_addValues(StorageSet *self, const MultiIndexSet *old_set, const MultiIndexSet *new_set, const double new_vals[])"
    b = p.body
    fn, b = X.hoist_lambda(R, b, "addValues_compareIndexes", [("num_dimensions", "size_t", False)])
    fid_view = X.hoist_lambda.fid_view
    b = R.sub("R10-receiver-call", r'\b(old_set|new_set)\.getNumIndexes\(\)', r'\1->cache_num_indexes', b)
    b = R.sub("R10-receiver-call", r'\b(old_set|new_set)\.getNumDimensions\(\)', r'\1->num_dimensions', b)
    b = R.sub("R10-receiver-call", r'\b(old_set|new_set)\.getIndex\(\s*(\w+)\s*\)', r'(&\1->indexes[(size_t)(\2) * \1->num_dimensions])', b)
    b = R.sub("R10-member", r'(?<![\w.>])num_values\b', 'self->num_values', b)
    b = R.sub("R10-member", r'(?<![\w.>])num_outputs\b', 'self->num_outputs', b)
    # local vector combined_values -> heap array of the same length (capacity == requested size: exact)
    b = R.sub("R5-local-vector", r'std::vector<double>\s+combined_values\(([^;]*)\);', r'size_t combined_values_size = \1; double *combined_values = tsg_new_double(combined_values_size);', b)
    b = R.sub("R5-iter-decl", r'auto\s+ivals\s*=\s*values\.begin\(\)\s*;', 'size_t ivals = 0;', b)
    b = R.sub("R5-iter-decl", r'auto\s+icombined\s*=\s*combined_values\.begin\(\)\s*;', 'size_t icombined = 0;', b)
    b = R.sub("R5-copy_n", r'std::copy_n\(\s*(&\(new_vals\[[^\]]+\]\))\s*,\s*self->num_outputs\s*,\s*icombined\s*\)', r'tsg_copy_n_double(\1, self->num_outputs, &combined_values[icombined])', b)
    b = R.sub("R5-copy_n", r'std::copy_n\(\s*ivals\s*,\s*self->num_outputs\s*,\s*icombined\s*\)', 'tsg_copy_n_double(&self->values[ivals], self->num_outputs, &combined_values[icombined])', b)
    b = R.sub("R5-advance", r'std::advance\(\s*(ivals|icombined)\s*,\s*self->num_outputs\s*\)', r'\1 += self->num_outputs', b)
    b = R.sub("R5-swap", r'std::swap\(\s*values\s*,\s*combined_values\s*\)\s*;', 'TSG_SWAP(double *, self->values, combined_values); TSG_SWAP(size_t, self->values_size, combined_values_size);', b)
    X.check_leftover(chdr + b + fn, "addValues")
    R.require({"R7-hoist": 1, "R7-call": 1, "R10-receiver-call": 5, "R5-local-vector": 1, "R5-iter-decl": 2, "R5-copy_n": 2, "R5-advance": 2, "R5-swap": 1})
    out = _enum_relation(R) + '#line %d "%s"\n' % (p.line, X.REPO + "/" + p.rel) + fn + '#line %d "%s"\n' % (p.line, X.REPO + "/" + p.rel) + X.splice(chdr, b, contract, loops)
    info = {"functions": [{"name": "StorageSet::addValues", "file": p.rel, "line": p.line, "loops": X.count_loops(b)}],
            "fidelity": X.fidelity(p.src_body, fid_view, extra_vocab=["num_dimensions", "values", "combined_values", "num_values", "num_outputs", "old_set", "new_set", "getNumIndexes", "getNumDimensions", "getIndex",
                                                                   "ivals", "icombined", "begin", "copy_n", "advance", "swap", "compareIndexes"], slack=60),
            "rules_fired": {k: v for k, v in R.counts.items() if v}}
    return out, info
