"""Unit: ProperWeights::provenLower (tsgIndexManipulator.hpp) -- the test that licenses the fast selectLowerSet() path in selectTensors (C01 lower completeness, C03 polynomial space)."""
import re
from .. import tsg2c as X
from ..runner import Job
from .. import replay as RP
from . import tables

HPP = "SparseGrids/tsgIndexManipulator.hpp"

HARNESS = r'''
typedef struct { int contour; size_t n; int linear[TSG_ND]; double curved[TSG_ND]; } ProperWeights;
@FUNC@
void h_provenLower(void){
  ProperWeights w; size_t a_w = nondet_size_t();
  w.contour = nondet_int(); w.n = nondet_size_t();
  __CPROVER_assume(w.n >= 1 && w.n <= TSG_ND && a_w < w.n && (w.contour == type_level || w.contour == type_curved || w.contour == type_hyperbolic));
  for (size_t i = 0; i < TSG_ND; i++) { w.linear[i] = nondet_int(); w.curved[i] = nondet_double(); __CPROVER_assume(!__CPROVER_isnand(w.curved[i])); }
  bool r = ProperWeights_provenLower(&w);
  bool any = false;
  for (size_t i = 0; i < TSG_ND; i++) if (i < w.n && (double) w.linear[i] + w.curved[i] < 0) any = true;
  if (r && w.contour == type_curved) __CPROVER_assert(!((double) w.linear[a_w] + w.curved[a_w] < 0), "A8 provenLower() == true for a curved contour: in EVERY direction the log-correction does not outweigh the linear weight (the level function is monotone, the selected set is lower complete)");
  if (!r) __CPROVER_assert(w.contour == type_curved && any, "A8 provenLower() == false only for a curved contour with a direction whose weights sum below zero");
  __CPROVER_assert(0, "VACUITY-CANARY");
}
'''
REPLAY = r'''
/* On the real library: curved selections with a negative log-correction in one direction; the index set of the grid must be lower complete
 * (every index with one entry decreased by one is in the set), whichever direction carries the negative correction. */
int main_replay(){
  using namespace TasGrid;
  int bad = 0;
  for (int dir = 0; dir < 2; dir++) for (int depth : {4, 6, 9}) for (int neg : {-2, -3, -5}) {
    std::vector<int> aw = {1, 1, 0, 0}; aw[2 + dir] = neg;
    TasmanianSparseGrid g = makeSequenceGrid(2, 1, depth, type_ipcurved, rule_leja, aw);
    int n = g.getNumPoints(); const int *idx = g.getPointsIndexes(); int holes = 0;
    auto has = [&](int a, int b)->bool{ for (int i = 0; i < n; i++) if (idx[2*i] == a && idx[2*i+1] == b) return true; return false; };
    for (int i = 0; i < n; i++) { if (idx[2*i] > 0 && !has(idx[2*i] - 1, idx[2*i+1])) holes++; if (idx[2*i+1] > 0 && !has(idx[2*i], idx[2*i+1] - 1)) holes++; }
    if (holes) { if (bad < 6) std::printf("type_ipcurved weights {%d,%d,%d,%d} depth %d: %d of %d indexes have a missing lower neighbour\n", aw[0], aw[1], aw[2], aw[3], depth, holes, n); bad++; }
  }
  __CPROVER_assert(bad == 0, "C01/C03 a curved selection gives a lower-complete index set also when a log-correction is negative");
  return 0;
}
'''
def replay(prop):
    def rp(job, ob, vals, wd):
        hdr = "Replay through the public API of the real library.\nproperty %s job %s\nobligation %s: %s\nat %s" % (prop, job.name, ob["name"], ob["description"], ob["location"])
        return RP.write_and_run(prop, job.name + "." + ob["name"], hdr, ['"TasmanianSparseGrid.hpp"'], REPLAY, "  main_replay();", lib="sg", timeout=120)
    return rp

def jobs(tier, seed, prop):
    R = X.Rules()
    text = X.strip_comments(X.read_source(HPP))
    cls = text[text.index("struct ProperWeights"):]
    m = re.search(r'bool\s+provenLower\s*\(\s*\)\s*const\s*(?=\{)', cls)
    if not m:
        raise X.ExtractionBreak("ProperWeights::provenLower not found")
    e = X.match_close(cls, m.end())
    src = cls[m.end():e + 1]
    b = X.r2_casts(R, src)
    b = R.sub("R5-size", r'\b(?:linear|curved)\.size\(\)', 'self->n', b)
    for mem in ("linear", "curved", "contour"):
        b = R.sub("R10-member", r'(?<![\w.>])%s\b' % mem, 'self->' + mem, b)
    X.check_leftover(b, "provenLower")
    R.require({"R5-size": 1, "R10-member": 3})
    line = text[:text.index("struct ProperWeights")].count("\n") + cls[:m.start()].count("\n") + 1
    # the contour enumeration (type_level / type_curved / type_hyperbolic are members of TypeDepth)
    enums = tables.cut_enum("TypeDepth", R)[0]
    nd = 3 if tier == "quick" else 5
    func = '#line %d "%s"\nbool ProperWeights_provenLower(const ProperWeights *self)%s\n' % (line, X.REPO + "/" + HPP, b)
    info = {"functions": [{"name": "ProperWeights::provenLower", "file": HPP, "line": line, "loops": X.count_loops(b)}], "rules_fired": {k: v for k, v in R.counts.items() if v},
            "fidelity": X.fidelity(src, b, extra_vocab=["linear", "curved", "contour", "size", "double"], slack=8)}
    return [Job("lower.provenLower", '#include "tsg_shim.h"\nint tsg_exc;\n#define TSG_ND %d\n' % nd + enums + HARNESS.replace("@FUNC@", func), "h_provenLower", unwind=nd + 2, timeout=300,
                functions=["%s:%d ProperWeights::provenLower" % (HPP, line)], info=info, replay=replay(prop),
                bounded="dimensions <= %d (full unwinding with unwinding assertions); any int weights, any non-NaN corrections" % nd,
                assumed=["that non-negative sums make the curved level function monotone is the mathematical argument of selectTensors, not proved here"],
                label="ProperWeights::provenLower is true only when every direction passes the sign test (A8)")]
