"""Extraction of the linear domain transform routines of TasmanianSparseGrid
(mapCanonicalToTransformed, mapTransformedToCanonical<double>, getQuadratureScale,
diffCanonicalTransform<double>; SparseGrids/TasmanianSparseGrid.cpp)."""
import re
from .. import tsg2c as X
CPP = "SparseGrids/TasmanianSparseGrid.cpp"

def _common(R, b):
    b = R.sub("R3-template-param", r'\bFloatType\b', 'double', b)
    b = R.sub("R10-member", r'(?<![\w.>])domain_transform_(a|b)\.size\(\)', r'self->domain_transform_\1_size', b)
    b = R.sub("R10-member", r'(?<![\w.>])conformal_asin_power\.size\(\)', 'self->conformal_asin_power_size', b)
    b = R.sub("R10-member", r'(?<![\w.>])domain_transform_(a|b)\b', r'self->domain_transform_\1', b)
    b = R.sub("R10-family-call", r'get<GridGlobal>\(\)\s*->\s*(getAlpha|getBeta)\(\)', r'GridGlobal_\1(self)', b)
    b = R.sub("R10-base-call", r'\bbase\s*->\s*(getNumDimensions|getRule)\(\)', r'base_\1(self)', b)
    b = X.r2_std_math(R, b)
    b = R.sub("R8-libm-pow", r'(?<![\w.>_])pow\s*\(', 'tsg_pow(', b)
    b = R.sub("R8-libm-sqrt", r'(?<![\w.>_])sqrt\s*\(', 'tsg_sqrt(', b)
    b = X.r5_local_vectors(R, b, {"sqrt_b": "TSG_NDIM", "rate": "TSG_NDIM", "shift": "TSG_NDIM", "jacobian_diag": "TSG_NDIM"})
    b = X.r9_throws(R, b)
    return b

def emit(R):
    text = X.strip_comments(X.read_source(CPP))
    outs, fns, srcs, emis = [], [], [], []
    specs = [
        ("mapCanonicalToTransformed", r'void\s+TasmanianSparseGrid::mapCanonicalToTransformed\s*\(\s*int\s+num_dimensions\s*,\s*int\s+num_points\s*,\s*TypeOneDRule\s+rule\s*,\s*double\s+x\[\]\s*\)\s*const',
         "void mapCanonicalToTransformed(const TSGT *self, int num_dimensions, int num_points, TypeOneDRule rule, double x[])"),
        ("mapTransformedToCanonical", r'template<typename\s+FloatType>\s*void\s+TasmanianSparseGrid::mapTransformedToCanonical\s*\(\s*int\s+num_dimensions\s*,\s*int\s+num_points\s*,\s*TypeOneDRule\s+rule\s*,\s*FloatType\s+x\[\]\s*\)\s*const',
         "void mapTransformedToCanonical(const TSGT *self, int num_dimensions, int num_points, TypeOneDRule rule, double x[])"),
        ("getQuadratureScale", r'double\s+TasmanianSparseGrid::getQuadratureScale\s*\(\s*int\s+num_dimensions\s*,\s*TypeOneDRule\s+rule\s*\)\s*const',
         "double getQuadratureScale(const TSGT *self, int num_dimensions, TypeOneDRule rule)"),
        ("diffCanonicalTransform", r'template<typename\s+FloatType>\s*std::vector<double>\s+TasmanianSparseGrid::diffCanonicalTransform\s*\(\s*\)\s*const',
         "void diffCanonicalTransform(const TSGT *self, double *ret)"),
    ]
    for nm, sig, chdr in specs:
        (p,) = X.cut(CPP, sig, text)
        b = _common(R, p.body)
        if nm == "diffCanonicalTransform":
            b = R.sub("R5-return-vector", r'return\s+jacobian_diag\s*;', '{ tsg_copy_n_double(jacobian_diag, jacobian_diag_size, ret); return; }', b)
        X.check_leftover(chdr + b, nm)
        outs.append('#line %d "%s"\n%s%s' % (p.line, X.REPO + "/" + p.rel, chdr, b))
        fns.append({"name": "TasmanianSparseGrid::" + nm, "file": p.rel, "line": p.line, "loops": X.count_loops(b)})
        srcs.append(p.body); emis.append(b)
    R.require({"R10-member": 30, "R5-local-vector": 7, "R8-libm-pow": 1, "R8-libm-sqrt": 1, "R3-template-param": 10, "R10-family-call": 5, "R5-return-vector": 1, "R9-throw-runtime_error": 1})
    info = {"functions": fns, "rules_fired": {k: v for k, v in R.counts.items() if v},
            "fidelity": X.fidelity("\n".join(srcs), "\n".join(emis), extra_vocab=["FloatType", "domain_transform_a", "domain_transform_b", "conformal_asin_power", "size", "base", "get", "GridGlobal",
                                                                               "getAlpha", "getBeta", "getNumDimensions", "getRule", "pow", "sqrt", "rate", "shift", "sqrt_b", "jacobian_diag", "runtime_error", "return", "double"], slack=12),
            "drops": ["the float instantiation of mapTransformedToCanonical / diffCanonicalTransform"]}
    return "\n".join(outs) + "\n", info


def emit_chain_loops(R):
    """The chain-rule scaling loops of TasmanianSparseGrid::differentiate and getDifferentiationWeights (block selectors)."""
    text = X.strip_comments(X.read_source(CPP))
    outs, fns = [], []
    for nm, sig, hdr, rx in (
        ("differentiate", r'void\s+TasmanianSparseGrid::differentiate\s*\(\s*const\s+double\s+x\[\]\s*,\s*double\s+jacobian\[\]\s*\)\s*const',
         "void chain_differentiate(int num_dimensions, int num_outputs, double *jacobian, const double *jacobian_g_diag)",
         r'for\s*\(\s*int\s+j\s*=\s*0[^)]*\)\s*for\s*\(\s*int\s+k\s*=\s*0[^)]*\)\s*jacobian\[[^;]*;'),
        ("getDifferentiationWeights", r'void\s+TasmanianSparseGrid::getDifferentiationWeights\s*\(\s*const\s+double\s+x\[\]\s*,\s*double\s+weights\[\]\s*\)\s*const',
         "void chain_weights(int num_dimensions, int num_points, double *weights, const double *jacobian_g_diag)",
         r'for\s*\(\s*int\s+i\s*=\s*0[^)]*\)\s*for\s*\(\s*int\s+j\s*=\s*0[^)]*\)\s*weights\[[^;]*;')):
        (p,) = X.cut(CPP, sig, text)
        ms = list(re.finditer(rx, p.body))
        if len(ms) != 1:
            raise X.ExtractionBreak("%s: chain-rule scaling loop not found (%d matches)" % (nm, len(ms)))
        b = ms[0].group(0)
        b = R.sub("R13-fp-mul", r'=\s*(\w+\[[^\]]*\])\s*\*\s*(jacobian_g_diag\[[^\]]*\])\s*;', r'= tsg_fmul(\1, \2);', b)
        X.check_leftover(b, nm)
        line = p.line + (p.header + p.body[:ms[0].start()]).count('\n')
        outs.append('#line %d "%s"\n%s{ %s }' % (line, X.REPO + "/" + p.rel, hdr, b))
        fns.append({"name": "TasmanianSparseGrid::%s (chain-rule scaling loop)" % nm, "file": p.rel, "line": line, "loops": 2})
    R.require({"R13-fp-mul": 2})
    return "\n".join(outs) + "\n", {"functions": fns, "rules_fired": {k: v for k, v in R.counts.items() if v}}


HPP = "SparseGrids/TasmanianSparseGrid.hpp"
def emit_domain_inside(R):
    """TasmanianSparseGrid::getDomainInside(): the returned predicate applied to a point.  Rule R7b (a returned lambda is applied at once): every
    `return [captures](std::vector<double> const &x)->bool{ BODY };` becomes `{ BODY }`; captures by copy read the members at creation time, which is the
    state at the call here."""
    text = X.strip_comments(X.read_source(HPP))
    (p,) = X.cut(HPP, r'DomainInsideSignature\s+getDomainInside\s*\(\s*\)\s*const', text)
    b = p.body
    n = [0]
    def inline(m):
        n[0] += 1
        return "{"
    b2 = re.sub(r'return\s*\[[=&]?\]\s*\(\s*std::vector<double>\s+const\s*&\s*(?:x)?\s*\)\s*->\s*bool\s*\{', inline, b)
    R.counts["R7b-apply-returned-lambda"] = n[0]
    b = re.sub(r'\}\s*;', '}', b2)     # the closing `};` of the inlined lambdas
    b = R.sub("R3-auto", r'\bauto\s+rule\s*=\s*getRule\(\)\s*;', 'TypeOneDRule rule = self->rule;', b)
    b = R.sub("R1-qualifier", r'\bTasGrid::', '', b)
    b = R.sub("R6-range-for", r'for\s*\(\s*auto\s+const\s*&\s*v\s*:\s*x\s*\)', 'for (size_t v_ = 0; v_ < x_size; v_++)', b)
    b = R.sub("R6-range-var", r'(?<![\w.>])v(?![\w(])', 'x[v_]', b)
    b = R.sub("R10-member", r'(?<![\w.>])domain_transform_a\.empty\(\)', '(self->domain_transform_a_size == 0)', b)
    b = R.sub("R10-member", r'(?<![\w.>])domain_transform_(a|b)\b', r'self->domain_transform_\1', b)
    b = R.sub("R10-member-call", r'(?<![\w.>])getNumDimensions\(\)', 'self->dims', b)
    b = R.sub("R10-member-call", r'(?<![\w.>])isFourier\(\)', '(self->rule == rule_fourier)', b)
    X.check_leftover(b, "getDomainInside")
    R.require({"R7b-apply-returned-lambda": 4, "R10-member": 4})
    info = {"functions": [{"name": "TasmanianSparseGrid::getDomainInside (predicate applied to a point)", "file": p.rel, "line": p.line, "loops": X.count_loops(b)}], "rules_fired": {k: v for k, v in R.counts.items() if v},
            "fidelity": X.fidelity(p.body, b, extra_vocab=["auto", "rule", "getRule", "TasGrid", "return", "std", "vector", "double", "const", "x", "v", "bool", "domain_transform_a", "domain_transform_b", "empty", "getNumDimensions", "isFourier", "dims", "size_t", "[", "]", "=", "&", "->", "(", ")", "{", "}", ";", ":"], slack=40)}
    return '#line %d "%s"\nbool getDomainInside_apply(const TSGT *self, const double *x, size_t x_size)%s\n' % (p.line, X.REPO + "/" + p.rel, b), info
