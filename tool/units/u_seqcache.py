"""Unit C05/C03 (Sequence family): GridSequence::cacheBasisValues<double> and cacheBasisDerivatives<double>
(SparseGrids/tsgGridSequence.hpp) against their recurrences on an exact lattice: the Newton polynomials
N_i(x) = prod_{k<i} (x - node_k) / coeff_i and their derivatives (product rule)."""
import re
from .. import tsg2c as X
from ..runner import Job
from ..contractfile import ContractFile
HPP = "SparseGrids/tsgGridSequence.hpp"

def emit(R):
    text = X.strip_comments(X.read_source(HPP))
    outs, fns, srcs, emis = [], [], [], []
    for nm in ("cacheBasisValues", "cacheBasisDerivatives"):
        (p,) = X.cut(HPP, r'template<typename\s+T>\s*std::vector<std::vector<T>>\s+%s\s*\(\s*const\s+T\s+x\[\]\s*\)\s*const' % nm, text)
        b = p.body
        b = R.sub("R3-template-param", r'\bT\b', 'double', b)
        b = R.sub("R5-vector2d", r'std::vector<\s*std::vector<\s*double\s*>\s*>\s+cache\s*\(\s*num_dimensions\s*\)\s*;', '__CPROVER_assert(self->num_dimensions <= TSG_NDIM, "shim: cache rows");', b)
        # resize value-initialises the new entries of an empty row to 0
        b = R.sub("R5-row-resize", r'\bcache\[([^\]]+)\]\.resize\(([^;]*)\)\s*;',
                  r'tsg_row_resize(cache[\1], &cache_len[\1], (\2));', b)
        b = R.sub("R5-vector2d-subscript", r'\bcache\[([^\]]+)\]\[([^\]]+)\]', r'cache[\1][TSG_COL(\1, \2)]', b)
        for m_ in ("num_dimensions", "max_levels", "nodes", "coeff"):
            b = R.sub("R10-member", r'(?<![\w.>])%s\b' % m_, 'self->' + m_, b)
        b = R.sub("R5-return-vector", r'return\s+cache\s*;', 'return;', b)
        X.check_leftover(b, nm)
        outs.append('#line %d "%s"\nvoid %s(const GSeq *self, const double x[], double cache[TSG_NDIM][TSG_NL], size_t cache_len[TSG_NDIM])%s' % (p.line, X.REPO + "/" + p.rel, nm, b))
        fns.append({"name": "GridSequence::%s<double>" % nm, "file": p.rel, "line": p.line, "loops": X.count_loops(b)})
        srcs.append(p.body); emis.append(b)
    R.require({"R5-vector2d": 2, "R5-row-resize": 2, "R5-vector2d-subscript": 5, "R10-member": 12, "R5-return-vector": 2})
    info = {"functions": fns, "rules_fired": {k: v for k, v in R.counts.items() if v},
            "fidelity": X.fidelity("\n".join(srcs), "\n".join(emis), extra_vocab=["T", "std", "vector", "cache", "num_dimensions", "max_levels", "nodes", "coeff", "resize", "return", "double"], slack=10),
            "drops": ["the float instantiations"]}
    return "\n".join(outs) + "\n", info

from .. import replay as RP
REPLAY = r'''
/* Through the public API of the real code: Sequence grids of depth 1..3 loaded with polynomials of their space (total degree <= depth);
 * evaluate() and differentiate() must reproduce the polynomial and its gradient at arbitrary points. */
int main_replay(){
  int bad = 0;
  for (int depth = 1; depth <= 3; depth++) for (auto rule : {TasGrid::rule_leja, TasGrid::rule_rleja, TasGrid::rule_minlebesgue}) {
    TasGrid::TasmanianSparseGrid grid = TasGrid::makeSequenceGrid(2, 1, depth, TasGrid::type_level, rule);
    auto f  = [&](double a, double b)->double{ return 1.0 + 2.0 * a - 3.0 * b + (depth >= 2 ? a * b + 0.5 * a * a : 0.0) + (depth >= 3 ? b * b * b - a * a * b : 0.0); };
    auto fa = [&](double a, double b)->double{ return 2.0 + (depth >= 2 ? b + a : 0.0) + (depth >= 3 ? -2.0 * a * b : 0.0); };
    auto fb = [&](double a, double b)->double{ return -3.0 + (depth >= 2 ? a : 0.0) + (depth >= 3 ? 3.0 * b * b - a * a : 0.0); };
    std::vector<double> p = grid.getNeededPoints(); std::vector<double> v(grid.getNumNeeded());
    for (size_t i = 0; i < v.size(); i++) v[i] = f(p[2*i], p[2*i+1]);
    grid.loadNeededValues(v);
    for (int k = 0; k < 25; k++) {
      double x[2] = { -0.9 + 0.36 * (k % 5) + 0.013, -0.8 + 0.41 * (k / 5) - 0.007 }, y, g[2];
      grid.evaluate(x, &y); grid.differentiate(x, g);
      if (!(std::abs(y - f(x[0], x[1])) < 1.E-10 && std::abs(g[0] - fa(x[0], x[1])) < 1.E-9 && std::abs(g[1] - fb(x[0], x[1])) < 1.E-9)) {
        if (bad < 5) std::printf("depth %d rule %d x = (%g, %g): value %.15g (exact %.15g), gradient (%.15g, %.15g) (exact (%.15g, %.15g))\n", depth, (int) rule, x[0], x[1], y, f(x[0], x[1]), g[0], g[1], fa(x[0], x[1]), fb(x[0], x[1]));
        bad++; }
    }
  }
  __CPROVER_assert(bad == 0, "C05 Sequence grids reproduce the polynomials of their space and their gradients");
  return 0;
}
'''
def replay(prop):
    def rp(job, ob, vals, wd):
        hdr = "Replay through the public API of the real code.\nproperty %s job %s\nobligation %s: %s\nat %s" % (prop, job.name, ob["name"], ob["description"], ob["location"])
        return RP.write_and_run(prop, job.name + "." + ob["name"], hdr, ['"TasmanianSparseGrid.hpp"', '<cmath>'], REPLAY, "  main_replay();", lib="sg", timeout=60)
    return rp

def jobs(tier, seed, prop):
    R = X.Rules()
    t, info = emit(R)
    cf = ContractFile("contracts/seqcache.c")
    nd, nl, rng = (1, 3, 2) if tier == "quick" else (2, 4, 4)
    pre = '#include "tsg_shim.h"\nint tsg_exc;\n#define TSG_NDIM %d\n#define TSG_NL %d\n#define TSG_RNG %d\n#line 1 "/verif/contracts/seqcache.c"\n' % (nd, nl, rng) + cf.text(("text",))
    return [Job("seqcache.recurrences", pre + t + cf.text(("harness",), ["h_seqcache"]), "h_seqcache", unwind=nl + 2, timeout=600 if tier == "quick" else 2400,
                backends=[["--sat-solver", "cadical"], [], ["--refine-arithmetic"]], functions=["%s:%d %s" % (f["file"], f["line"], f["name"]) for f in info["functions"]], info=info, replay=replay(prop),
                bounded="exact lattice: dimensions <= %d, levels < %d, nodes and x integers in [-%d, %d], coefficients powers of two in [1/4, 4] (every product is exact in double)" % (nd, nl, rng, rng),
                assumed=["nodes / coeff hold what prepareSequence stored (any lattice values here)", "off the lattice rounding is not covered"],
                label="Sequence caches: values obey N_0 = 1, c_i N_i = (x - node_{i-1}) c_{i-1} N_{i-1}; derivatives obey the product rule c_i N_i' = (x - node_{i-1}) c_{i-1} N_{i-1}' + c_{i-1} N_{i-1}; every entry up to max_levels is written")]
