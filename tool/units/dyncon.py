"""Extraction of the dynamic-construction list code (SparseGrids/tsgDConstructGridGlobal.hpp/.cpp):
makeReverseReferenceVector<T>, writeNodeDataList<use_ascii>, readNodeDataList<iomode>, readTensorDataList<iomode>,
DynamicConstructorDataGlobal::write<use_ascii>, DynamicConstructorDataGlobal::clearTesnors.

Rule R5fl (std::forward_list -> singly linked nodes of the shim in contracts/dyncon.c):
  L.begin() -> L->first, L.end() -> NULL, L.before_begin() -> the list's sentinel node, it++ -> it = it->next,
  L.erase_after(p) -> unlink p->next, L.emplace_front(T{...}) -> a pool node linked in front, std::distance(begin,end) -> node count.
The vector of references built by makeReverseReferenceVector is an array of node pointers; a reverse (or forward) iterator over it is an index.
I/O primitives go to the ghost token tape (rule R12, as in iotape.py); vectors are ghost descriptors (identity, length)."""
import re
from .. import tsg2c as X
HPP = "SparseGrids/tsgDConstructGridGlobal.hpp"
CPP = "SparseGrids/tsgDConstructGridGlobal.cpp"

def _io(R, b, ascii_mode):
    b = R.sub("R12-ascii-format", r'if\s*\(\s*use_ascii\s*==\s*mode_ascii\s*\)\s*\{\s*os\s*<<\s*std::scientific\s*;\s*os\.precision\(17\)\s*;\s*\}', '', b)
    def numbers(m, a):
        parts = X.split_top(a)
        return " ".join("tape_write_num((double)(%s));" % q for q in parts[1:]) + " (void)0"
    b = X.balanced_call_sub(R, "R12-writeNumbers", b, r'IO::writeNumbers<[^>]*>\s*(?=\()', numbers)
    b = X.balanced_call_sub(R, "R12-writeVector", b, r'IO::writeVector<[^>]*>\s*(?=\()', lambda m, a: "tape_write_vec(%s)" % X.split_top(a)[0])
    b = R.sub("R12-readNumber", r'IO::readNumber<\s*iomode\s*,\s*(\w+)\s*>\(\s*is\s*\)', r'((\1) tape_read_num())', b)
    b = X.balanced_call_sub(R, "R12-readVector", b, r'IO::readVector<\s*iomode\s*,\s*\w+\s*>\s*(?=\()', lambda m_, a: "tape_read_vec((size_t)(%s))" % X.split_top(a)[1])
    b = X.r2_casts(R, b)
    return b

def _seq(fn, lst, args):
    """a braced initialiser list evaluates its elements left to right (C++11 [dcl.init.list]); C leaves the order of function arguments open, so sequence them"""
    return "{ " + " ".join("__typeof__(%s) a%d_ = %s;" % (a.strip(), i, a.strip()) for i, a in enumerate(args)) + " %s(%s, %s); }(void)0" % (fn, lst, ", ".join("a%d_" % i for i in range(len(args))))

def _range_for_refs(R, b):
    # for(auto d : X_refs){ ... }  ->  index loop over the array of node pointers
    def repl(m):
        R.counts["R6-range-for"] = R.counts.get("R6-range-for", 0) + 1
        v, arr = m.group(1), m.group(2)
        return "for (size_t %s_i = 0; %s_i < %s_size; %s_i++){ const __typeof__(*%s[0]) *%s = %s[%s_i];" % (v, v, arr, v, arr, v, arr, v)
    return re.sub(r'for\s*\(\s*auto\s+(\w+)\s*:\s*(\w+)\s*\)\s*\{', repl, b)

def emit(R, ascii_mode):
    ht = X.strip_comments(X.read_source(HPP))
    ct = X.strip_comments(X.read_source(CPP))
    outs, fns, srcs, emis = [], [], [], []
    def add(p, name, text, body):
        outs.append('#line %d "%s"\n%s' % (p.line, X.REPO + "/" + p.rel, text))
        fns.append({"name": name, "file": p.rel, "line": p.line, "loops": X.count_loops(body)})
        srcs.append(p.body); emis.append(body)
    # --- makeReverseReferenceVector<T>
    (p,) = X.cut(HPP, r'template\s*<class\s+T>\s*std::vector<const\s+T\*>\s+makeReverseReferenceVector\s*\(\s*const\s+std::forward_list<T>\s*&list\s*\)', ht)
    for T in ("NodeData", "TensorData"):
        b = p.body
        b = R.sub("R5fl-distance", r'std::distance\(\s*(\w+)\.begin\(\)\s*,\s*\1\.end\(\)\s*\)', r'tsg_fl_distance_%s(\1)' % T, b)
        b = R.sub("R5-ref-vector", r'std::vector<const\s+T\*>\s+(\w+)\((\w+)\)\s*;', r'const %s **\1 = out; size_t \1_size = \2; __CPROVER_assert(\2 <= TSG_NL, "shim: reference array capacity suffices");' % T, b)
        b = R.sub("R5fl-begin", r'auto\s+(\w+)\s*=\s*list\.begin\(\)\s*;', r'const %s *\1 = list->bb.next;' % T, b)
        m = re.search(r'auto\s+(\w+)\s*=\s*(\w+)\.(r?begin)\(\)\s*;', b)
        if not m:
            raise X.ExtractionBreak("makeReverseReferenceVector: iterator over the reference vector not found")
        it, arr, kind = m.groups()
        b = b[:m.start()] + ("size_t %s = %s_size;" % (it, arr) if kind == "rbegin" else "size_t %s = 0;" % it) + b[m.end():]
        R.counts["R5-index-iterator"] = R.counts.get("R5-index-iterator", 0) + 1
        store = (r'{ %s[--\1] = \2; \2 = \2->next; }' if kind == "rbegin" else r'{ %s[\1++] = \2; \2 = \2->next; }') % arr
        b = R.sub("R5-iterator-store", r'\*(%s)\+\+\s*=\s*&\*(\w+)\+\+\s*;' % it, store, b)
        b = R.sub("R5fl-end", r'\blist\.end\(\)', 'NULL', b)
        b = R.sub("R5-return-vector", r'return\s+%s\s*;' % arr, 'return %s_size;' % arr, b)
        X.check_leftover(b, "makeReverseReferenceVector<%s>" % T)
        add(p, "makeReverseReferenceVector<%s>" % T, "size_t makeReverseReferenceVector_%s(const %sList *list, const %s **out)%s" % (T, T, T, b), b)
    R.require({"R5fl-distance": 2, "R5-ref-vector": 2, "R5fl-begin": 2, "R5-iterator-store": 2, "R5fl-end": 2, "R5-return-vector": 2})
    # --- writeNodeDataList<use_ascii>
    (p,) = X.cut(HPP, r'template<bool\s+use_ascii>\s*void\s+writeNodeDataList\s*\(\s*const\s+std::forward_list<NodeData>\s*&data\s*,\s*std::ostream\s*&os\s*\)', ht)
    def refs_decl(T):
        return lambda m: "const %s *%s[TSG_NL]; size_t %s_size = makeReverseReferenceVector_%s(%s, %s);" % (T, m.group(1), m.group(1), T, m.group(2), m.group(1))
    b = p.body
    b = R.sub("R5-ref-vector-call", r'auto\s+(\w+)\s*=\s*makeReverseReferenceVector\(\s*(\w+)\s*\)\s*;', refs_decl("NodeData"), b)
    b = R.sub("R5-size", r'\b(\w+_refs)\.size\(\)', r'\1_size', b)
    b = _range_for_refs(R, b)
    b = R.sub("R6-range-for-list", r'for\s*\(\s*auto\s+const\s*&\s*(\w+)\s*:\s*data\s*\)\s*\{', r'for (const NodeData *\1_n = data->bb.next; \1_n != NULL; \1_n = \1_n->next){ const NodeData *\1 = \1_n;', b)
    b = re.sub(r'\b(d)\.(point|value)\b', r'\1->\2', b)
    b = _io(R, b, ascii_mode)
    X.check_leftover(b, "writeNodeDataList")
    add(p, "writeNodeDataList<use_ascii>", "void writeNodeDataList(const NodeDataList *data)%s" % b, b)
    # --- readNodeDataList<iomode>
    (p,) = X.cut(HPP, r'template<typename\s+iomode>\s*std::forward_list<NodeData>\s+readNodeDataList\s*\(\s*std::istream\s*&is\s*,\s*size_t\s+num_dimensions\s*,\s*size_t\s+num_outputs\s*\)', ht)
    b = p.body
    b = R.sub("R5fl-local", r'std::forward_list<NodeData>\s+data\s*;', 'NodeDataList *data = result; data->bb.next = NULL;', b)
    b = _io(R, b, ascii_mode)
    b = X.balanced_call_sub(R, "R5fl-emplace-front", b, r'\bdata\.emplace_front\s*(?=\()', lambda m, a: _seq("tsg_fl_emplace_front_NodeData", "data", X.split_top(re.sub(r'^\s*NodeData\s*\{(.*)\}\s*$', r'\1', a, flags=re.S))))
    b = R.sub("R5-return-list", r'return\s+data\s*;', 'return;', b)
    X.check_leftover(b, "readNodeDataList")
    add(p, "readNodeDataList<iomode>", "void readNodeDataList(NodeDataList *result, size_t num_dimensions, size_t num_outputs)%s" % b, b)
    # --- readTensorDataList<iomode>
    (p,) = X.cut(HPP, r'template<typename\s+iomode>\s*std::forward_list<TensorData>\s+readTensorDataList\s*\(\s*std::istream\s*&is\s*,\s*size_t\s+num_dimensions\s*\)', ht)
    b = p.body
    b = R.sub("R5fl-local", r'std::forward_list<TensorData>\s+tensors\s*;', 'TensorDataList *tensors = result; tensors->bb.next = NULL;', b)
    b = _io(R, b, ascii_mode)
    def tens(m, a):
        parts = X.split_top(re.sub(r'^\s*TensorData\s*\{(.*)\}\s*$', r'\1', a, flags=re.S))
        if len(parts) != 4 or not re.match(r'^\s*MultiIndexSet\(\)\s*$', parts[2]) or not re.match(r'^\s*std::vector<bool>\(\)\s*$', parts[3]):
            raise X.ExtractionBreak("readTensorDataList: unexpected TensorData initialiser %r" % a)
        return _seq("tsg_fl_emplace_front_TensorData", "tensors", parts[:2])
    b = X.balanced_call_sub(R, "R5fl-emplace-front", b, r'\btensors\.emplace_front\s*(?=\()', tens)
    b = R.sub("R5-return-list", r'return\s+tensors\s*;', 'return;', b)
    X.check_leftover(b, "readTensorDataList")
    add(p, "readTensorDataList<iomode>", "void readTensorDataList(TensorDataList *result, size_t num_dimensions)%s" % b, b)
    # --- DynamicConstructorDataGlobal::write<use_ascii>
    (p,) = X.cut(CPP, r'template<bool\s+use_ascii>\s*void\s+DynamicConstructorDataGlobal::write\s*\(\s*std::ostream\s*&os\s*\)\s*const', ct)
    b = p.body
    b = R.sub("R5-ref-vector-call", r'auto\s+(\w+)\s*=\s*makeReverseReferenceVector\(\s*(tensors)\s*\)\s*;', lambda m: "const TensorData *%s[TSG_NL]; size_t %s_size = makeReverseReferenceVector_TensorData(&self->tensors, %s);" % (m.group(1), m.group(1), m.group(1)), b)
    b = R.sub("R5-size", r'\b(\w+_refs)\.size\(\)', r'\1_size', b)
    b = _range_for_refs(R, b)
    b = R.sub("R6-range-for-list", r'for\s*\(\s*auto\s+const\s*&\s*(\w+)\s*:\s*tensors\s*\)\s*\{', r'for (const TensorData *\1_n = self->tensors.bb.next; \1_n != NULL; \1_n = \1_n->next){ const TensorData *\1 = \1_n;', b)
    b = re.sub(r'\b(d)\.(weight|tensor)\b', r'\1->\2', b)
    b = _io(R, b, ascii_mode)
    b = R.sub("R10-receiver-call", r'\bwriteNodeDataList<\s*use_ascii\s*>\(\s*data\s*,\s*os\s*\)', 'writeNodeDataList(&self->data)', b)
    X.check_leftover(b, "DynamicConstructorDataGlobal::write")
    add(p, "DynamicConstructorDataGlobal::write<use_ascii>", "void DynamicConstructorDataGlobal_write(const DynamicConstructorDataGlobal *self)%s" % b, b)
    R.require({"R12-writeNumbers": 3, "R12-writeVector": 3, "R12-readNumber": 3, "R12-readVector": 3, "R5fl-emplace-front": 2, "R5-ref-vector-call": 2, "R12-ascii-format": 2})
    info = {"functions": fns, "rules_fired": {k: v for k, v in R.counts.items() if v},
            "fidelity": X.fidelity("\n".join(srcs), "\n".join(emis), extra_vocab=["std", "forward_list", "vector", "distance", "begin", "end", "rbegin", "list", "refs", "auto", "T", "NodeData", "TensorData", "IO", "writeNumbers", "writeVector",
                                   "readNumber", "readVector", "iomode", "use_ascii", "mode_ascii", "os", "is", "pad_line", "pad_rspace", "emplace_front", "data", "tensors", "MultiIndexSet", "bool", "scientific", "precision", "17",
                                   "size", "static_cast", "int", "double", "makeReverseReferenceVector", "writeNodeDataList", "d", "point", "value", "weight", "tensor", "p", "r", "return", "const", "size_t", "*", "&", "<", ">", "(", ")", "{", "}", ",", ";", "++", "=", ":"], slack=60),
            "drops": ["stream formatting (scientific, precision 17): R12-ascii-format", "the points / loaded members of TensorData (rebuilt by reloadPoints after reading, not serialized)"]}
    return "\n".join(outs) + "\n", info

def emit_clear(R):
    ct = X.strip_comments(X.read_source(CPP))
    (p,) = X.cut(CPP, r'void\s+DynamicConstructorDataGlobal::clearTesnors\s*\(\s*\)', ct)
    b = p.body
    m = re.search(r'for\s*\(\s*auto\s+(\w+)\s*=\s*tensors\.(begin|before_begin)\(\)\s*,\s*(\w+)\s*=\s*tensors\.(begin|before_begin)\(\)\s*;', b)
    if not m:
        raise X.ExtractionBreak("clearTesnors: loop header not found")
    a, ka, c, kc = m.groups()
    tr = {"begin": "self->tensors.bb.next", "before_begin": "(&self->tensors.bb)"}
    b = b[:m.start()] + "for (TensorData *%s = %s, *%s = %s;" % (a, tr[ka], c, tr[kc]) + b[m.end():]
    R.counts["R5fl-begin"] = R.counts.get("R5fl-begin", 0) + 2
    b = R.sub("R5fl-end", r'\btensors\.end\(\)', 'NULL', b)
    b = R.sub("R5fl-erase-after", r'\btensors\.erase_after\(\s*(\w+)\s*\)', r'tsg_fl_erase_after_TensorData(\1)', b)
    b = R.sub("R5fl-increment", r'\b(%s|%s)\+\+' % (a, c), r'\1 = \1->next', b)
    X.check_leftover(b, "clearTesnors")
    R.require({"R5fl-end": 1, "R5fl-erase-after": 1, "R5fl-increment": 2})
    info = {"functions": [{"name": "DynamicConstructorDataGlobal::clearTesnors", "file": p.rel, "line": p.line, "loops": X.count_loops(b)}], "rules_fired": {k: v for k, v in R.counts.items() if v},
            "fidelity": X.fidelity(p.body, b, extra_vocab=["tensors", "begin", "before_begin", "end", "erase_after", "auto", "++", "t", "p"], slack=8)}
    return '#line %d "%s"\nvoid DynamicConstructorDataGlobal_clearTesnors(DynamicConstructorDataGlobal *self)%s\n' % (p.line, X.REPO + "/" + p.rel, b), info


def emit_reload(R):
    """DynamicConstructorDataGlobal::reloadPoints: rebuilds the per-tensor `loaded` flags from the stored node list after a read."""
    ct = X.strip_comments(X.read_source(CPP))
    (p,) = X.cut(CPP, r'void\s+DynamicConstructorDataGlobal::reloadPoints\s*\(\s*std::function<int\(int\)>\s+getNumPoints\s*\)', ct)
    b = p.body
    b = R.sub("R6-range-for-list", r'for\s*\(\s*auto\s*&\s*(\w+)\s*:\s*tensors\s*\)\s*\{', r'for (TensorData *\1 = self->tensors.bb.next; \1 != NULL; \1 = \1->next){', b)
    # a loop variable declared by value iterates over COPIES of the elements: what the body writes is lost
    b = R.sub("R6-range-for-list", r'for\s*\(\s*auto\s+(\w+)\s*:\s*tensors\s*\)\s*\{', r'for (TensorData *\1_n = self->tensors.bb.next; \1_n != NULL; \1_n = \1_n->next){ TensorData \1_copy = *\1_n; TensorData *\1 = &\1_copy;', b)
    b = R.sub("R6-range-for-list", r'for\s*\(\s*auto\s+const\s*&\s*(\w+)\s*:\s*data\s*\)\s*\{', r'for (const NodeData *\1 = self->data.bb.next; \1 != NULL; \1 = \1->next){', b)
    b = R.sub("R5g-dummy-set", r'MultiIndexSet\s+dummy_set\(\s*num_dimensions\s*,\s*std::vector<int>\(\s*t\.tensor\s*\)\s*\)\s*;', '', b)
    b = R.sub("R5g-generate", r'\bt\.points\s*=\s*MultiIndexManipulations::generateNestedPoints\(\s*dummy_set\s*,\s*getNumPoints\s*\)\s*;', 't->npoints = tsg_generateNestedPoints(t);', b)
    b = R.sub("R5-bool-vector", r'\bt\.loaded\s*=\s*std::vector<bool>\(\s*\(size_t\)\s*t\.points\.getNumIndexes\(\)\s*,\s*false\s*\)\s*;', 'tsg_loaded_assign(t, (size_t) t->npoints, false);', b)
    b = R.sub("R5g-getSlot", r'\bt\.points\.getSlot\(\s*p\.point\s*\)', 'tsg_getSlot(t, p)', b)
    b = R.sub("R5-bool-subscript", r'\bt\.loaded\[([^\]]+)\]', r't->loaded[tsg_loaded_index(t, \1)]', b)
    b = R.sub("R7-all-of", r'std::all_of\(\s*t\.loaded\.begin\(\)\s*,\s*t\.loaded\.end\(\)\s*,\s*\[\]\s*\(\s*bool\s+(\w+)\s*\)\s*->\s*bool\s*\{\s*return\s+\1\s*;\s*\}\s*\)', 'tsg_all_true(t)', b)
    b = R.sub("R5-clear", r'\bt\.loaded\.clear\(\)', 't->loaded_size = 0', b)
    X.check_leftover(b, "reloadPoints")
    R.require({"R6-range-for-list": 3, "R5g-generate": 1, "R5-bool-vector": 1, "R5g-getSlot": 1, "R5-bool-subscript": 1})
    info = {"functions": [{"name": "DynamicConstructorDataGlobal::reloadPoints", "file": p.rel, "line": p.line, "loops": X.count_loops(b)}], "rules_fired": {k: v for k, v in R.counts.items() if v},
            "fidelity": X.fidelity(p.body, b, extra_vocab=["auto", "tensors", "data", "t", "p", "MultiIndexSet", "dummy_set", "num_dimensions", "std", "vector", "int", "bool", "tensor", "points", "MultiIndexManipulations", "generateNestedPoints",
                                                            "getNumPoints", "loaded", "getNumIndexes", "false", "getSlot", "point", "size_t", "const", "&", ":", "(", ")", "[", "]", ".", "=", ";", ",", "all_of", "begin", "end", "clear", "b", "return", "->"], slack=40)}
    return '#line %d "%s"\nvoid DynamicConstructorDataGlobal_reloadPoints(DynamicConstructorDataGlobal *self)%s\n' % (p.line, X.REPO + "/" + p.rel, b), info


def emit_restrict(R, owner="class DynamicConstructorDataGlobal"):
    """restrictData (inline in the header) of DynamicConstructorDataGlobal or SimpleConstructData: the copy of a grid under construction restricted to an output range."""
    ht = X.strip_comments(X.read_source(HPP))
    cname = owner.split()[1]
    if owner not in ht:
        raise X.ExtractionBreak(owner + " not found")
    cls = ht[ht.index(owner):]
    m = re.search(r'void\s+restrictData\s*\(\s*int\s+ibegin\s*,\s*int\s+iend\s*\)\s*(?=\{)', cls)
    if not m:
        raise X.ExtractionBreak(cname + "::restrictData not found")
    e = X.match_close(cls, m.end())
    b = cls[m.end():e + 1]
    src = b
    b = R.sub("R6-range-for-list", r'for\s*\(\s*auto\s*&\s*(\w+)\s*:\s*data\s*\)', r'for (NodeData *\1 = self->data.bb.next; \1 != NULL; \1 = \1->next)', b)
    # the iterator pair of the range constructor becomes the pair of offsets from begin() (whatever the expressions are)
    def slice_(mm):
        return 'd->value = gvec_slice(d->value, %s, %s)' % (mm.group(1) or "0", mm.group(2) or "0")
    b = R.sub("R5g-slice", r'\bd\.value\s*=\s*std::vector<double>\(\s*d\.value\.begin\(\)\s*(?:\+\s*([^,;]+?))?\s*,\s*d\.value\.begin\(\)\s*(?:\+\s*([^;]+?))?\s*\)(?=\s*;)', slice_, b)
    b = R.sub("R10-member", r'(?<![\w.>])num_outputs\b', 'self->num_outputs', b)
    X.check_leftover(b, "restrictData")
    R.require({"R6-range-for-list": 1, "R5g-slice": 1})
    line = ht[:ht.index(owner)].count("\n") + cls[:m.start()].count("\n") + 1
    info = {"functions": [{"name": cname + "::restrictData", "file": HPP, "line": line, "loops": 1}], "rules_fired": {k: v for k, v in R.counts.items() if v},
            "fidelity": X.fidelity(src, b, extra_vocab=["auto", "d", "data", "value", "std", "vector", "double", "begin", "ibegin", "iend", "num_outputs", "size_t", "&", ":", "+", "=", "(", ")"], slack=12)}
    return '#line %d "%s"\nvoid %s_restrictData(%s *self, int ibegin, int iend)%s\n' % (line, X.REPO + "/" + HPP, cname, cname, b), info
