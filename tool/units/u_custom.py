"""Unit C06: CustomTabulated::write<iomode> / read<iomode> (tsgCoreOneDimensional.cpp) on a token tape: the table of a custom rule (levels, nodes per level,
exactness per level, weights and nodes) is restored by read(write(.)) in both formats, the reader consumes exactly what was written."""
import re
from .. import tsg2c as X
from ..runner import Job
from .. import replay as RP
CPP = "SparseGrids/tsgCoreOneDimensional.cpp"
MEMB = ["description", "num_levels", "num_nodes", "precision", "nodes", "weights"]

def _members(R, b):
    for m in MEMB:
        b = R.sub("R10-member", r'(?<![\w.>])%s\b' % m, 'self->' + m, b)
    return b

def emit(R):
    text = X.strip_comments(X.read_source(CPP))
    (pw,) = X.cut(CPP, r'template<bool\s+iomode>\s*void\s+CustomTabulated::write\s*\(\s*std::ostream\s*&ofs\s*\)\s*const', text)
    b = pw.body
    b = R.sub("R12c-kw", r'ofs\s*<<\s*"description: "\s*<<\s*description\.c_str\(\)\s*<<\s*std::endl\s*;', 'ct_write_kw(KW_description); ct_write_str(description, (int) description.len);', b)
    b = R.sub("R12c-kw", r'ofs\s*<<\s*"levels: "\s*<<\s*([^;<]+?)\s*<<\s*std::endl\s*;', r'ct_write_kw(KW_levels); ct_write_int(\1);', b)
    b = R.sub("R12c-interleave", r'auto\s+x\s*=\s*(\w+)\[l\]\.begin\(\)\s*;\s*for\s*\(\s*auto\s+w\s*:\s*(\w+)\[l\]\s*\)\s*ofs\s*<<\s*w\s*<<\s*" "\s*<<\s*\*x\+\+\s*<<\s*std::endl\s*;', r'ct_write_pairs(\2[l], \1[l]);', b)
    b = R.sub("R12c-two-ints", r'ofs\s*<<\s*([^;<]+?)\s*<<\s*" "\s*<<\s*([^;<]+?)\s*<<\s*std::endl\s*;(?=\s*\})', r'ct_write_int(\1); ct_write_int(\2);', b)
    b = R.sub("R12a-format", r'ofs\s*<<\s*std::scientific\s*;\s*ofs\.precision\(\s*17\s*\)\s*;', '', b)
    b = R.sub("R12c-size", r'\bdescription\.size\(\)', 'description.len', b)
    b = R.sub("R12c-raw-int", r'ofs\.write\(\s*\(char\s*\*\)\s*&\s*(\w+)\s*,\s*sizeof\(int\)\s*\)\s*;', r'ct_write_int(\1);', b)
    b = R.sub("R12c-raw-str", r'ofs\.write\(\s*description\.c_str\(\)\s*,\s*([^;]+?)\s*\*\s*sizeof\(char\)\s*\)\s*;', r'ct_write_str(description, \1);', b)
    b = R.sub("R12c-raw-ivec", r'ofs\.write\(\s*\(char\s*\*\)\s*(\w+)\.data\(\)\s*,\s*([^;]+?)\s*\*\s*sizeof\(int\)\s*\)\s*;', r'ct_write_ivec(\1, \2);', b)
    b = R.sub("R12c-raw-dvec", r'ofs\.write\(\s*\(char\s*\*\)\s*(\w+)\[l\]\.data\(\)\s*,\s*(\w+)\[l\]\.size\(\)\s*\*\s*sizeof\(double\)\s*\)\s*;', r'ct_write_dvec(\1[l], \2[l].len);', b)
    b = X.r2_casts(R, b)
    b = _members(R, b)
    X.check_leftover(b, "CustomTabulated::write")
    (pr,) = X.cut(CPP, r'template<bool\s+iomode>\s*void\s+CustomTabulated::read\s*\(\s*std::istream\s*&is\s*\)', text)
    c = pr.body
    c = R.sub("R12a-string", r'std::string\s+T\s*;\s*char\s+dummy\s*;', 'int T = 0;', c)
    c = R.sub("R12a-word", r'\bis\s*>>\s*T\s*;', 'T = ct_read_kw();', c)
    c = R.sub("R12a-compare", r'\bT\.compare\(\s*"(\w+):"\s*\)', r'(T == KW_\1 ? 0 : 1)', c)
    c = R.sub("R12c-getline", r'is\.get\(\s*dummy\s*\)\s*;\s*description\s*=\s*std::string\(\)\s*;\s*getline\(\s*is\s*,\s*description\s*\)\s*;', 'description = ct_read_str(-1);', c)
    c = R.sub("R12c-read-int", r'\bis\s*>>\s*num_levels\s*;', 'num_levels = ct_read_int();', c)
    c = R.sub("R12c-interleave", r'auto\s+x\s*=\s*(\w+)\[l\]\.begin\(\)\s*;\s*for\s*\(\s*auto\s*&\s*w\s*:\s*(\w+)\[l\]\s*\)\s*is\s*>>\s*w\s*>>\s*\*x\+\+\s*;', r'ct_read_pairs(&\2[l], &\1[l]);', c)
    c = R.sub("R12c-two-ints", r'\bis\s*>>\s*([^;>]+?)\s*>>\s*([^;>]+?)\s*;(?!\s*\})', r'{ \1 = ct_read_int(); \2 = ct_read_int(); }', c)
    c = R.sub("R12c-raw-int", r'is\.read\(\s*\(char\s*\*\)\s*&\s*(\w+)\s*,\s*sizeof\(int\)\s*\)\s*;', r'\1 = ct_read_int();', c)
    c = R.sub("R12c-raw-str", r'std::vector<char>\s+desc\(\s*\(size_t\)\s*num_description\s*\+\s*1\s*\)\s*;\s*is\.read\(\s*desc\.data\(\)\s*,\s*([^;]+?)\s*\)\s*;\s*desc\[num_description\]\s*=\s*\'\\0\'\s*;\s*description\s*=\s*desc\.data\(\)\s*;', r'description = ct_read_str(\1);', c)
    c = R.sub("R12c-raw-ivec", r'is\.read\(\s*\(char\s*\*\)\s*(\w+)\.data\(\)\s*,\s*([^;]+?)\s*\*\s*sizeof\(int\)\s*\)\s*;', r'ct_read_ivec(\1, \2);', c)
    c = R.sub("R12c-raw-dvec", r'is\.read\(\s*\(char\s*\*\)\s*(\w+)\[l\]\.data\(\)\s*,\s*([^;]+?)\s*\*\s*sizeof\(double\)\s*\)\s*;', r'ct_read_dvec(&\1[l], \2);', c)
    c = R.sub("R5g-resize-levels", r'\b(num_nodes|precision|nodes|weights)\.resize\(\s*([^;]+?)\s*\)\s*;', r'ct_resize_levels(\2);', c)
    c = R.sub("R5g-resize-level", r'\b(nodes|weights)\[l\]\.resize\(\s*([^;]+?)\s*\)\s*;', r'ct_resize(&\1[l], \2);', c)
    c = X.r9_throws(R, c)
    c = X.r2_casts(R, c)
    c = _members(R, c)
    X.check_leftover(c, "CustomTabulated::read")
    R.require({"R12c-kw": 2, "R12c-two-ints": 2, "R12c-interleave": 2, "R12c-raw-int": 4, "R12c-raw-ivec": 4, "R12c-raw-dvec": 4, "R12c-raw-str": 2, "R12a-compare": 2})
    out = ""
    for mode in (0, 1):
        for nm, p_, body in (("write", pw, b), ("read", pr, c)):
            out += '#line %d "%s"\nvoid CustomTabulated_%s_%s(CT *self)%s\n' % (p_.line, X.REPO + "/" + p_.rel, nm, "ascii" if mode == 0 else "binary", body.replace("iomode", "1" if mode == 0 else "0").replace("mode_ascii", "1"))
    info = {"functions": [{"name": "CustomTabulated::write<iomode>", "file": pw.rel, "line": pw.line, "loops": X.count_loops(b)}, {"name": "CustomTabulated::read<iomode>", "file": pr.rel, "line": pr.line, "loops": X.count_loops(c)}],
            "rules_fired": {k: v for k, v in R.counts.items() if v},
            "drops": ["stream formatting (scientific, precision)", "the vectors of doubles are ghost descriptors (identity, length); the interleaved weight / node lines of the ASCII format are one token per level"]}
    return out, info

HARNESS = r'''
#ifndef TSG_NL
#define TSG_NL 2
#endif
typedef struct { int id; size_t len; } gvec;
typedef struct { gvec description; int num_levels; int num_nodes[TSG_NL]; int precision[TSG_NL]; gvec nodes[TSG_NL]; gvec weights[TSG_NL]; } CT;
enum { KW_description = 1, KW_levels };
enum { T_KW = 1, T_INT, T_STR, T_IVEC, T_DVEC, T_PAIRS };
typedef struct { int kind; int i; gvec a, b; int iv[TSG_NL]; } token;
#define TAPE_MAX 24
token tape[TAPE_MAX]; int tape_w, tape_r;
static token tok0(int kind){ token t; t.kind = kind; t.i = 0; t.a.id = 0; t.a.len = 0; t.b.id = 0; t.b.len = 0; for (int k = 0; k < TSG_NL; k++) t.iv[k] = 0; return t; }
static void push(token t){ __CPROVER_assert(tape_w < TAPE_MAX, "shim: token tape capacity suffices"); if (tape_w < TAPE_MAX) tape[tape_w++] = t; }
static token pop(int kind){ token t = tok0(0); __CPROVER_assert(tape_r < tape_w, "C06 the reader does not read past what the writer produced");
  if (tape_r < tape_w) { t = tape[tape_r++]; __CPROVER_assert(t.kind == kind, "C06 the reader expects the kind of datum that was written at this position"); } return t; }
void ct_write_kw(int kw){ token t = tok0(T_KW); t.i = kw; push(t); }
int ct_read_kw(void){ return pop(T_KW).i; }
void ct_write_int(int v){ token t = tok0(T_INT); t.i = v; push(t); }
int ct_read_int(void){ return pop(T_INT).i; }
void ct_write_str(gvec s, int n){ __CPROVER_assert(n >= 0 && (size_t) n == s.len, "C06 the whole description is written"); token t = tok0(T_STR); t.a = s; push(t); }
gvec ct_read_str(int n){ token t = pop(T_STR); __CPROVER_assert(n < 0 || (size_t) n == t.a.len, "C06 the reader computes the length of the description that was written"); return t.a; }
void ct_write_ivec(const int *v, int n){ __CPROVER_assert(n >= 0 && n <= TSG_NL, "shim: levels"); token t = tok0(T_IVEC); t.i = n; for (int k = 0; k < TSG_NL; k++) if (k < n) t.iv[k] = v[k]; push(t); }
void ct_read_ivec(int *v, int n){ token t = pop(T_IVEC); __CPROVER_assert(t.i == n, "C06 the reader computes the number of levels that was written"); for (int k = 0; k < TSG_NL; k++) if (k < n) v[k] = t.iv[k]; }
void ct_write_dvec(gvec v, size_t n){ __CPROVER_assert(n == v.len, "C06 a whole vector is written"); token t = tok0(T_DVEC); t.a = v; push(t); }
void ct_read_dvec(gvec *v, int n){ token t = pop(T_DVEC); __CPROVER_assert(n >= 0 && (size_t) n == t.a.len && v->len == t.a.len, "C06 the reader computes the length that was written"); *v = t.a; }
void ct_write_pairs(gvec w, gvec x){ __CPROVER_assert(w.len == x.len, "C06 one node per weight"); token t = tok0(T_PAIRS); t.a = w; t.b = x; push(t); }
void ct_read_pairs(gvec *w, gvec *x){ token t = pop(T_PAIRS); __CPROVER_assert(w->len == t.a.len && x->len == t.b.len, "C06 the reader sized the level as it was written"); *w = t.a; *x = t.b; }
void ct_resize_levels(int n){ __CPROVER_assert(n >= 0 && n <= TSG_NL, "shim: the number of levels fits the harness"); }
void ct_resize(gvec *v, int n){ v->id = 0; v->len = (size_t) n; }
'''
TAIL = r'''
static bool veq(gvec a, gvec b){ return a.len == b.len && (a.len == 0 || a.id == b.id); }
void h_custom(void){
  CT g, r;
  g.num_levels = nondet_int(); __CPROVER_assume(g.num_levels >= 1 && g.num_levels <= TSG_NL);
  g.description.id = nondet_int(); g.description.len = nondet_size_t(); __CPROVER_assume(g.description.id > 0 && g.description.len >= 1 && g.description.len < 100);
  for (int l = 0; l < TSG_NL; l++) { g.num_nodes[l] = nondet_int(); g.precision[l] = nondet_int(); __CPROVER_assume(g.num_nodes[l] >= 1 && g.num_nodes[l] < 50 && g.precision[l] >= 0 && g.precision[l] < 200);
    g.nodes[l].id = nondet_int(); g.weights[l].id = nondet_int(); __CPROVER_assume(g.nodes[l].id > 0 && g.weights[l].id > 0 && g.nodes[l].id != g.weights[l].id);
    g.nodes[l].len = (size_t) g.num_nodes[l]; g.weights[l].len = (size_t) g.num_nodes[l];       /* class invariant: num_nodes[l] nodes and weights on level l */
    r.num_nodes[l] = nondet_int(); r.precision[l] = nondet_int(); r.nodes[l].id = nondet_int(); r.nodes[l].len = nondet_size_t(); r.weights[l].id = nondet_int(); r.weights[l].len = nondet_size_t(); }
  r.num_levels = nondet_int(); r.description.id = nondet_int(); r.description.len = nondet_size_t();
  tape_w = 0; tape_r = 0; tsg_exc = 0;
  WRITE(&g);
  READ(&r);
  __CPROVER_assert(tsg_exc == 0, "C06 a custom table written by write<iomode> is accepted by read<iomode>");
  __CPROVER_assert(tape_r == tape_w, "C06 the reader of the custom table consumes exactly what was written");
  __CPROVER_assert(r.num_levels == g.num_levels && veq(r.description, g.description), "C06 custom table: description and number of levels are restored");
  int a_l = nondet_int(); __CPROVER_assume(a_l >= 0 && a_l < g.num_levels);
  __CPROVER_assert(r.num_nodes[a_l] == g.num_nodes[a_l], "C06 custom table: the number of nodes of every level is restored");
  __CPROVER_assert(r.precision[a_l] == g.precision[a_l], "C06 custom table: the exactness of every level is restored (it drives every selection by quadrature exactness)");
  __CPROVER_assert(veq(r.nodes[a_l], g.nodes[a_l]) && veq(r.weights[a_l], g.weights[a_l]), "C06 custom table: nodes and weights of every level are restored, not swapped");
  __CPROVER_assert(0, "VACUITY-CANARY");
}
'''
REPLAY = r'''
/* On the real library: a Global grid on a custom-tabulated rule whose exactness differs from its node counts is written and read in both formats;
 * the restored grid must select the same points by quadrature exactness and re-write to the same text. */
#include <sstream>
int main_replay(){
  using namespace TasGrid;
  int bad = 0;
  std::vector<int> nn = {1, 2, 3, 5}, prec = {1, 3, 5, 9};
  std::vector<std::vector<double>> nodes(4), weights(4);
  for (int l = 0; l < 4; l++) { TasmanianSparseGrid t = makeGlobalGrid(1, 0, nn[l] - 1, type_level, rule_gausslegendre); nodes[l] = t.getPoints(); weights[l] = t.getQuadratureWeights(); }
  CustomTabulated ct(std::vector<int>(nn), std::vector<int>(prec), std::vector<std::vector<double>>(nodes), std::vector<std::vector<double>>(weights), "replay table");
  for (int binary = 0; binary < 2; binary++) {
    TasmanianSparseGrid g, r; g.makeGlobalGrid(2, 1, 2, type_level, CustomTabulated(ct), std::vector<int>());
    { std::vector<double> p = g.getNeededPoints(), v(g.getNumNeeded()); for (size_t i = 0; i < v.size(); i++) v[i] = std::exp(p[2*i] - 0.5 * p[2*i+1]); g.loadNeededValues(v); }   /* (an update of an unloaded custom grid re-reads the table from a null file name: observation, outside C06) */
    std::stringstream ss; g.write(ss, binary != 0); r.read(ss, binary != 0);
    std::stringstream a, b; g.write(a, false); r.write(b, false);
    if (a.str() != b.str()) { std::printf("%s: the restored grid does not re-write to the text of the original\n", binary ? "binary" : "ascii"); bad++; }
    try { g.updateGlobalGrid(7, type_qptotal); r.updateGlobalGrid(7, type_qptotal); } catch (std::exception &e) { std::printf("%s: update by quadrature exactness throws on the restored grid only: %s\n", binary ? "binary" : "ascii", e.what()); bad++; continue; }
    if (g.getNeededPoints() != r.getNeededPoints()) { std::printf("%s: after updateGlobalGrid(7, type_qptotal) the restored grid needs %d points, the original %d\n", binary ? "binary" : "ascii", r.getNumNeeded(), g.getNumNeeded()); bad++; }
  }
  __CPROVER_assert(bad == 0, "C06 a grid on a custom tabulated rule round-trips with its exactness table");
  return 0;
}
'''
def replay(prop):
    def rp(job, ob, vals, wd):
        hdr = "Replay through the public API of the real library.\nproperty %s job %s\nobligation %s: %s\nat %s" % (prop, job.name, ob["name"], ob["description"], ob["location"])
        return RP.write_and_run(prop, job.name + "." + ob["name"], hdr, ['"TasmanianSparseGrid.hpp"', '<cmath>'], REPLAY, "  main_replay();", lib="sg", timeout=120)
    return rp

def jobs(tier, seed, prop):
    R = X.Rules()
    t, info = emit(R)
    nl = 2 if tier == "quick" else 3
    out = []
    for mode in ("ascii", "binary"):
        src = '#include "tsg_shim.h"\nint tsg_exc;\n#define TSG_NL %d\n#define WRITE CustomTabulated_write_%s\n#define READ CustomTabulated_read_%s\n' % (nl, mode, mode) + HARNESS + t + TAIL
        out.append(Job("custom.roundtrip." + mode, src, "h_custom", unwind=nl + 2, timeout=300, backends=[[], ["--sat-solver", "cadical"]],
                       functions=["%s:%d %s" % (f["file"], f["line"], f["name"]) for f in info["functions"]], info=info, replay=replay(prop),
                       bounded="at most %d levels (full unwinding); any node counts, exactness values, identities" % nl,
                       assumed=["raw ofs.write / is.read of an int, an int array, a char array and a double array deliver the bytes that were written (tokens)", "operator<< / operator>> of numbers round-trip (ASCII)"],
                       label="CustomTabulated write<%s> / read<%s> round trip of the rule table" % (mode, mode)))
    return out
