"""Extraction of the per-family serializers: template<bool iomode> Grid<F>::write (tsgGrid<F>.cpp)
and GridReaderVersion5<Grid<F>>::read<iomode> (tsgGrid<F>.hpp), F in {Global, Sequence,
LocalPolynomial, Wavelet, Fourier}, onto a ghost typed-token tape (rule R12).

Members become ghost descriptors: MultiIndexSet/StorageSet/CustomTabulated -> gobj {id, n},
vectors / Data2D -> gvec {id, len, last}.  Write primitives append a token (kind, identity,
length), read primitives pop one; a wrong kind, an empty tape or a length mismatch is an
assertion failure inside the tape functions.  The recomputations a reader performs after the
data is read (prepareSequence, OneDimensionalWrapper, recomputeTensorRefs, buildInterpolation
Matrix, max_power, rule1D.updateOrder) are dropped by named rules and reported."""
import re
from .. import tsg2c as X

FAMS = ["Global", "Sequence", "LocalPolynomial", "Wavelet", "Fourier"]
OBJ_MEMBERS = {"points", "needed", "values", "tensors", "active_tensors", "updated_tensors", "updated_active_tensors", "custom"}
VEC_MEMBERS = {"surpluses", "coefficients", "fourier_coefs", "parents", "roots", "pntr", "indx", "active_w", "updated_active_w", "max_levels"}
SCALARS = {"num_dimensions", "num_outputs", "alpha", "beta", "rule", "order", "top_level", "effective_rule"}
ALLM = OBJ_MEMBERS | VEC_MEMBERS | SCALARS

def _writer(R, fam, ascii_mode):
    rel = "SparseGrids/tsgGrid%s.cpp" % fam
    text = X.strip_comments(X.read_source(rel))
    (p,) = X.cut(rel, r'template<bool\s+iomode>\s*void\s+Grid%s::write\s*\(\s*std::ostream\s*&os\s*\)\s*const' % fam, text)
    b = p.body
    b = R.sub("R12-ascii-format", r'if\s*\(\s*iomode\s*==\s*mode_ascii\s*\)\s*\{\s*os\s*<<\s*std::scientific\s*;\s*os\.precision\(17\)\s*;\s*\}', '', b)
    b = R.sub("R3-template-param", r'\biomode\s*==\s*mode_ascii\b', '1' if ascii_mode else '0', b)
    def numbers(m, a):
        parts = X.split_top(a)
        return " ".join("tape_write_num((double)(%s));" % q for q in parts[1:]) + " (void)0"
    b = X.balanced_call_sub(R, "R12-writeNumbers", b, r'IO::writeNumbers<[^>]*>\s*(?=\()', numbers)
    b = X.balanced_call_sub(R, "R12-writeRule", b, r'IO::writeRule<[^>]*>\s*(?=\()', lambda m, a: "tape_write_rule((int)(%s))" % X.split_top(a)[0])
    b = X.balanced_call_sub(R, "R12-writeFlag", b, r'IO::writeFlag<[^>]*>\s*(?=\()', lambda m, a: "tape_write_flag(%s)" % X.split_top(a)[0])
    b = X.balanced_call_sub(R, "R12-writeVector", b, r'IO::writeVector<[^>]*>\s*(?=\()', lambda m, a: "tape_write_vec(%s)" % X.split_top(a)[0])
    b = R.sub("R12-member-writeVector", r'\b(\w+)\.writeVector<[^>]*>\(\s*os\s*\)', r'tape_write_vec(\1)', b)
    b = R.sub("R12-member-write", r'\b(\w+)\.write<\s*iomode\s*>\(\s*os\s*\)', r'tape_write_obj(\1)', b)
    b = R.sub("R5g-empty", r'\b(\w+)\.empty\(\)', lambda m: ("(g->%s.n == 0)" if m.group(1) in OBJ_MEMBERS else "(g->%s.len == 0)") % m.group(1), b)
    b = R.sub("R5g-size", r'\b(\w+)\.size\(\)', r'g->\1.len', b)
    b = R.sub("R5g-strips", r'\b(\w+)\.getNumStrips\(\)', r'g->\1.strips', b)
    b = X.r2_casts(R, b)
    b = R.sub("R3-template-call", r'RuleLocal::getRule\(\s*effective_rule\s*\)', 'getRule(g->effective_rule)', b)
    for m_ in ALLM:
        b = R.sub("R10-member", r'(?<![\w.>])%s\b(?!\s*\()' % m_, 'g->' + m_, b)
    b = b.replace("g->g->", "g->")
    X.check_leftover(b, "Grid%s::write" % fam)
    name = "write_%s_%s" % (fam, "ascii" if ascii_mode else "binary")
    return p, '#line %d "%s"\nvoid %s(const G%s *g)%s\n' % (p.line, X.REPO + "/" + p.rel, name, fam, b), b

RECOMPUTE = [
    r'grid->rule1D\.updateOrder\([^;]*\)\s*;', r'grid->prepareSequence\(0\)\s*;', r'grid->buildInterpolationMatrix\(\)\s*;',
    r'grid->wrapper\s*=\s*OneDimensionalWrapper\([^;]*\)\s*;', r'grid->recomputeTensorRefs\([^;]*\)\s*;', r'grid->max_power\s*=\s*MultiIndexManipulations::getMaxIndexes\([^;]*\)\s*;',
    r'oned_max_level\s*=\s*grid->updated_tensors\.getMaxIndex\(\)\s*;', r'oned_max_level\s*=\s*\*std::max_element\([^;]*\)\s*;', r'int\s+oned_max_level\s*;',
]

def _reader(R, fam, ascii_mode):
    rel = "SparseGrids/tsgGrid%s.hpp" % fam
    text = X.strip_comments(X.read_source(rel))
    (ps,) = X.cut(rel, r'template<>\s*struct\s+GridReaderVersion5<Grid%s>' % fam, text)
    m = re.search(r'template<typename\s+iomode>\s*static\s+std::unique_ptr<Grid%s>\s+read\s*\([^)]*\)\s*(?=\{)' % fam, ps.body)
    if not m:
        raise X.ExtractionBreak("GridReaderVersion5<Grid%s>::read not found" % fam)
    e = X.match_close(ps.body, m.end())
    b = ps.body[m.end():e + 1]
    src = b
    line = ps.line + (ps.header + ps.body[:m.start()]).count('\n')
    hoisted = ""
    if fam == "LocalPolynomial":
        hoisted, b = X.hoist_lambda(R, b, "read_LocalPolynomial_max_parents", [("grid", "const GLocalPolynomial *", False)])
        hoisted = R.sub("R3-template-call", r'RuleLocal::getMaxNumParents<RuleLocal::erule::(\w+)>\(\)', r'getMaxNumParents_\1()', hoisted)
        hoisted = R.sub("R3-enum-const", r'RuleLocal::erule::(\w+)', r'erule_\1', hoisted)
        hoisted = hoisted.replace("const GLocalPolynomial * grid", "const GLocalPolynomial *grid")
    b = R.sub("R12-make-grid", r'std::unique_ptr<Grid%s>\s+grid\s*=\s*Utils::make_unique<Grid%s>\(acc\)\s*;' % (fam, fam), '', b)
    b = R.sub("R12-return-grid", r'return\s+grid\s*;', 'return;', b)
    for rx in RECOMPUTE:
        b = R.sub("R12-drop-recompute", rx, '', b)
    b = R.sub("R3-template-param", r'std::is_same<\s*iomode\s*,\s*IO::mode_ascii_type\s*>::value', '1' if ascii_mode else '0', b)
    b = R.sub("R12-readNumber", r'IO::readNumber<\s*iomode\s*,\s*(\w+)\s*>\(\s*is\s*\)', r'((\1) tape_read_num())', b)
    b = R.sub("R12-readRule", r'IO::readRule<\s*iomode\s*>\(\s*is\s*\)', '((TypeOneDRule) tape_read_rule())', b)
    b = R.sub("R12-readFlag", r'IO::readFlag<\s*iomode\s*>\(\s*is\s*\)', 'tape_read_flag()', b)
    b = R.sub("R12-read-object", r'(?:MultiIndexSet|StorageSet|CustomTabulated)\(\s*is\s*,\s*iomode\(\)\s*\)', 'tape_read_obj()', b)
    b = X.balanced_call_sub(R, "R12-readData2D", b, r'IO::readData2D<\s*iomode\s*,\s*\w+\s*>\s*(?=\()',
                            lambda m_, a: "tape_read_vec((size_t)(%s) * (size_t)(%s))" % tuple(X.split_top(a)[1:3]))
    b = X.balanced_call_sub(R, "R12-readVector", b, r'IO::readVector<\s*iomode\s*,\s*\w+\s*>\s*(?=\()', lambda m_, a: "tape_read_vec((size_t)(%s))" % X.split_top(a)[1])
    b = R.sub("R12-readVector-inplace", r'IO::readVector<\s*iomode\s*>\(\s*is\s*,\s*grid->(\w+)\s*\)\s*;', r'grid->\1 = tape_read_vec(grid->\1.len);', b)
    b = R.sub("R5g-sized-vector", r'std::vector<int>\(\s*\(size_t\)\s*(\(\(int\) tape_read_num\(\)\))\s*\)', r'gvec_sized((size_t) \1)', b)
    b = R.sub("R5g-count", r'grid->(\w+)\.getNumIndexes\(\)', r'grid->\1.n', b)
    b = R.sub("R5g-empty", r'grid->(points|needed)\.empty\(\)', r'(grid->\1.n == 0)', b)
    b = R.sub("R5g-size", r'grid->(\w+)\.size\(\)', r'grid->\1.len', b)
    b = R.sub("R5g-last", r'grid->pntr\[num_points\]', 'grid->pntr.last', b)
    b = R.sub("R3-template-call", r'RuleLocal::getEffectiveRule\(', 'getEffectiveRule(', b)
    X.check_leftover(b + hoisted, "GridReaderVersion5<Grid%s>::read" % fam)
    name = "read_%s_%s" % (fam, "ascii" if ascii_mode else "binary")
    out = '#line %d "%s"\n' % (line, X.REPO + "/" + ps.rel) + (hoisted if ascii_mode else "") + '#line %d "%s"\nvoid %s(G%s *grid)%s\n' % (line, X.REPO + "/" + ps.rel, name, fam, b)
    return (ps.rel, line), out, src, b

def emit(R, fam):
    out, fns = [], []
    for am in (True, False):
        p, wt, wb = _writer(R, fam, am)
        (rel, line), rt, rsrc, rb = _reader(R, fam, am)
        out += [wt, rt]
    fns = [{"name": "Grid%s::write<iomode> (ascii and binary instantiations)" % fam, "file": p.rel, "line": p.line, "loops": 0},
           {"name": "GridReaderVersion5<Grid%s>::read<iomode> (ascii and binary instantiations)" % fam, "file": rel, "line": line, "loops": 0}]
    info = {"functions": fns, "rules_fired": {k: v for k, v in R.counts.items() if v},
            "drops": ["post-read recomputations (prepareSequence, OneDimensionalWrapper, recomputeTensorRefs, buildInterpolationMatrix, max_power, rule1D.updateOrder) are dropped by rule R12-drop-recompute",
                      "byte layout / 17-digit ASCII formatting of the primitives of tsgIOHelpers.hpp (assumed callee contracts)"],
            "fidelity": X.fidelity(p.src_body, wb, extra_vocab=["IO", "writeNumbers", "writeRule", "writeFlag", "writeVector", "write", "iomode", "mode_ascii", "os", "pad_rspace", "pad_line", "pad_auto",
                                                                 "empty", "size", "getNumStrips", "scientific", "precision", "17", "getRule", "RuleLocal"] + sorted(ALLM), slack=40)}
    return "\n".join(out), info
