"""Extraction of the per-family serializers: template<bool iomode> Grid<F>::write (tsgGrid<F>.cpp)
and GridReaderVersion5<Grid<F>>::read<iomode> (tsgGrid<F>.hpp), F in {Global, Sequence,
LocalPolynomial, Wavelet, Fourier}, onto a ghost typed-token tape (rule R12).

Members become ghost descriptors: MultiIndexSet/StorageSet/CustomTabulated -> gobj {id, n},
vectors / Data2D -> gvec {id, len, last}.  Write primitives append a token (kind, identity,
length), read primitives pop one; a wrong kind, an empty tape or a length mismatch is an
assertion failure inside the tape functions.  The recomputations a reader performs after the
data is read (prepareSequence, OneDimensionalWrapper, recomputeTensorRefs, buildInterpolation
Matrix, max_power, rule1D.updateOrder) are dropped by named rules and reported."""
import re
from .. import tsg2c as X

FAMS = ["Global", "Sequence", "LocalPolynomial", "Wavelet", "Fourier"]
OBJ_MEMBERS = {"points", "needed", "values", "tensors", "active_tensors", "updated_tensors", "updated_active_tensors", "custom"}
VEC_MEMBERS = {"surpluses", "coefficients", "fourier_coefs", "parents", "roots", "pntr", "indx", "active_w", "updated_active_w", "max_levels"}
SCALARS = {"num_dimensions", "num_outputs", "alpha", "beta", "rule", "order", "top_level", "effective_rule"}
ALLM = OBJ_MEMBERS | VEC_MEMBERS | SCALARS

def _writer(R, fam, ascii_mode):
    rel = "SparseGrids/tsgGrid%s.cpp" % fam
    text = X.strip_comments(X.read_source(rel))
    (p,) = X.cut(rel, r'template<bool\s+iomode>\s*void\s+Grid%s::write\s*\(\s*std::ostream\s*&os\s*\)\s*const' % fam, text)
    b = p.body
    b = R.sub("R12-ascii-format", r'if\s*\(\s*iomode\s*==\s*mode_ascii\s*\)\s*\{\s*os\s*<<\s*std::scientific\s*;\s*os\.precision\(17\)\s*;\s*\}', 'tape_fmt_set = true;' if ascii_mode else '', b)
    b = R.sub("R3-template-param", r'\biomode\s*==\s*mode_ascii\b', '1' if ascii_mode else '0', b)
    def numbers(m, a):
        parts = X.split_top(a)
        return " ".join(("tape_write_dbl((double)(%s));" if q.strip() in ("alpha", "beta") else "tape_write_num((double)(%s));") % q for q in parts[1:]) + " (void)0"
    b = X.balanced_call_sub(R, "R12-writeNumbers", b, r'IO::writeNumbers<[^>]*>\s*(?=\()', numbers)
    b = X.balanced_call_sub(R, "R12-writeRule", b, r'IO::writeRule<[^>]*>\s*(?=\()', lambda m, a: "tape_write_rule((int)(%s))" % X.split_top(a)[0])
    b = X.balanced_call_sub(R, "R12-writeFlag", b, r'IO::writeFlag<[^>]*>\s*(?=\()', lambda m, a: "tape_write_flag(%s)" % X.split_top(a)[0])
    b = X.balanced_call_sub(R, "R12-writeVector", b, r'IO::writeVector<[^>]*>\s*(?=\()', lambda m, a: "tape_write_vec(%s)" % X.split_top(a)[0])
    b = R.sub("R12-member-writeVector", r'\b(\w+)\.writeVector<[^>]*>\(\s*os\s*\)', lambda m: ("tape_write_dvec(%s)" if m.group(1) in ("surpluses", "coefficients", "fourier_coefs") else "tape_write_vec(%s)") % m.group(1), b)
    b = R.sub("R12-member-write", r'\b(\w+)\.write<\s*iomode\s*>\(\s*os\s*\)', r'tape_write_obj(\1)', b)
    b = R.sub("R5g-empty", r'\b(\w+)\.empty\(\)', lambda m: ("(g->%s.n == 0)" if m.group(1) in OBJ_MEMBERS else "(g->%s.len == 0)") % m.group(1), b)
    b = R.sub("R5g-size", r'\b(\w+)\.size\(\)', r'g->\1.len', b)
    b = R.sub("R5g-strips", r'\b(\w+)\.getNumStrips\(\)', r'g->\1.strips', b)
    b = X.r2_casts(R, b)
    b = R.sub("R3-template-call", r'RuleLocal::getRule\(\s*effective_rule\s*\)', 'getRule(g->effective_rule)', b)
    for m_ in ALLM:
        b = R.sub("R10-member", r'(?<![\w.>])%s\b(?!\s*\()' % m_, 'g->' + m_, b)
    b = b.replace("g->g->", "g->")
    X.check_leftover(b, "Grid%s::write" % fam)
    name = "write_%s_%s" % (fam, "ascii" if ascii_mode else "binary")
    return p, '#line %d "%s"\nvoid %s(const G%s *g)%s\n' % (p.line, X.REPO + "/" + p.rel, name, fam, b), b

RECOMPUTE = [
    r'grid->rule1D\.updateOrder\([^;]*\)\s*;', r'grid->prepareSequence\(0\)\s*;', r'grid->buildInterpolationMatrix\(\)\s*;',
    r'grid->recomputeTensorRefs\([^;]*\)\s*;', r'grid->max_power\s*=\s*MultiIndexManipulations::getMaxIndexes\([^;]*\)\s*;',
]

def _reader(R, fam, ascii_mode):
    rel = "SparseGrids/tsgGrid%s.hpp" % fam
    text = X.strip_comments(X.read_source(rel))
    (ps,) = X.cut(rel, r'template<>\s*struct\s+GridReaderVersion5<Grid%s>' % fam, text)
    m = re.search(r'template<typename\s+iomode>\s*static\s+std::unique_ptr<Grid%s>\s+read\s*\([^)]*\)\s*(?=\{)' % fam, ps.body)
    if not m:
        raise X.ExtractionBreak("GridReaderVersion5<Grid%s>::read not found" % fam)
    e = X.match_close(ps.body, m.end())
    b = ps.body[m.end():e + 1]
    src = b
    line = ps.line + (ps.header + ps.body[:m.start()]).count('\n')
    hoisted = ""
    if fam == "LocalPolynomial":
        hoisted, b = X.hoist_lambda(R, b, "read_LocalPolynomial_max_parents", [("grid", "const GLocalPolynomial *", False)])
        hoisted = R.sub("R3-template-call", r'RuleLocal::getMaxNumParents<RuleLocal::erule::(\w+)>\(\)', r'getMaxNumParents_\1()', hoisted)
        hoisted = R.sub("R3-enum-const", r'RuleLocal::erule::(\w+)', r'erule_\1', hoisted)
        hoisted = hoisted.replace("const GLocalPolynomial * grid", "const GLocalPolynomial *grid")
    b = R.sub("R12-make-grid", r'std::unique_ptr<Grid%s>\s+grid\s*=\s*Utils::make_unique<Grid%s>\(acc\)\s*;' % (fam, fam), '', b)
    b = R.sub("R12-return-grid", r'return\s+grid\s*;', 'return;', b)
    for rx in RECOMPUTE:
        b = R.sub("R12-drop-recompute", rx, '', b)
    if fam in ("Global", "Fourier"):
        # the 1-D rule cache: kept as the ghost number of levels it is built for
        b = R.sub("R5g-max-index", r'grid->(\w+)\.getMaxIndex\(\)', r'grid->\1.maxidx', b)
        b = R.sub("R5g-max-element", r'\*std::max_element\(\s*grid->(\w+)\.begin\(\)\s*,\s*grid->\1\.end\(\)\s*\)', r'grid->\1.maxv', b)
        b = X.balanced_call_sub(R, "R12-wrapper-levels", b, r'grid->wrapper\s*=\s*OneDimensionalWrapper\s*(?=\()', lambda m_, a: "grid->wrapper_levels = (%s)" % X.split_top(a)[-4])
        R.require({"R12-wrapper-levels": 1})
    b = R.sub("R3-template-param", r'std::is_same<\s*iomode\s*,\s*IO::mode_ascii_type\s*>::value', '1' if ascii_mode else '0', b)
    b = R.sub("R12-readNumber", r'IO::readNumber<\s*iomode\s*,\s*(\w+)\s*>\(\s*is\s*\)', r'((\1) tape_read_num())', b)
    b = R.sub("R12-readRule", r'IO::readRule<\s*iomode\s*>\(\s*is\s*\)', '((TypeOneDRule) tape_read_rule())', b)
    b = R.sub("R12-readFlag", r'IO::readFlag<\s*iomode\s*>\(\s*is\s*\)', 'tape_read_flag()', b)
    b = R.sub("R12-read-object", r'(?:MultiIndexSet|StorageSet|CustomTabulated)\(\s*is\s*,\s*iomode\(\)\s*\)', 'tape_read_obj()', b)
    b = X.balanced_call_sub(R, "R12-readData2D", b, r'IO::readData2D<\s*iomode\s*,\s*\w+\s*>\s*(?=\()',
                            lambda m_, a: "tape_read_vec((size_t)(%s) * (size_t)(%s))" % tuple(X.split_top(a)[1:3]))
    b = X.balanced_call_sub(R, "R12-readVector", b, r'IO::readVector<\s*iomode\s*,\s*\w+\s*>\s*(?=\()', lambda m_, a: "tape_read_vec((size_t)(%s))" % X.split_top(a)[1])
    b = R.sub("R12-readVector-inplace", r'IO::readVector<\s*iomode\s*>\(\s*is\s*,\s*grid->(\w+)\s*\)\s*;', r'grid->\1 = tape_read_vec(grid->\1.len);', b)
    b = R.sub("R5g-sized-vector", r'std::vector<int>\(\s*\(size_t\)\s*(\(\(int\) tape_read_num\(\)\))\s*\)', r'gvec_sized((size_t) \1)', b)
    b = R.sub("R5g-count", r'grid->(\w+)\.getNumIndexes\(\)', r'grid->\1.n', b)
    b = R.sub("R5g-empty", r'grid->(points|needed)\.empty\(\)', r'(grid->\1.n == 0)', b)
    b = R.sub("R5g-size", r'grid->(\w+)\.size\(\)', r'grid->\1.len', b)
    b = R.sub("R5g-last", r'grid->pntr\[num_points\]', 'grid->pntr.last', b)
    b = R.sub("R3-template-call", r'RuleLocal::getEffectiveRule\(', 'getEffectiveRule(', b)
    X.check_leftover(b + hoisted, "GridReaderVersion5<Grid%s>::read" % fam)
    name = "read_%s_%s" % (fam, "ascii" if ascii_mode else "binary")
    out = '#line %d "%s"\n' % (line, X.REPO + "/" + ps.rel) + (hoisted if ascii_mode else "") + '#line %d "%s"\nvoid %s(G%s *grid)%s\n' % (line, X.REPO + "/" + ps.rel, name, fam, b)
    return (ps.rel, line), out, src, b

def emit(R, fam):
    out, fns = [], []
    for am in (True, False):
        p, wt, wb = _writer(R, fam, am)
        (rel, line), rt, rsrc, rb = _reader(R, fam, am)
        out += [wt, rt]
    fns = [{"name": "Grid%s::write<iomode> (ascii and binary instantiations)" % fam, "file": p.rel, "line": p.line, "loops": 0},
           {"name": "GridReaderVersion5<Grid%s>::read<iomode> (ascii and binary instantiations)" % fam, "file": rel, "line": line, "loops": 0}]
    info = {"functions": fns, "rules_fired": {k: v for k, v in R.counts.items() if v},
            "drops": ["post-read recomputations (prepareSequence, OneDimensionalWrapper, recomputeTensorRefs, buildInterpolationMatrix, max_power, rule1D.updateOrder) are dropped by rule R12-drop-recompute",
                      "byte layout / 17-digit ASCII formatting of the primitives of tsgIOHelpers.hpp (assumed callee contracts)"],
            "fidelity": X.fidelity(p.src_body, wb, extra_vocab=["IO", "writeNumbers", "writeRule", "writeFlag", "writeVector", "write", "iomode", "mode_ascii", "os", "pad_rspace", "pad_line", "pad_auto",
                                                                 "empty", "size", "getNumStrips", "scientific", "precision", "17", "getRule", "RuleLocal"] + sorted(ALLM), slack=40)}
    return "\n".join(out), info


TOP = "SparseGrids/TasmanianSparseGrid.cpp"
def emit_top_binary(R):
    """TasmanianSparseGrid::writeBinary / readBinary (top-level framing) onto the token tape."""
    text = X.strip_comments(X.read_source(TOP))
    (pw,) = X.cut(TOP, r'void\s+TasmanianSparseGrid::writeBinary\s*\(\s*std::ostream\s*&ofs\s*\)\s*const', text)
    b = pw.body
    b = R.sub("R12-magic", r'const\s+char\s*\*TSG\s*=\s*"TSG5"\s*;', 'const char *TSG = "TSG5";', b)
    b = R.sub("R12-magic", r'ofs\.write\(\s*TSG\s*,\s*4\s*\*\s*sizeof\(char\)\s*\)\s*;', 'tape_write_magic(TSG);', b)
    b = X.balanced_call_sub(R, "R12-writeNumbers", b, r'IO::writeNumbers<[^>]*>\s*(?=\()', lambda m, a: "tape_write_char(%s)" % X.split_top(a)[1])
    b = X.balanced_call_sub(R, "R12-writeVector", b, r'IO::writeVector<[^>]*>\s*(?=\()', lambda m, a: "tape_write_vec(self->%s)" % X.split_top(a)[0])
    b = R.sub("R12-base-write", r'\bbase->write\(\s*ofs\s*,\s*mode_binary\s*\)\s*;', 'tape_write_base(self);', b)
    b = R.sub("R12-base-write", r'\bbase->writeConstructionData\(\s*ofs\s*,\s*mode_binary\s*\)\s*;', 'tape_write_construction(self);', b)
    for k in ("isGlobal", "isSequence", "isLocalPolynomial", "isWavelet", "isFourier", "empty"):
        b = R.sub("R10-member-call", r'(?<![\w.>])%s\(\)' % k, 'TT_%s(self)' % k, b)
    b = R.sub("R5g-size", r'\b(domain_transform_a|conformal_asin_power)\.size\(\)', r'self->\1.len', b)
    b = R.sub("R5g-empty", r'\bllimits\.empty\(\)', '(self->llimits.len == 0)', b)
    b = R.sub("R10-member", r'(?<![\w.>])using_dynamic_construction\b', 'self->using_dynamic_construction', b)
    X.check_leftover(b, "writeBinary")
    wt = '#line %d "%s"\nvoid top_writeBinary(const TT *self)%s\n' % (pw.line, X.REPO + "/" + pw.rel, b)
    (pr,) = X.cut(TOP, r'void\s+TasmanianSparseGrid::readBinary\s*\(\s*std::istream\s*&ifs\s*\)', text)
    c = pr.body
    src = c
    c = R.sub("R5g-local-vector", r'std::vector<double>\s+new_domain_transform_a\s*,\s*new_domain_transform_b\s*;', 'gvec new_domain_transform_a = vec_none(), new_domain_transform_b = vec_none();', c)
    c = R.sub("R5g-local-vector", r'std::vector<int>\s+(new_conformal_asin_power|new_llimits)\s*;', r'gvec \1 = vec_none();', c)
    c = R.sub("R12-magic", r'std::vector<char>\s+TSG\(4\)\s*;', 'char TSG[4];', c)
    c = R.sub("R12-magic", r'ifs\.read\(\s*TSG\.data\(\)\s*,\s*4\s*\*\s*sizeof\(char\)\s*\)\s*;', 'tape_read_magic(TSG);', c)
    hoisted, c = X.hoist_lambda(R, c, "readBinary_new_base", [])
    c = X.r9_throws(R, c)
    hoisted = R.sub("R12-read-family", r'return\s+readGridVersion5<(\w+)>\(\s*acceleration\.get\(\)\s*,\s*ifs\s*,\s*IO::mode_binary_type\(\)\s*\)\s*;', r'return tape_read_base(K_\1);', hoisted)
    hoisted = R.sub("R12-null-base", r'return\s+std::unique_ptr<BaseCanonicalGrid>\(\)\s*;', 'return base_none();', hoisted)
    hoisted = X.r9_throws(R, hoisted, ret="return base_none();")
    hoisted = hoisted.replace("static std::unique_ptr<BaseCanonicalGrid> readBinary_new_base", "static gbase readBinary_new_base")
    c = R.sub("R12-new-base", r'std::unique_ptr<BaseCanonicalGrid>\s+new_base\s*=', 'gbase new_base =', c)
    c = R.sub("R9-propagate", r'(gbase new_base = readBinary_new_base\([^;]*\);)', r'\1 if (tsg_exc) return;', c)
    c = R.sub("R12-readNumber", r'IO::readNumber<\s*IO::mode_binary_type\s*,\s*char\s*>\(\s*ifs\s*\)', 'tape_read_char()', c)
    c = X.balanced_call_sub(R, "R12-readVector", c, r'IO::readVector<\s*IO::mode_binary_type\s*,\s*\w+\s*>\s*(?=\()', lambda m, a: "tape_read_vec((size_t)(%s))" % X.split_top(a)[1])
    c = R.sub("R10-base-call", r'\bnew_base->getNumDimensions\(\)', 'base_dims(&new_base)', c)
    c = R.sub("R12-base-read", r'\bnew_base->readConstructionData\(\s*ifs\s*,\s*mode_binary\s*\)\s*;', 'tape_read_construction(&new_base); if (tsg_exc) return;', c)
    c = R.sub("R10-member-call", r'(?<![\w.>])clear\(\)\s*;', 'TT_clear(self);', c)
    c = R.sub("R2-std-move", r'std::move\((\w+)\)', r'\1', c)
    for mname in ("base", "domain_transform_a", "domain_transform_b", "conformal_asin_power", "llimits", "using_dynamic_construction"):
        c = R.sub("R10-member", r'(?<![\w.>_])%s\s*=(?!=)' % mname, 'self->%s =' % mname, c)
    X.check_leftover(c + hoisted, "readBinary")
    R.require({"R12-read-family": 5, "R12-readVector": 4, "R12-readNumber": 5, "R12-writeNumbers": 10, "R7-hoist": 1})
    rt = '#line %d "%s"\n%s#line %d "%s"\nvoid top_readBinary(TT *self)%s\n' % (pr.line, X.REPO + "/" + pr.rel, hoisted, pr.line, X.REPO + "/" + pr.rel, c)
    info = {"functions": [{"name": "TasmanianSparseGrid::writeBinary", "file": pw.rel, "line": pw.line, "loops": 0}, {"name": "TasmanianSparseGrid::readBinary", "file": pr.rel, "line": pr.line, "loops": 0}],
            "rules_fired": {k: v for k, v in R.counts.items() if v},
            "drops": ["the ASCII framing (writeAscii / readAscii: string parsing, stoi) is not under this contract", "the family serializers are single tokens here (they are the per-family jobs)"]}
    return wt + rt, info


KW = ["TASMANIAN SG end", "WARNING: do not edit this manually", "global", "sequence", "localpolynomial", "wavelet", "fourier", "empty", "custom", "canonical",
      "asinconformal", "nonconformal", "limited", "unlimited", "constructing", "static"]
def _kw(sx):
    return "KW_" + re.sub(r'\W+', '_', sx.strip()).strip('_')

def emit_top_ascii(R):
    """TasmanianSparseGrid::writeAscii / readAscii (top-level framing) onto a line-oriented token tape.  The header line with the version (reader: the
    statements up to the WARNING line) is cut out: its version test is the job iotape.version_check."""
    text = X.strip_comments(X.read_source(TOP))
    (pw,) = X.cut(TOP, r'void\s+TasmanianSparseGrid::writeAscii\s*\(\s*std::ostream\s*&ofs\s*\)\s*const', text)
    b = pw.body
    b = R.sub("R12a-header", r'ofs\s*<<\s*"TASMANIAN SG "\s*<<\s*getVersion\(\)\s*<<\s*\'\\n\'\s*;', 'tape_write_line(KW_HEADER);', b)
    b = R.sub("R12a-line", r'ofs\s*<<\s*"([^"\\]+)\\n"\s*;', lambda m: 'tape_write_line(%s);' % _kw(m.group(1)), b)
    b = R.sub("R12a-line", r'ofs\s*<<\s*"([^"\\]+)"\s*<<\s*std::endl\s*;', lambda m: 'tape_write_line(%s);' % _kw(m.group(1)), b)
    b = R.sub("R12a-format", r'ofs\s*<<\s*std::scientific\s*;\s*ofs\.precision\(\s*17\s*\)\s*;', '', b)
    b = R.sub("R12a-pairs", r'for\s*\(\s*int\s+j\s*=\s*0\s*;\s*j\s*<\s*base->getNumDimensions\(\)\s*;\s*j\+\+\s*\)\s*\{\s*ofs\s*<<\s*(\w+)\[j\]\s*<<\s*" "\s*<<\s*(\w+)\[j\]\s*<<\s*\'\\n\'\s*;\s*\}',
              r'tape_write_pairs(self->\1, self->\2, base_dims(&self->base));', b)
    b = X.balanced_call_sub(R, "R12-writeVector", b, r'IO::writeVector<[^>]*>\s*(?=\()', lambda m, a: "tape_write_vec(self->%s)" % X.split_top(a)[0])
    b = R.sub("R12-base-write", r'\bbase->write\(\s*ofs\s*,\s*mode_ascii\s*\)\s*;', 'tape_write_base(self);', b)
    b = R.sub("R12-base-write", r'\bbase->writeConstructionData\(\s*ofs\s*,\s*mode_ascii\s*\)\s*;', 'tape_write_construction(self);', b)
    for k in ("isGlobal", "isSequence", "isLocalPolynomial", "isWavelet", "isFourier", "empty"):
        b = R.sub("R10-member-call", r'(?<![\w.>])%s\(\)' % k, 'TT_%s(self)' % k, b)
    b = R.sub("R5g-size", r'\b(domain_transform_a|conformal_asin_power)\.size\(\)', r'self->\1.len', b)
    b = R.sub("R5g-empty", r'\bllimits\.empty\(\)', '(self->llimits.len == 0)', b)
    b = R.sub("R10-member", r'(?<![\w.>])using_dynamic_construction\b', 'self->using_dynamic_construction', b)
    X.check_leftover(b, "writeAscii")
    wt = '#line %d "%s"\nvoid top_writeAscii(const TT *self)%s\n' % (pw.line, X.REPO + "/" + pw.rel, b)
    (pr,) = X.cut(TOP, r'void\s+TasmanianSparseGrid::readAscii\s*\(\s*std::istream\s*&ifs\s*\)', text)
    c = pr.body
    # cut out the header: from the declaration of `message` to the end of the statement that tests the WARNING line
    m1 = re.search(r'std::string\s+message\s*=', c)
    m2 = re.search(r'getline\(\s*ifs\s*,\s*T\s*\)\s*;\s*if\s*\(\s*!\(T\.compare\("WARNING: do not edit this manually"\)\s*==\s*0\)\s*\)\s*\{[^{}]*\}', c)
    if not m1 or not m2 or m2.start() < m1.start():
        raise X.ExtractionBreak("readAscii: the header section (message ... WARNING line) was not found")
    c = c[:m1.start()] + c[m2.end():]
    R.counts["R12a-header-cut"] = 1
    c = R.sub("R5g-local-vector", r'std::vector<double>\s+new_domain_transform_a\s*,\s*new_domain_transform_b\s*;', 'gvec new_domain_transform_a = vec_none(), new_domain_transform_b = vec_none();', c)
    c = R.sub("R5g-local-vector", r'std::vector<int>\s+(new_conformal_asin_power|new_llimits)\s*;', r'gvec \1 = vec_none();', c)
    c = R.sub("R12-new-base", r'std::unique_ptr<BaseCanonicalGrid>\s+new_base\s*;', 'gbase new_base = base_none();', c)
    c = R.sub("R12a-string", r'std::string\s+T\s*;', 'int T = KW_NONE;', c)
    c = R.sub("R12a-word", r'\bifs\s*>>\s*T\s*;', 'T = tape_read_word();', c)
    c = R.sub("R12a-getline", r'\bgetline\(\s*ifs\s*,\s*T\s*\)\s*;', 'T = tape_getline();', c)
    c = R.sub("R12a-compare", r'\bT\.compare\(\s*"([^"]*)"\s*\)', lambda m: 'tsg_kwcmp(T, %s)' % _kw(m.group(1)), c)
    c = R.sub("R12-read-family", r'\bnew_base\s*=\s*readGridVersion5<(\w+)>\(\s*acceleration\.get\(\)\s*,\s*ifs\s*,\s*IO::mode_ascii_type\(\)\s*\)\s*;', r'new_base = tape_read_base_a(K_\1);', c)
    c = R.sub("R5g-resize", r'\bnew_domain_transform_[ab]\.resize\(\s*new_base->getNumDimensions\(\)\s*\)\s*;', '', c)
    c = R.sub("R12a-pairs", r'for\s*\(\s*int\s+j\s*=\s*0\s*;\s*j\s*<\s*new_base->getNumDimensions\(\)\s*;\s*j\+\+\s*\)\s*\{\s*ifs\s*>>\s*(\w+)\[j\]\s*>>\s*(\w+)\[j\]\s*;\s*\}',
              r'tape_read_pairs(&\1, &\2, base_dims(&new_base));', c)
    c = X.balanced_call_sub(R, "R12-readVector", c, r'IO::readVector<\s*IO::mode_ascii_type\s*,\s*\w+\s*>\s*(?=\()', lambda m, a: "tape_read_vec_a((size_t)(%s))" % X.split_top(a)[1])
    c = R.sub("R5g-empty-vector", r'=\s*std::vector<int>\(\)\s*;', '= vec_none();', c)
    c = R.sub("R10-base-call", r'\bnew_base->getNumDimensions\(\)', 'base_dims(&new_base)', c)
    c = R.sub("R12-base-read", r'\bnew_base->readConstructionData\(\s*ifs\s*,\s*mode_ascii\s*\)\s*;', 'tape_read_construction_a(&new_base);', c)
    c = X.r9_throws(R, c)
    c = R.sub("R10-member-call", r'(?<![\w.>])clear\(\)\s*;', 'TT_clear(self);', c)
    c = R.sub("R2-std-move", r'std::move\((\w+)\)', r'\1', c)
    for mname in ("base", "domain_transform_a", "domain_transform_b", "conformal_asin_power", "llimits", "using_dynamic_construction"):
        c = R.sub("R10-member", r'(?<![\w.>_])%s\s*=(?!=)' % mname, 'self->%s =' % mname, c)
    X.check_leftover(c, "readAscii")
    R.require({"R12-read-family": 5, "R12-readVector": 2, "R12a-getline": 6, "R12a-compare": 12, "R12a-line": 12, "R12a-pairs": 2, "R12a-word": 1})
    rt = '#line %d "%s"\nvoid top_readAscii(TT *self)%s\n' % (pr.line, X.REPO + "/" + pr.rel, c)
    kws = "enum { KW_NONE = 0, KW_EMPTYLINE, KW_HEADER, " + ", ".join(_kw(k) for k in KW) + " };\n"
    info = {"functions": [{"name": "TasmanianSparseGrid::writeAscii", "file": pw.rel, "line": pw.line, "loops": 1}, {"name": "TasmanianSparseGrid::readAscii (after the header lines)", "file": pr.rel, "line": pr.line, "loops": 1}],
            "rules_fired": {k: v for k, v in R.counts.items() if v},
            "drops": ["readAscii: the statements that parse the first two lines (TASMANIAN SG <version>, WARNING line); the version test is iotape.version_check",
                      "text lines become keyword tokens; `ifs >> x` and the family readers leave the rest of their line for the next getline (flag on the tape)", "number formatting (scientific, precision 17)"]}
    return kws, wt + rt, info

def emit_version_check(R):
    """The version test of TasmanianSparseGrid::readAscii (block selector): from `if (vmajor < 3)` to the end of the future-version test."""
    text = X.strip_comments(X.read_source(TOP))
    (p,) = X.cut(TOP, r'void\s+TasmanianSparseGrid::readAscii\s*\(\s*std::istream\s*&ifs\s*\)', text)
    m = re.search(r'if\s*\(\s*vmajor\s*<\s*3\s*\)[^;]*;\s*if\s*\(', p.body)
    if not m:
        raise X.ExtractionBreak("readAscii: version test not found")
    k = m.end() - 1
    e = X.match_close(p.body, k, '(', ')')
    k2 = e + 1
    while p.body[k2] in ' \t\r\n': k2 += 1
    e2 = X.match_close(p.body, k2)
    b = p.body[m.start():e2 + 1]
    src = b
    b = R.sub("R9-message", r'message\s*\+=\s*[^;]*;', '', b)
    b = X.r9_throws(R, b)
    b = R.sub("R10-member-call", r'(?<![\w.>])getVersion(Major|Minor)\(\)', r'g_version_\1', b)
    X.check_leftover(b, "readAscii version test")
    R.require({"R9-throw-runtime_error": 2, "R10-member-call": 1})
    line = p.line + (p.header + p.body[:m.start()]).count('\n')
    out = '#line %d "%s"\nvoid version_check(int vmajor, int vminor){ %s }\n' % (line, X.REPO + "/" + p.rel, b)
    return out, {"functions": [{"name": "TasmanianSparseGrid::readAscii (version test)", "file": p.rel, "line": line, "loops": 0}], "rules_fired": {k: v for k, v in R.counts.items() if v},
                 "fidelity": X.fidelity(src, b, extra_vocab=["message", "to_string", "runtime_error", "getVersionMajor", "getVersionMinor", "+", "+="], slack=6)}


def emit_update_invariant(R, fam):
    """Grid<F>::updateGrid (F in Global, Fourier) over a ghost index set {empty, contains the current tensors}: establishes the clause of
    well_formed_F that the round-trip harness assumes for a pending refinement (updated_tensors is empty or a superset of tensors)."""
    rel = "SparseGrids/tsgGrid%s.cpp" % fam
    text = X.strip_comments(X.read_source(rel))
    (p,) = X.cut(rel, r'void\s+Grid%s::updateGrid\s*\(\s*int\s+depth\s*,\s*TypeDepth\s+type\s*,\s*const\s+std::vector<int>\s*&anisotropic_weights\s*,\s*const\s+std::vector<int>\s*&level_limits\s*\)' % fam, text)
    b = p.body
    b = X.balanced_call_sub(R, "R10-receiver-call", b, r'(?<![\w.>])makeGrid\s*(?=\()', lambda m, a: "fam_makeGrid(self)")
    b = R.sub("R10-receiver-call", r'(?<![\w.>])(clearRefinement|proposeUpdatedTensors)\(\)', r'fam_\1(self)', b)
    b = X.balanced_call_sub(R, "R5s-select", b, r'(?<![\w.>])selectTensors\s*(?=\()', lambda m, a: "gset_selected()")
    b = R.sub("R5s-minus", r'\bupdated_tensors\s*-\s*tensors\b', 'gset_minus_tensors(self->updated_tensors)', b)
    b = R.sub("R5s-plus", r'\bupdated_tensors\s*\+=\s*(\w+)\s*;', lambda m: 'self->updated_tensors = gset_plus_tensors(self->updated_tensors);' if m.group(1) == "tensors" else 'self->updated_tensors = gset_plus_other(self->updated_tensors);', b)
    b = R.sub("R5s-local", r'\bMultiIndexSet\s+(\w+)\s*=', r'gset \1 =', b)
    b = R.sub("R5s-none", r'\bMultiIndexSet\(\)', 'gset_none()', b)
    b = R.sub("R5s-empty", r'(\)|\b\w+)\.empty\(\)', lambda m: ("self->points_empty" if m.group(1) == "points" else m.group(1) + ".empty"), b)
    b = R.sub("R10-member", r'(?<![\w.>])(num_outputs|updated_tensors)\b(?!\()', r'self->\1', b)
    b = b.replace("self->self->", "self->")
    X.check_leftover(b, "Grid%s::updateGrid" % fam)
    R.require({"R5s-select": 1, "R5s-minus": 1, "R5s-plus": 1, "R10-receiver-call": 3})
    info = {"functions": [{"name": "Grid%s::updateGrid" % fam, "file": p.rel, "line": p.line, "loops": 0}], "rules_fired": {k: v for k, v in R.counts.items() if v},
            "fidelity": X.fidelity(p.body, b, extra_vocab=["makeGrid", "clearRefinement", "proposeUpdatedTensors", "selectTensors", "updated_tensors", "tensors", "MultiIndexSet", "empty", "points", "num_outputs", "-", "+=", "="], slack=40)}
    return '#line %d "%s"\nvoid updateGrid_%s(GU *self)%s\n' % (p.line, X.REPO + "/" + p.rel, fam, b), info


IOH = "SparseGrids/tsgIOHelpers.hpp"
def emit_rulemap(R):
    """IO::getIntRuleMap, IO::getRuleInt(int) and IO::getRuleInt(TypeOneDRule): the integer codes of the rules in binary files."""
    text = X.strip_comments(X.read_source(IOH))
    outs, fns, srcs, emis = [], [], [], []
    (p,) = X.cut(IOH, r'inline\s+std::vector<TypeOneDRule>\s+getIntRuleMap\s*\(\s*\)', text)
    b = R.sub("R5-return-init-list", r'return\s*\{([^}]*)\}\s*;', r'static const TypeOneDRule tab_[] = {\1}; *n_ = sizeof(tab_) / sizeof(tab_[0]); return tab_;', p.body)
    outs.append('#line %d "%s"\nconst TypeOneDRule *getIntRuleMap(size_t *n_)%s' % (p.line, X.REPO + "/" + p.rel, b))
    fns.append({"name": "IO::getIntRuleMap", "file": p.rel, "line": p.line, "loops": 0}); srcs.append(p.body); emis.append(b)
    for nm, sig, chdr in (("getRuleInt(int)", r'inline\s+TypeOneDRule\s+getRuleInt\s*\(\s*int\s+r\s*\)', "TypeOneDRule getRuleInt_from_int(int r)"),
                          ("getRuleInt(TypeOneDRule)", r'inline\s+int\s+getRuleInt\s*\(\s*TypeOneDRule\s+rule\s*\)', "int getRuleInt_from_rule(TypeOneDRule rule)")):
        (p,) = X.cut(IOH, sig, text)
        b = p.body
        b = R.sub("R5-local-vector", r'auto\s+rmap\s*=\s*getIntRuleMap\(\)\s*;', 'size_t rmap_size; const TypeOneDRule *rmap = getIntRuleMap(&rmap_size);', b)
        b = R.sub("R5-size", r'\brmap\.size\(\)', 'rmap_size', b)
        # std::distance(begin, std::find_if(begin, end, [&](T v)->bool{ return (PRED); }))  ->  index of the first element with PRED, or the size
        b = R.sub("R7-find-if-index", r'std::distance\(\s*rmap\.begin\(\)\s*,\s*std::find_if\(\s*rmap\.begin\(\)\s*,\s*rmap\.end\(\)\s*,\s*\[&\]\s*\(\s*TypeOneDRule\s+(\w+)\s*\)\s*->\s*bool\s*\{\s*return\s*([^;]*);\s*\}\s*\)\s*\)',
                  lambda m: "tsg_find_index(rmap, rmap_size, rule) /* first k with %s */" % re.sub(r'\b%s\b' % m.group(1), 'rmap[k]', m.group(2)).strip(), b)
        X.check_leftover(b, nm)
        outs.append('#line %d "%s"\n%s%s' % (p.line, X.REPO + "/" + p.rel, chdr, b))
        fns.append({"name": "IO::" + nm, "file": p.rel, "line": p.line, "loops": 0}); srcs.append(p.body); emis.append(b)
    m = re.search(r'first k with \(?\s*rmap\[k\]\s*==\s*rule\s*\)?', "\n".join(emis))
    if not m:
        raise X.ExtractionBreak("getRuleInt(TypeOneDRule): the search predicate is no longer `r == rule`; tsg_find_index must follow")
    R.require({"R5-return-init-list": 1, "R5-local-vector": 2, "R7-find-if-index": 1})
    info = {"functions": fns, "rules_fired": {k: v for k, v in R.counts.items() if v},
            "fidelity": X.fidelity("\n".join(srcs), "\n".join(emis), extra_vocab=["auto", "rmap", "getIntRuleMap", "size", "std", "distance", "find_if", "begin", "end", "TypeOneDRule", "r", "rule", "bool", "return", "==", "[", "]", "&", "->", "(", ")"], slack=30)}
    return "\n".join(outs) + "\n", info
