"""Extraction of the conformal (asin) maps of TasmanianSparseGrid: mapConformalCanonicalToTransformed,
mapConformalTransformedToCanonical<double>, mapConformalWeights (SparseGrids/TasmanianSparseGrid.cpp).

Rule R13 turns lgamma/log/exp/abs into uninterpreted operations (any value), so the unit does not decide the
values of the map; it decides the index discipline of the per-dimension coefficient tables (rule R14 below),
the memory safety of the tables, the frame and the two exact facts (no transform => untouched, 0 maps to 0).

Rule R14 (dimension-indexed access): every subscript of a per-dimension object (c, p, dc, dp, cm,
conformal_asin_power, this_x) is wrapped as NAME[TSG_ROW(e)], which asserts e == j, the coordinate being mapped:
the map is separable, coordinate j is a function of x[j] and row j only."""
import re
from .. import tsg2c as X
CPP = "SparseGrids/TasmanianSparseGrid.cpp"

ROWS = ("c", "p", "dc", "dp")

def _body(R, b, tables):
    b = R.sub("R3-template-param", r'\bFloatType\b', 'double', b)
    b = R.sub("R10-member", r'(?<![\w.>])conformal_asin_power\.size\(\)', 'self->conformal_asin_power_size', b)
    b = R.sub("R5-row-resize", r'\b(%s)\[([^\]]+)\]\.resize\(([^;]*)\)\s*;' % "|".join(tables),
              r'{ __CPROVER_assert((\3) >= 0 && (\3) <= TSG_NP, "shim: row capacity suffices"); \1_len[TSG_ROW(\2)] = (size_t)(\3); }', b)
    b = R.sub("R14-table", r'\b(%s)\[([^\]]+)\]\[([^\]]+)\]' % "|".join(tables), r'\1[TSG_ROW(\2)][TSG_COL(\1, \2, \3)]', b)
    b = X.r5_local_vectors(R, b, {"cm": "TSG_NDIM"})
    b = R.sub("R14-vector", r'(?<![\w.>])(cm|this_x)\[([^\]]+)\]', r'\1[TSG_ROW(\2)]', b)
    b = R.sub("R14-member", r'(?<![\w.>])conformal_asin_power\[([^\]]+)\]', r'self->conformal_asin_power[TSG_ROW(\1)]', b)
    # 2-D tables: vector<vector<double>> a(n), b(n);
    def decl(m):
        names = [re.match(r'^(\w+)\s*\(\s*num_dimensions\s*\)$', d) for d in X.split_top(m.group(1))]
        if not all(names):
            raise X.ExtractionBreak("conformal: unexpected table declaration %r" % m.group(0))
        R.counts["R5-vector2d"] = R.counts.get("R5-vector2d", 0) + len(names)
        return " ".join("double %s[TSG_NDIM][TSG_NP]; size_t %s_len[TSG_NDIM]; __CPROVER_assert(num_dimensions <= TSG_NDIM, \"shim: table rows\");" % (n.group(1), n.group(1)) for n in names)
    b = re.sub(r'std::vector<\s*std::vector<\s*double\s*>\s*>\s+([^;]*);', decl, b)
    # point storage
    b = R.sub("R5-wrapper2d", r'Utils::Wrapper2D<\s*double\s*>\s+xwrap\s*\(\s*num_dimensions\s*,\s*x\s*\)\s*;', '', b)
    b = R.sub("R5-strip", r'\b(?:xwrap|x)\.getStrip\(([^)]*)\)', r'(&x[(size_t)(\1) * (size_t) num_dimensions])', b)
    # R13
    b = R.sub("R13-fp-test", r'while\s*\(([^{]*?)>\s*Maths::num_tol\s*\)\s*\{', r'while (tsg_fp_gt(\1, 1.E-12)) {', b)
    b = X.r2_std_math(R, b)
    b = R.sub("R13-libm", r'(?<![\w.>_])(?:std::)?(lgamma|log|exp|fabs)\s*\(', r'tsg_u_\1(', b)
    return b

def emit(R):
    text = X.strip_comments(X.read_source(CPP))
    outs, fns, srcs, emis = [], [], [], []
    specs = [
        ("mapConformalCanonicalToTransformed", r'void\s+TasmanianSparseGrid::mapConformalCanonicalToTransformed\s*\(\s*int\s+num_dimensions\s*,\s*int\s+num_points\s*,\s*double\s+x\[\]\s*\)\s*const',
         "void mapConformalCanonicalToTransformed(const TSGT *self, int num_dimensions, int num_points, double x[])", ("c", "p")),
        ("mapConformalTransformedToCanonical", r'template<typename\s+FloatType>\s*void\s+TasmanianSparseGrid::mapConformalTransformedToCanonical\s*\(\s*int\s+num_dimensions\s*,\s*int\s+num_points\s*,\s*Data2D<FloatType>\s*&x\s*\)\s*const',
         "void mapConformalTransformedToCanonical(const TSGT *self, int num_dimensions, int num_points, double x[])", ROWS),
        ("mapConformalWeights", r'void\s+TasmanianSparseGrid::mapConformalWeights\s*\(\s*int\s+num_dimensions\s*,\s*int\s+num_points\s*,\s*double\s+weights\[\]\s*\)\s*const',
         "void mapConformalWeights(const TSGT *self, int num_dimensions, int num_points, double weights[])", ("c", "p")),
    ]
    for nm, sig, chdr, tables in specs:
        (p,) = X.cut(CPP, sig, text)
        b = p.body
        if nm == "mapConformalWeights":
            b = R.sub("R5-data2d-local", r'Data2D<\s*double\s*>\s+x\s*\(\s*num_dimensions\s*,\s*num_points\s*\)\s*;',
                      'double x[TSG_NDIM * TSG_NPTS]; __CPROVER_assert(num_dimensions * num_points <= TSG_NDIM * TSG_NPTS, "shim: point storage");', b)
            b = R.sub("R10-base-call", r'\bbase\s*->\s*getPoints\s*\(\s*x\.getStrip\(0\)\s*\)\s*;', 'base_getPoints(self, x);', b)
        b = _body(R, b, tables)
        X.check_leftover(chdr + b, nm)
        outs.append('#line %d "%s"\n%s%s' % (p.line, X.REPO + "/" + p.rel, chdr, b))
        fns.append({"name": "TasmanianSparseGrid::" + nm, "file": p.rel, "line": p.line, "loops": X.count_loops(b)})
        srcs.append(p.body); emis.append(b)
    R.require({"R5-vector2d": 8, "R5-row-resize": 8, "R14-table": 20, "R14-vector": 20, "R14-member": 10, "R13-libm": 20, "R13-fp-test": 1, "R5-strip": 3, "R5-local-vector": 3})
    info = {"functions": fns, "rules_fired": {k: v for k, v in R.counts.items() if v},
            "fidelity": X.fidelity("\n".join(srcs), "\n".join(emis),
                                   extra_vocab=["FloatType", "conformal_asin_power", "size", "resize", "c", "p", "dc", "dp", "cm", "this_x", "x", "xwrap", "getStrip", "Utils", "Wrapper2D", "Data2D", "base", "getPoints",
                                                "num_dimensions", "num_points", "Maths", "num_tol", "lgamma", "log", "exp", "abs", "vector", "double", "j", "k", "i", "0", "(", ")", "[", "]", "<", ">", ",", ";"], slack=40),
            "drops": ["the float instantiation of mapConformalTransformedToCanonical", "values of lgamma/log/exp/abs (R13: any value)"]}
    return "\n".join(outs) + "\n", info


def emit_composition(R):
    """formTransformedPoints and formCanonicalPoints<double>: the order in which the conformal and the linear maps are composed."""
    text = X.strip_comments(X.read_source(CPP))
    outs, fns, srcs, emis = [], [], [], []
    (p,) = X.cut(CPP, r'void\s+TasmanianSparseGrid::formTransformedPoints\s*\(\s*int\s+num_points\s*,\s*double\s+x\[\]\s*\)\s*const', text)
    b = p.body
    b = R.sub("R10-member", r'(?<![\w.>])domain_transform_a\.size\(\)', 'self->domain_transform_a_size', b)
    b = R.sub("R10-base-call", r'\bbase\s*->\s*(getNumDimensions|getRule)\(\)', r'base_\1(self)', b)
    b = R.sub("R10-receiver-call", r'(?<![\w.>])(mapConformalCanonicalToTransformed|mapCanonicalToTransformed)\(', r'\1(self, ', b)
    X.check_leftover(b, "formTransformedPoints")
    outs.append('#line %d "%s"\nvoid formTransformedPoints(const TSGC *self, int num_points, double x[])%s' % (p.line, X.REPO + "/" + p.rel, b))
    fns.append({"name": "TasmanianSparseGrid::formTransformedPoints", "file": p.rel, "line": p.line, "loops": 0}); srcs.append(p.body); emis.append(b)
    (p,) = X.cut(CPP, r'template<typename\s+FloatType>\s*const\s+FloatType\*\s*TasmanianSparseGrid::formCanonicalPoints\s*\(\s*const\s+FloatType\s*\*x\s*,\s*Data2D<FloatType>\s*&x_temp\s*,\s*int\s+num_x\s*\)\s*const', text)
    b = p.body
    b = R.sub("R3-template-param", r'\bFloatType\b', 'double', b)
    b = R.sub("R10-member", r'(?<![\w.>])(domain_transform_a|conformal_asin_power)\.size\(\)', r'self->\1_size', b)
    b = R.sub("R10-base-call", r'\bbase\s*->\s*(getNumDimensions|getRule)\(\)', r'base_\1(self)', b)
    b = R.sub("R5-data2d-copy", r'x_temp\s*=\s*Data2D<double>\(\s*num_dimensions\s*,\s*num_x\s*,\s*std::vector<double>\(\s*x\s*,\s*x\s*\+\s*Utils::size_mult\(\s*num_dimensions\s*,\s*num_x\s*\)\s*\)\s*\)\s*;',
              'tsg_data2d_copy(x_temp, num_dimensions, num_x, x);', b)
    b = R.sub("R5-strip", r'\bx_temp\.getStrip\(0\)', 'x_temp', b)
    b = R.sub("R10-receiver-call", r'(?<![\w.>])(mapConformalTransformedToCanonical|mapTransformedToCanonical)\(', r'\1(self, ', b)
    X.check_leftover(b, "formCanonicalPoints")
    outs.append('#line %d "%s"\nconst double *formCanonicalPoints(const TSGC *self, const double *x, double *x_temp, int num_x)%s' % (p.line, X.REPO + "/" + p.rel, b))
    fns.append({"name": "TasmanianSparseGrid::formCanonicalPoints<double>", "file": p.rel, "line": p.line, "loops": 0}); srcs.append(p.body); emis.append(b)
    R.require({"R10-receiver-call": 4, "R5-data2d-copy": 1, "R10-member": 3})
    info = {"functions": fns, "rules_fired": {k: v for k, v in R.counts.items() if v},
            "fidelity": X.fidelity("\n".join(srcs), "\n".join(emis), extra_vocab=["FloatType", "domain_transform_a", "conformal_asin_power", "size", "base", "getNumDimensions", "getRule", "x_temp", "Data2D", "vector", "Utils", "size_mult", "getStrip", "0", "x", "num_x", "num_dimensions", "double"], slack=16),
            "drops": ["the float instantiation of formCanonicalPoints"]}
    return "\n".join(outs) + "\n", info


def emit_integrate(R):
    """TasmanianSparseGrid::integrate(double q[]) and getQuadratureWeights(double*): how the conformal correction and the linear scale compose."""
    text = X.strip_comments(X.read_source(CPP))
    outs, fns, srcs, emis = [], [], [], []
    for nm, sig, chdr in (("integrate", r'void\s+TasmanianSparseGrid::integrate\s*\(\s*double\s+q\[\]\s*\)\s*const', "void TSG_integrate(const TSGC *self, double q[])"),
                          ("getQuadratureWeights", r'void\s+TasmanianSparseGrid::getQuadratureWeights\s*\(\s*double\s*\*weights\s*\)\s*const', "void TSG_getQuadratureWeights(const TSGC *self, double *weights)"),
                          ("integrateHierarchicalFunctions", r'void\s+TasmanianSparseGrid::integrateHierarchicalFunctions\s*\(\s*double\s+integrals\[\]\s*\)\s*const', "void TSG_integrateHierarchicalFunctions(const TSGC *self, double integrals[])")):
        (p,) = X.cut(CPP, sig, text)
        b = p.body
        b = R.sub("R11-omp-pragma", r'#\s*pragma\s+omp[^\n]*', '', b)
        b = X.r9_throws(R, b)
        b = R.sub("R10-member-call", r'(?<![\w.>])empty\(\)', '(self->npoints < 0)', b)
        b = R.sub("R10-member", r'(?<![\w.>])(domain_transform_a|conformal_asin_power)\.size\(\)', r'self->\1_size', b)
        b = R.sub("R10-base-call", r'\bbase\s*->\s*(getNumDimensions|getRule|getNumPoints)\(\)', r'base_\1(self)', b)
        b = X.balanced_call_sub(R, "R10-base-call", b, r'\bbase\s*->\s*(integrate|getQuadratureWeights|integrateHierarchicalFunctions)\s*(?=\()', lambda m, a: "base_%s(self, %s)" % (m.group(1), a))
        b = R.sub("R5-local-vector", r'std::vector<double>\s+correction\(\s*num_points\s*,\s*1\.0\s*\)\s*;', 'double correction[TSG_NPNT]; __CPROVER_assert(num_points <= TSG_NPNT, "shim: correction capacity"); for (int c_ = 0; c_ < TSG_NPNT; c_++) correction[c_] = 1.0;', b)
        b = R.sub("R5-data", r'\bcorrection\.data\(\)', 'correction', b)
        b = R.sub("R10-receiver-call", r'(?<![\w.>])(mapConformalWeights|getQuadratureScale)\(', r'\1(self, ', b)
        b = R.sub("R10-member-call", r'(?<![\w.>])(getNumOutputs|getNumPoints|getNumLoaded|getNumNeeded)\(\)', r'base_\1(self)', b)
        b = R.sub("R13-fp-mul", r'\b(q\[k\]|weights\[i\]|integrals\[i\])\s*\*=\s*scale\s*;', r'\1 = tsg_scaled(\1, scale);', b)
        X.check_leftover(b, nm)
        outs.append('#line %d "%s"\n%s%s' % (p.line, X.REPO + "/" + p.rel, chdr, b))
        fns.append({"name": "TasmanianSparseGrid::" + nm, "file": p.rel, "line": p.line, "loops": X.count_loops(b)}); srcs.append(p.body); emis.append(b)
    R.require({"R13-fp-mul": 3, "R10-receiver-call": 4, "R10-base-call": 8})
    info = {"functions": fns, "rules_fired": {k: v for k, v in R.counts.items() if v},
            "fidelity": X.fidelity("\n".join(srcs), "\n".join(emis), extra_vocab=["domain_transform_a", "conformal_asin_power", "size", "base", "getNumDimensions", "getRule", "getNumPoints", "getNumOutputs", "getNumLoaded", "getNumNeeded", "integrate", "getQuadratureWeights", "integrateHierarchicalFunctions", "integrals",
                                                                               "correction", "vector", "double", "data", "empty", "runtime_error", "mapConformalWeights", "getQuadratureScale", "scale", "q", "k", "weights", "i", "pragma", "omp", "parallel", "for", "schedule", "static", "1.0", "*="], slack=24),
            "drops": ["#pragma omp parallel for"]}
    return "\n".join(outs) + "\n", info
