"""G1: value / points / derived-data alignment protocol of the load and merge paths of the grid
families (updateValues, loadNeededValues, mergeRefinement, acceptUpdatedTensors).  Multi-index sets,
the value storage and the derived structures (tree, surpluses/coefficients, sequence nodes, tensor
references) become GHOST IDENTITIES; the statements that move, merge or rebuild them become calls
on the ghost state (rule R12g).  Nothing numerical is modelled."""
import re
from .. import tsg2c as X

SPECS = {
 "LocalPolynomial": ("SparseGrids/tsgGridLocalPolynomial.cpp", [
     ("updateValues", r'void\s+GridLocalPolynomial::updateValues\s*\(\s*double\s+const\s*\*vals\s*\)', "(GF *g)"),
     ("loadNeededValues", r'void\s+GridLocalPolynomial::loadNeededValues\s*\(\s*const\s+double\s*\*vals\s*\)', "(GF *g)"),
     ("mergeRefinement", r'void\s+GridLocalPolynomial::mergeRefinement\s*\(\s*\)', "(GF *g)")]),
 "Sequence": ("SparseGrids/tsgGridSequence.cpp", [
     ("loadNeededValues", r'void\s+GridSequence::loadNeededValues\s*\(\s*const\s+double\s*\*vals\s*\)', "(GF *g)"),
     ("mergeRefinement", r'void\s+GridSequence::mergeRefinement\s*\(\s*\)', "(GF *g)")]),
 "Wavelet": ("SparseGrids/tsgGridWavelet.cpp", [
     ("loadNeededValues", r'void\s+GridWavelet::loadNeededValues\s*\(\s*const\s+double\s*\*vals\s*\)', "(GF *g)"),
     ("mergeRefinement", r'void\s+GridWavelet::mergeRefinement\s*\(\s*\)', "(GF *g)")]),
 "Global": ("SparseGrids/tsgGridGlobal.cpp", [
     ("acceptUpdatedTensors", r'void\s+GridGlobal::acceptUpdatedTensors\s*\(\s*\)', "(GF *g)"),
     ("loadNeededValues", r'void\s+GridGlobal::loadNeededValues\s*\(\s*const\s+double\s*\*vals\s*\)', "(GF *g)"),
     ("mergeRefinement", r'void\s+GridGlobal::mergeRefinement\s*\(\s*\)', "(GF *g)"),
     ("clearRefinement", r'void\s+GridGlobal::clearRefinement\s*\(\s*\)', "(GF *g)"),
     ("setHierarchicalCoefficients", r'void\s+GridGlobal::setHierarchicalCoefficients\s*\(\s*const\s+double\s+c\[\]\s*\)', "(GF *g)")]),
}

def rewrite(R, fam, b):
    b = R.sub("R11-ifdef-gpu", r'#\s*ifdef\s+Tasmanian_ENABLE_GPU.*?#\s*endif[^\n]*', '', b, flags=re.S)
    b = R.sub("R11-gpu-cache", r'\bclearGpu\w+\(\)\s*;', '', b)
    b = R.sub("R12g-empty", r'\b(points|needed)\.empty\(\)', r'(g->\1.n == 0)', b)
    b = R.sub("R12g-setValues-zero", r'values\.setValues\(\s*std::vector<double>\([^;]*?,\s*0\.0\s*\)\s*\)\s*;', 'gh_setValues_zero(g);', b)
    b = R.sub("R12g-setValues", r'values\.setValues\(\s*vals\s*\)\s*;', 'gh_setValues(g);', b)
    b = R.sub("R12g-addValues", r'values\.addValues\(\s*points\s*,\s*needed\s*,\s*vals\s*\)\s*;', 'gh_addValues(g);', b)
    b = R.sub("R12g-move-needed", r'points\s*=\s*std::move\(needed\)\s*;', 'gh_points_take_needed(g);', b)
    b = R.sub("R12g-clear-needed", r'needed\s*=\s*MultiIndexSet\(\)\s*;', 'gh_clear_needed(g);', b)
    b = R.sub("R12g-union", r'points\s*\+=\s*needed\s*;', 'gh_points_union_needed(g);', b)
    b = R.sub("R12g-rebuild", r'(?<![\w.>])(buildTree|recomputeSurpluses|recomputeCoefficients)\(\)\s*;', r'gh_\1(g);', b)
    b = R.sub("R12g-rebuild", r'(?<![\w.>])prepareSequence\(0\)\s*;', 'gh_prepareSequence(g);', b)
    b = R.sub("R12g-rebuild", r'(?<![\w.>])recomputeTensorRefs\(points\)\s*;', 'gh_recomputeTensorRefs(g);', b)
    b = R.sub("R12g-fresh-derived", r'(surpluses|coefficients)\s*=\s*Data2D<double>\(num_outputs,\s*num_all_points\)\s*;', r'gh_fresh_derived(g);', b)
    b = R.sub("R12g-count", r'int\s+num_all_points\s*=\s*getNumLoaded\(\)\s*\+\s*getNumNeeded\(\)\s*;', 'int num_all_points = g->points.n + g->needed.n;', b)
    b = R.sub("R12g-count", r'size_t\s+num_vals\s*=[^;]*;', '', b)
    b = R.sub("R10-self-call", r'(?<![\w.>])(updateValues|acceptUpdatedTensors)\(\s*(?:vals)?\s*\)\s*;', r'GF_%s_\1(g);' % fam, b)
    b = R.sub("R10-self-call", r'(?<![\w.>])clearRefinement\(\)\s*;', r'GF_%s_clearRefinement(g);' % fam, b)
    b = R.sub("R10-self-call", r'(?<![\w.>])loadNeededValues\(\s*c\s*\)\s*;', r'GF_%s_loadNeededValues(g);' % fam, b)
    # Global: tensors bookkeeping
    b = R.sub("R12g-tensors", r'(tensors|active_tensors|active_w)\s*=\s*std::move\(updated_\1\)\s*;', r'gh_take_updated_\1(g);', b)
    b = R.sub("R12g-tensors", r'updated_(tensors|active_tensors)\s*=\s*MultiIndexSet\(\)\s*;', r'gh_clear_updated_\1(g);', b)
    b = R.sub("R12g-tensors", r'updated_active_w\s*=\s*std::vector<int>\(\)\s*;', 'gh_clear_updated_active_w(g);', b)
    b = R.sub("R12g-tensors", r'max_levels\s*=\s*MultiIndexManipulations::getMaxIndexes\(tensors\)\s*;', 'gh_max_levels(g);', b)
    return b

def emit(R, fam):
    rel, fns = SPECS[fam]
    text = X.strip_comments(X.read_source(rel))
    outs, infos, srcs, emis = [], [], [], []
    for nm, sig, params in fns:
        outs.append("void GF_%s_%s(GF *g);" % (fam, nm))
    for nm, sig, params in fns:
        (p,) = X.cut(rel, sig, text)
        b = rewrite(R, fam, p.body)
        X.check_leftover(b, "Grid%s::%s" % (fam, nm))
        outs.append('#line %d "%s"\nvoid GF_%s_%s(GF *g)%s' % (p.line, X.REPO + "/" + p.rel, fam, nm, b))
        infos.append({"name": "Grid%s::%s" % (fam, nm), "file": p.rel, "line": p.line, "loops": 0})
        srcs.append(p.body); emis.append(b)
    info = {"functions": infos, "rules_fired": {k: v for k, v in R.counts.items() if v},
            "drops": ["GPU cache invalidation calls (clearGpu*) and #ifdef Tasmanian_ENABLE_GPU blocks", "all numerical content: sets, values and derived structures are ghost identities"],
            "fidelity": X.fidelity("\n".join(srcs), "\n".join(emis), extra_vocab=["points", "needed", "values", "vals", "empty", "setValues", "addValues", "move", "MultiIndexSet", "buildTree", "recomputeSurpluses",
                       "recomputeCoefficients", "prepareSequence", "recomputeTensorRefs", "surpluses", "coefficients", "Data2D", "num_outputs", "num_all_points", "getNumLoaded", "getNumNeeded", "updateValues",
                       "acceptUpdatedTensors", "tensors", "active_tensors", "active_w", "updated_tensors", "updated_active_tensors", "updated_active_w", "max_levels", "getMaxIndexes", "MultiIndexManipulations",
                       "clearGpuSurpluses", "clearGpuBasisHierarchy", "clearGpuNodes", "clearGpuCoefficients", "clearGpuBasis", "clearGpuValues", "size_mult", "Utils", "vector", "0.0", "0", "num_vals", "acceleration",
                       "on_gpu", "setDevice", "loadNeededValuesGPU", "return", "Tasmanian_ENABLE_GPU", "ifdef", "endif", "+", "=", "+=", "size_t", "int", "double"], slack=20)}
    return "\n".join(outs) + "\n", info
