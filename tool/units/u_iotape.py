"""Unit C06: per-family write/read round trip over the ghost token tape."""
import re
from .. import tsg2c as X
from ..runner import Job
from ..contractfile import ContractFile
from . import iotape, tables, rulelocal

def _rule_helpers(R):
    """RuleLocal::getEffectiveRule / getRule (inline, non-template) and getMaxNumParents<rule>."""
    text = X.strip_comments(X.read_source(rulelocal.HPP))
    out = ["enum erule { erule_pwc, erule_localp, erule_semilocalp, erule_localp0, erule_localpb };"]
    for nm, sig, chdr in (("getEffectiveRule", r'inline\s+erule\s+getEffectiveRule\s*\(\s*int\s+order\s*,\s*TypeOneDRule\s+rule\s*\)', "int getEffectiveRule(int order, TypeOneDRule rule)"),
                          ("getRule", r'inline\s+TypeOneDRule\s+getRule\s*\(\s*erule\s+effective_rule\s*\)', "TypeOneDRule getRule(int effective_rule)")):
        (p,) = X.cut(rulelocal.HPP, sig, text)
        b = R.sub("R3-enum-const", r'\berule::(\w+)', r'erule_\1', p.body)
        out.append('#line %d "%s"\n%s%s' % (p.line, X.REPO + "/" + p.rel, chdr, b))
    (p,) = X.cut(rulelocal.HPP, r'template<erule\s+effrule>\s*int\s+getMaxNumParents\s*\(\s*\)', text)
    for rule in rulelocal.RULES:
        b = R.sub("R3-enum-const", r'\berule::(\w+)', r'erule_\1', p.body)
        b = R.sub("R3-template-param", r'\beffrule\b', 'erule_%s' % rule, b)
        out.append('#line %d "%s"\nint getMaxNumParents_%s()%s' % (p.line, X.REPO + "/" + p.rel, rule, b))
    return "\n".join(out) + "\n"

REPLAY = r'''
/* native search for a failing round trip of the REAL serializers of the family: grids with loaded values,
 * a pending refinement (needed points) and level limits are written and read back in both formats */
#include <sstream>
using namespace TasGrid;
static std::string fam = "@FAM@";
static TasmanianSparseGrid make(int variant){
  TasmanianSparseGrid g;
  int outs = (variant % 2 == 0) ? 2 : 0;
  if (fam == "Global") g.makeGlobalGrid(2, outs, 3, type_level, rule_clenshawcurtis);
  else if (fam == "Sequence") g.makeSequenceGrid(2, outs, 3, type_level, rule_leja);
  else if (fam == "LocalPolynomial") g.makeLocalPolynomialGrid(2, outs, 3, (variant % 3) + 1, rule_localp);
  else if (fam == "Wavelet") g.makeWaveletGrid(2, outs, 2, 1);
  else g.makeFourierGrid(2, outs, 2, type_level);
  if (outs > 0){
    std::vector<double> p = g.getNeededPoints(), v((size_t) g.getNumNeeded() * outs);
    for (int i = 0; i < g.getNumNeeded(); i++){ v[outs*i] = std::exp(p[2*i] - 0.3 * p[2*i+1]); v[outs*i+1] = p[2*i] * p[2*i+1]; }
    g.loadNeededValues(v);
    if (variant >= 2){
      if (fam == "LocalPolynomial" || fam == "Wavelet") g.setSurplusRefinement(1.E-3, refine_classic, -1);
      else g.setAnisotropicRefinement(type_iptotal, 5, 0);
    }
  }
  return g;
}
static bool same(const TasmanianSparseGrid &a, const TasmanianSparseGrid &b, const char *what){
  bool ok = a.getNumDimensions() == b.getNumDimensions() && a.getNumOutputs() == b.getNumOutputs() && a.getNumLoaded() == b.getNumLoaded() && a.getNumNeeded() == b.getNumNeeded() && a.getRule() == b.getRule();
  if (ok) ok = a.getPoints() == b.getPoints() && a.getNeededPoints() == b.getNeededPoints();   /* getLoadedPoints() of a grid without outputs writes through a null pointer (observation, outside C06) */
  if (ok && a.getNumOutputs() > 0 && a.getNumLoaded() > 0){
    ok = std::vector<double>(a.getLoadedValues(), a.getLoadedValues() + (size_t) a.getNumLoaded() * a.getNumOutputs()) == std::vector<double>(b.getLoadedValues(), b.getLoadedValues() + (size_t) b.getNumLoaded() * b.getNumOutputs());
    std::vector<double> x = {0.33, -0.21}, ya, yb; a.evaluate(x, ya); b.evaluate(x, yb); if (ya != yb) ok = false;
    if (ok) ok = std::vector<double>(a.getHierarchicalCoefficients(), a.getHierarchicalCoefficients() + (size_t) a.getNumLoaded() * a.getNumOutputs()) == std::vector<double>(b.getHierarchicalCoefficients(), b.getHierarchicalCoefficients() + (size_t) b.getNumLoaded() * b.getNumOutputs());
  }
  if (!ok) std::printf("   mismatch after %s\n", what);
  return ok;
}
int main_replay(){
  int bad = 0;
  for (int variant = 0; variant < 6; variant++) for (int binary = 0; binary < 2; binary++){
    try{
      TasmanianSparseGrid g = make(variant), r;
      std::stringstream ss; g.write(ss, binary != 0); std::string first = ss.str();
      r.read(ss, binary != 0);
      bool ok = same(g, r, binary ? "binary round trip" : "ascii round trip");
      std::stringstream s2; r.write(s2, binary != 0);
      if (s2.str() != first){ ok = false; std::printf("   writing the restored grid does not reproduce the original bytes\n"); }
      if (!ok){ bad++; std::printf("%s grid variant %d (%s): round trip FAILED\n", fam.c_str(), variant, binary ? "binary" : "ascii"); }
    }catch(std::exception &e){ bad++; std::printf("%s grid variant %d (%s): exception %s\n", fam.c_str(), variant, binary ? "binary" : "ascii", e.what()); }
  }
  std::printf("%d of 12 round trips failed\n", bad);
  __CPROVER_assert(bad == 0, "C06 write() then read() restores the observable state and the bytes");
  return 0;
}
'''
def make_replay(prop, fam):
    from .. import replay as RP
    def rp(job, ob, vals, wd):
        hdr = "Native search for a failing round trip of the real %s serializers.\nproperty %s job %s\nobligation %s: %s\nat %s" % (fam, prop, job.name, ob["name"], ob["description"], ob["location"])
        return RP.write_and_run(prop, job.name + "." + ob["name"], hdr, ['"TasmanianSparseGrid.hpp"'], REPLAY.replace("@FAM@", fam), "  main_replay();", lib="sg")
    return rp

def jobs(tier, seed, prop):
    out = []
    cf = ContractFile("contracts/iotape.c")
    R0 = X.Rules()
    enums = tables.cut_enum("TypeOneDRule", R0)[0]
    helpers = _rule_helpers(R0)
    for fam in iotape.FAMS:
        R = X.Rules()
        t, info = iotape.emit(R, fam)
        for mode in ("ascii", "binary"):
            pre = ('#include "tsg_shim.h"\nint tsg_exc;\n' + enums + helpers + '#define WRITE write_%s_%s\n#define READ read_%s_%s\n' % (fam, mode, fam, mode)
                   + '#line 1 "/verif/contracts/iotape.c"\n' + cf.text(("text",)) + t)
            out.append(Job("iotape.%s.%s" % (fam, mode), pre + cf.text(("harness",), ["h_" + fam]), "h_" + fam, unwind=42, timeout=300,
                           functions=["%s:%d %s" % (f["file"], f["line"], f["name"]) for f in info["functions"]], info=info, replay=make_replay(prop, fam),
                           assumed=["primitives of tsgIOHelpers.hpp (writeNumbers/Vector/Flag/Rule, readNumber/Vector/Flag/Rule/Data2D) and MultiIndexSet/StorageSet/CustomTabulated serializers do what their names say in both formats (byte layout not verified)",
                                    "well_formed_%s(g): size relations between members established by the builders (assumed representation invariant, see contracts/iotape.c)" % fam,
                                    "post-read recomputations are not modelled"],
                           label="Grid%s write<%s> / GridReaderVersion5 read round trip on the token tape" % (fam, mode)))
    return out
