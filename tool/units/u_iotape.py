"""Unit C06: per-family write/read round trip over the ghost token tape."""
import re
from .. import tsg2c as X
from ..runner import Job
from ..contractfile import ContractFile
from . import iotape, tables, rulelocal
from .. import replay as RP

def _rule_helpers(R):
    """RuleLocal::getEffectiveRule / getRule (inline, non-template) and getMaxNumParents<rule>."""
    text = X.strip_comments(X.read_source(rulelocal.HPP))
    out = ["enum erule { erule_pwc, erule_localp, erule_semilocalp, erule_localp0, erule_localpb };"]
    for nm, sig, chdr in (("getEffectiveRule", r'inline\s+erule\s+getEffectiveRule\s*\(\s*int\s+order\s*,\s*TypeOneDRule\s+rule\s*\)', "int getEffectiveRule(int order, TypeOneDRule rule)"),
                          ("getRule", r'inline\s+TypeOneDRule\s+getRule\s*\(\s*erule\s+effective_rule\s*\)', "TypeOneDRule getRule(int effective_rule)")):
        (p,) = X.cut(rulelocal.HPP, sig, text)
        b = R.sub("R3-enum-const", r'\berule::(\w+)', r'erule_\1', p.body)
        out.append('#line %d "%s"\n%s%s' % (p.line, X.REPO + "/" + p.rel, chdr, b))
    (p,) = X.cut(rulelocal.HPP, r'template<erule\s+effrule>\s*int\s+getMaxNumParents\s*\(\s*\)', text)
    for rule in rulelocal.RULES:
        b = R.sub("R3-enum-const", r'\berule::(\w+)', r'erule_\1', p.body)
        b = R.sub("R3-template-param", r'\beffrule\b', 'erule_%s' % rule, b)
        out.append('#line %d "%s"\nint getMaxNumParents_%s()%s' % (p.line, X.REPO + "/" + p.rel, rule, b))
    return "\n".join(out) + "\n"

REPLAY = r'''
/* native search for a failing round trip of the REAL serializers of the family: grids with loaded values,
 * a pending refinement (needed points) and level limits are written and read back in both formats */
#include <sstream>
using namespace TasGrid;
static std::string fam = "@FAM@";
static TasmanianSparseGrid make(int variant){
  TasmanianSparseGrid g;
  int outs = (variant % 2 == 0) ? 2 : 0;
  if (fam == "Global" && variant == 5) g.makeGlobalGrid(2, outs, 3, type_level, rule_gaussjacobi, std::vector<int>(), 1.0 / 3.0, 2.0 / 7.0);   /* parameters that are not short decimals */
  else if (fam == "Global") g.makeGlobalGrid(2, outs, 3, type_level, rule_clenshawcurtis);
  else if (fam == "Sequence") g.makeSequenceGrid(2, outs, 3, type_level, rule_leja);
  else if (fam == "LocalPolynomial") g.makeLocalPolynomialGrid(2, outs, 3, (variant % 3) + 1, rule_localp);
  else if (fam == "LocalPolynomialB") g.makeLocalPolynomialGrid(2, outs, 2, (variant % 3) + 1, (variant % 2) ? rule_localpb : rule_semilocalp);
  else if (fam == "Wavelet") g.makeWaveletGrid(2, outs, 2, 1);
  else g.makeFourierGrid(2, outs, 2, type_level);
  if (variant % 3 == 1) g.setDomainTransform(std::vector<double>{-1.5, 2.0}, std::vector<double>{3.0, 4.5});
  if (variant % 3 == 2 && fam != "Fourier" && fam != "Wavelet" && fam != "Global") g.setConformalTransformASIN(std::vector<int>{4, 6});
  if (outs > 0){
    std::vector<double> p = g.getNeededPoints(), v((size_t) g.getNumNeeded() * outs);
    for (int i = 0; i < g.getNumNeeded(); i++){ v[outs*i] = std::exp(p[2*i] - 0.3 * p[2*i+1]); v[outs*i+1] = p[2*i] * p[2*i+1]; }
    g.loadNeededValues(v);
    if (variant >= 8){      /* a grid under dynamic construction with samples waiting in the construction data */
      g.beginConstruction();
      bool local = (fam == "LocalPolynomial" || fam == "LocalPolynomialB" || fam == "Wavelet");
      std::vector<double> c = local ? g.getCandidateConstructionPoints(1.E-4, refine_classic) : g.getCandidateConstructionPoints(type_level, 0);
      for (size_t i = (variant == 8 ? 1 : 0); i + 1 < c.size() / 2; i += 2)
        g.loadConstructedPoints(std::vector<double>{c[2*i], c[2*i+1]}, std::vector<double>{std::exp(c[2*i] - 0.3 * c[2*i+1]), c[2*i] * c[2*i+1]});
    }else if (variant >= 6){      /* a pending update that raises the largest 1-D level */
      if (fam == "Global") g.updateGlobalGrid(5, type_level);
      else if (fam == "Sequence") g.updateSequenceGrid(5, type_level);
      else if (fam == "Fourier") g.updateFourierGrid(3, type_level);
      else g.setSurplusRefinement(1.E-4, refine_classic, -1);
    }else if (variant >= 2){
      if (fam == "LocalPolynomial" || fam == "LocalPolynomialB" || fam == "Wavelet") g.setSurplusRefinement(1.E-3, refine_classic, -1);
      else g.setAnisotropicRefinement(type_iptotal, 5, 0);
    }
  }
  return g;
}
static bool same(const TasmanianSparseGrid &a, const TasmanianSparseGrid &b, const char *what){
  bool ok = a.getNumDimensions() == b.getNumDimensions() && a.getNumOutputs() == b.getNumOutputs() && a.getNumLoaded() == b.getNumLoaded() && a.getNumNeeded() == b.getNumNeeded() && a.getRule() == b.getRule() && a.getAlpha() == b.getAlpha() && a.getBeta() == b.getBeta();
  if (ok) ok = a.getPoints() == b.getPoints() && a.getNeededPoints() == b.getNeededPoints();   /* getLoadedPoints() of a grid without outputs writes through a null pointer (observation, outside C06) */
  if (ok && a.getNumOutputs() > 0 && a.getNumLoaded() > 0){
    ok = std::vector<double>(a.getLoadedValues(), a.getLoadedValues() + (size_t) a.getNumLoaded() * a.getNumOutputs()) == std::vector<double>(b.getLoadedValues(), b.getLoadedValues() + (size_t) b.getNumLoaded() * b.getNumOutputs());
    std::vector<double> x = {0.33, -0.21}, ya, yb; a.evaluate(x, ya); b.evaluate(x, yb); if (ya != yb) ok = false;
    if (ok) ok = std::vector<double>(a.getHierarchicalCoefficients(), a.getHierarchicalCoefficients() + (size_t) a.getNumLoaded() * a.getNumOutputs()) == std::vector<double>(b.getHierarchicalCoefficients(), b.getHierarchicalCoefficients() + (size_t) b.getNumLoaded() * b.getNumOutputs());
  }
  if (ok){
    if (a.isSetDomainTransfrom() != b.isSetDomainTransfrom()) ok = false;
    else if (a.isSetDomainTransfrom()){
      std::vector<double> a1, b1, a2, b2; a.getDomainTransform(a1, b1); b.getDomainTransform(a2, b2);
      if (a1 != a2 || b1 != b2) ok = false;
    }
    if (a.isSetConformalTransformASIN() != b.isSetConformalTransformASIN() || (a.isSetConformalTransformASIN() && a.getConformalTransformASIN() != b.getConformalTransformASIN()) || a.getLevelLimits() != b.getLevelLimits() || a.isUsingConstruction() != b.isUsingConstruction()) ok = false;
  }
  if (ok && a.getNumOutputs() > 0 && a.getNumNeeded() > 0){   /* every subsequent operation behaves as on the original: load the pending points and evaluate */
    TasmanianSparseGrid a2 = a, b2 = b;
    std::vector<double> p = a2.getNeededPoints(), v((size_t) a2.getNumNeeded() * a2.getNumOutputs());
    for (size_t i = 0; i < v.size(); i++) v[i] = std::cos(p[i % p.size()] + 0.1 * (double) i);
    a2.loadNeededValues(v); b2.loadNeededValues(v);
    std::vector<double> x = {-0.47, 0.12}, ya, yb; a2.evaluate(x, ya); b2.evaluate(x, yb);
    if (ya != yb || a2.getPoints() != b2.getPoints()) ok = false;
  }
  if (!ok) std::printf("   mismatch after %s\n", what);
  return ok;
}
int main_replay(){
  int bad = 0;
  for (int variant = 0; variant < 10; variant++) for (int binary = 0; binary < 2; binary++){
    try{
      TasmanianSparseGrid g = make(variant), r;
      std::stringstream ss; g.write(ss, binary != 0); std::string first = ss.str();
      r.read(ss, binary != 0);
      bool ok = same(g, r, binary ? "binary round trip" : "ascii round trip");
      std::stringstream s2; r.write(s2, binary != 0);
      if (s2.str() != first){ ok = false; std::printf("   writing the restored grid does not reproduce the original bytes\n"); }
      if (!ok){ bad++; std::printf("%s grid variant %d (%s): round trip FAILED\n", fam.c_str(), variant, binary ? "binary" : "ascii"); }
    }catch(std::exception &e){ bad++; std::printf("%s grid variant %d (%s): exception %s\n", fam.c_str(), variant, binary ? "binary" : "ascii", e.what()); }
  }
  std::printf("%d of 20 round trips failed\n", bad);
  __CPROVER_assert(bad == 0, "C06 write() then read() restores the observable state and the bytes");
  return 0;
}
'''
def make_replay(prop, fam):
    from .. import replay as RP
    def rp(job, ob, vals, wd):
        hdr = "Native search for a failing round trip of the real %s serializers.\nproperty %s job %s\nobligation %s: %s\nat %s" % (fam, prop, job.name, ob["name"], ob["description"], ob["location"])
        return RP.write_and_run(prop, job.name + "." + ob["name"], hdr, ['"TasmanianSparseGrid.hpp"'], REPLAY.replace("@FAM@", fam), "  main_replay();", lib="sg")
    return rp

REPLAY_STALE = r'''
/* Through the public API of the real code: a grid updated to a SMALLER tensor set (nothing new is proposed), written and read back, must behave as the original. */
int main_replay(){
  int bad = 0;
  for (int fam = 0; fam < 2; fam++) for (int binary = 0; binary < 2; binary++) {
    TasGrid::TasmanianSparseGrid grid = fam == 0 ? TasGrid::makeGlobalGrid(2, 1, 4, TasGrid::type_level, TasGrid::rule_clenshawcurtis) : TasGrid::makeFourierGrid(2, 1, 3, TasGrid::type_level);
    std::vector<double> p = grid.getPoints(); int n = grid.getNumPoints();
    std::vector<double> v(n); for (int i = 0; i < n; i++) v[i] = std::sin(p[2*i]) + p[2*i+1];
    grid.loadNeededValues(v);
    if (fam == 0) grid.updateGlobalGrid(2, TasGrid::type_level); else grid.updateFourierGrid(1, TasGrid::type_level);
    std::stringstream ss; grid.write(ss, binary != 0);
    TasGrid::TasmanianSparseGrid r; r.read(ss, binary != 0);
    double x[2] = {0.3, -0.4}, y1 = 0.0, y2 = 1.0;
    grid.evaluate(x, &y1); r.evaluate(x, &y2);     /* the defect shows as a write through a null pointer here */
    if (y1 != y2 || r.getNumNeeded() != grid.getNumNeeded()) { std::printf("%s %s: restored grid evaluates to %.17g, original %.17g\\n", fam ? "Fourier" : "Global", binary ? "binary" : "ascii", y2, y1); bad++; }
  }
  __CPROVER_assert(bad == 0, "C06 a grid updated to a smaller tensor set round-trips");
  return 0;
}
'''
def replay_stale(prop):
    def rp(job, ob, vals, wd):
        hdr = "Replay through the public API of the real code.\nproperty %s job %s\nobligation %s: %s\nat %s" % (prop, job.name, ob["name"], ob["description"], ob["location"])
        return RP.write_and_run(prop, job.name + "." + ob["name"], hdr, ['"TasmanianSparseGrid.hpp"', '<cmath>', '<sstream>'], REPLAY_STALE, "  main_replay();", lib="sg", timeout=60)
    return rp

def jobs(tier, seed, prop):
    out = []
    cf = ContractFile("contracts/iotape.c")
    R0 = X.Rules()
    enums = tables.cut_enum("TypeOneDRule", R0)[0]
    helpers = _rule_helpers(R0)
    for fam in (iotape.FAMS if prop not in ("C14", "C01", "C17") else []):
        R = X.Rules()
        t, info = iotape.emit(R, fam)
        for mode in ("ascii", "binary"):
            pre = ('#include "tsg_shim.h"\nint tsg_exc;\n#define TAPE_ASCII %d\n' % (mode == "ascii") + enums + helpers + '#define WRITE write_%s_%s\n#define READ read_%s_%s\n' % (fam, mode, fam, mode)
                   + '#line 1 "/verif/contracts/iotape.c"\n' + cf.text(("text",)) + t)
            out.append(Job("iotape.%s.%s" % (fam, mode), pre + cf.text(("harness",), ["h_" + fam]), "h_" + fam, unwind=42, timeout=300,
                           functions=["%s:%d %s" % (f["file"], f["line"], f["name"]) for f in info["functions"]], info=info, replay=make_replay(prop, fam),
                           assumed=["primitives of tsgIOHelpers.hpp (writeNumbers/Vector/Flag/Rule, readNumber/Vector/Flag/Rule/Data2D) and MultiIndexSet/StorageSet/CustomTabulated serializers do what their names say in both formats (byte layout not verified)",
                                    "well_formed_%s(g): size relations between members established by the builders (assumed representation invariant, see contracts/iotape.c)" % fam,
                                    "post-read recomputations are not modelled"],
                           label="Grid%s write<%s> / GridReaderVersion5 read round trip on the token tape" % (fam, mode)))
    # the clause of well_formed that the Global / Fourier harnesses assume about a pending refinement is established by updateGrid
    t2 = [t_ for k, a, t_ in cf.sections if k == "text2"][0]
    for fam in (("Global", "Fourier") if prop not in ("C14", "C17") else ()):
        Ru = X.Rules()
        ut, uinfo = iotape.emit_update_invariant(Ru, fam)
        out.append(Job("iotape.wellformed.update." + fam, '#include "tsg_shim.h"\nint tsg_exc;\n#define UPDATE updateGrid_%s\n#line 1 "/verif/contracts/iotape.c"\n' % fam + t2 + ut + cf.text(("harness",), ["h_update_invariant"]),
                       "h_update_invariant", timeout=120, replay=replay_stale(prop), functions=["%s:%d %s" % (f["file"], f["line"], f["name"]) for f in uinfo["functions"]], info=uinfo,
                       assumed=["selectTensors returns a non-empty set (any relation to the current tensors); clearRefinement / makeGrid leave no pending tensors; set difference and union as named",
                                "setSurplusRefinement (Global with sequence rules) builds its pending set from the loaded points plus children: a superset by construction (not under this contract)"],
                       label="Grid%s::updateGrid leaves updated_tensors empty or a superset of tensors (well_formed clause used by the round trip)" % fam))
    if prop not in ("C14", "C01", "C17"):
        Rm = X.Rules()
        mt, minfo = iotape.emit_rulemap(Rm)
        mh = '''
static size_t tsg_find_index(const TypeOneDRule *a, size_t n, TypeOneDRule v){ size_t k = 0; while (k < n && !(a[k] == v)) k++; return k; }
''' + mt + '''
void h_rulemap(void){
  TypeOneDRule a_rule = (TypeOneDRule) nondet_int();
  __CPROVER_assume(a_rule >= rule_none && a_rule <= rule_fourier);      /* every enumerator of TypeOneDRule (contiguous, checked by the tables unit) */
  int code = getRuleInt_from_rule(a_rule);
  __CPROVER_assert(getRuleInt_from_int(code) == a_rule, "C06 binary format: the integer code written for a rule is read back as the same rule, for every rule");
  int a_code = nondet_int();
  TypeOneDRule r = getRuleInt_from_int(a_code);
  __CPROVER_assert(r >= rule_none && r <= rule_fourier, "C14 any integer found in a file decodes to an enumerator (unknown codes give rule_none)");
  __CPROVER_assert(0, "VACUITY-CANARY");
}
'''
        out.append(Job("iotape.rulemap", '#include "tsg_shim.h"\nint tsg_exc;\n' + enums + mh, "h_rulemap", unwind=64, timeout=120, replay=make_replay(prop, "LocalPolynomialB"),
                       functions=["%s:%d %s" % (f["file"], f["line"], f["name"]) for f in minfo["functions"]], info=minfo,
                       assumed=["std::find_if / std::distance over the vector as a linear search (rule R7-find-if-index)", "the string names of the ASCII format (std::map<std::string, ...>) are not under contract"],
                       label="IO::getRuleInt: decode(encode(rule)) == rule for every rule of the binary format"))
    if prop == "C01":        # C01 uses the update invariant only (a Fourier / Global update keeps the loaded tensors)
        return out
    # top-level binary framing
    Rt = X.Rules()
    tt, tinfo = iotape.emit_top_binary(Rt)
    cft = ContractFile("contracts/iotop.c")
    pre_t = '#include "tsg_shim.h"\nint tsg_exc;\n#line 1 "/verif/contracts/iotop.c"\n' + cft.text(("text",)) + tt
    for h, lab in (("h_top_roundtrip", "TasmanianSparseGrid::writeBinary / readBinary round trip of the framing (type, transforms, limits, construction flag)"),
                   ("h_top_badheader", "readBinary on a stream with a wrong header / version / unknown grid type")):
        if prop in ("C06", "C17") and h == "h_top_badheader": continue      # C17: the checkpoints of constructSurrogate are binary files, only their framing round trip is used
        if prop == "C14" and h == "h_top_roundtrip": continue
        out.append(Job("iotop." + h[6:], pre_t + cft.text(("harness",), [h]), h, timeout=120, replay=make_replay(prop, "LocalPolynomial") if h == "h_top_roundtrip" else None,
                       functions=["%s:%d %s" % (f["file"], f["line"], f["name"]) for f in tinfo["functions"]], info=tinfo,
                       assumed=["the family serializers are single tokens here (their round trip is the per-family jobs)", "ifs.read / IO::readNumber<char> deliver the bytes that were written (primitives assumed)"],
                       label=lab))
    if prop == "C06":
        Ra = X.Rules()
        kws, at, ainfo = iotape.emit_top_ascii(Ra)
        ta = [t_ for k, a, t_ in cft.sections if k == "text2"][0]
        out.append(Job("iotop.roundtrip_ascii", '#include "tsg_shim.h"\nint tsg_exc;\n' + kws + '#line 1 "/verif/contracts/iotop.c"\n' + cft.text(("text",)) + ta + at + cft.text(("harness",), ["h_top_roundtrip_ascii"]), "h_top_roundtrip_ascii",
                       unwind=4, timeout=120, replay=make_replay(prop, "LocalPolynomial"), functions=["%s:%d %s" % (f["file"], f["line"], f["name"]) for f in ainfo["functions"]], info=ainfo,
                       assumed=["the family serializers are single tokens here (their round trip is the per-family jobs)", "a text line is one keyword token; operator>> and the family readers stop inside a line, getline returns the rest (empty) first",
                                "the first two lines (version, warning) are outside this job"],
                       label="TasmanianSparseGrid::writeAscii / readAscii round trip of the framing (type, transforms, limits, construction flag)"))
    if prop == "C14":
        Rv = X.Rules()
        vt, vinfo = iotape.emit_version_check(Rv)
        vh = '''
int g_version_Major, g_version_Minor;
''' + vt + '''
void h_version(void){
  int a_major = nondet_int(), a_minor = nondet_int();
  g_version_Major = nondet_int(); g_version_Minor = nondet_int();
  __CPROVER_assume(g_version_Major >= 3 && g_version_Major < 1000 && g_version_Minor >= 0 && g_version_Minor < 1000 && a_minor >= 0);
  tsg_exc = 0;
  version_check(a_major, a_minor);
  bool future = (a_major > g_version_Major) || (a_major == g_version_Major && a_minor > g_version_Minor);
  __CPROVER_assert((tsg_exc == TSG_RUNTIME_ERROR) == (a_major < 3 || future), "C14 a file of a future version (or older than 3.0) raises std::runtime_error, every other version is accepted");
  __CPROVER_assert(tsg_exc == 0 || tsg_exc == TSG_RUNTIME_ERROR, "C14 only runtime_error");
  __CPROVER_assert(0, "VACUITY-CANARY");
}
'''
        out.append(Job("iotop.version_check", '#include "tsg_shim.h"\nint tsg_exc;\n' + vh, "h_version", timeout=60,
                       functions=["%s:%d %s" % (f["file"], f["line"], f["name"]) for f in vinfo["functions"]], info=vinfo,
                       assumed=["stoi parsed the two numbers of the version string (its out_of_range for absurd versions, D16, is not under this contract)"],
                       label="readAscii: future-version / pre-3.0 test against the lexicographic order of (major, minor)"))
    return out
