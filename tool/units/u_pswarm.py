"""Unit C20: ParticleSwarm lambdas (F19, F20) and state setters (F20b)."""
from .. import tsg2c as X
from ..runner import Job
from ..contractfile import ContractFile
from .. import replay as RP
from . import pswarm

REPLAY_F20B = r'''
/* the real optimizer: run, edit the state with the documented setter, run zero more iterations;
 * the swarm best must still be a visited in-domain point whose cached value is the objective there */
int main_replay(){
  using namespace TasOptimization;
  int which = @WHICH@;
  double min_seen = 1e300;
  auto f = [&](const std::vector<double> &x, std::vector<double> &v){ for (size_t i = 0; i < v.size(); i++){ v[i] = (x[i] - 0.5) * (x[i] - 0.5); if (v[i] < min_seen) min_seen = v[i]; } };
  auto inside = [](const std::vector<double> &x)->bool{ return x[0] >= 0.0 && x[0] <= 1.0; };
  ParticleSwarmState state(1, 5);
  std::vector<double> lo = {0.0}, hi = {1.0};
  int seed = 7; auto rng = [&]()->double{ seed = (seed * 1103515245 + 12345) & 0x7fffffff; return double(seed) / double(0x7fffffff); };
  state.initializeParticlesInsideBox(lo, hi, rng);
  ParticleSwarm(f, inside, 0.5, 2.0, 2.0, 30, state, rng);
  std::printf("after 30 iterations the swarm best is x = %.6f\n", state.getBestPosition()[0]);
  if (which == 4) state.clearBestParticles();
  else if (which <= 1) state.setParticlePositions(std::vector<double>(5, 0.05));
  else state.setBestParticlePositions(std::vector<double>(6, 0.9));
  min_seen = 1e300;
  ParticleSwarm(f, inside, 0.5, 2.0, 2.0, (which == 4) ? 0 : 20, state, rng);
  double xb = state.getBestPosition()[0];
  std::vector<double> pp = state.getParticlePositions();
  std::printf("after the state edit and 0 further iterations the swarm best is x = %.6f (objective %.6f)\n", xb, (xb - 0.5) * (xb - 0.5));
  bool visited = false;
  for (double p : pp) if (p == xb) visited = true;
  if (which == 4) __CPROVER_assert(visited || std::fabs(xb - 0.5) < 1e-3, "F20b after clearBestParticles() the swarm best is a point that was actually visited (not the zeroed slot with a stale cached value)");
  if (which <= 1) __CPROVER_assert(std::fabs(xb - 0.05) < 1e-12 || std::fabs(xb - 0.5) < 0.05, "F20b after setParticlePositions() cached values are not attached to the new positions");
  if (which == 2 || which == 3){
    std::printf("smallest objective value evaluated after the edit: %.6f\n", min_seen);
    __CPROVER_assert((xb - 0.5) * (xb - 0.5) <= min_seen, "F20b after setBestParticlePositions() the swarm best is the minimum over the in-domain evaluations (stale cached best values are not kept)");
  }
  return 0;
}
'''
REPLAY_FRAME = r'''
/* On the real optimizer: after 10 iterations each state edit must leave the other parts of the state untouched:
 * clearCache() keeps positions, velocities and best-known points; clearBestParticles() and the setters keep what they do not set. */
int main_replay(){
  using namespace TasOptimization;
  int bad = 0;
  for (int edit = 0; edit < 4; edit++) {
    auto f = [&](const std::vector<double> &x, std::vector<double> &v){ for (size_t i = 0; i < v.size(); i++) v[i] = (x[2*i] - 0.3) * (x[2*i] - 0.3) + (x[2*i+1] + 0.2) * (x[2*i+1] + 0.2); };
    auto inside = [](const std::vector<double> &x)->bool{ return x[0] >= -1.0 && x[0] <= 1.0 && x[1] >= -1.0 && x[1] <= 1.0; };
    int seed = 11; auto rng = [&]()->double{ seed = (seed * 1103515245 + 12345) & 0x7fffffff; return double(seed) / double(0x7fffffff); };
    ParticleSwarmState state(2, 4);
    state.initializeParticlesInsideBox(std::vector<double>{-1.0, -1.0}, std::vector<double>{1.0, 1.0}, rng);
    ParticleSwarm(f, inside, 0.5, 2.0, 2.0, 10, state, rng);
    std::vector<double> p = state.getParticlePositions(), v = state.getParticleVelocities(), b = state.getBestParticlePositions();
    const char *what = "";
    if (edit == 0) { state.clearCache(); what = "clearCache()"; }
    if (edit == 1) { state.clearBestParticles(); what = "clearBestParticles()"; }
    if (edit == 2) { state.setParticlePositions(std::vector<double>(8, 0.25)); what = "setParticlePositions()"; }
    if (edit == 3) { state.setBestParticlePositions(std::vector<double>(10, 0.25)); what = "setBestParticlePositions()"; }
    if (state.getParticleVelocities() != v) { std::printf("%s changed the velocities\n", what); bad++; }
    if (edit != 2 && state.getParticlePositions() != p) { std::printf("%s changed the particle positions\n", what); bad++; }
    if (edit != 1 && edit != 3 && state.getBestParticlePositions() != b) { std::printf("%s changed the best-known points (swarm best was (%g, %g), is (%g, %g))\n", what, b[8], b[9], state.getBestParticlePositions()[8], state.getBestParticlePositions()[9]); bad++; }
  }
  __CPROVER_assert(bad == 0, "F20b every state edit leaves the other parts of the state untouched");
  return 0;
}
'''
REPLAY_STALEPOS = r'''
/* On the real optimizer: two particles at {1, 2} are evaluated (0 iterations), the best-known points are cleared, the particles are moved to {3, 4}
 * through each of the position setters / the box initialiser, and the optimizer is called again with 0 iterations.  Every best-known point must be
 * a point at which the objective was evaluated. */
int main_replay(){
  using namespace TasOptimization;
  int bad = 0;
  for (int how = 0; how < 4; how++) {
    std::vector<double> seen;
    auto f = [&](const std::vector<double> &x, std::vector<double> &v){ for (size_t i = 0; i < v.size(); i++){ v[i] = x[i] * x[i]; seen.push_back(x[i]); } };
    auto inside = [](const std::vector<double> &)->bool{ return true; };
    auto rng = []()->double{ return 0.5; };
    ParticleSwarmState state(1, 2);
    state.setParticlePositions(std::vector<double>{1.0, 2.0}); state.setParticleVelocities(std::vector<double>{0.0, 0.0});
    ParticleSwarm(f, inside, 0.5, 2.0, 2.0, 0, state, rng);
    state.clearBestParticles();
    std::vector<double> p = {3.0, 4.0};
    if (how == 0) state.setParticlePositions(p.data());
    if (how == 1) state.setParticlePositions(p);
    if (how == 2) state.setParticlePositions(std::vector<double>(p));
    if (how == 3) state.initializeParticlesInsideBox(std::vector<double>{3.0}, std::vector<double>{3.0}, rng);      /* a box of width zero: both particles at 3 */
    ParticleSwarm(f, inside, 0.5, 2.0, 2.0, 0, state, rng);
    std::vector<double> best = state.getBestParticlePositions();
    for (size_t i = 0; i < best.size(); i++) { bool ev = false; for (double q : seen) if (q == best[i]) ev = true;
      if (!ev) { std::printf("position setter %d: best-known point %zu is x = %g, where the objective was never evaluated (evaluated: %zu points)\n", how, i, best[i], seen.size()); bad++; } }
  }
  __CPROVER_assert(bad == 0, "F20b after the particles were moved by a setter, cached objective values of the old positions are not attached to the new ones");
  return 0;
}
'''
def replay_setters(prop):
    def rp(job, ob, vals, wd):
        if "survive every edit" in ob["description"] or "only setParticlePositions changes" in ob["description"] or "touches the velocities" in ob["description"]:
            hdr = "Replay against the real optimizer.\nproperty %s job %s\nobligation %s: %s\nat %s" % (prop, job.name, ob["name"], ob["description"], ob["location"])
            return RP.write_and_run(prop, job.name + "." + ob["name"], hdr, ['"TasmanianOptimization.hpp"'], REPLAY_FRAME, "  main_replay();", lib="dream")
        if "keeps the position that value belongs to" in ob["description"]:
            hdr = "Replay against the real optimizer.\nproperty %s job %s\nobligation %s: %s\nat %s" % (prop, job.name, ob["name"], ob["description"], ob["location"])
            return RP.write_and_run(prop, job.name + "." + ob["name"], hdr, ['"TasmanianOptimization.hpp"'], REPLAY_STALEPOS, "  main_replay();", lib="dream")
        w = vals.get("a_which", "4")
        try: wi = int(w)
        except Exception: wi = 4
        hdr = "Replay against the real optimizer.\nproperty %s job %s\nobligation %s: %s\nat %s\ncounterexample setter #%s (0/1 setParticlePositions, 2/3 setBestParticlePositions, 4 clearBestParticles, 5 clearCache)" % (
            prop, job.name, ob["name"], ob["description"], ob["location"], w)
        return RP.write_and_run(prop, job.name + "." + ob["name"], hdr, ['"TasmanianOptimization.hpp"'], REPLAY_F20B.replace("@WHICH@", str(wi)), "  main_replay();", lib="dream")
    return rp

REPLAY_SPLIT = r'''
/* On the real optimizer: n then m iterations on the same state, with the same random stream, equal n+m iterations; the domain excludes the whole initial swarm
 * so that the first swarm best appears in the middle of a call. */
int main_replay(){
  int bad = 0;
  auto f = [](const std::vector<double> &x, std::vector<double> &fv)->void{ for (size_t i = 0; i < fv.size(); i++) fv[i] = (x[i] - 25.0) * (x[i] - 25.0); };
  auto inside = [](const std::vector<double> &x)->bool{ return x[0] > 20.0; };
  for (int n = 0; n <= 6; n++) for (int m = 0; m <= 6; m++) {
    auto mk = []()->TasOptimization::ParticleSwarmState{ TasOptimization::ParticleSwarmState s(1, 4); s.setParticlePositions(std::vector<double>{10.0, 4.0, 1.0, 12.0}); s.setParticleVelocities(std::vector<double>{3.0, 5.0, 7.0, 2.5}); return s; };
    TasOptimization::ParticleSwarmState a = mk(), b = mk();
    unsigned ca = 0, cb = 0;
    auto rng = [](unsigned &c)->double{ c = c * 1664525u + 1013904223u; return (double)(c >> 8) / 16777216.0; };
    TasOptimization::ParticleSwarm(f, inside, 0.7, 1.1, 1.3, n + m, a, [&]()->double{ return rng(ca); });
    TasOptimization::ParticleSwarm(f, inside, 0.7, 1.1, 1.3, n, b, [&]()->double{ return rng(cb); });
    TasOptimization::ParticleSwarm(f, inside, 0.7, 1.1, 1.3, m, b, [&]()->double{ return rng(cb); });
    if (a.getParticlePositions() != b.getParticlePositions() || a.getParticleVelocities() != b.getParticleVelocities() || a.getBestParticlePositions() != b.getBestParticlePositions()) {
      if (bad < 5) std::printf("split mismatch: %d + %d iterations differ from %d then %d\n", n, m, n, m); bad++; }
  }
  __CPROVER_assert(bad == 0, "C20 running n then m iterations on the same state equals running n+m");
  return 0;
}
'''
REPLAY_ZEROSTRIP = r'''
/* On the real optimizer: two particles at {1, 5}, the domain x < 2 contains the first particle and the origin but never the second particle.
 * ParticleSwarm(0 iterations), clearCache(), ParticleSwarm(0 iterations): the objective must be evaluated only at points a particle visited. */
int main_replay(){
  using namespace TasOptimization;
  std::vector<double> seen;
  auto f = [&](const std::vector<double> &x, std::vector<double> &v){ for (size_t i = 0; i < v.size(); i++){ v[i] = x[i] * x[i] + 1.0; seen.push_back(x[i]); } };
  auto inside = [](const std::vector<double> &x)->bool{ return x[0] < 2.0; };
  auto rng = []()->double{ return 0.5; };
  ParticleSwarmState state(1, 2);
  state.setParticlePositions(std::vector<double>{1.0, 5.0}); state.setParticleVelocities(std::vector<double>{0.0, 0.0});
  ParticleSwarm(f, inside, 0.5, 2.0, 2.0, 0, state, rng);
  state.clearCache();
  ParticleSwarm(f, inside, 0.5, 2.0, 2.0, 0, state, rng);
  int bad = 0;
  for (double q : seen) if (q != 1.0) { std::printf("the objective was evaluated at x = %g, a point no particle visited (particles: 1 inside the domain, 5 outside)\n", q); bad++; }
  std::vector<double> best = state.getBestParticlePositions();
  std::printf("best-known points after the second call: particle 0: %g, particle 1: %g, swarm: %g\n", best[0], best[1], best[2]);
  __CPROVER_assert(bad == 0, "C20 F21c after clearCache() the objective is evaluated only at visited points (not at the zero strip of a particle that was never inside the domain)");
  return 0;
}
'''
def replay_split(prop):
    zero = lambda job, ob: RP.write_and_run(prop, job.name + "." + ob["name"], "Replay against the real optimizer.\nproperty %s job %s\nobligation %s: %s\nat %s" % (prop, job.name, ob["name"], ob["description"], ob["location"]),
                                            ['"TasmanianOptimization.hpp"'], REPLAY_ZEROSTRIP, "  main_replay();", lib="dream", timeout=60)
    def rp(job, ob, vals, wd):
        if "F21c" in ob["description"]:
            return zero(job, ob)
        hdr = "Replay against the real optimizer.\nproperty %s job %s\nobligation %s: %s\nat %s" % (prop, job.name, ob["name"], ob["description"], ob["location"])
        return RP.write_and_run(prop, job.name + "." + ob["name"], hdr, ['"TasmanianOptimization.hpp"'], REPLAY_SPLIT, "  main_replay();", lib="dream", timeout=60)
    return rp

def jobs(tier, seed, prop):
    np_, nd = (3, 1) if tier == "quick" else (3, 2)
    cf = ContractFile("contracts/pswarm.c")
    pre = '#include "tsg_shim.h"\nint tsg_exc;\n#define TSG_NP %d\n#define TSG_NDIM %d\n#line 1 "/verif/contracts/pswarm.c"\n' % (np_, nd) + cf.text(("text",))
    bound = "particles <= %d, dimensions <= %d (full unwinding with unwinding assertions)" % (np_, nd)
    out = []
    for nm, em, h in (("f_constrained", pswarm.emit_f_constrained, "h_f_constrained"), ("update", pswarm.emit_update, "h_update"), ("setters", pswarm.emit_setters, "h_setters")):
        R = X.Rules()
        t, info = em(R)
        out.append(Job("pswarm." + nm, pre + t + cf.text(("harness",), [h]), h, unwind=(np_ + 1) * nd + 2, timeout=600,
                       backends=[["--refine-arithmetic"], []] if nm != "update" else [[], ["--sat-solver", "cadical"]],
                       functions=["%s:%d %s" % (f["file"], f["line"], f["name"]) for f in info["functions"]], info=info, bounded=bound,
                       replay=replay_setters(prop) if nm == "setters" else None,
                       assumed=["objective and domain test are arbitrary callbacks (any doubles / any bool)", "objective values are not NaN (hypothesis of F20)"],
                       label={"f_constrained": "lambda f_constrained of ParticleSwarm against F19", "update": "lambda update of ParticleSwarm: best-known invariant is inductive (F20)",
                              "setters": "ParticleSwarmState setters/clearers keep cache and positions coherent (F20b)"}[nm]))
    Rm = X.Rules()
    mt, minfo = pswarm.emit_main(Rm)
    t2 = [t_ for k, a, t_ in cf.sections if k == "text2"][0]
    nit = 3
    pre_m = '#include "tsg_shim.h"\nint tsg_exc;\n#define TSG_NP 2\n#define TSG_NDIM 1\n#define TSG_NIT %d\n#line 1 "/verif/contracts/pswarm.c"\n' % nit + cf.text(("text",))
    out.append(Job("pswarm.main", pre_m + t2 + mt + cf.text(("harness",), ["h_main"]), "h_main", unwind=6, timeout=600, backends=[["--refine-arithmetic"], ["--sat-solver", "cadical"]],
                   functions=["%s:%d %s" % (f["file"], f["line"], f["name"]) for f in minfo["functions"]], info=minfo, replay=replay_split(prop),
                   bounded="particles <= 2, dimensions == 1, iterations <= %d (full unwinding with unwinding assertions)" % nit,
                   assumed=["the lambdas f_constrained and update are stubs here (F19 / F20 are their own jobs): update may turn best-known flags on, never off",
                            "the values of the velocity update are not decided (floating point); the obligations are about which branch runs and how many draws it consumes"],
                   label="ParticleSwarm iteration loop: the mode of every iteration follows the current swarm-best flag; draws per iteration; iteration count"))
    return out
