"""Unit C20: ParticleSwarm lambdas (F19, F20) and state setters (F20b)."""
from .. import tsg2c as X
from ..runner import Job
from ..contractfile import ContractFile
from .. import replay as RP
from . import pswarm

REPLAY_F20B = r'''
/* the real optimizer: run, edit the state with the documented setter, run zero more iterations;
 * the swarm best must still be a visited in-domain point whose cached value is the objective there */
int main_replay(){
  using namespace TasOptimization;
  int which = @WHICH@;
  double min_seen = 1e300;
  auto f = [&](const std::vector<double> &x, std::vector<double> &v){ for (size_t i = 0; i < v.size(); i++){ v[i] = (x[i] - 0.5) * (x[i] - 0.5); if (v[i] < min_seen) min_seen = v[i]; } };
  auto inside = [](const std::vector<double> &x)->bool{ return x[0] >= 0.0 && x[0] <= 1.0; };
  ParticleSwarmState state(1, 5);
  std::vector<double> lo = {0.0}, hi = {1.0};
  int seed = 7; auto rng = [&]()->double{ seed = (seed * 1103515245 + 12345) & 0x7fffffff; return double(seed) / double(0x7fffffff); };
  state.initializeParticlesInsideBox(lo, hi, rng);
  ParticleSwarm(f, inside, 0.5, 2.0, 2.0, 30, state, rng);
  std::printf("after 30 iterations the swarm best is x = %.6f\n", state.getBestPosition()[0]);
  if (which == 4) state.clearBestParticles();
  else if (which <= 1) state.setParticlePositions(std::vector<double>(5, 0.05));
  else state.setBestParticlePositions(std::vector<double>(6, 0.9));
  min_seen = 1e300;
  ParticleSwarm(f, inside, 0.5, 2.0, 2.0, (which == 4) ? 0 : 20, state, rng);
  double xb = state.getBestPosition()[0];
  std::vector<double> pp = state.getParticlePositions();
  std::printf("after the state edit and 0 further iterations the swarm best is x = %.6f (objective %.6f)\n", xb, (xb - 0.5) * (xb - 0.5));
  bool visited = false;
  for (double p : pp) if (p == xb) visited = true;
  if (which == 4) __CPROVER_assert(visited || std::fabs(xb - 0.5) < 1e-3, "F20b after clearBestParticles() the swarm best is a point that was actually visited (not the zeroed slot with a stale cached value)");
  if (which <= 1) __CPROVER_assert(std::fabs(xb - 0.05) < 1e-12 || std::fabs(xb - 0.5) < 0.05, "F20b after setParticlePositions() cached values are not attached to the new positions");
  if (which == 2 || which == 3){
    std::printf("smallest objective value evaluated after the edit: %.6f\n", min_seen);
    __CPROVER_assert((xb - 0.5) * (xb - 0.5) <= min_seen, "F20b after setBestParticlePositions() the swarm best is the minimum over the in-domain evaluations (stale cached best values are not kept)");
  }
  return 0;
}
'''
def replay_setters(prop):
    def rp(job, ob, vals, wd):
        w = vals.get("a_which", "4")
        try: wi = int(w)
        except Exception: wi = 4
        hdr = "Replay against the real optimizer.\nproperty %s job %s\nobligation %s: %s\nat %s\ncounterexample setter #%s (0/1 setParticlePositions, 2/3 setBestParticlePositions, 4 clearBestParticles, 5 clearCache)" % (
            prop, job.name, ob["name"], ob["description"], ob["location"], w)
        return RP.write_and_run(prop, job.name + "." + ob["name"], hdr, ['"TasmanianOptimization.hpp"'], REPLAY_F20B.replace("@WHICH@", str(wi)), "  main_replay();", lib="dream")
    return rp

def jobs(tier, seed, prop):
    np_, nd = (3, 1) if tier == "quick" else (3, 2)
    cf = ContractFile("contracts/pswarm.c")
    pre = '#include "tsg_shim.h"\nint tsg_exc;\n#define TSG_NP %d\n#define TSG_NDIM %d\n#line 1 "/verif/contracts/pswarm.c"\n' % (np_, nd) + cf.text(("text",))
    bound = "particles <= %d, dimensions <= %d (full unwinding with unwinding assertions)" % (np_, nd)
    out = []
    for nm, em, h in (("f_constrained", pswarm.emit_f_constrained, "h_f_constrained"), ("update", pswarm.emit_update, "h_update"), ("setters", pswarm.emit_setters, "h_setters")):
        R = X.Rules()
        t, info = em(R)
        out.append(Job("pswarm." + nm, pre + t + cf.text(("harness",), [h]), h, unwind=(np_ + 1) * nd + 2, timeout=600,
                       backends=[["--refine-arithmetic"], []] if nm != "update" else [[], ["--sat-solver", "cadical"]],
                       functions=["%s:%d %s" % (f["file"], f["line"], f["name"]) for f in info["functions"]], info=info, bounded=bound,
                       replay=replay_setters(prop) if nm == "setters" else None,
                       assumed=["objective and domain test are arbitrary callbacks (any doubles / any bool)", "objective values are not NaN (hypothesis of F20)"],
                       label={"f_constrained": "lambda f_constrained of ParticleSwarm against F19", "update": "lambda update of ParticleSwarm: best-known invariant is inductive (F20)",
                              "setters": "ParticleSwarmState setters/clearers keep cache and positions coherent (F20b)"}[nm]))
    return out
