"""Unit C12 (narrow): frame of the const wavelet weight queries (F12)."""
from .. import tsg2c as X
from ..runner import Job
from ..contractfile import ContractFile
from .. import replay as RP
from . import wavelet

REPLAY = r'''
/* two threads call the const query on one const wavelet grid (outputs > 0, so the cache is stale);
 * compiled with ThreadSanitizer, a write to the mutable cache is reported as a data race */
#include <thread>
int main_replay(){
  using namespace TasGrid;
  auto g = makeWaveletGrid(2, 1, 2, 1);
  std::vector<double> pts = g.getNeededPoints(), v(g.getNumNeeded());
  for (size_t i = 0; i < v.size(); i++) v[i] = std::exp(pts[2*i] - pts[2*i+1]);
  g.loadNeededValues(v);
  const TasmanianSparseGrid &cg = g;
  auto work = [&](double x0){ std::vector<double> x = {x0, 0.1}; for (int k = 0; k < 20; k++){ auto w = cg.getInterpolationWeights(x); (void) w; } };
  std::thread t1(work, 0.3), t2(work, -0.2);
  t1.join(); t2.join();
  std::printf("both threads finished\n");
  return 0;
}
'''
REPLAY_WARM = r'''
/* every const query is called once from one thread (the cache is built), then two threads call the const queries on the same const grid;
 * a loaded grid and a grid with a pending refinement.  Compiled with ThreadSanitizer: any further write to the mutable cache is a data race */
#include <thread>
int main_replay(){
  using namespace TasGrid;
  for (int pending = 0; pending < 2; pending++) {
    auto g = makeWaveletGrid(2, 1, 2, 1);
    std::vector<double> pts = g.getNeededPoints(), v(g.getNumNeeded());
    for (size_t i = 0; i < v.size(); i++) v[i] = std::exp(pts[2*i] - pts[2*i+1]);
    g.loadNeededValues(v);
    if (pending) g.setSurplusRefinement(1.E-3, refine_classic);
    const TasmanianSparseGrid &cg = g;
    auto work = [&](double x0, int reps){ std::vector<double> x = {x0, 0.1}; for (int k = 0; k < reps; k++){ auto w = cg.getInterpolationWeights(x); auto q = cg.getQuadratureWeights(); auto d = cg.getDifferentiationWeights(x); (void) w; (void) q; (void) d; } };
    work(0.5, 1);      /* warm-up, single thread */
    std::thread t1(work, 0.3, 20), t2(work, -0.2, 20);
    t1.join(); t2.join();
  }
  std::printf("both threads finished\n");
  return 0;
}
'''
def make_replay(prop):
    rows = replay_rows(prop)
    def rp(job, ob, vals, wd):
        if "precondition" in ob["name"]:
            return rows(job, ob, vals, wd)
        hdr = ("Replay against the real library under ThreadSanitizer (exit code 66 = data race reported).\nproperty %s job %s\nobligation %s: %s\nat %s"
               % (prop, job.name, ob["name"], ob["description"], ob["location"]))
        import os
        os.environ["TSAN_OPTIONS"] = "exitcode=1 halt_on_error=1"
        return RP.write_and_run(prop, job.name + "." + ob["name"], hdr, ['"TasmanianSparseGrid.hpp"'], REPLAY_WARM if job.name.endswith(".warm") else REPLAY, "  main_replay();", lib="sg",
                                flags=["-fsanitize=thread", "-O1"], timeout=300)
    return rp

# class-level frame argument: a const member function can write only (i) `mutable` members, (ii) through const_cast,
# (iii) function-static / global variables; everything else is rejected by the C++ compiler.  The scan below lists every
# such escape hatch in the sparse-grid sources; each one must be in the table with the reason why it is harmless in the
# default (no GPU) acceleration mode -- or be under a contract (inter_matrix: F12, a known finding).
MUTABLE_OK = {
    "acc_domain": "GPU domain-transform cache, only touched when a GPU backend is active",
    "engine": "GPU engine handle of the acceleration context",
    "gpu_cache": "GPU data cache, only filled by the *GPU methods",
    "gpu_cachef": "GPU data cache (float), only filled by the *GPU methods",
    "inter_matrix": "CPU cache written by const wavelet queries: under contract F12 (known finding D5)",
}
def static_frame_job(prop):
    import glob, os, re
    files = sorted(glob.glob(os.path.join(X.REPO, "SparseGrids", "*.hpp")) + glob.glob(os.path.join(X.REPO, "SparseGrids", "tsg*.cpp")) + glob.glob(os.path.join(X.REPO, "SparseGrids", "TasmanianSparseGrid*.cpp")))
    mut, ccast, stat = [], [], []
    for f in files:
        rel = os.path.relpath(f, X.REPO)
        text = X.strip_comments(X.read_source(rel))
        for m in re.finditer(r'\bmutable\b[^;(){}]*?(\w+)\s*;', text):
            mut.append((rel, text.count("\n", 0, m.start()) + 1, m.group(1)))
        for m in re.finditer(r'\bconst_cast\s*<', text):
            ccast.append((rel, text.count("\n", 0, m.start()) + 1))
        for m in re.finditer(r'(?<![\w])static\s+(?!const\b|constexpr\b|inline\b)(?:thread_local\s+)?[\w:<>,\s\*&]+?\s+\*?(\w+)\s*(?:=[^;(){}]*|\([^;(){}]*\))?;', text):
            # a static *data* declaration (no parameter list of a function declaration): inside a function body or a class
            decl = m.group(0)
            if re.search(r'\)\s*(const)?\s*;$', decl) and not re.search(r'=\s*', decl):
                continue
            stat.append((rel, text.count("\n", 0, m.start()) + 1, m.group(1)))
    # (iv) objects owned through a pointer member: a const member function holds a pointer to a NON-const pointee (unique_ptr<T>), the compiler does not
    # stop it from calling a mutating member of T.  Every use of such a member inside a const member function of the grid classes must be a call of a
    # member function that is declared const in the pointee's header (GPU caches and the pointer-to-const acceleration context are in the table above).
    ptr_uses, ptr_bad = [], []
    decl_text = X.strip_comments(X.read_source("SparseGrids/tsgDConstructGridGlobal.hpp"))
    for f in files:
        rel = os.path.relpath(f, X.REPO)
        if not re.search(r'tsgGrid\w+\.(cpp|hpp)$', rel):
            continue
        text = X.strip_comments(X.read_source(rel))
        for m in re.finditer(r'\)\s*const\s*(?:override\s*)?\{', text):
            k = text.index('{', m.start()); e = X.match_close(text, k); body = text[k:e + 1]
            for u in re.finditer(r'\bdynamic_values\s*->\s*(\w+)\s*(?:<[^>;(]*>)?\s*(\()?', body):
                where = (rel, text.count("\n", 0, k + u.start()) + 1, u.group(1))
                ptr_uses.append(where)
                name = u.group(1)
                decls = re.findall(r'\b%s\s*\([^;{}()]*\)\s*(const\b)?\s*[;{]' % re.escape(name), decl_text)
                if u.group(2) is None or not decls or any(d == "" for d in decls):
                    ptr_bad.append(where)
    if len(ptr_uses) < 5:
        raise X.ExtractionBreak("static frame scan found only %d uses of dynamic_values in const member functions: the scan no longer matches the sources" % len(ptr_uses))
    bad_mut = [x for x in mut if x[2] not in MUTABLE_OK]
    if len(mut) < 5:
        raise X.ExtractionBreak("static frame scan found only %d mutable members: the scan no longer matches the sources" % len(mut))
    def lst(v): return "; ".join("%s:%d %s" % (a[0], a[1], a[2] if len(a) > 2 else "") for a in v[:6]) or "none"
    ctext = ('#include "tsg_shim.h"\nint tsg_exc;\nvoid h_static_frame(void){\n'
             '  __CPROVER_assert(%d == 0, "F12s every mutable member of the sparse-grid classes is a listed cache (new: %s)");\n' % (len(bad_mut), lst(bad_mut)) +
             '  __CPROVER_assert(%d == 0, "F12s no const_cast in the sparse-grid sources (found: %s)");\n' % (len(ccast), lst(ccast)) +
             '  __CPROVER_assert(%d == 0, "F12s no function-static or class-static mutable data in the sparse-grid sources (found: %s)");\n' % (len(stat), lst(stat)) +
             '  __CPROVER_assert(%d == 0, "F12s a const member function reaches the construction data it owns through a pointer only by member functions declared const (offending: %s)");\n' % (len(ptr_bad), lst(ptr_bad)) +
             '  __CPROVER_assert(0, "VACUITY-CANARY");\n}\n')
    info = {"functions": [], "rules_fired": {"scan-mutable": len(mut), "scan-const_cast": len(ccast), "scan-static-data": len(stat), "scan-owned-pointer-uses": len(ptr_uses)},
            "drops": ["this job is a syntactic scan of the sources (supporting static fact), decided by the extractor; CBMC only evaluates the three counts"]}
    return Job("wavelet.static_frame", ctext, "h_static_frame", timeout=60, functions=["SparseGrids/*.hpp, SparseGrids/tsg*.cpp: %d mutable members, %d const_cast, %d static data" % (len(mut), len(ccast), len(stat))], info=info,
               assumed=["C++ const-correctness is enforced by the compiler for everything that is not mutable, const_cast or static"],
               label="class-level frame: the only ways a const member function can write (mutable members, const_cast, static data) are all listed")

REPLAY_ROWS = r'''
/* On the real library: a wavelet grid caches its interpolation matrix at a weights call; the point set then changes without a reload
 * (setSurplusRefinement -> mergeRefinement -> setHierarchicalCoefficients); the three kinds of weights must still act on the current points. */
int main_replay(){
  using namespace TasGrid;
  int bad = 0;
  for (int order : {1, 3}) {
    TasmanianSparseGrid g = makeWaveletGrid(2, 1, 2, order);
    auto f = [](double a, double b)->double{ return std::exp(-a * a - 0.5 * b) + 0.3 * std::sin(3.0 * a * b); };
    auto check = [&](const char *stage){
      int n = g.getNumLoaded(); const double *v = g.getLoadedValues();
      std::vector<double> q; g.integrate(q);
      std::vector<double> w = g.getQuadratureWeights(), x = {0.3, -0.45}, y, dy;
      g.evaluate(x, y); g.differentiate(x, dy);
      std::vector<double> iw = g.getInterpolationWeights(x), dw = g.getDifferentiationWeights(x);
      double sq = 0, si = 0, sd0 = 0, sd1 = 0;
      for (int i = 0; i < n; i++) { sq += w[i] * v[i]; si += iw[i] * v[i]; sd0 += dw[2*i] * v[i]; sd1 += dw[2*i+1] * v[i]; }
      if (!(std::abs(sq - q[0]) < 1.E-9 && std::abs(si - y[0]) < 1.E-9 && std::abs(sd0 - dy[0]) < 1.E-8 && std::abs(sd1 - dy[1]) < 1.E-8)) {
        std::printf("order %d, %s (%d points): integrate %.12g vs weights %.12g; evaluate %.12g vs weights %.12g; gradient (%.12g, %.12g) vs weights (%.12g, %.12g)\n", order, stage, n, q[0], sq, y[0], si, dy[0], dy[1], sd0, sd1);
        bad++; } };
    { std::vector<double> p = g.getNeededPoints(), v(g.getNumNeeded()); for (size_t i = 0; i < v.size(); i++) v[i] = f(p[2*i], p[2*i+1]); g.loadNeededValues(v); }
    check("loaded");
    g.setSurplusRefinement(1.E-3, refine_classic);
    check("pending refinement");
    g.mergeRefinement();
    { int n = g.getNumLoaded(); std::vector<double> c(n); for (int i = 0; i < n; i++) c[i] = 0.5 + std::sin(1.0 + 0.7 * i) / (1.0 + 0.1 * i); g.setHierarchicalCoefficients(c); }
    check("merged, coefficients set");
  }
  __CPROVER_assert(bad == 0, "C04 the wavelet weights (quadrature, interpolation, differentiation) act on the current point set after it changed without a reload");
  return 0;
}
'''
def replay_rows(prop):
    def rp(job, ob, vals, wd):
        hdr = "Replay through the public API of the real library.\nproperty %s job %s\nobligation %s: %s\nat %s" % (prop, job.name, ob["name"], ob["description"], ob["location"])
        return RP.write_and_run(prop, job.name + "." + ob["name"], hdr, ['"TasmanianSparseGrid.hpp"', '<cmath>'], REPLAY_ROWS, "  main_replay();", lib="sg", timeout=120)
    return rp

WARM = "__CPROVER_requires(self->inter_matrix.rows == ((self->points_n == 0) ? self->needed_n : self->points_n))"
def jobs(tier, seed, prop):
    """C12: the frame of the const queries, (cold) from any cache state -- known finding D5 -- and (warm) once the cache fits the working set.
    C04: the cache may be written; the linear system solved must be the one of the current working set."""
    cf = ContractFile("contracts/wavelet.c")
    npmax = 3 if tier == "quick" else 5
    out = [static_frame_job(prop)] if prop == "C12" else []
    stubs = ["GridWavelet_evalIntegral", "GridWavelet_evalBasis", "GridWavelet_evalDiffBasis", "WaveletBasisMatrix_getNumRows", "WaveletBasisMatrix_invertTransposed", "GridWavelet_buildInterpolationMatrix"]
    variants = [("", "", "")] + [(".warm", WARM, "")] if prop == "C12" else [(".rows", "", ", self->inter_matrix")]
    for suffix, warm, cache in variants:
        R = X.Rules()
        con = {k: v.replace("@WARM@", warm).replace("@CACHE@", cache) for k, v in cf.contracts().items()}
        t, info = wavelet.emit(R, con)
        pre = '#include "tsg_shim.h"\nint tsg_exc;\n#define TSG_NPMAX %d\n#line 1 "/verif/contracts/wavelet.c"\n' % npmax + cf.text(("text", "stub")) + t
        for f in info["functions"]:
            nm = f["name"].split("::")[1]
            label = {"": "GridWavelet::%s writes only its output array (assigns clause enforced by dfcc)",
                     ".warm": "GridWavelet::%s, called when the cached matrix fits the working set, writes only its output array (no rebuild of the cache)",
                     ".rows": "GridWavelet::%s solves the system of the current working set (the cached matrix has one row per point when it is used)"}[suffix] % nm
            out.append(Job("wavelet." + nm + suffix, pre + cf.text(("harness",), ["h_" + nm]), "h_" + nm, enforce="GridWavelet_" + nm, replace=stubs,
                           pre_unwindset={r'GridWavelet_%s' % nm: npmax + 2, r'tsg_\w+': npmax + 2}, timeout=300,
                           functions=["%s:%d %s" % (f["file"], f["line"], f["name"])], info=info, replay=make_replay(prop) if prop == "C12" else replay_rows(prop),
                           bounded="points <= %d, dimensions <= 2 (loops unwound; the frame obligations do not depend on the sizes)" % npmax,
                           assumed=["callee contracts (invertTransposed writes its argument only; buildInterpolationMatrix assigns the cached matrix and makes it fit the working set) are assumed, not enforced; the frames of evalIntegral, evalBasis, evalDiffBasis are enforced by the jobs wavelet.eval.* of C12"],
                           label=label))
    if prop == "C12":
        out += eval_jobs()
    return out

def eval_jobs():
    """The evaluators that the weight queries above call through contracts, themselves under contract: frame enforced by dfcc."""
    cf = ContractFile("contracts/wavelet_eval.c")
    R = X.Rules()
    t, info = wavelet.emit_eval(R, cf.contracts())
    pre = '#include "tsg_shim.h"\nint tsg_exc;\n#line 1 "/verif/contracts/wavelet_eval.c"\n' + cf.text(("text", "stub")) + t
    stubs = ["RuleWavelet_eval0", "RuleWavelet_eval1", "RuleWavelet_getWeight"]
    out = []
    for f in info["functions"]:
        nm = f["name"].split("::")[1]
        out.append(Job("wavelet.eval." + nm, pre + cf.text(("harness",), ["h_" + nm]), "h_" + nm, enforce="GridWavelet_" + nm, replace=stubs,
                       pre_unwindset={r'GridWavelet_%s' % nm: 4, r'tsg_\w+': 4}, timeout=300,
                       functions=["%s:%d %s" % (f["file"], f["line"], f["name"])], info=info,
                       bounded="dimensions <= 2 (loops unwound; the frame obligations do not depend on the sizes)",
                       assumed=["RuleWavelet::eval<mode> and RuleWavelet::getWeight are pure (const member functions of a class without mutable members: see wavelet.static_frame); assumed, not enforced"],
                       label="GridWavelet::%s %s (assigns clause enforced by dfcc)" % (nm, "writes only its output array" if nm == "evalDiffBasis" else "writes nothing")))
    return out
