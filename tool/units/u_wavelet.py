"""Unit C12 (narrow): frame of the const wavelet weight queries (F12)."""
from .. import tsg2c as X
from ..runner import Job
from ..contractfile import ContractFile
from .. import replay as RP
from . import wavelet

REPLAY = r'''
/* two threads call the const query on one const wavelet grid (outputs > 0, so the cache is stale);
 * compiled with ThreadSanitizer, a write to the mutable cache is reported as a data race */
#include <thread>
int main_replay(){
  using namespace TasGrid;
  auto g = makeWaveletGrid(2, 1, 2, 1);
  std::vector<double> pts = g.getNeededPoints(), v(g.getNumNeeded());
  for (size_t i = 0; i < v.size(); i++) v[i] = std::exp(pts[2*i] - pts[2*i+1]);
  g.loadNeededValues(v);
  const TasmanianSparseGrid &cg = g;
  auto work = [&](double x0){ std::vector<double> x = {x0, 0.1}; for (int k = 0; k < 20; k++){ auto w = cg.getInterpolationWeights(x); (void) w; } };
  std::thread t1(work, 0.3), t2(work, -0.2);
  t1.join(); t2.join();
  std::printf("both threads finished\n");
  return 0;
}
'''
def make_replay(prop):
    def rp(job, ob, vals, wd):
        hdr = ("Replay against the real library under ThreadSanitizer (exit code 66 = data race reported).\nproperty %s job %s\nobligation %s: %s\nat %s"
               % (prop, job.name, ob["name"], ob["description"], ob["location"]))
        import os
        os.environ["TSAN_OPTIONS"] = "exitcode=1 halt_on_error=1"
        return RP.write_and_run(prop, job.name + "." + ob["name"], hdr, ['"TasmanianSparseGrid.hpp"'], REPLAY, "  main_replay();", lib="sg",
                                flags=["-fsanitize=thread", "-O1"], timeout=300)
    return rp

# class-level frame argument: a const member function can write only (i) `mutable` members, (ii) through const_cast,
# (iii) function-static / global variables; everything else is rejected by the C++ compiler.  The scan below lists every
# such escape hatch in the sparse-grid sources; each one must be in the table with the reason why it is harmless in the
# default (no GPU) acceleration mode -- or be under a contract (inter_matrix: F12, a known finding).
MUTABLE_OK = {
    "acc_domain": "GPU domain-transform cache, only touched when a GPU backend is active",
    "engine": "GPU engine handle of the acceleration context",
    "gpu_cache": "GPU data cache, only filled by the *GPU methods",
    "gpu_cachef": "GPU data cache (float), only filled by the *GPU methods",
    "inter_matrix": "CPU cache written by const wavelet queries: under contract F12 (known finding D5)",
}
def static_frame_job(prop):
    import glob, os, re
    files = sorted(glob.glob(os.path.join(X.REPO, "SparseGrids", "*.hpp")) + glob.glob(os.path.join(X.REPO, "SparseGrids", "tsg*.cpp")) + glob.glob(os.path.join(X.REPO, "SparseGrids", "TasmanianSparseGrid*.cpp")))
    mut, ccast, stat = [], [], []
    for f in files:
        rel = os.path.relpath(f, X.REPO)
        text = X.strip_comments(X.read_source(rel))
        for m in re.finditer(r'\bmutable\b[^;(){}]*?(\w+)\s*;', text):
            mut.append((rel, text.count("\n", 0, m.start()) + 1, m.group(1)))
        for m in re.finditer(r'\bconst_cast\s*<', text):
            ccast.append((rel, text.count("\n", 0, m.start()) + 1))
        for m in re.finditer(r'(?<![\w])static\s+(?!const\b|constexpr\b|inline\b)(?:thread_local\s+)?[\w:<>,\s\*&]+?\s+\*?(\w+)\s*(?:=[^;(){}]*|\([^;(){}]*\))?;', text):
            # a static *data* declaration (no parameter list of a function declaration): inside a function body or a class
            decl = m.group(0)
            if re.search(r'\)\s*(const)?\s*;$', decl) and not re.search(r'=\s*', decl):
                continue
            stat.append((rel, text.count("\n", 0, m.start()) + 1, m.group(1)))
    # (iv) objects owned through a pointer member: a const member function holds a pointer to a NON-const pointee (unique_ptr<T>), the compiler does not
    # stop it from calling a mutating member of T.  Every use of such a member inside a const member function of the grid classes must be a call of a
    # member function that is declared const in the pointee's header (GPU caches and the pointer-to-const acceleration context are in the table above).
    ptr_uses, ptr_bad = [], []
    decl_text = X.strip_comments(X.read_source("SparseGrids/tsgDConstructGridGlobal.hpp"))
    for f in files:
        rel = os.path.relpath(f, X.REPO)
        if not re.search(r'tsgGrid\w+\.(cpp|hpp)$', rel):
            continue
        text = X.strip_comments(X.read_source(rel))
        for m in re.finditer(r'\)\s*const\s*(?:override\s*)?\{', text):
            k = text.index('{', m.start()); e = X.match_close(text, k); body = text[k:e + 1]
            for u in re.finditer(r'\bdynamic_values\s*->\s*(\w+)\s*(?:<[^>;(]*>)?\s*(\()?', body):
                where = (rel, text.count("\n", 0, k + u.start()) + 1, u.group(1))
                ptr_uses.append(where)
                name = u.group(1)
                decls = re.findall(r'\b%s\s*\([^;{}()]*\)\s*(const\b)?\s*[;{]' % re.escape(name), decl_text)
                if u.group(2) is None or not decls or any(d == "" for d in decls):
                    ptr_bad.append(where)
    if len(ptr_uses) < 5:
        raise X.ExtractionBreak("static frame scan found only %d uses of dynamic_values in const member functions: the scan no longer matches the sources" % len(ptr_uses))
    bad_mut = [x for x in mut if x[2] not in MUTABLE_OK]
    if len(mut) < 5:
        raise X.ExtractionBreak("static frame scan found only %d mutable members: the scan no longer matches the sources" % len(mut))
    def lst(v): return "; ".join("%s:%d %s" % (a[0], a[1], a[2] if len(a) > 2 else "") for a in v[:6]) or "none"
    ctext = ('#include "tsg_shim.h"\nint tsg_exc;\nvoid h_static_frame(void){\n'
             '  __CPROVER_assert(%d == 0, "F12s every mutable member of the sparse-grid classes is a listed cache (new: %s)");\n' % (len(bad_mut), lst(bad_mut)) +
             '  __CPROVER_assert(%d == 0, "F12s no const_cast in the sparse-grid sources (found: %s)");\n' % (len(ccast), lst(ccast)) +
             '  __CPROVER_assert(%d == 0, "F12s no function-static or class-static mutable data in the sparse-grid sources (found: %s)");\n' % (len(stat), lst(stat)) +
             '  __CPROVER_assert(%d == 0, "F12s a const member function reaches the construction data it owns through a pointer only by member functions declared const (offending: %s)");\n' % (len(ptr_bad), lst(ptr_bad)) +
             '  __CPROVER_assert(0, "VACUITY-CANARY");\n}\n')
    info = {"functions": [], "rules_fired": {"scan-mutable": len(mut), "scan-const_cast": len(ccast), "scan-static-data": len(stat), "scan-owned-pointer-uses": len(ptr_uses)},
            "drops": ["this job is a syntactic scan of the sources (supporting static fact), decided by the extractor; CBMC only evaluates the three counts"]}
    return Job("wavelet.static_frame", ctext, "h_static_frame", timeout=60, functions=["SparseGrids/*.hpp, SparseGrids/tsg*.cpp: %d mutable members, %d const_cast, %d static data" % (len(mut), len(ccast), len(stat))], info=info,
               assumed=["C++ const-correctness is enforced by the compiler for everything that is not mutable, const_cast or static"],
               label="class-level frame: the only ways a const member function can write (mutable members, const_cast, static data) are all listed")

def jobs(tier, seed, prop):
    cf = ContractFile("contracts/wavelet.c")
    R = X.Rules()
    t, info = wavelet.emit(R, cf.contracts())
    npmax = 3 if tier == "quick" else 5
    pre = '#include "tsg_shim.h"\nint tsg_exc;\n#define TSG_NPMAX %d\n#line 1 "/verif/contracts/wavelet.c"\n' % npmax + cf.text(("text", "stub")) + t
    out = [static_frame_job(prop)]
    stubs = ["GridWavelet_evalIntegral", "GridWavelet_evalBasis", "GridWavelet_evalDiffBasis", "WaveletBasisMatrix_getNumRows", "WaveletBasisMatrix_invertTransposed", "GridWavelet_buildInterpolationMatrix"]
    for f in info["functions"]:
        nm = f["name"].split("::")[1]
        out.append(Job("wavelet." + nm, pre + cf.text(("harness",), ["h_" + nm]), "h_" + nm, enforce="GridWavelet_" + nm, replace=stubs,
                       pre_unwindset={r'GridWavelet_%s' % nm: npmax + 2, r'tsg_\w+': npmax + 2}, timeout=300,
                       functions=["%s:%d %s" % (f["file"], f["line"], f["name"])], info=info, replay=make_replay(prop),
                       bounded="points <= %d, dimensions <= 2 (loops unwound; the frame obligations do not depend on the sizes)" % npmax,
                       assumed=["callee contracts (evalIntegral, evalBasis, evalDiffBasis pure; invertTransposed writes its argument only; buildInterpolationMatrix assigns the cached matrix) are assumed, not enforced"],
                       label="GridWavelet::%s writes only its output array (assigns clause enforced by dfcc)" % nm))
    return out
