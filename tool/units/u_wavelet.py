"""Unit C12 (narrow): frame of the const wavelet weight queries (F12)."""
from .. import tsg2c as X
from ..runner import Job
from ..contractfile import ContractFile
from .. import replay as RP
from . import wavelet

REPLAY = r'''
/* two threads call the const query on one const wavelet grid (outputs > 0, so the cache is stale);
 * compiled with ThreadSanitizer, a write to the mutable cache is reported as a data race */
#include <thread>
int main_replay(){
  using namespace TasGrid;
  auto g = makeWaveletGrid(2, 1, 2, 1);
  std::vector<double> pts = g.getNeededPoints(), v(g.getNumNeeded());
  for (size_t i = 0; i < v.size(); i++) v[i] = std::exp(pts[2*i] - pts[2*i+1]);
  g.loadNeededValues(v);
  const TasmanianSparseGrid &cg = g;
  auto work = [&](double x0){ std::vector<double> x = {x0, 0.1}; for (int k = 0; k < 20; k++){ auto w = cg.getInterpolationWeights(x); (void) w; } };
  std::thread t1(work, 0.3), t2(work, -0.2);
  t1.join(); t2.join();
  std::printf("both threads finished\n");
  return 0;
}
'''
def make_replay(prop):
    def rp(job, ob, vals, wd):
        hdr = ("Replay against the real library under ThreadSanitizer (exit code 66 = data race reported).\nproperty %s job %s\nobligation %s: %s\nat %s"
               % (prop, job.name, ob["name"], ob["description"], ob["location"]))
        import os
        os.environ["TSAN_OPTIONS"] = "exitcode=1 halt_on_error=1"
        return RP.write_and_run(prop, job.name + "." + ob["name"], hdr, ['"TasmanianSparseGrid.hpp"'], REPLAY, "  main_replay();", lib="sg",
                                flags=["-fsanitize=thread", "-O1"], timeout=300)
    return rp

def jobs(tier, seed, prop):
    cf = ContractFile("contracts/wavelet.c")
    R = X.Rules()
    t, info = wavelet.emit(R, cf.contracts())
    npmax = 3 if tier == "quick" else 5
    pre = '#include "tsg_shim.h"\nint tsg_exc;\n#define TSG_NPMAX %d\n#line 1 "/verif/contracts/wavelet.c"\n' % npmax + cf.text(("text", "stub")) + t
    out = []
    stubs = ["GridWavelet_evalIntegral", "GridWavelet_evalBasis", "GridWavelet_evalDiffBasis", "WaveletBasisMatrix_getNumRows", "WaveletBasisMatrix_invertTransposed", "GridWavelet_buildInterpolationMatrix"]
    for f in info["functions"]:
        nm = f["name"].split("::")[1]
        out.append(Job("wavelet." + nm, pre + cf.text(("harness",), ["h_" + nm]), "h_" + nm, enforce="GridWavelet_" + nm, replace=stubs,
                       pre_unwindset={r'GridWavelet_%s' % nm: npmax + 2, r'tsg_\w+': npmax + 2}, timeout=300,
                       functions=["%s:%d %s" % (f["file"], f["line"], f["name"])], info=info, replay=make_replay(prop),
                       bounded="points <= %d, dimensions <= 2 (loops unwound; the frame obligations do not depend on the sizes)" % npmax,
                       assumed=["callee contracts (evalIntegral, evalBasis, evalDiffBasis pure; invertTransposed writes its argument only; buildInterpolationMatrix assigns the cached matrix) are assumed, not enforced"],
                       label="GridWavelet::%s writes only its output array (assigns clause enforced by dfcc)" % nm))
    return out
