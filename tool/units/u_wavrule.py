"""Unit C08 / C07 (Wavelet family): the 1-D hierarchy of RuleWavelet (getNumPoints, getLevel, getChildren, getParent): points are numbered level by
level, a child is one level below its parent; the level limits of addChildLimited are compared with getLevel."""
import re
from .. import tsg2c as X
from ..runner import Job
from . import rulelocal
CPP = "SparseGrids/tsgRuleWavelet.cpp"

def emit(R):
    text = X.strip_comments(X.read_source(CPP))
    outs, fns, srcs, emis = [], [], [], []
    for nm, sig, chdr in (("getNumPoints", r'int\s+RuleWavelet::getNumPoints\s*\(\s*int\s+level\s*\)\s*const', "int RW_getNumPoints(int order, int level)"),
                          ("getLevel", r'int\s+RuleWavelet::getLevel\s*\(\s*int\s+point\s*\)\s*const', "int RW_getLevel(int order, int point)"),
                          ("getChildren", r'void\s+RuleWavelet::getChildren\s*\(\s*int\s+point\s*,\s*int\s*&first\s*,\s*int\s*&second\s*\)\s*const', "void RW_getChildren(int order, int point, int *first_, int *second_)"),
                          ("getParent", r'int\s+RuleWavelet::getParent\s*\(\s*int\s+point\s*\)\s*const', "int RW_getParent(int order, int point)")):
        (p,) = X.cut(CPP, sig, text)
        b = X.r1_qualifiers(R, p.body)
        b = R.sub("R4-ref-use", r'(?<![\w.>])(first|second)\b', r'(*\1_)', b)
        X.check_leftover(b, nm)
        outs.append('#line %d "%s"\n%s%s' % (p.line, X.REPO + "/" + p.rel, chdr, b))
        fns.append({"name": "RuleWavelet::" + nm, "file": p.rel, "line": p.line, "loops": 0}); srcs.append(p.body); emis.append(b)
    info = {"functions": fns, "rules_fired": {k: v for k, v in R.counts.items() if v},
            "fidelity": X.fidelity("\n".join(srcs), "\n".join(emis), extra_vocab=["first", "second", "Maths", "intlog2", "order"], slack=6)}
    return "\n".join(outs) + "\n", info

HARNESS = r'''
void h_wavrule(void){
  int order = nondet_bool() ? 1 : 3, p = nondet_int();
  __CPROVER_assume(p >= 0 && p < (1 << 28));
  int l = RW_getLevel(order, p);
  __CPROVER_assert(l >= 0 && l < 30, "L7w levels are small non-negative numbers");
  __CPROVER_assert(p < RW_getNumPoints(order, l) && (l == 0 || p >= RW_getNumPoints(order, l - 1)), "L7w a point belongs to the level whose point count first exceeds its index (points are numbered level by level): the level that addChildLimited compares with the limit is the level of the node");
  int c1 = -7, c2 = -7; RW_getChildren(order, p, &c1, &c2);
  __CPROVER_assert(c1 > p && (c2 == -1 || c2 > p), "L7w children have larger indices");
  __CPROVER_assert(RW_getLevel(order, c1) == l + 1 && (c2 == -1 || RW_getLevel(order, c2) == l + 1), "L7w a child is exactly one level below its parent");
  int dad = RW_getParent(order, p);
  if (dad >= 0) { int d1 = -7, d2 = -7; RW_getChildren(order, dad, &d1, &d2); __CPROVER_assert(d1 == p || d2 == p, "L7w a point is a child of its parent"); }
  __CPROVER_assert(0, "VACUITY-CANARY");
}
'''
def jobs(tier, seed, prop):
    Rh = X.Rules()
    ht, hinfo = rulelocal.emit(Rh, rules=[], funcs=[], minima={"R3-enum-const": 0, "R3-template-call": 0, "R3-template-header": 0})
    R = X.Rules()
    t, info = emit(R)
    return [Job("wavrule.hierarchy", ht + "int tsg_exc;\n" + t + HARNESS, "h_wavrule", unwind=34, timeout=300, backends=[[], ["--sat-solver", "cadical"]],
                functions=["%s:%d %s" % (f["file"], f["line"], f["name"]) for f in info["functions"]], info=info,
                bounded="point index < 2^28 (Maths::intlog2 fully unwound: width-complete)",
                label="RuleWavelet hierarchy: levels follow the point counts, children are one level down, parent/child agree")]
