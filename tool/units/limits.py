"""Extraction of the level-limit filters (C08): GridLocalPolynomial::addChild / addChildLimited
(tsgGridLocalPolynomial.cpp), MultiIndexManipulations::addExclusiveChildren<true>
(tsgIndexManipulator.hpp), the limited branch of selectFlaggedChildren (non-OpenMP text), the
limit tests inside the criteria lambdas of selectLowerSet / selectGeneralSet and the
full-tensor clamp of selectTensors (tsgIndexManipulator.cpp)."""
import re
from .. import tsg2c as X
from . import rulelocal
LP = "SparseGrids/tsgGridLocalPolynomial.cpp"
IMH = "SparseGrids/tsgIndexManipulator.hpp"
IMC = "SparseGrids/tsgIndexManipulator.cpp"

def _range_for_kid(R, b, limit_iter=None, limit_vec="level_limits"):
    """R6: `for(auto &k : kid){ ... }` -> index loop; k -> kid[k_i_]."""
    m = re.search(r'for\s*\(\s*auto\s*&\s*k\s*:\s*kid\s*\)\s*(?=\{)', b)
    if not m:
        raise X.ExtractionBreak("range-for over kid not found")
    e = X.match_close(b, m.end())
    inner = b[m.end():e + 1]
    inner = re.sub(r'(?<![\w.>])k\b', 'kid[k_i_]', inner)
    R.counts["R6-range-for"] = R.counts.get("R6-range-for", 0) + 1
    return b[:m.start()] + "for(size_t k_i_ = 0; k_i_ < kid_size; k_i_++)" + inner + b[e + 1:]

def emit_addChild(R, rule):
    text = X.strip_comments(X.read_source(LP))
    outs, fns = [], []
    for nm, sig, chdr in (
        ("addChild", r'template<RuleLocal::erule\s+effrule>\s*void\s+GridLocalPolynomial::addChild\s*\(\s*const\s+int\s+point\[\]\s*,\s*int\s+direction\s*,\s*const\s+MultiIndexSet\s*&exclude\s*,\s*Data2D<int>\s*&destination\s*\)\s*const',
         "void addChild_%s(size_t num_dimensions, const int point[], int direction)" % rule),
        ("addChildLimited", r'template<RuleLocal::erule\s+effrule>\s*void\s+GridLocalPolynomial::addChildLimited\s*\(\s*const\s+int\s+point\[\]\s*,\s*int\s+direction\s*,\s*const\s+MultiIndexSet\s*&exclude\s*,\s*const\s+std::vector<int>\s*&level_limits\s*,\s*Data2D<int>\s*&destination\s*\)\s*const',
         "void addChildLimited_%s(size_t num_dimensions, const int point[], int direction, const int *level_limits)" % rule)):
        (p,) = X.cut(LP, sig, text)
        b = p.body
        b = R.sub("R5-range-ctor", r'std::vector<int>\s+kid\s*\(\s*point\s*,\s*point\s*\+\s*num_dimensions\s*\)\s*;',
                  'TSG_VEC_NEW(int, kid, TSG_NDIM); tsg_assign_int(kid, &kid_size, kid_cap, point, num_dimensions);', b)
        b = R.sub("R3-template-call", r'RuleLocal::(\w+)<effrule>\s*\(', r'\1_%s(' % rule, b)
        b = R.sub("R10-receiver-call", r'\bexclude\.missing\(\s*kid\s*\)', 'set_missing(SET_EXCLUDE, kid, kid_size)', b)
        b = R.sub("R10-receiver-call", r'\bdestination\.appendStrip\(\s*kid\s*\)\s*;', 'append_strip(kid, kid_size);', b)
        X.check_leftover(chdr + b, nm)
        outs.append('#line %d "%s"\n%s%s' % (p.line, X.REPO + "/" + p.rel, chdr, b))
        fns.append({"name": "GridLocalPolynomial::%s<%s>" % (nm, rule), "file": p.rel, "line": p.line, "loops": X.count_loops(b)})
    R.require({"R5-range-ctor": 2, "R3-template-call": 5, "R10-receiver-call": 4})
    return "\n".join(outs) + "\n", {"functions": fns, "rules_fired": {k: v for k, v in R.counts.items() if v}}

def emit_addExclusiveChildren(R):
    text = X.strip_comments(X.read_source(IMH))
    (p,) = X.cut(IMH, r'template<bool\s+limited>\s*MultiIndexSet\s+addExclusiveChildren\s*\(\s*const\s+MultiIndexSet\s*&tensors\s*,\s*const\s+MultiIndexSet\s*&exclude\s*,\s*const\s+std::vector<int>\s+level_limits\s*\)', text)
    chdr = "void addExclusiveChildren_limited(int tensors_num_dimensions, int tensors_num_indexes, const int *tensors_indexes, const int *level_limits)"
    b = p.body
    b = R.sub("R3-template-param", r'\blimited\b', 'true', b)
    b = R.sub("R10-receiver-call", r'\btensors\.getNumDimensions\(\)', 'tensors_num_dimensions', b)
    b = R.sub("R10-receiver-call", r'\btensors\.getNumIndexes\(\)', 'tensors_num_indexes', b)
    b = R.sub("R10-receiver-call", r'\btensors\.getIndex\(\s*i\s*\)', '(&tensors_indexes[(size_t) i * (size_t) tensors_num_dimensions])', b)
    b = R.sub("R5-local-2d", r'Data2D<int>\s+tens\s*\(\s*num_dimensions\s*,\s*0\s*\)\s*;', '', b)
    b = R.sub("R5-local-vector", r'std::vector<int>\s+scratch\s*\(\s*num_dimensions\s*\)\s*;', '', b)
    b = R.sub("R5-range-ctor", r'std::vector<int>\s+kid\s*\(\s*t\s*,\s*t\s*\+\s*num_dimensions\s*\)\s*;',
              'TSG_VEC_NEW(int, kid, TSG_NDIM); tsg_assign_int(kid, &kid_size, kid_cap, t, (size_t) num_dimensions); g_parent = t;', b)
    b = R.sub("R5-iter-decl", r'auto\s+ilimit\s*=\s*level_limits\.begin\(\)\s*;', 'size_t ilimit = 0;', b)
    b = R.sub("R5-iter-deref", r'\*\s*ilimit\b', 'level_limits[ilimit]', b)
    b = _range_for_kid(R, b)
    b = R.sub("R10-receiver-call", r'\bexclude\.missing\(\s*kid\s*\)', 'set_missing(SET_EXCLUDE, kid, kid_size)', b)
    b = R.sub("R10-receiver-call", r'\btensors\.missing\(\s*kid\s*\)', 'set_missing(SET_TENSORS, kid, kid_size)', b)
    b = R.sub("R10-receiver-call", r'\bisLowerComplete\(\s*kid\s*,\s*tensors\s*,\s*scratch\s*\)', 'is_lower_complete(kid, kid_size)', b)
    b = R.sub("R10-receiver-call", r'\btens\.appendStrip\(\s*kid\s*\)\s*;', 'append_strip(kid, kid_size);', b)
    b = R.sub("R5-return-set", r'return\s+MultiIndexSet\(tens\)\s*;', 'return;', b)
    X.check_leftover(chdr + b, "addExclusiveChildren")
    R.require({"R6-range-for": 1, "R5-iter-decl": 1, "R5-iter-deref": 2, "R10-receiver-call": 8, "R5-range-ctor": 1, "R3-template-param": 1})
    out = '#line %d "%s"\n%s%s\n' % (p.line, X.REPO + "/" + p.rel, chdr, b)
    return out, {"functions": [{"name": "MultiIndexManipulations::addExclusiveChildren<true>", "file": p.rel, "line": p.line, "loops": X.count_loops(b)}],
                 "rules_fired": {k: v for k, v in R.counts.items() if v},
                 "fidelity": X.fidelity(p.src_body, b, extra_vocab=["tensors", "exclude", "level_limits", "kid", "k", "ilimit", "tens", "scratch", "limited", "missing", "appendStrip", "isLowerComplete",
                                                                    "getNumDimensions", "getNumIndexes", "getIndex", "begin", "Data2D", "MultiIndexSet", "return", "0", "t"], slack=8)}

def emit_selectFlaggedChildren_limited(R):
    text = X.strip_comments(X.read_source(IMC))
    (p,) = X.cut(IMC, r'MultiIndexSet\s+selectFlaggedChildren\s*\([^{]*\)', text)
    body = p.body
    k = body.find('#else')
    if k < 0 or '#endif' not in body[k:]:
        raise X.ExtractionBreak("selectFlaggedChildren: non-OpenMP branch (#else ... #endif) not found")
    serial = body[k + 5: body.index('#endif', k)]
    R.counts["R11-ifdef-openmp"] = 1
    m = re.search(r'if\s*\(\s*level_limits\.empty\(\)\s*\)\s*(?=\{)', serial)
    if not m:
        raise X.ExtractionBreak("selectFlaggedChildren: `if (level_limits.empty())` not found in the serial branch")
    e = X.match_close(serial, m.end())
    m2 = re.match(r'\s*else\s*(?=\{)', serial[e + 1:])
    if not m2:
        raise X.ExtractionBreak("selectFlaggedChildren: else-branch (limited case) not found")
    s2 = e + 1 + m2.end()
    e2 = X.match_close(serial, s2)
    b = serial[s2:e2 + 1]
    src = b
    chdr = "void selectFlaggedChildren_limited(size_t num_dimensions, int n, const bool *flagged, const int *mset_indexes, const int *level_limits)"
    b = R.sub("R5-copy_n", r'std::copy_n\(\s*mset\.getIndex\(i\)\s*,\s*num_dimensions\s*,\s*kid\.data\(\)\s*\)\s*;',
              'tsg_copy_n_int(&mset_indexes[(size_t) i * num_dimensions], num_dimensions, kid); g_parent = &mset_indexes[(size_t) i * num_dimensions];', b)
    b = R.sub("R5-iter-decl", r'auto\s+ill\s*=\s*level_limits\.begin\(\)\s*;', 'size_t ill = 0;', b)
    b = R.sub("R5-iter-deref", r'\*\s*ill\b', 'level_limits[ill]', b)
    b = _range_for_kid(R, b)
    b = R.sub("R10-receiver-call", r'\bmset\.missing\(\s*kid\s*\)', 'set_missing(SET_TENSORS, kid, kid_size)', b)
    b = R.sub("R10-receiver-call", r'\bchildren_unsorted\.appendStrip\(\s*kid\s*\)\s*;', 'append_strip(kid, kid_size);', b)
    b = "{ TSG_VEC_NEW(int, kid, TSG_NDIM); tsg_sized_int(kid, &kid_size, kid_cap, num_dimensions, 0);\n" + b + "}"
    X.check_leftover(chdr + b, "selectFlaggedChildren")
    R.require({"R6-range-for": 1, "R5-copy_n": 1, "R5-iter-decl": 1, "R5-iter-deref": 2, "R10-receiver-call": 2})
    line = p.line + (p.header + body[:k + 5] + serial[:s2]).count('\n')
    out = '#line %d "%s"\n%s%s\n' % (line, X.REPO + "/" + p.rel, chdr, b)
    return out, {"functions": [{"name": "MultiIndexManipulations::selectFlaggedChildren (serial branch, limited case)", "file": p.rel, "line": line, "loops": X.count_loops(b)}],
                 "rules_fired": {k: v for k, v in R.counts.items() if v}, "drops": ["the #ifdef _OPENMP branch of selectFlaggedChildren (the pinned build has OpenMP off)"],
                 "fidelity": X.fidelity(src, b, extra_vocab=["kid", "k", "ill", "mset", "level_limits", "children_unsorted", "missing", "appendStrip", "getIndex", "data", "copy_n", "begin"], slack=4)}

def emit_limit_filters(R):
    """The limit test `if (check_limits) for(...) if (...) return false;` of each criteria lambda."""
    text = X.strip_comments(X.read_source(IMC))
    outs, fns = [], []
    for fn, expect in (("selectLowerSet", 3), ("selectGeneralSet", 1)):
        (p,) = X.cut(IMC, r'template<bool\s+check_limits>\s*MultiIndexSet\s+%s\s*\([^{]*\)' % fn, text)
        # the criterion lambdas [&](std::vector<int> const &index)->bool{...}; each must start its decision with the limit test
        lams = list(re.finditer(r'\[&\]\s*\(\s*std::vector<int>\s+const\s*&\s*index\s*\)\s*->\s*bool\s*(?=\{)', p.body))
        if len(lams) != expect:
            raise X.ExtractionBreak("%s: expected %d criterion lambdas, found %d" % (fn, expect, len(lams)))
        for k, lm in enumerate(lams):
            le = X.match_close(p.body, lm.end())
            lbody = p.body[lm.end():le + 1]
            m = re.search(r'if\s*\(\s*check_limits\s*\)\s*for\s*\([^;]*;[^;]*;[^)]*\)\s*if\s*\((?:[^()]|\([^()]*\))*\)\s*return\s+false\s*;', lbody)
            name = "limit_filter_%s_%d" % (fn, k)
            if m:
                stmt = R.sub("R3-template-param", r'\bcheck_limits\b', 'true', m.group(0))
                line = p.line + (p.header + p.body[:lm.end() + m.start()]).count('\n')
            else:       # no limit test in this criterion: under check_limits it accepts whatever the weight test accepts
                stmt = "/* this criterion lambda contains no `if (check_limits) ... return false;` statement */"
                line = p.line + (p.header + p.body[:lm.start()]).count('\n')
                R.counts["missing-limit-test"] = R.counts.get("missing-limit-test", 0) + 1
            outs.append('#line %d "%s"\nbool %s(size_t num_dimensions, const int *index, const int *level_limits){ %s return true; }' % (line, X.REPO + "/" + p.rel, name, stmt))
            fns.append({"name": "%s<true> criteria lambda #%d: limit test" % (fn, k), "file": p.rel, "line": line, "loops": 1, "cname": name})
    # full tensor clamp of selectTensors
    (p,) = X.cut(IMC, r'MultiIndexSet\s+selectTensors\s*\(\s*size_t\s+num_dimensions\s*,\s*int\s+offset\s*,\s*TypeDepth\s+type\s*,[^{]*\)', text)
    m = re.search(r'if\s*\(\s*!level_limits\.empty\(\)\s*\)\s*(?=\{)', p.body)
    if not m:
        raise X.ExtractionBreak("selectTensors: level-limit clamp not found")
    e = X.match_close(p.body, m.end())
    blk = p.body[m.start():e + 1]
    blk = R.sub("R5-empty", r'level_limits\.empty\(\)', '(level_limits_size == 0)', blk)
    blk = X.r2_std_math(R, blk)
    line = p.line + (p.header + p.body[:m.start()]).count('\n')
    outs.append('#line %d "%s"\nvoid full_tensor_clamp(size_t num_dimensions, int *num_points, const int *level_limits, size_t level_limits_size){ %s }' % (line, X.REPO + "/" + p.rel, blk))
    fns.append({"name": "selectTensors: full-tensor clamp by the level limits", "file": p.rel, "line": line, "loops": 1, "cname": "full_tensor_clamp"})
    X.check_leftover("\n".join(outs), "limit filters")
    return "\n".join(outs) + "\n", {"functions": fns, "rules_fired": {k: v for k, v in R.counts.items() if v}}


GROW = [("GridGlobal", "SparseGrids/tsgGridGlobal.cpp"), ("GridSequence", "SparseGrids/tsgGridSequence.cpp"), ("GridFourier", "SparseGrids/tsgGridFourier.cpp")]
def emit_growloop(R, cls, rel, loop_contract):
    """The grow-until-min_growth loop of <cls>::setAnisotropicRefinement (block selector)."""
    text = X.strip_comments(X.read_source(rel))
    (p,) = X.cut(rel, r'void\s+%s::setAnisotropicRefinement\s*\(\s*TypeDepth\s+type\s*,\s*int\s+min_growth\s*,\s*int\s+output\s*,\s*const\s+std::vector<int>\s*&level_limits\s*\)' % cls, text)
    m = re.search(r'int\s+level\s*=\s*0\s*;\s*do\s*\{.*?\}\s*while\s*\([^;]*\)\s*;', p.body, re.S)
    if not m:
        raise X.ExtractionBreak("%s::setAnisotropicRefinement: grow loop not found" % cls)
    b = m.group(0)
    src = b
    b = R.sub("R10-self-call", r'(?<![\w.>])updateGrid\s*\(\s*\+\+level\s*,\s*type\s*,\s*weights\s*,\s*level_limits\s*\)', 'family_updateGrid(++level)', b)
    b = R.sub("R10-self-call", r'(?<![\w.>])getNumNeeded\s*\(\s*\)', 'family_getNumNeeded()', b)
    X.check_leftover(b, cls + " grow loop")
    R.require({"R10-self-call": 2})
    line = p.line + (p.header + p.body[:m.start()]).count('\n')
    chdr = "void growloop_%s(int min_growth)" % cls
    out = '#line %d "%s"\n' % (line, X.REPO + "/" + p.rel) + X.splice(chdr, "{ " + b + " }", None, {0: loop_contract})
    return out, {"functions": [{"name": "%s::setAnisotropicRefinement (grow loop)" % cls, "file": p.rel, "line": line, "loops": 1}],
                 "rules_fired": {k: v for k, v in R.counts.items() if v}, "fidelity": X.fidelity(src, b, extra_vocab=["updateGrid", "type", "weights", "level_limits", "getNumNeeded"])}


def emit_buildUpdateMap_classic(R, rule="localp"):
    """GridLocalPolynomial::buildUpdateMap<effrule>: the part up to the end of the classic / parents-first branch (block selector)."""
    text = X.strip_comments(X.read_source(LP))
    (p,) = X.cut(LP, r'template<RuleLocal::erule\s+effrule>\s*Data2D<int>\s+GridLocalPolynomial::buildUpdateMap\s*\(\s*double\s+tolerance\s*,\s*TypeRefinement\s+criteria\s*,\s*int\s+output\s*,\s*const\s+double\s*\*scale_correction\s*\)\s*const', text)
    m = re.search(r'if\s*\(\s*\(criteria\s*==\s*refine_classic\)\s*\|\|\s*\(criteria\s*==\s*refine_parents_first\)\s*\)\s*(?=\{)', p.body)
    if not m:
        raise X.ExtractionBreak("buildUpdateMap: classic branch not found")
    e = X.match_close(p.body, m.end())
    b = p.body[1:e + 1]          # from the first statement to the end of the classic branch
    src = b
    b = R.sub("R11-omp-pragma", r'#\s*pragma\s+omp[^\n]*', '', b)
    b = R.sub("R5-pmap", r'Data2D<int>\s+pmap\(num_dimensions,\s*num_points,\s*std::vector<int>\(Utils::size_mult\(num_dimensions,\s*num_points\),\s*\(tolerance == 0\.0\) \? 1 : 0\)\s*\)\s*;',
              'tsg_fill_int(pmap, (size_t) num_dimensions * (size_t) num_points, (tolerance == 0.0) ? 1 : 0);', b, flags=re.S)
    b = R.sub("R5-return-map", r'return\s+pmap\s*;', 'return;', b)
    b = R.sub("R10-self-call", r'std::vector<double>\s+norm\s*=\s*getNormalization\(\)\s*;', 'const double *norm = GridLocalPolynomial_getNormalization(self);', b)
    b = R.sub("R5-wrapper2d", r'Utils::Wrapper2D<double const>\s+scale\(\s*(\w+)\s*,\s*(\w+)\s*\)\s*;', r'size_t scale_stride = (size_t) \1; const double *scale_data = \2;', b)
    b = R.sub("R5-local-vector", r'std::vector<double>\s+default_scale\s*;', '', b)
    b = R.sub("R5-default-scale", r'default_scale\s*=\s*std::vector<double>\(Utils::size_mult\(\s*(\w+)\s*,\s*(\w+)\s*\),\s*1\.0\)\s*;', r'tsg_fill_double(default_scale, (size_t) \1 * (size_t) \2, 1.0);', b)
    b = R.sub("R5-wrapper2d", r'scale\s*=\s*Utils::Wrapper2D<double const>\(\s*(\w+)\s*,\s*default_scale\.data\(\)\)\s*;', r'scale_stride = (size_t) \1; scale_data = default_scale;', b)
    b = R.sub("R2-nullptr", r'\bnullptr\b', '0', b)
    b = R.sub("R5-strip", r'\bsurpluses\.getStrip\(\s*i\s*\)', '(&self->surpluses[(size_t) i * (size_t) self->num_outputs])', b)
    b = R.sub("R5-strip", r'\bscale\.getStrip\(\s*i\s*\)', '(&scale_data[(size_t) i * scale_stride])', b)
    b = R.sub("R5-fill_n", r'std::fill_n\(\s*pmap\.getStrip\(i\)\s*,\s*num_dimensions\s*,\s*1\s*\)', 'tsg_fill_int(&pmap[(size_t) i * (size_t) self->num_dimensions], (size_t) self->num_dimensions, 1)', b)
    b = R.sub("R13-fp-criterion", r'\(\(c\[(\w+)\] \* std::abs\(s\[(\w+)\]\) / norm\[(\w+)\]\) <= tolerance\)', r'tsg_small(c[\1], s[\2], norm[\3], tolerance)', b)
    b = R.sub("R10-receiver-call", r'\bpoints\.getNumIndexes\(\)', 'self->num_points', b)
    for mname in ("num_dimensions", "num_outputs"):
        b = R.sub("R10-member", r'(?<![\w.>_])%s\b' % mname, 'self->' + mname, b)
    X.check_leftover(b, "buildUpdateMap (classic)")
    R.require({"R5-pmap": 1, "R5-wrapper2d": 2, "R5-strip": 2, "R5-fill_n": 1, "R13-fp-criterion": 2, "R5-default-scale": 1, "R10-self-call": 1})
    chdr = "void buildUpdateMap_classic(const GLP *self, double tolerance, TypeRefinement criteria, int output, const double *scale_correction, int *pmap, double *default_scale)"
    out = '#line %d "%s"\n%s{%s\n}\n' % (p.line, X.REPO + "/" + p.rel, chdr, b)
    return out, {"functions": [{"name": "GridLocalPolynomial::buildUpdateMap (classic / parents-first branch)", "file": p.rel, "line": p.line, "loops": X.count_loops(b)}],
                 "rules_fired": {k: v for k, v in R.counts.items() if v},
                 "drops": ["the directional (fds) branch of buildUpdateMap", "#pragma omp parallel for"],
                 "fidelity": X.fidelity(src, b, extra_vocab=["Data2D", "pmap", "Utils", "size_mult", "vector", "norm", "getNormalization", "Wrapper2D", "scale", "default_scale", "data", "surpluses", "getStrip",
                                                            "fill_n", "abs", "points", "getNumIndexes", "num_dimensions", "num_outputs", "pragma", "omp", "parallel", "for", "return", "scale_correction", "active_outputs"], slack=14)}


WV = "SparseGrids/tsgGridWavelet.cpp"
def emit_buildUpdateMap_classic_wavelet(R):
    """GridWavelet::buildUpdateMap: from the first statement to the end of the classic / parents-first branch (block selector)."""
    text = X.strip_comments(X.read_source(WV))
    (p,) = X.cut(WV, r'Data2D<int>\s+GridWavelet::buildUpdateMap\s*\(\s*double\s+tolerance\s*,\s*TypeRefinement\s+criteria\s*,\s*int\s+output\s*\)\s*const', text)
    m = re.search(r'if\s*\(\s*\(criteria\s*==\s*refine_classic\)\s*\|\|\s*\(criteria\s*==\s*refine_parents_first\)\s*\)\s*(?=\{)', p.body)
    if not m:
        raise X.ExtractionBreak("GridWavelet::buildUpdateMap: classic branch not found")
    e = X.match_close(p.body, m.end())
    b = p.body[1:e + 1]
    src = b
    b = R.sub("R11-omp-pragma", r'#\s*pragma\s+omp[^\n]*', '', b)
    b = R.sub("R5-pmap", r'Data2D<int>\s+pmap\(num_dimensions,\s*num_points,\s*std::vector<int>\(Utils::size_mult\(num_dimensions,\s*num_points\),\s*\(tolerance == 0\.0\) \? 1 : 0\)\s*\)\s*;',
              'tsg_fill_int(pmap, (size_t) num_dimensions * (size_t) num_points, (tolerance == 0.0) ? 1 : 0);', b, flags=re.S)
    b = R.sub("R5-return-map", r'return\s+pmap\s*;', 'return;', b)
    b = R.sub("R10-self-call", r'std::vector<double>\s+norm\s*=\s*getNormalization\(\)\s*;', 'const double *norm = GridLocalPolynomial_getNormalization(self);', b)
    b = R.sub("R5-strip", r'\bcoefficients\.getStrip\(\s*i\s*\)', '(&self->surpluses[(size_t) i * (size_t) self->num_outputs])', b)
    b = R.sub("R5-strip", r'\bpmap\.getStrip\(\s*i\s*\)', '(&pmap[(size_t) i * (size_t) self->num_dimensions])', b)
    b = R.sub("R5-fill", r'std::fill\(\s*p\s*,\s*p\s*\+\s*num_dimensions\s*,\s*1\s*\)', 'tsg_fill_int(p, (size_t) self->num_dimensions, 1)', b)
    b = R.sub("R13-fp-criterion", r'\(\(std::abs\(s\[(\w+)\]\) / norm\[(\w+)\]\) > tolerance\)', r'(!tsg_small(1.0, s[\1], norm[\2], tolerance))', b)
    b = R.sub("R10-receiver-call", r'\bpoints\.getNumIndexes\(\)', 'self->num_points', b)
    for mname in ("num_dimensions", "num_outputs"):
        b = R.sub("R10-member", r'(?<![\w.>_])%s\b' % mname, 'self->' + mname, b)
    b = b.replace("self->self->", "self->")
    X.check_leftover(b, "GridWavelet::buildUpdateMap (classic)")
    R.require({"R5-pmap": 1, "R5-strip": 2, "R5-fill": 1, "R13-fp-criterion": 2, "R10-self-call": 1})
    chdr = "void buildUpdateMap_classic(const GLP *self, double tolerance, TypeRefinement criteria, int output, const double *scale_correction, int *pmap, double *default_scale)"
    out = '#line %d "%s"\n%s{%s\n}\n' % (p.line, X.REPO + "/" + p.rel, chdr, b)
    return out, {"functions": [{"name": "GridWavelet::buildUpdateMap (classic / parents-first branch)", "file": p.rel, "line": p.line, "loops": X.count_loops(b)}],
                 "rules_fired": {k: v for k, v in R.counts.items() if v},
                 "drops": ["the directional (fds) branch of buildUpdateMap", "#pragma omp parallel for"],
                 "fidelity": X.fidelity(src, b, extra_vocab=["Data2D", "pmap", "Utils", "size_mult", "vector", "norm", "getNormalization", "coefficients", "getStrip", "fill", "abs", "points", "getNumIndexes",
                                                            "num_dimensions", "num_outputs", "pragma", "omp", "parallel", "for", "return", "p", "1", "+"], slack=14)}


def emit_surplus_refinement_sets(R, fam):
    """Grid<F>::setSurplusRefinement (F in Global, Sequence) over ghost index sets {empty?}: the statements before the flagging loops and the
    tail from the selection of the children on (block selectors; the loops in between write the locals flagged / norm / surp only)."""
    rel = "SparseGrids/tsgGrid%s.cpp" % fam
    text = X.strip_comments(X.read_source(rel))
    (p,) = X.cut(rel, r'void\s+Grid%s::setSurplusRefinement\s*\(\s*double\s+tolerance\s*,\s*int\s+output\s*,\s*const\s+std::vector<int>\s*&level_limits\s*\)' % fam, text)
    body = p.body[1:-1]
    m1 = re.search(r'(?:std::vector<double>\s+surp\s*=|int\s+num_points\s*=)', body)
    m2 = re.search(r'MultiIndexSet\s+kids\s*=', body)
    if not m1 or not m2 or m2.start() < m1.start():
        raise X.ExtractionBreak("Grid%s::setSurplusRefinement: block markers not found" % fam)
    b = body[:m1.start()] + "\n" + body[m2.start():]
    src = b
    b = R.sub("R10-receiver-call", r'(?<![\w.>])(clearRefinement|proposeUpdatedTensors)\(\)', r'fam_\1(self)', b)
    b = X.balanced_call_sub(R, "R5s-children", b, r'MultiIndexManipulations::selectFlaggedChildren\s*(?=\()', lambda m, a: "gset_children()")
    b = R.sub("R5s-local", r'\bMultiIndexSet\s+kids\s*=', 'gset kids =', b)
    b = R.sub("R5s-plus", r'\bkids\s*\+=\s*points\s*;', 'kids = gset_plus_points(kids);', b)
    b = R.sub("R5s-complete", r'MultiIndexManipulations::completeSetToLower\(\s*kids\s*\)\s*;', 'kids = gset_complete(kids);', b)
    b = R.sub("R5s-move", r'\bupdated_tensors\s*=\s*std::move\(\s*kids\s*\)\s*;', 'self->updated_tensors = kids;', b)
    b = R.sub("R5s-minus", r'\bneeded\s*=\s*kids\s*-\s*points\s*;', 'self->needed = gset_minus_points(kids);', b)
    b = R.sub("R5s-empty", r'\bkids\.getNumIndexes\(\)\s*>\s*0', '(!kids.empty)', b)
    b = R.sub("R5s-empty", r'\b(kids)\.empty\(\)', r'\1.empty', b)
    b = R.sub("R5s-empty", r'(?<![\w.>])needed\.empty\(\)', 'self->needed.empty', b)
    b = R.sub("R10-receiver-call", r'(?<![\w.>])prepareSequence\(0\)', 'fam_prepareSequence(self)', b)
    X.check_leftover(b, "Grid%s::setSurplusRefinement" % fam)
    R.require({"R5s-children": 1, "R5s-plus": 1, "R5s-complete": 1})
    info = {"functions": [{"name": "Grid%s::setSurplusRefinement (head and tail blocks)" % fam, "file": p.rel, "line": p.line, "loops": 0}], "rules_fired": {k: v for k, v in R.counts.items() if v},
            "drops": ["the loops that compute surp / norm / flagged (locals only)"],
            "fidelity": X.fidelity(src, b, extra_vocab=["clearRefinement", "proposeUpdatedTensors", "MultiIndexManipulations", "selectFlaggedChildren", "points", "flagged", "level_limits", "MultiIndexSet", "kids", "completeSetToLower",
                                                       "updated_tensors", "std", "move", "needed", "empty", "getNumIndexes", "prepareSequence", "0", ">", "-", "+=", "="], slack=30)}
    return '#line %d "%s"\nvoid setSurplusRefinement_%s(GS *self){%s}\n' % (p.line, X.REPO + "/" + p.rel, fam, b), info


def emit_getNormalization(R):
    """GridLocalPolynomial::getNormalization and GridWavelet::getNormalization: the per-output magnitude the classic criterion normalizes with."""
    outs, fns, srcs, emis = [], [], [], []
    for fam, rel, vec in (("LocalPolynomial", LP, "norms"), ("Wavelet", WV, "norm")):
        text = X.strip_comments(X.read_source(rel))
        (p,) = X.cut(rel, r'std::vector<double>\s+Grid%s::getNormalization\s*\(\s*\)\s*const' % fam, text)
        b = p.body
        b = R.sub("R5-local-vector", r'std::vector<double>\s+%s\(\s*num_outputs\s*(?:,\s*0\.0\s*)?\)\s*;' % vec, 'double *%s = out; for (int z_ = 0; z_ < self->num_outputs; z_++) out[z_] = 0.0;' % vec, b)
        b = R.sub("R10-receiver-call", r'\bpoints\.getNumIndexes\(\)', 'self->num_points', b)
        b = R.sub("R10-receiver-call", r'\bvalues\.getValues\(\s*i\s*\)', '(&self->values[(size_t) i * (size_t) self->num_outputs])', b)
        b = X.r2_std_math(R, b)
        b = R.sub("R10-member", r'(?<![\w.>_])num_outputs\b', 'self->num_outputs', b)
        b = b.replace("self->self->", "self->")
        b = R.sub("R5-return-vector", r'return\s+%s\s*;' % vec, 'return;', b)
        X.check_leftover(b, "getNormalization")
        outs.append('#line %d "%s"\nvoid getNormalization_%s(const GN *self, double *out)%s' % (p.line, X.REPO + "/" + p.rel, fam, b))
        fns.append({"name": "Grid%s::getNormalization" % fam, "file": p.rel, "line": p.line, "loops": X.count_loops(b)}); srcs.append(p.body); emis.append(b)
    R.require({"R5-local-vector": 2, "R10-receiver-call": 4, "R5-return-vector": 2})
    info = {"functions": fns, "rules_fired": {k: v for k, v in R.counts.items() if v},
            "fidelity": X.fidelity("\n".join(srcs), "\n".join(emis), extra_vocab=["std", "vector", "double", "norms", "norm", "num_outputs", "points", "getNumIndexes", "values", "getValues", "abs", "return", "0.0"], slack=10)}
    return "\n".join(outs) + "\n", info
