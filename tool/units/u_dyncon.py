"""Unit: dynamic-construction lists.  C06: DynamicConstructorDataGlobal::write / read constructor round trip in list order
(makeReverseReferenceVector, writeNodeDataList, readNodeDataList, readTensorDataList).  C08: clearTesnors."""
import re
from .. import tsg2c as X
from ..runner import Job
from ..contractfile import ContractFile
from . import dyncon

from .. import replay as RP
REPLAY_IO = r'''
/* Through the public API of the real code: grids in the middle of a dynamic construction (stored nodes of incomplete tensors, candidate
 * tensors) are written, read back and written again, in both formats; the bytes and the candidate points must agree. */
static int bad = 0;
static std::vector<double> cand(TasGrid::TasmanianSparseGrid &g){
  return g.isLocalPolynomial() ? g.getCandidateConstructionPoints(1.E-5, TasGrid::refine_classic) : g.getCandidateConstructionPoints(TasGrid::type_level, 0);
}
static void check(TasGrid::TasmanianSparseGrid &grid, const char *what){
  for (int binary = 0; binary < 2; binary++) {
    std::stringstream s1, s2;
    grid.write(s1, binary != 0);
    TasGrid::TasmanianSparseGrid r; r.read(s1, binary != 0);
    r.write(s2, binary != 0);
    if (s1.str() != s2.str()) { std::printf("%s, %s: writing the restored grid does not reproduce the original bytes\n", what, binary ? "binary" : "ascii"); bad++; }
    TasGrid::TasmanianSparseGrid g2 = grid;   /* candidates re-sort the lists: compare on copies */
    std::vector<double> c1 = cand(g2), c2 = cand(r);
    if (c1 != c2) { std::printf("%s, %s: the restored grid proposes other candidate points\n", what, binary ? "binary" : "ascii"); bad++; }
  }
}
int main_replay(){
  for (int fam = 0; fam < 3; fam++) for (int nload = 1; nload <= 4; nload++) {
    TasGrid::TasmanianSparseGrid grid = (fam == 0) ? TasGrid::makeGlobalGrid(2, 2, 1, TasGrid::type_level, TasGrid::rule_clenshawcurtis)
                                      : (fam == 1) ? TasGrid::makeSequenceGrid(2, 2, 1, TasGrid::type_level, TasGrid::rule_leja)
                                                   : TasGrid::makeLocalPolynomialGrid(2, 2, 1, 1, TasGrid::rule_localp);
    std::vector<double> x = grid.getNeededPoints(); std::vector<double> y(2 * grid.getNumNeeded());
    for (size_t i = 0; i < y.size() / 2; i++) { y[2*i] = std::exp(x[2*i] + 0.5 * x[2*i+1]); y[2*i+1] = x[2*i] - x[2*i+1]; }
    grid.loadNeededValues(y);
    grid.beginConstruction();
    std::vector<double> c = cand(grid);
    /* load from the far end of the candidate list: points that cannot join the grid yet are stored in the node list */
    size_t n = c.size() / 2;
    for (int k = 0; k < nload && (size_t) k < n; k++) {
      size_t i = n - 1 - (size_t) k;
      grid.loadConstructedPoints(std::vector<double>{c[2*i], c[2*i+1]}, std::vector<double>{std::exp(c[2*i] + 0.5 * c[2*i+1]), c[2*i] - c[2*i+1]});
    }
    char what[100]; std::snprintf(what, 100, "%s grid, %d stored points", fam == 0 ? "Global" : fam == 1 ? "Sequence" : "LocalPolynomial", nload);
    check(grid, what);
  }
  __CPROVER_assert(bad == 0, "C06 a grid with unfinished dynamic-construction data round-trips: same bytes when rewritten, same candidates");
  return 0;
}
'''
REPLAY_LIM = r'''
/* Through the public API of the real code: candidate requests with changing level limits on Global and Fourier grids in dynamic construction;
 * every candidate must obey the limits in force (Clenshaw-Curtis: level 0 is the node 0, level 1 adds -1 and 1; Fourier: level 0 is the node 0). */
int main_replay(){
  int bad = 0;
  for (int fam = 0; fam < 2; fam++)
  for (auto aniso : std::vector<std::vector<int>>{{1, 0}, {0, 1}, {1, 1}, {2, 1}})
  for (auto lim : std::vector<std::vector<int>>{{2, 0}, {0, 2}, {1, 0}, {0, 0}}) {
    TasGrid::TasmanianSparseGrid grid = (fam == 0) ? TasGrid::makeGlobalGrid(2, 1, 0, TasGrid::type_level, TasGrid::rule_clenshawcurtis) : TasGrid::makeFourierGrid(2, 1, 0, TasGrid::type_level);
    std::vector<double> x = grid.getNeededPoints(); std::vector<double> y(grid.getNumNeeded(), 1.0);
    grid.loadNeededValues(y);
    grid.beginConstruction();
    grid.getCandidateConstructionPoints(TasGrid::type_level, aniso, std::vector<int>());
    for (int pass = 0; pass < 2; pass++) {
      std::vector<double> c = grid.getCandidateConstructionPoints(TasGrid::type_level, aniso, pass == 0 ? lim : std::vector<int>());
      for (size_t i = 0; i < c.size() / 2; i++) for (int d = 0; d < 2; d++) {
        double v = c[2*i + d];
        bool ok = (lim[d] >= 2) || (lim[d] == 0 && std::abs(v) < 1.E-12) || (lim[d] == 1 && fam == 0 && (std::abs(v) < 1.E-12 || std::abs(std::abs(v) - 1.0) < 1.E-12)) || (lim[d] == 1 && fam == 1);
        if (!ok) { if (bad < 6) std::printf("%s weights {%d,%d} limits {%d,%d}%s: candidate (%g, %g) is above the limit in direction %d\n", fam ? "Fourier" : "Global", aniso[0], aniso[1], lim[0], lim[1], pass ? " (persisted)" : "", c[2*i], c[2*i+1], d); bad++; }
      }
    }
  }
  __CPROVER_assert(bad == 0, "C08 every candidate construction point obeys the level limits in force");
  return 0;
}
'''
def replay(prop, body):
    asan = ["-fsanitize=address", "-fno-omit-frame-pointer"] if "AddressSanitizer" in body else []
    def rp(job, ob, vals, wd):
        hdr = "Replay through the public API of the real code.\nproperty %s job %s\nobligation %s: %s\nat %s" % (prop, job.name, ob["name"], ob["description"], ob["location"])
        return RP.write_and_run(prop, job.name + "." + ob["name"], hdr, ['"TasmanianSparseGrid.hpp"', '<cmath>', '<sstream>'], body, "  main_replay();", lib="sg", timeout=120, flags=asan)
    return rp

REPLAY_RELOAD = r'''
/* On the real library: a Global / Fourier grid in dynamic construction with some candidates loaded (tensors half computed) is written and read back;
 * the restored grid must ask for exactly the candidates the original still asks for (a checkpointed sample is never requested again). */
int main_replay(){
  using namespace TasGrid;
  int bad = 0;
  for (int fam = 0; fam < 2; fam++) for (int fresh = 0; fresh < 2; fresh++) for (int nload = 1; nload <= 5; nload++) {
    TasmanianSparseGrid g = fam == 0 ? makeGlobalGrid(2, 1, fresh ? 2 : 1, type_level, rule_clenshawcurtis) : makeFourierGrid(2, 1, fresh ? 2 : 1, type_level);
    if (!fresh) {   /* otherwise the construction starts from the initial tensors of an unloaded grid */
      std::vector<double> p = g.getNeededPoints(), v(g.getNumNeeded()); for (int i = 0; i < g.getNumNeeded(); i++) v[i] = std::exp(p[2*i] - p[2*i+1]);
      g.loadNeededValues(v);
    }
    g.beginConstruction();
    std::vector<double> c = g.getCandidateConstructionPoints(type_level, 0);
    for (int k = 0; k < nload && (size_t) k < c.size() / 2; k++) g.loadConstructedPoints(std::vector<double>{c[2*k], c[2*k+1]}, std::vector<double>{std::exp(c[2*k] - c[2*k+1])});
    std::stringstream ss; g.write(ss, true);
    TasmanianSparseGrid r; r.read(ss, true);
    std::vector<double> c1 = g.getCandidateConstructionPoints(type_level, 0), c2 = r.getCandidateConstructionPoints(type_level, 0);
    if (c1 != c2) { std::printf("%s%s, %d candidates loaded: the restored grid asks for %zu candidates, the original for %zu\n", fam ? "Fourier" : "Global", fresh ? " (from scratch)" : "", nload, c2.size() / 2, c1.size() / 2); bad++; }
  }
  {   /* a tensor that is complete but blocked when the grid is written: 1-D Clenshaw-Curtis, level 0 and both level-2 samples delivered before level 1 */
    TasmanianSparseGrid g = makeGlobalGrid(1, 1, 2, type_level, rule_clenshawcurtis);
    g.beginConstruction();
    std::vector<double> c = g.getCandidateConstructionPoints(type_level, 0);
    auto f = [](double x)->std::vector<double>{ return std::vector<double>{std::exp(x)}; };
    if (c.size() == 5) {
      g.loadConstructedPoints(std::vector<double>{c[0]}, f(c[0])); g.loadConstructedPoints(std::vector<double>{c[3]}, f(c[3])); g.loadConstructedPoints(std::vector<double>{c[4]}, f(c[4]));
      std::stringstream ss; g.write(ss, true); TasmanianSparseGrid r; r.read(ss, true);
      for (int i = 1; i < 3; i++) { g.loadConstructedPoints(std::vector<double>{c[i]}, f(c[i])); r.loadConstructedPoints(std::vector<double>{c[i]}, f(c[i])); }
      g.finishConstruction(); r.finishConstruction();
      if (g.getNumLoaded() != r.getNumLoaded()) { std::printf("blocked complete tensor: the original ends with %d loaded points, the restored grid with %d\n", g.getNumLoaded(), r.getNumLoaded()); bad++; }
    }
  }
  __CPROVER_assert(bad == 0, "C17 a restored construction does not ask again for samples that were checkpointed");
  return 0;
}
'''
def replay_reload(prop):
    return replay(prop, REPLAY_RELOAD)

REPLAY_RESTRICT = r'''
/* On the real library (AddressSanitizer): a grid of each family under construction with stored points is copied with an output sub-range; the copy finishes its construction and must reproduce its output. */
int main_replay(){
  using namespace TasGrid;
  int bad = 0;
  const char *names[5] = {"Global", "Fourier", "Sequence", "LocalPolynomial", "Wavelet"};
  for (int fam = 0; fam < 5; fam++) {
    TasmanianSparseGrid g = fam == 0 ? makeGlobalGrid(2, 3, 1, type_level, rule_clenshawcurtis) : fam == 1 ? makeFourierGrid(2, 3, 1, type_level) : fam == 2 ? makeSequenceGrid(2, 3, 1, type_level, rule_leja)
                          : fam == 3 ? makeLocalPolynomialGrid(2, 3, 1, 1, rule_localp) : makeWaveletGrid(2, 3, 1, 1);
    auto f = [](double a, double b, int k)->double{ return std::exp(a + 0.5 * b) * (k + 1) + k; };
    /* nothing is loaded before the construction starts; every candidate but the first (the root) arrives, so the samples wait in the construction data */
    g.beginConstruction();
    std::vector<double> c = fam < 3 ? g.getCandidateConstructionPoints(type_level, 0) : g.getCandidateConstructionPoints(1.E-6, refine_classic); int n = (int) c.size() / 2;
    for (int i = n - 1; i >= 1; i--) g.loadConstructedPoints(std::vector<double>{c[2*i], c[2*i+1]}, std::vector<double>{f(c[2*i], c[2*i+1], 0), f(c[2*i], c[2*i+1], 1), f(c[2*i], c[2*i+1], 2)});
    TasmanianSparseGrid h; h.copyGrid(&g, 1, 2);
    std::vector<double> c2 = fam < 3 ? h.getCandidateConstructionPoints(type_level, 0) : h.getCandidateConstructionPoints(1.E-6, refine_classic);
    for (size_t i = 0; i < c2.size() / 2; i++) h.loadConstructedPoints(std::vector<double>{c2[2*i], c2[2*i+1]}, std::vector<double>{f(c2[2*i], c2[2*i+1], 1)});
    h.finishConstruction();
    std::vector<double> p = h.getLoadedPoints(); int miss = 0;
    for (int i = 0; i < h.getNumLoaded(); i++) { double y; h.evaluate(&p[2*i], &y); if (!(std::abs(y - f(p[2*i], p[2*i+1], 1)) < 1.E-9)) miss++; }
    if (miss || h.getNumOutputs() != 1) { std::printf("%s: the restricted copy has %d outputs, %d of %d loaded points do not reproduce the copied output\n", names[fam], h.getNumOutputs(), miss, h.getNumLoaded()); bad++; }
  }
  __CPROVER_assert(bad == 0, "C11 an output-restricted copy of a grid under construction is a working, independent grid");
  return 0;
}
'''
def _ctor_order():
    """the read constructor initialises tensors from readTensorDataList and then data from readNodeDataList (declaration order of the members decides)"""
    ht = X.strip_comments(X.read_source(dyncon.HPP))
    m = re.search(r'DynamicConstructorDataGlobal\s*\(\s*std::istream\s*&is\s*,[^)]*\)\s*:\s*([^{]*)\{', ht)
    if not m:
        raise X.ExtractionBreak("DynamicConstructorDataGlobal read constructor not found")
    init = re.sub(r'\s+', '', m.group(1))
    if "tensors(readTensorDataList<iomode>(is,num_dimensions))" not in init or "data(readNodeDataList<iomode>(is,num_dimensions,num_outputs))" not in init:
        raise X.ExtractionBreak("DynamicConstructorDataGlobal read constructor: unexpected member initialisers %r" % init)
    cls = ht[ht.index("class DynamicConstructorDataGlobal"):]
    a, b = cls.find("std::forward_list<TensorData> tensors;"), cls.find("std::forward_list<NodeData> data;")
    if a < 0 or b < 0:
        raise X.ExtractionBreak("DynamicConstructorDataGlobal members tensors / data not found")
    return a < b     # True: tensors are read first (the order the harness uses)

def jobs(tier, seed, prop):
    cf = ContractFile("contracts/dyncon.c")
    nl = 2 if tier == "quick" else 3
    pre = '#include "tsg_shim.h"\nint tsg_exc;\n#define TSG_NL %d\n#line 1 "/verif/contracts/dyncon.c"\n' % nl + cf.text(("text",))
    out = []
    if prop == "C06":
        tensors_first = _ctor_order()
        for am in (True, False):
            R = X.Rules()
            t, info = dyncon.emit(R, am)
            h = cf.text(("harness",), ["h_dyncon_roundtrip"])
            if not tensors_first:   # members declared in the other order: the reader consumes the node list first
                h = h.replace("readTensorDataList(&r.tensors, a_dims);\n  readNodeDataList(&r.data, a_dims, a_outs);", "readNodeDataList(&r.data, a_dims, a_outs);\n  readTensorDataList(&r.tensors, a_dims);")
            out.append(Job("dyncon.roundtrip." + ("ascii" if am else "binary"), pre + t + h, "h_dyncon_roundtrip", unwind=nl + 2, unwindset={"h_dyncon_roundtrip": 4 * nl + 6}, backends=[["--sat-solver", "cadical"], []], timeout=600 if tier == "quick" else 2400,
                           functions=["%s:%d %s" % (f["file"], f["line"], f["name"]) for f in info["functions"]], info=info, replay=replay(prop, REPLAY_IO),
                           bounded="lists of at most %d nodes and %d tensors (full unwinding with unwinding assertions)" % (nl, nl),
                           assumed=["I/O primitives of tsgIOHelpers.hpp (token tape)", "std::forward_list / reverse_iterator semantics as in the shim (rule R5fl)",
                                    "the read constructor's member initialisers (checked textually by the unit): tensors <- readTensorDataList, data <- readNodeDataList"],
                           label="DynamicConstructorDataGlobal write -> read restores the node list and the tensor list in order; rewrite reproduces the tokens"))
    if prop == "C08":
        R = X.Rules()
        t, info = dyncon.emit_clear(R)
        out.append(Job("dyncon.clearTesnors", pre + t + cf.text(("harness",), ["h_clearTesnors"]), "h_clearTesnors", unwind=nl + 3, timeout=300,
                       functions=["%s:%d %s" % (f["file"], f["line"], f["name"]) for f in info["functions"]], info=info, replay=replay(prop, REPLAY_LIM),
                       bounded="at most %d tensors (full unwinding with unwinding assertions)" % nl,
                       assumed=["std::forward_list semantics as in the shim (rule R5fl)", "tensor weights are not NaN"],
                       label="clearTesnors drops every non-initial tensor and keeps the initial ones in order"))
    if prop == "C11":
        t3 = [t_ for k, a, t_ in cf.sections if k == "text3"][0]
        for owner in ("class DynamicConstructorDataGlobal", "struct SimpleConstructData"):
            R = X.Rules()
            t, info = dyncon.emit_restrict(R, owner)
            cname = owner.split()[1]
            simple = cname == "SimpleConstructData"
            defs = "#define GTYPE %s\n#define RESTRICT %s_restrictData\n%s" % (cname, cname, "#define TSG_SIMPLE 1\n" if simple else "")
            out.append(Job("dyncon.restrictData" + (".simple" if simple else ""), pre + defs + t3 + t + cf.text(("harness",), ["h_restrictData"]), "h_restrictData", unwind=nl + 3, timeout=300,
                           functions=["%s:%d %s" % (f["file"], f["line"], f["name"]) for f in info["functions"]], info=info, replay=replay(prop, REPLAY_RESTRICT),
                           bounded="at most %d stored nodes (full unwinding with unwinding assertions)" % nl,
                           assumed=["std::forward_list semantics as in the shim (rule R5fl); value vectors are ghost descriptors (identity, length)"],
                           label="%s::restrictData: every stored value vector is cut to the outputs [ibegin, iend)%s" % (cname, "" if simple else "; the class invariant (values per node == num_outputs) is kept")))
    if prop in ("C17", "C06"):
        R = X.Rules()
        t, info = dyncon.emit_reload(R)
        t2 = [t_ for k, a, t_ in cf.sections if k == "text2"][0]
        nlr = 2       # larger lists exhaust the memory limit in both tiers
        pre_r = pre.replace("#define TSG_NL %d" % nl, "#define TSG_NL %d" % nlr)
        out.append(Job("dyncon.reloadPoints", pre_r + t2 + t + cf.text(("harness",), ["h_reloadPoints"]), "h_reloadPoints", unwind=nlr * nlr + 3, timeout=600, backends=[["--sat-solver", "cadical"], []],
                       functions=["%s:%d %s" % (f["file"], f["line"], f["name"]) for f in info["functions"]], info=info, replay=replay_reload(prop),
                       bounded="at most %d tensors, %d stored nodes, 3 points per tensor (full unwinding with unwinding assertions)" % (nlr, nlr),
                       assumed=["generateNestedPoints / MultiIndexSet::getSlot as ghost functions (getSlot is under contract in the indexsets unit)", "std::forward_list semantics as in the shim (rule R5fl)"],
                       label="reloadPoints: loaded flags of the candidate tensors are rebuilt exactly from the stored nodes"))
    return out
