"""Extraction of the 1-D local-polynomial hierarchy and basis functions
(SparseGrids/tsgRuleLocalPolynomial.hpp, namespace RuleLocal) and the integer
helpers of SparseGrids/tsgMathUtils.hpp.

Each `template<erule R> T f(...)` is emitted once per effective rule with the
name suffixed (`getParent_localp`), the template parameter bound to the enum
constant (rule R3).  `bool &isSupported` becomes a pointer (R4), the immediately
invoked lambda of evalPWPower is hoisted to a static function (R7)."""
import re
from .. import tsg2c as X

HPP = "SparseGrids/tsgRuleLocalPolynomial.hpp"
MATH = "SparseGrids/tsgMathUtils.hpp"
RULES = ["pwc", "localp", "semilocalp", "localp0", "localpb"]

FUNCS = ["getNumPoints", "getMaxNumKids", "getMaxNumParents", "getParent", "getStepParent", "getKid",
         "getNode", "getLevel", "getSupport", "scaleDiffX", "scaleX", "evalPWQuadratic", "evalPWCubic",
         "evalPWPower", "evalSupport", "evalRaw", "diffPWQuadratic", "diffPWCubic", "diffSupport"]
MATHF = ["intlog2", "int2log2", "int3log3", "pow2", "pow3"]

def _math(R):
    text = X.strip_comments(X.read_source(MATH))
    out = []
    pieces = []
    for f in MATHF:
        (p,) = X.cut(MATH, r'inline\s+int\s+%s\s*\(\s*int\s+\w+\s*\)' % f, text)
        p.name = f
        p.header = R.sub("R2-inline", r'\binline\s+', 'static ', p.header)
        pieces.append(p)
    return pieces

def _hoist_lambda(R, name, header, body, captures):
    """R7: `[&]()->int{ ... }()` immediately invoked -> static function.
    captures: list of (name, ctype, by_ref)."""
    m = re.search(r'\[&\]\s*\(\s*\)\s*->\s*int\s*(?=\{)', body)
    if not m:
        raise X.ExtractionBreak("R7: immediately-invoked lambda not found in %s" % name)
    k = m.end()
    e = X.match_close(body, k)
    lam_body = body[k:e+1]
    rest = body[e+1:]
    m2 = re.match(r'\s*\(\s*\)', rest)
    if not m2:
        raise X.ExtractionBreak("R7: lambda in %s is not immediately invoked" % name)
    params = ", ".join("%s %s%s" % (ct, '*' if ref else '', nm) for nm, ct, ref in captures)
    args = ", ".join(("&" + nm) if ref else nm for nm, ct, ref in captures)
    lb = lam_body
    for nm, ct, ref in captures:
        if ref:
            lb = re.sub(r'\b%s\b' % nm, '(*%s)' % nm, lb)
    hoisted = "static int %s_lambda0(%s)\n%s\n" % (name, params, lb)
    _hoist_lambda.fid_view = body[:m.start()] + hoisted + "%s_lambda0(%s)" % (name, args) + rest[m2.end():]
    body = body[:m.start()] + "%s_lambda0(%s)" % (name, args) + rest[m2.end():]
    R.counts["R7-hoist"] = R.counts.get("R7-hoist", 0) + 1
    return hoisted, body

def emit(R, rules=RULES, funcs=FUNCS, contracts=None, loop_contracts=None, minima=None):
    """Return (ctext, info).  contracts: {emitted_function_name: clause text};
    loop_contracts: {emitted_function_name: {loop_ordinal: clause text}}."""
    contracts = contracts or {}
    loop_contracts = loop_contracts or {}
    text = X.strip_comments(X.read_source(HPP))
    out = ['#include "tsg_shim.h"', "enum erule { erule_pwc, erule_localp, erule_semilocalp, erule_localp0, erule_localpb };"]
    fid_src, fid_emit = [], []
    info = {"functions": []}
    for p in _math(R):
        out.append('#line %d "%s"' % (p.line, X.REPO + "/" + p.rel))
        hdr, body = p.header, p.body
        out.append(X.splice(hdr, body, contracts.get(p.name), loop_contracts.get(p.name)))
        fid_src.append(p.src_header + p.src_body); fid_emit.append(hdr + body)
        info["functions"].append({"name": p.name, "file": p.rel, "line": p.line, "loops": X.count_loops(body)})
    pieces = []
    for f in funcs:
        (p,) = X.cut(HPP, r'template<erule\s+(\w+)>\s*(?:int|double)\s+%s\s*\([^)]*\)' % f, text)
        p.name = f
        pieces.append(p)
    # forward declarations per rule (functions call each other out of order)
    for rule in rules:
        for p in pieces:
            tp = re.match(r'template<erule\s+(\w+)>\s*', p.header)
            sig = p.header[tp.end():].strip()
            sig = re.sub(r'\b%s\s*\(' % p.name, '%s_%s(' % (p.name, rule), sig, count=1)
            sig = sig.replace('bool &isSupported', 'bool *isSupported')
            out.append("static %s;" % sig)
        out.append("double diffPWPower_%s(int max_order, int point, double x);" % rule)
    for rule in rules:
        for p in pieces:
            tp = re.match(r'template<erule\s+(\w+)>\s*', p.header)
            tparam = tp.group(1)
            R.counts["R3-template-header"] = R.counts.get("R3-template-header", 0) + 1
            hdr = p.header[tp.end():]
            body = p.body
            t_h, t_b = hdr, body
            name = "%s_%s" % (p.name, rule)
            hoisted = ""
            def rw(t):
                t = X.r1_qualifiers(R, t)
                t = R.sub("R3-template-call", r'\b(\w+)\s*<\s*%s\s*>\s*\(' % tparam, r'\1_%s(' % rule, t)
                t = R.sub("R3-enum-const", r'\berule::(\w+)', r'erule_\1', t)
                t = R.sub("R3-template-param", r'\b%s\b' % tparam, 'erule_%s' % rule, t)
                t = X.r2_casts(R, t)
                t = X.r2_std_math(R, t)
                return t
            t_h = rw(t_h); t_b = rw(t_b)
            t_h = re.sub(r'\b%s\s*\(' % p.name, name + '(', t_h, count=1)
            if 'bool &isSupported' in t_h:
                t_h = R.replace("R4-ref-param", 'bool &isSupported', 'bool *isSupported', t_h)
                t_b = R.sub("R4-ref-use", r'\bisSupported\b', '(*isSupported)', t_b)
            if p.name == "evalPWPower":
                hoisted, t_b = _hoist_lambda(R, name, t_h, t_b,
                                             [("level", "int", False), ("max_ancestors", "int", True)])
            X.check_leftover(t_h + t_b + hoisted, name)
            out.append('#line %d "%s"' % (p.line, X.REPO + "/" + p.rel))
            if hoisted:
                out.append(hoisted)
                out.append('#line %d "%s"' % (p.line, X.REPO + "/" + p.rel))
            out.append("static " + X.splice(t_h, t_b, contracts.get(name), loop_contracts.get(name)))
            if rule == rules[0]:
                fid_src.append(p.src_header + p.src_body); fid_emit.append(t_h + (_hoist_lambda.fid_view if hoisted else t_b))
                info["functions"].append({"name": p.name, "file": p.rel, "line": p.line,
                                          "loops": X.count_loops(t_b), "instantiated_for": list(rules)})
    mn = {"R3-template-header": len(rules) * len(funcs), "R3-enum-const": 3 * len(rules),
          "R4-ref-param": len(rules) if "evalSupport" in funcs else 0,
          "R7-hoist": len(rules) if "evalPWPower" in funcs else 0,
          "R3-template-call": 10 if "evalRaw" in funcs else 0}
    mn.update(minima or {})
    R.require(mn)
    info["fidelity"] = X.fidelity("\n".join(fid_src), "\n".join(fid_emit),
                                  extra_vocab=["isSupported", "abs", "min", "max_ancestors", "level", "int"], slack=4)
    return "\n".join(out) + "\n", info


def emit_ancestors(R, rule):
    """The integer prefix of evalPWPower / diffPWPower for one rule: everything up to the first floating-point loop, returning the number of ancestor
    nodes the Lagrange product is built from (-1 when the hard-coded cubic is used).  The floating-point remainder of both functions is dropped."""
    text = X.strip_comments(X.read_source(HPP))
    out, fns, drops = [], [], []
    for f, cut_rx, caps in (("evalPWPower", r'for\s*\(\s*int\s+j\s*=\s*0\s*;\s*j\s*<\s*max_ancestors\b', [("level", "int", False), ("max_ancestors", "int", True)]),
                            ("diffPWPower", r'int\s+most_turns\s*=|auto\s+update_and_get_next_node\s*=', [("level", "int", False)])):
        (p,) = X.cut(HPP, r'template<erule\s+(\w+)>\s*(?:int|double)\s+%s\s*\([^)]*\)' % f, text)
        tp = re.match(r'template<erule\s+(\w+)>\s*', p.header)
        tparam = tp.group(1)
        b = p.body
        b = X.r1_qualifiers(R, b)
        b = R.sub("R3-template-call", r'\b(\w+)\s*<\s*%s\s*>\s*\(' % tparam, r'\1_%s(' % rule, b)
        b = R.sub("R3-enum-const", r'\berule::(\w+)', r'erule_\1', b)
        b = R.sub("R3-template-param", r'\b%s\b' % tparam, 'erule_%s' % rule, b)
        b = X.r2_casts(R, b)
        b = X.r2_std_math(R, b)
        b = R.sub("R2-and", r'\band\b', '&&', b)
        name = "%s_anc_%s" % (f, rule)
        # the lambda of evalPWPower assigns the captured variable it initialises (`int max_ancestors = [&]{ return max_ancestors = ...; }()`): captured by reference
        if f == "evalPWPower":
            b = R.sub("R7-decl-split", r'int\s+max_ancestors\s*=\s*(?=\[&\])', 'int max_ancestors; max_ancestors = ', b)
        hoisted, b = _hoist_lambda(R, name, "", b, caps)
        m = re.search(cut_rx, b)
        if not m:
            raise X.ExtractionBreak("%s: the start of the floating-point part was not found" % f)
        pre = b[:m.start()]
        if "max_ancestors" not in pre:
            raise X.ExtractionBreak("%s: max_ancestors is not computed before the floating-point part" % f)
        pre = R.sub("R12-cubic-marker", r'return\s+(?:eval|diff)PWCubic_\w+\(\s*point\s*,\s*x\s*\)\s*;', 'return -1;', pre)
        body = pre + "return max_ancestors;\n}"
        X.check_leftover(hoisted + body, name)
        out.append('#line %d "%s"\n%sstatic int %s(int max_order, int point, double x)%s\n' % (p.line, X.REPO + "/" + p.rel, hoisted, name, body))
        fns.append({"name": "%s<%s> (integer prefix)" % (f, rule), "file": p.rel, "line": p.line, "loops": 0})
        drops.append("%s: everything from the first floating-point loop on (%d of %d characters kept)" % (f, m.start(), len(b)))
    R.require({"R7-hoist": 2, "R12-cubic-marker": 2})
    return "\n".join(out), {"functions": fns, "drops": drops, "rules_fired": {k: v for k, v in R.counts.items() if v}}
