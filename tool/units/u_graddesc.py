"""Unit C19: GradientDescent (F17 adaptive/projected variant, F18 constant step)."""
import re
from .. import tsg2c as X
from ..runner import Job
from ..contractfile import ContractFile
from .. import replay as RP
from . import graddesc

REPLAY = r'''
/* The real TasOptimization::GradientDescent with scripted callbacks that return exactly the
 * values of CBMC's counterexample.  After the call the state must hold the last point at which
 * the gradient was evaluated (= the start or the last accepted candidate). */
static const size_t ND = @ND@;
static double fret[] = {@FRET@};
static double gout[][2] = {@GOUT@};
static double pout[][2] = {@POUT@};
int main_replay(){
  std::vector<double> x0 = {@START@}; x0.resize(ND);
  TasOptimization::GradientDescentState state(x0, @STEP@);
  size_t nf = 0, ng = 0, np = 0; std::vector<double> last_grad_x;
  auto func = [&](const std::vector<double> &x)->double{ double r = fret[nf < 8 ? nf : 7]; nf++; return r; };
  auto grad = [&](const std::vector<double> &x, std::vector<double> &g)->void{ last_grad_x = x; for(size_t d=0; d<ND; d++) g[d] = gout[ng < 8 ? ng : 7][d]; ng++; };
  auto proj = [&](const std::vector<double> &z, std::vector<double> &o)->void{ for(size_t d=0; d<ND; d++) o[d] = pout[np < 8 ? np : 7][d]; np++; };
  TasOptimization::OptimizationStatus s = TasOptimization::GradientDescent(func, grad, proj, @INC@, @DEC@, @MAXIT@, @TOL@, state);
  std::vector<double> x = state.getX();
  std::printf("performed %d iterations (cap %d), %zu candidates\n", s.performed_iterations, @MAXIT@, np);
  for(size_t d=0; d<ND; d++) std::printf("  x[%zu] = %.17g   last accepted = %.17g\n", d, x[d], last_grad_x[d]);
  bool same = true; for(size_t d=0; d<ND; d++) if (!TSG_SAME(x[d], last_grad_x[d])) same = false;
  __CPROVER_assert(same, "F17 on return the state holds the last accepted iterate");
  __CPROVER_assert(s.performed_iterations <= (@MAXIT@ > 0 ? @MAXIT@ : 0), "F17 performed_iterations <= max(max_iterations,0)");
  return 0;
}
'''
SEARCH = r'''
/* The obligation is about the internals of the descent test, so CBMC's values (arbitrary callback outputs) do not
 * transfer.  Replay by search over the real code: convex quadratics f(x) = L x^2 / 2 and a small grid of parameters;
 * the returned state must not be worse than the start and not worse than with a smaller cap. */
int main_replay(){
  int bad = 0;
  for (double L : {1.0, 4.0}) for (double dec : {1.25, 2.0, 3.0, 5.0}) for (double inc : {1.0, 1.5}) for (double step : {0.5, 2.0, 7.5})
  for (double start : {1.0, -3.0}) {
    double prev = 0.5 * L * start * start;
    for (int cap = 0; cap <= 5; cap++) {
      TasOptimization::GradientDescentState state({start}, step);
      auto func = [&](const std::vector<double> &x)->double{ return 0.5 * L * x[0] * x[0]; };
      auto grad = [&](const std::vector<double> &x, std::vector<double> &g)->void{ g[0] = L * x[0]; };
      TasOptimization::GradientDescent(func, grad, inc, dec, cap, 1.E-9, state);
      double fr = func(state.getX());
      if (fr > prev + 1.E-12) {
        if (bad < 5) std::printf("L=%g decrease=%g increase=%g stepsize=%g start=%g cap=%d: f(result)=%.17g > %.17g (start / smaller cap)\n", L, dec, inc, step, start, cap, fr, prev);
        bad++;
      }
      if (fr < prev) prev = fr;
    }
  }
  __CPROVER_assert(bad == 0, "C19 the returned state is no worse than the start and than the result of any smaller cap");
  return 0;
}
'''
REPLAY_CONST = r'''
/* F18 on the real code: linear gradient fields g(x) = L x in 1 and 2 dimensions; every iterate and residual is an exact binary fraction, so the
 * first step whose residual is <= the tolerance is known without rounding; tolerances equal to a residual of the sequence are included. */
int main_replay(){
  int bad = 0;
  for (int nd = 1; nd <= 2; nd++) for (double step : {0.5, 0.25}) for (double tol : {0.0, 0.125, 0.25, 0.3, 0.5, 1.0, 4.0}) for (int cap : {-1, 0, 1, 2, 3, 6}) {
    std::vector<double> x(nd, 0.0); x[0] = 1.0;               /* residual = |x[0]|: 1, then (1 - step), (1 - step)^2, ... */
    auto grad = [&](const std::vector<double> &z, std::vector<double> &g)->void{ for (int j = 0; j < nd; j++) g[j] = z[j]; };
    int expect = 0; double r = 1.0;                           /* reference: steps until the residual after a step is <= tol, at most cap */
    { bool first = true; while ((first || r > tol) && expect < cap) { first = false; r *= (1.0 - step); expect++; } }
    /* the loop tests the residual before the first step too, with the initial value tolerance + 1 (always above the tolerance) */
    TasOptimization::OptimizationStatus st = TasOptimization::GradientDescent(grad, step, cap, tol, x);
    if (st.performed_iterations != expect || (expect > 0 && x[0] != r)) {
      if (bad < 6) std::printf("dims %d stepsize %g tolerance %g cap %d: %d steps performed, expected %d (state %.17g, expected %.17g)\n", nd, step, tol, cap, st.performed_iterations, expect, x[0], r);
      bad++;
    }
  }
  __CPROVER_assert(bad == 0, "F18 the constant-step variant performs exactly min(max_iterations, first step reaching the tolerance) steps");
  return 0;
}
'''
def replay_const(prop):
    def rp(job, ob, vals, wd):
        hdr = "Replay against the real code (fixed scenarios with exact arithmetic).\nproperty %s job %s\nobligation %s: %s\nat %s" % (prop, job.name, ob["name"], ob["description"], ob["location"])
        return RP.write_and_run(prop, job.name + "." + ob["name"], hdr, ['"TasmanianOptimization.hpp"'], REPLAY_CONST, "  main_replay();", lib="dream")
    return rp

def replay_search(prop, suffix=""):
    def rp(job, ob, vals, wd):
        hdr = "Replay by search against the real code.\nproperty %s job %s\nobligation %s: %s\nat %s" % (prop, job.name, ob["name"], ob["description"], ob["location"])
        return RP.write_and_run(prop, job.name + "." + ob["name"] + suffix, hdr, ['"TasmanianOptimization.hpp"'], SEARCH, "  main_replay();", lib="dream")
    return rp

def replay_any(prop):
    a, s, s2 = replay_adaptive(prop), replay_search(prop), replay_search(prop, ".search")
    def rp(job, ob, vals, wd):
        if "tsg_rhs_term" in ob["name"] or "tsg_step" in ob["name"]:
            return s(job, ob, vals, wd)
        r = a(job, ob, vals, wd)
        if r[1]:
            return r
        # the descent test is abstract in the proof, so the scripted callback values may not drive the real code down the same path: fall back to the search
        r2 = s2(job, ob, vals, wd)
        return r2 if r2[1] else r
    return rp

def _arr(vals, name, n, m=None):
    def get(k):
        for suf in ("l", "", "ul"):
            if k.replace("$", suf) in vals: return RP.cxx_double(vals[k.replace("$", suf)])
        return "0.0"
    if m is None:
        return ", ".join(get("%s[%d$]" % (name, i)) for i in range(n))
    return ", ".join("{" + ", ".join(get("%s[%d$][%d$]" % (name, i, j)) for j in range(m)) + "}" for i in range(n))

def replay_adaptive(prop):
    def rp(job, ob, vals, wd):
        need = ["a_inc", "a_dec", "a_tol", "a_step", "a_maxit", "g_dims"]
        if any(k not in vals for k in need):
            return None, None, "no inputs in the trace"
        nd = int(vals["g_dims"])
        hdr = ("Replay against the real code.\nproperty %s job %s\nobligation %s: %s\nat %s\ncounterexample: dims=%d max_iterations=%s increase=%s decrease=%s tolerance=%s stepsize=%s"
               % (prop, job.name, ob["name"], ob["description"], ob["location"], nd, vals["a_maxit"], vals["a_inc"], vals["a_dec"], vals["a_tol"], vals["a_step"]))
        body = (REPLAY.replace("@ND@", str(nd)).replace("@FRET@", _arr(vals, "g_fret", 8)).replace("@GOUT@", _arr(vals, "g_gout", 8, 2))
                .replace("@POUT@", _arr(vals, "g_pout", 8, 2)).replace("@START@", _arr(vals, "g_start", 2))
                .replace("@STEP@", RP.cxx_double(vals["a_step"])).replace("@INC@", RP.cxx_double(vals["a_inc"])).replace("@DEC@", RP.cxx_double(vals["a_dec"]))
                .replace("@TOL@", RP.cxx_double(vals["a_tol"])).replace("@MAXIT@", "(%s)" % vals["a_maxit"]))
        return RP.write_and_run(prop, job.name + "." + ob["name"], hdr, ['"TasmanianOptimization.hpp"'], body, "  main_replay();", lib="dream")
    return rp

def jobs(tier, seed, prop):
    out = []
    cf = ContractFile("contracts/graddesc.c")
    # num_tol of the contract file must be the repo's constant
    mt = X.strip_comments(X.read_source("SparseGrids/tsgMathUtils.hpp"))
    if not re.search(r'constexpr\s+double\s+num_tol\s*=\s*1\.E-12\s*;', mt):
        raise X.ExtractionBreak("Maths::num_tol is no longer 1.E-12; contracts/graddesc.c must follow")
    ndim, nit = (2, 3) if tier == "quick" else (2, 4)
    pre_i = '#include "tsg_shim.h"\nint tsg_exc;\n#define TSG_NDIM 1\n#define TSG_NIT 2\n'      # the IEEE text is decided at the smallest size only (larger sizes exhaust memory)
    pre = '#include "tsg_shim.h"\nint tsg_exc;\n#define TSG_NDIM %d\n#define TSG_NIT %d\n' % (ndim, nit)
    R = X.Rules()
    t, info = graddesc.emit_adaptive(R, abstract_test=True)
    fl = ["%s:%d %s" % (f["file"], f["line"], f["name"]) for f in info["functions"]]
    if tier == "thorough":
        Ri = X.Rules()
        ti, infoi = graddesc.emit_adaptive(Ri)
        out.append(Job("graddesc.adaptive.ieee", pre_i + '#line 1 "/verif/contracts/graddesc.c"\n' + cf.text(("text",)) + ti + cf.text(("harness",), ["h_GradientDescent_adaptive"]),
                       "h_GradientDescent_adaptive", unwind=4, timeout=3000, backends=[["--refine-arithmetic"], ["--sat-solver", "cadical"]], functions=fl, info=infoi, replay=replay_any(prop),
                       bounded="dimensions == 1, max_iterations <= 2 (full unwinding), IEEE descent test",
                       assumed=["callbacks func/grad/proj return arbitrary doubles", "computeStationarityResidual returns any value (stub)"],
                       label="GradientDescent (adaptive, projected) against F17 with the IEEE descent test"))
    out.append(Job("graddesc.adaptive", pre + '#line 1 "/verif/contracts/graddesc.c"\n' + cf.text(("text",)) + t + cf.text(("harness",), ["h_GradientDescent_adaptive"]),
                   "h_GradientDescent_adaptive", unwind=nit + 2, timeout=600 if tier == "quick" else 2400,
                   backends=[["--refine-arithmetic"], ["--sat-solver", "cadical"]], functions=fl, info=info, replay=replay_any(prop),
                   bounded="dimensions <= %d, max_iterations <= %d (full unwinding with unwinding assertions)" % (ndim, nit),
                   assumed=["callbacks func/grad/proj return arbitrary doubles", "computeStationarityResidual is floating-point only and returns any value (stub)",
                            "R13: the descent test lhs > rhs + tol is an uninterpreted predicate in this job (F17 is proved for every outcome of the test); the thorough tier also runs the IEEE text"],
                   label="GradientDescent (adaptive, projected) extracted body against F17"))
    # the same unit at the smallest size: a violation that does not depend on the sizes is found quickly here
    pre_s = '#include "tsg_shim.h"\nint tsg_exc;\n#define TSG_NDIM 1\n#define TSG_NIT 2\n'
    out.append(Job("graddesc.adaptive.small", pre_s + '#line 1 "/verif/contracts/graddesc.c"\n' + cf.text(("text",)) + t + cf.text(("harness",), ["h_GradientDescent_adaptive"]),
                   "h_GradientDescent_adaptive", unwind=4, timeout=600, backends=[["--refine-arithmetic"], ["--sat-solver", "cadical"], []], functions=fl, info=info, replay=replay_any(prop),
                   bounded="dimensions == 1, max_iterations <= 2 (full unwinding with unwinding assertions)",
                   assumed=["callbacks func/grad/proj return arbitrary doubles", "computeStationarityResidual returns any value (stub)"],
                   label="GradientDescent (adaptive, projected) against F17 at the smallest size (fast counterexamples)"))
    R2 = X.Rules()
    t2, info2 = graddesc.emit_const(R2)
    t2 = t2.replace("sqrt(status.residual)", "tsg_sqrt_log(status.residual)")
    out.append(Job("graddesc.const", pre + '#line 1 "/verif/contracts/graddesc.c"\n' + cf.text(("text",)) + t2 + cf.text(("harness",), ["h_GradientDescent_const"]),
                   "h_GradientDescent_const", unwind=nit + 2, timeout=600, backends=[["--refine-arithmetic"], []],
                   functions=["%s:%d %s" % (f["file"], f["line"], f["name"]) for f in info2["functions"]], info=info2, replay=replay_const(prop),
                   bounded="dimensions <= %d, max_iterations <= %d (full unwinding with unwinding assertions)" % (ndim, nit),
                   assumed=["gradient callback returns arbitrary doubles", "sqrt returns any value (logged stub)"],
                   label="GradientDescent (constant step) extracted body against F18"))
    return out
