"""Unit F1/F3: exactness tables of the 1-D rules (C02, C03)."""
from .. import tsg2c as X
from ..runner import Job
from ..contractfile import ContractFile
from .. import replay as RP
from . import tables

MEASURE = r'''
/* For rules with weight function 1 the declared exactness is also measured on the real quadrature:
 * a 1-D global grid of depth l (type_level) is the rule at level l; every monomial of degree <= declared
 * must be integrated exactly (C02 itself, not only the table). */
static void measure(TypeOneDRule r){
  if (IS_GAUSS(r) && r != rule_gausslegendre && r != rule_gausslegendreodd) return;
  if (r == rule_clenshawcurtis0 || r == rule_fourier) return;
  for(int l=0; l<=6; l++){
    TasmanianSparseGrid g; g.makeGlobalGrid(1, 0, l, type_level, r);
    std::vector<double> x = g.getPoints(), w = g.getQuadratureWeights();
    int decl = getQExact(l, r);
    for(int d=0; d<=decl && d < 60; d++){
      long double s = 0; for(size_t i=0;i<w.size();i++) s += (long double)w[i]*powl((long double)x[i], d);
      long double ex = (d%2==0) ? 2.0L/(d+1) : 0.0L;
      if (fabsl(s-ex) > 1e-9L){ std::printf("REPLAY-FAIL: measured: level %d (%d points) declares exactness %d but x^%d is integrated with error %Lg\n", l, (int)w.size(), decl, d, fabsl(s-ex)); replay_failures++; break; }
    }
  }
}
'''

def make_replay(prop, lemma_text, macros):
    def rp(job, ob, vals, wd):
        if "a_level" not in vals or "a_rule" not in vals:
            return None, None, "no inputs in the trace"
        hdr = ("Replay of a failed obligation against the real code.\nproperty %s, job %s\nobligation %s: %s\nat %s\n"
               "inputs from CBMC's counterexample: level=%s rule=%s" % (prop, job.name, ob["name"], ob["description"], ob["location"], vals["a_level"], vals["a_rule"]))
        body = ("using namespace TasGrid;\n#define getNumPoints OneDimensionalMeta::getNumPoints\n#define getQExact OneDimensionalMeta::getQExact\n"
                "#define getIExact OneDimensionalMeta::getIExact\n" + macros + lemma_text)
        body += MEASURE
        return RP.write_and_run(prop, job.name + "." + ob["name"], hdr, ['"TasmanianSparseGrid.hpp"'], body,
                                "  measure((TypeOneDRule)%s);\n" % vals["a_rule"] + "  std::printf(\"rule %%s level %%d\\n\", IO::getRuleString((TypeOneDRule)%s).c_str(), %s);\n  lemma_exactness(%s, (TypeOneDRule)%s);" % (vals["a_rule"], vals["a_level"], vals["a_level"], vals["a_rule"]), lib="sg")
    return rp

def jobs(tier, seed, prop):
    R = X.Rules()
    cf = ContractFile("contracts/tables.c")
    ctext, info = tables.emit(R)
    fl = ["%s:%d %s" % (f["file"], f["line"], f["name"]) for f in info["functions"]]
    ltxt = cf.text(("lemma",))
    j = Job("tables.lemma_exactness", ctext + "int tsg_exc;\n" + cf.text(("text",)) + ltxt + cf.text(("harness",)), "h_lemma_exactness",
            enforce="lemma_exactness", pre_unwindset={"pow3": 21}, unwind=4, timeout=300, functions=fl, info=info,
            replay=make_replay(prop, ltxt, cf.text(("text",))),
            label="lemma F1/F3 over the extracted bodies of getNumPoints/getQExact/getIExact, all 39 non-custom rules + Fourier, all levels without int overflow")
    return [j]
