"""Unit C11: copyGrid (wrapper level, aliasing allowed) and spltVector2D (A7)."""
import re
from .. import tsg2c as X
from ..runner import Job
from ..contractfile import ContractFile
from .. import replay as RP
from . import apiwrap, tables, u_apiwrap

REPLAY_ALIAS = r'''
int main_replay(){
  using namespace TasGrid;
  auto g = makeGlobalGrid(2, 1, 3, type_level, rule_clenshawcurtis);
  int n = g.getNumPoints();
  const TasmanianSparseGrid &alias = g;
  g = alias;                              /* assignment through an alias of the grid itself */
  std::printf("before: %d points; after self-assignment: empty() = %d, %d points\n", n, (int) g.empty(), g.getNumPoints());
  __CPROVER_assert(!g.empty() && g.getNumPoints() == n, "C11 a grid assigned from (an alias of) itself keeps its state");
  auto h = makeSequenceGrid(2, 1, 2, type_level, rule_leja);
  int m = h.getNumPoints();
  h.copyGrid(&h);
  __CPROVER_assert(!h.empty() && h.getNumPoints() == m, "C11 copyGrid(&self) keeps the grid");
  return 0;
}
'''
REPLAY_SPLIT = r'''
/* On the real library (AddressSanitizer): an output sub-range copy of a grid of each family, taken before and after the values are loaded;
 * the copy must expect / hold one value per point for each of its outputs, and after loading it must reproduce its outputs. */
int main_replay(){
  using namespace TasGrid;
  int bad = 0;
  const char *names[5] = {"Global", "Sequence", "LocalPolynomial", "Wavelet", "Fourier"};
  for (int fam = 0; fam < 5; fam++) for (int loaded = 0; loaded < 2; loaded++) {
    TasmanianSparseGrid g = fam == 0 ? makeGlobalGrid(2, 3, 2, type_level, rule_clenshawcurtis) : fam == 1 ? makeSequenceGrid(2, 3, 2, type_level, rule_leja)
                          : fam == 2 ? makeLocalPolynomialGrid(2, 3, 2, 1, rule_localp) : fam == 3 ? makeWaveletGrid(2, 3, 1, 1) : makeFourierGrid(2, 3, 1, type_level);
    auto f = [](double a, double b, int k)->double{ return std::exp(a + 0.5 * b) * (k + 1) + k; };
    std::vector<double> p = g.getNeededPoints(); int n = g.getNumNeeded();
    if (loaded) { std::vector<double> v(3 * n); for (int i = 0; i < n; i++) for (int k = 0; k < 3; k++) v[3*i+k] = f(p[2*i], p[2*i+1], k); g.loadNeededValues(v); }
    TasmanianSparseGrid h; h.copyGrid(&g, 1, 3);
    if (!loaded) { std::vector<double> v(2 * n); for (int i = 0; i < n; i++) for (int k = 0; k < 2; k++) v[2*i+k] = f(p[2*i], p[2*i+1], k + 1); h.loadNeededValues(v); }
    int miss = 0;
    if (h.getNumOutputs() != 2 || h.getNumLoaded() != n || h.getLoadedValues() == nullptr) miss = n + 1;
    else { const double *v = h.getLoadedValues(); std::vector<double> q = h.getLoadedPoints();
      for (int i = 0; i < n; i++) { double y[2]; h.evaluate(&q[2*i], y);
        for (int k = 0; k < 2; k++) if (!(std::abs(v[2*i+k] - f(q[2*i], q[2*i+1], k + 1)) < 1.E-12 && std::abs(y[k] - v[2*i+k]) < 1.E-9)) { miss++; break; } } }
    if (miss) { std::printf("%s, copy taken %s loading: %d outputs, %d loaded points, %d of %d points do not hold / reproduce the copied outputs\n", names[fam], loaded ? "after" : "before", h.getNumOutputs(), h.getNumLoaded(), miss, n); bad++; }
  }
  __CPROVER_assert(bad == 0, "C11 an output sub-range copy is a working grid with one value per point and output");
  return 0;
}
'''
def replay_split(prop):
    def rp(job, ob, vals, wd):
        hdr = "Replay against the real library (fixed scenarios).\nproperty %s job %s\nobligation %s: %s\nat %s" % (prop, job.name, ob["name"], ob["description"], ob["location"])
        return RP.write_and_run(prop, job.name + "." + ob["name"], hdr, ['"TasmanianSparseGrid.hpp"', '<cmath>'], REPLAY_SPLIT, "  main_replay();", lib="sg", flags=["-fsanitize=address", "-O1"], timeout=180)
    return rp

def replay_alias(prop):
    def rp(job, ob, vals, wd):
        hdr = "Replay against the real library.\nproperty %s job %s\nobligation %s: %s\nat %s\ncounterexample: source aliases the destination" % (prop, job.name, ob["name"], ob["description"], ob["location"])
        return RP.write_and_run(prop, job.name + "." + ob["name"], hdr, ['"TasmanianSparseGrid.hpp"'], REPLAY_ALIAS, "  main_replay();", lib="sg")
    return rp

def emit_split(R, contract, loops):
    HPP = "SparseGrids/tsgIndexSets.hpp"
    text = X.strip_comments(X.read_source(HPP))
    (p,) = X.cut(HPP, r'template<typename\s+T>\s*std::vector<T>\s+spltVector2D\s*\(\s*std::vector<T>\s+const\s*&x\s*,\s*size_t\s+stride\s*,\s*int\s+ibegin\s*,\s*int\s+iend\s*\)', text)
    chdr = "void spltVector2D(const double *x, size_t x_size, size_t stride, int ibegin, int iend, double *result, size_t *result_len)"
    b = p.body
    b = R.sub("R2-paren-init", r'size_t\s+sbegin\(ibegin\)\s*,\s*send\(iend\)\s*;', 'size_t sbegin = (size_t)(ibegin), send = (size_t)(iend);', b)
    b = R.sub("R5-local-vector", r'std::vector<T>\s+result\(([^;]*)\)\s*;', r'size_t result_size = \1; tsg_fill_double(result, result_size, 0.0);', b)
    b = R.sub("R5-iter-decl", r'auto\s+ix\s*=\s*x\.begin\(\)\s*;', 'size_t ix = 0;', b)
    b = R.sub("R5-iter-decl", r'auto\s+ir\s*=\s*result\.begin\(\)\s*;', 'size_t ir = 0;', b)
    b = R.sub("R5-copy_n", r'std::copy_n\(\s*ix\s*\+\s*sbegin\s*,\s*new_stride\s*,\s*ir\s*\)', 'tsg_copy_n_double(&x[ix + sbegin], new_stride, &result[ir])', b)
    b = R.sub("R5-advance", r'std::advance\(\s*(ix|ir)\s*,\s*(\w+)\s*\)', r'\1 += \2', b)
    b = R.sub("R5-size", r'\bx\.size\(\)', 'x_size', b)
    b = R.sub("R5-return-vector", r'return\s+result\s*;', '{ *result_len = result_size; return; }', b)
    X.check_leftover(chdr + b, "spltVector2D")
    R.require({"R5-local-vector": 1, "R5-iter-decl": 2, "R5-copy_n": 1, "R5-advance": 2, "R5-return-vector": 1})
    out = '#line %d "%s"\n' % (p.line, X.REPO + "/" + p.rel) + X.splice(chdr, b, contract, loops)
    return out, {"functions": [{"name": "spltVector2D<double> (Data2D::splitData, StorageSet::splitValues)", "file": p.rel, "line": p.line, "loops": X.count_loops(b)}],
                 "rules_fired": {k: v for k, v in R.counts.items() if v},
                 "fidelity": X.fidelity(p.src_body, b, extra_vocab=["T", "result", "x", "ix", "ir", "begin", "copy_n", "advance", "size", "sbegin", "send", "return"], slack=6),
                 "drops": ["the int and other instantiations of the template (double only)"]}

def emit_split_wrappers(R):
    """Data2D<T>::splitData and StorageSet::splitValues (tsgIndexSets.hpp) on ghost records."""
    HPP = "SparseGrids/tsgIndexSets.hpp"
    text = X.strip_comments(X.read_source(HPP))
    (p,) = X.cut(HPP, r'Data2D<T>\s+splitData\s*\(\s*int\s+ibegin\s*,\s*int\s+iend\s*\)\s*const', text)
    b = p.body
    b = R.sub("R12g-empty-object", r'return\s+Data2D<T>\(\)\s*;', 'return d2_empty();', b)
    b = R.sub("R12g-local-object", r'Data2D<T>\s+result\(\s*([^,;]+),\s*0\s*\)\s*;', r'D2 result = d2_make(\1, 0);', b)
    b = R.sub("R12g-split-call", r'spltVector2D\(\s*vec\s*,\s*stride\s*,\s*ibegin\s*,\s*iend\s*\)', 'gm_split(self->vec, self->stride, ibegin, iend)', b)
    for mname in ("stride", "num_strips"):
        b = R.sub("R10-member", r'(?<![\w.>])%s\b' % mname, 'self->' + mname, b)
    X.check_leftover(b, "Data2D::splitData")
    t1 = '#line %d "%s"\nD2 Data2D_splitData(const D2 *self, int ibegin, int iend)%s\n' % (p.line, X.REPO + "/" + p.rel, b)
    (q,) = X.cut(HPP, r'StorageSet\s+splitValues\s*\(\s*int\s+ibegin\s*,\s*int\s+iend\s*\)\s*const', text)
    c = q.body
    c = R.sub("R12g-brace-return", r'return\s*\{\s*([^,]+),\s*([^,]+),\s*spltVector2D\(\s*values\s*,\s*num_outputs\s*,\s*ibegin\s*,\s*iend\s*\)\s*\}\s*;',
              r'return ss_make(\1, \2, gm_split(self->values, self->num_outputs, ibegin, iend));', c)
    c = R.sub("R12g-vector-size", r'(?<![\w.>])values\.size\(\)', 'self->values_size', c)
    for mname in ("num_values", "num_outputs"):
        c = R.sub("R10-member", r'(?<![\w.>])%s\b' % mname, 'self->' + mname, c)
    X.check_leftover(c, "StorageSet::splitValues")
    t2 = '#line %d "%s"\nSS StorageSet_splitValues(const SS *self, int ibegin, int iend)%s\n' % (q.line, X.REPO + "/" + q.rel, c)
    R.require({"R12g-split-call": 1, "R12g-brace-return": 1, "R12g-local-object": 1})
    return t1 + t2, {"functions": [{"name": "Data2D<T>::splitData", "file": p.rel, "line": p.line, "loops": 0}, {"name": "StorageSet::splitValues", "file": q.rel, "line": q.line, "loops": 0}],
                     "rules_fired": {k: v for k, v in R.counts.items() if v}}

SPLITW = r'''
typedef struct { size_t stride, num_strips; int vec; } D2;
typedef struct { size_t num_outputs, num_values; int values; size_t values_size; } SS;      /* values_size: values.size(), 0 while no values are loaded, else num_outputs * num_values */
static D2 d2_empty(void){ D2 d = {0, 0, 0}; return d; }
static D2 d2_make(int stride, int strips){ D2 d = {(size_t) stride, (size_t) strips, 0}; return d; }
static SS ss_make(int outs, int nvals, int vals){ SS s = {(size_t) outs, (size_t) nvals, vals, 0}; return s; }
static int gm_split(int vec, size_t stride, int b, int e){ return 100000 + vec; }     /* identity of spltVector2D(vec, stride, b, e) (proved in copy.spltVector2D) */
'''
SPLITH = r'''
void h_splitw(void){
  D2 d; SS s; int a_b = nondet_int(), a_e = nondet_int();
  d.stride = nondet_size_t(); d.num_strips = nondet_size_t(); d.vec = nondet_int(); s.num_outputs = nondet_size_t(); s.num_values = nondet_size_t(); s.values = nondet_int(); s.values_size = nondet_bool() ? 0 : s.num_outputs * s.num_values;
  __CPROVER_assume(d.stride <= 100 && d.num_strips <= 1000 && s.num_outputs >= 1 && s.num_outputs <= 100 && s.num_values <= 1000 && 0 <= a_b && a_b <= a_e && a_e <= 100 && d.vec > 0 && d.vec < 1000 && s.values > 0 && s.values < 1000);
  D2 r = Data2D_splitData(&d, a_b, a_e);
  if (d.stride == 0) __CPROVER_assert(r.num_strips == 0 && r.stride == 0, "A7 splitting an empty Data2D gives an empty object");
  else {
    __CPROVER_assert(r.stride == (size_t)(a_e - a_b), "A7 the restricted Data2D has stride iend-ibegin");
    __CPROVER_assert(r.num_strips == d.num_strips, "A7 the restricted Data2D keeps the number of strips");
    __CPROVER_assert(r.vec == gm_split(d.vec, d.stride, a_b, a_e), "A7 the restricted Data2D holds the split vector");
  }
  SS q = StorageSet_splitValues(&s, a_b, a_e);
  __CPROVER_assert(q.num_outputs == (size_t)(a_e - a_b) && q.num_values == s.num_values && q.values == gm_split(s.values, s.num_outputs, a_b, a_e), "A7 the restricted StorageSet has iend-ibegin outputs, the same number of values and the split vector");
  __CPROVER_assert(0, "VACUITY-CANARY");
}
'''

def jobs(tier, seed, prop):
    out = []
    Rw = X.Rules()
    wt_, winfo_ = emit_split_wrappers(Rw)
    out.append(Job("copy.splitData", '#include "tsg_shim.h"\nint tsg_exc;\n' + SPLITW + wt_ + SPLITH, "h_splitw", timeout=120,
                   functions=["%s:%d %s" % (f["file"], f["line"], f["name"]) for f in winfo_["functions"]], info=winfo_, replay=replay_split(prop),
                   label="Data2D::splitData / StorageSet::splitValues keep the strip count and hold the split vector (A7)"))
    R = X.Rules()
    enums = "".join(tables.cut_enum(n, R)[0] for n in ("TypeOneDRule", "TypeDepth", "TypeRefinement"))
    preds = u_apiwrap.emit_predicates(R)
    ct, cinfo = apiwrap.emit_copyGrid(R)
    wt, winfo = apiwrap.emit(R, tags=["clear", "setDomainTransform_vec"])      # callees of copyGrid, extracted as well
    cinfo["functions"] += [f for f in winfo["functions"]]
    cf = ContractFile("contracts/apiwrap.c")
    pre = ('#include "tsg_shim.h"\nint tsg_exc;\n#define PROP_C07 0\n#define PROP_C08 0\n#define PROP_C14 0\n' + enums + '#line 1 "/verif/contracts/apiwrap.c"\n' + cf.text(("text",)) + preds + wt + ct)
    out.append(Job("copy.copyGrid", pre + cf.text(("harness",), ["h_copyGrid"]), "h_copyGrid", unwind=9, timeout=120,
                   functions=["%s:%d %s" % (f["file"], f["line"], f["name"]) for f in cinfo["functions"]], info=cinfo, replay=replay_alias(prop),
                   assumed=["family copy constructors copy every member of the source family object (restricted to the output range); their bodies are not under contract (G4 not built)"],
                   label="TasmanianSparseGrid::copyGrid over two ghost receivers, aliasing allowed: the result equals old(*source)"))
    cf2 = ContractFile("contracts/split.c")
    R2 = X.Rules()
    st, sinfo = emit_split(R2, cf2.contracts()["spltVector2D"], cf2.loops()["spltVector2D"])
    smax = 12 if tier == "quick" else 24
    out.append(Job("copy.spltVector2D", '#include "tsg_shim.h"\nint tsg_exc;\n#define SMAX %d\n#line 1 "/verif/contracts/split.c"\n' % smax + cf2.text(("text",)) + st + cf2.text(("harness",)), "h_spltVector2D",
                   enforce="spltVector2D", loop_contracts=True, pre_unwindset={r'tsg_\w+': smax + 2}, timeout=600, backends=[[], ["--sat-solver", "cadical"]],
                   functions=["%s:%d %s" % (f["file"], f["line"], f["name"]) for f in sinfo["functions"]], info=sinfo,
                   bounded="vector length <= %d (strips unbounded by the loop contract within that length)" % smax,
                   label="spltVector2D: result[i*(e-b)+j] == x[i*stride+b+j] for a witness (i,j); source untouched (A7)"))
    return out
