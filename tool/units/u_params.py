"""Unit: GridGlobal::updateGrid re-makes an unloaded grid with ITS OWN rule parameters (dimensions, outputs,
rule, alpha, beta) and the caller's depth / type / weights / level limits -- every argument in its own slot."""
import re
from .. import tsg2c as X
from ..runner import Job

def jobs(tier, seed, prop):
    CPP = "SparseGrids/tsgGridGlobal.cpp"
    R = X.Rules()
    text = X.strip_comments(X.read_source(CPP))
    (p,) = X.cut(CPP, r'void\s+GridGlobal::updateGrid\s*\(\s*int\s+depth\s*,\s*TypeDepth\s+type\s*,\s*const\s+std::vector<int>\s*&anisotropic_weights\s*,\s*const\s+std::vector<int>\s*&level_limits\s*\)', text)
    b = p.body
    b = R.sub("R12g-empty", r'\bpoints\.empty\(\)', '(g_points_n == 0)', b)
    b = R.sub("R10-self-call", r'(?<![\w.>])makeGrid\(', 'gh_makeGrid(', b)
    b = R.sub("R10-self-call", r'(?<![\w.>])clearRefinement\(\)\s*;', 'gh_clearRefinement();', b)
    b = R.sub("R12g-select", r'updated_tensors\s*=\s*selectTensors\(\(size_t\)\s*num_dimensions,\s*depth,\s*type,\s*anisotropic_weights,\s*rule,\s*level_limits\)\s*;', 'gh_selectTensors(num_dimensions, depth, type, anisotropic_weights, rule, level_limits);', b)
    b = R.sub("R12g-propose", r'if\s*\(\s*!\(updated_tensors\s*-\s*tensors\)\.empty\(\)\s*\)\s*\{[^}]*\}(?:\s*else\s*\{[^}]*\})?', 'gh_propose();', b)
    X.check_leftover(b, "GridGlobal::updateGrid")
    R.require({"R10-self-call": 2, "R12g-select": 1})
    ctext = '''#include "tsg_shim.h"
int tsg_exc;
typedef int TypeDepth; typedef int TypeOneDRule;
int num_dimensions, num_outputs, g_points_n; TypeOneDRule rule; double alpha, beta;
int g_depth, g_type, g_aw, g_ll; bool g_made, g_selected;
void gh_makeGrid(int dims, int outs, int depth, TypeDepth type, TypeOneDRule r, int aw, double a, double bb, const char *file, int ll){
  __CPROVER_assert(dims == num_dimensions && outs == num_outputs, "P1 the grid is re-made with its own dimensions and outputs");
  __CPROVER_assert(r == rule && TSG_SAME(a, alpha) && TSG_SAME(bb, beta), "P1 the grid is re-made with its own rule, alpha and beta (each in its own slot)");
  __CPROVER_assert(depth == g_depth && type == g_type && aw == g_aw && ll == g_ll && file == 0, "P1 depth, type, anisotropic weights and level limits of the call are passed on unchanged");
  g_made = true;
}
void gh_clearRefinement(void){}
void gh_selectTensors(int dims, int depth, TypeDepth type, int aw, TypeOneDRule r, int ll){
  __CPROVER_assert(dims == num_dimensions && depth == g_depth && type == g_type && aw == g_aw && r == rule && ll == g_ll, "P1 the updated tensors are selected with the grid's rule and the arguments of the call");
  g_selected = true;
}
void gh_propose(void){}
#line %d "%s"
void GridGlobal_updateGrid(int depth, TypeDepth type, int anisotropic_weights, int level_limits)%s
void h_params(void){
  num_dimensions = nondet_int(); num_outputs = nondet_int(); g_points_n = nondet_int(); rule = nondet_int(); alpha = nondet_double(); beta = nondet_double();
  g_depth = nondet_int(); g_type = nondet_int(); g_aw = nondet_int(); g_ll = nondet_int(); g_made = false; g_selected = false;
  __CPROVER_assume(num_outputs >= 0 && g_points_n >= 0 && g_aw != g_ll);
  GridGlobal_updateGrid(g_depth, g_type, g_aw, g_ll);
  __CPROVER_assert(g_made == (num_outputs == 0 || g_points_n == 0) && g_selected == !g_made, "P1 an unloaded grid is re-made, a loaded grid gets updated tensors");
  __CPROVER_assert(0, "VACUITY-CANARY");
}
''' % (p.line, X.REPO + "/" + p.rel, b)
    info = {"functions": [], "rules_fired": {k: v for k, v in R.counts.items() if v}, "fidelity": X.fidelity(p.src_body, b, extra_vocab=["points", "empty", "makeGrid", "clearRefinement", "updated_tensors", "selectTensors", "tensors",
            "proposeUpdatedTensors", "size_t", "num_dimensions", "depth", "type", "anisotropic_weights", "rule", "level_limits", "0", "+=", "-", "!", "if"], slack=8)}
    return [Job("params.GridGlobal_updateGrid", ctext, "h_params", timeout=60, functions=["%s:%d GridGlobal::updateGrid" % (p.rel, p.line)], info=info,
                label="GridGlobal::updateGrid passes the grid's own rule parameters and the caller's arguments in the right slots")]
