"""Unit G1: value/points/derived-data alignment protocol of the load and merge paths (C01, C07)."""
from .. import tsg2c as X
from ..runner import Job
from ..contractfile import ContractFile
from . import protocol

def jobs(tier, seed, prop):
    out = []
    cf = ContractFile("contracts/protocol.c")
    for fam in protocol.SPECS:
        R = X.Rules()
        t, info = protocol.emit(R, fam)
        has = 0 if fam == "Wavelet" else 1
        pre = ('#include "tsg_shim.h"\nint tsg_exc;\n#define HAS_DERIVED %d\n#define HAS_COEFF %d\n#define LOAD GF_%s_loadNeededValues\n#define MERGE GF_%s_mergeRefinement\n' % (has, 0 if fam == "Global" else 1, fam, fam)
               + '#line 1 "/verif/contracts/protocol.c"\n' + cf.text(("text",)) + t)
        for h in ("h_load", "h_merge"):
            out.append(Job("protocol.%s.%s" % (fam, h[2:]), pre + cf.text(("harness",), [h]), h, timeout=120,
                           functions=["%s:%d %s" % (f["file"], f["line"], f["name"]) for f in info["functions"]], info=info,
                           assumed=["ghost model: StorageSet::setValues/addValues, MultiIndexSet move/union, buildTree / prepareSequence / recomputeTensorRefs / recomputeSurpluses / recomputeCoefficients act on identities as stated in contracts/protocol.c (addValues itself is proved in indexsets.addValues)",
                                    "the invariant is assumed at entry (established by the constructors, which are not under contract)"],
                           label="Grid%s %s path keeps values, points and derived structures aligned (G1)" % (fam, "loadNeededValues" if h == "h_load" else "mergeRefinement")))
    return out
