"""Unit G1: value/points/derived-data alignment protocol of the load and merge paths (C01, C07)."""
from .. import tsg2c as X
from ..runner import Job
from ..contractfile import ContractFile
from . import protocol

from .. import replay as RP
REPLAY = r'''
/* G1 on the real library, for the family of the failed job: after every step of  load -> overwrite -> refine -> load -> refine -> merge -> overwrite
 * the surrogate must return, at every loaded point, the value currently stored for it (a merge stores zeros for the merged points). */
static std::string fam = "@FAM@";
int main_replay(){
  using namespace TasGrid;
  int bad = 0;
  for (int variant = 0; variant < 3; variant++) {
    TasmanianSparseGrid g;
    if (fam == "Global") g.makeGlobalGrid(2, 2, 2, type_level, variant == 0 ? rule_clenshawcurtis : variant == 1 ? rule_leja : rule_fejer2);
    else if (fam == "Sequence") g.makeSequenceGrid(2, 2, 2, type_level, variant == 0 ? rule_leja : variant == 1 ? rule_rleja : rule_minlebesgue);
    else if (fam == "LocalPolynomial") g.makeLocalPolynomialGrid(2, 2, 2, variant + 1, variant == 2 ? rule_semilocalp : rule_localp);
    else g.makeWaveletGrid(2, 2, 1, variant == 2 ? 3 : 1);
    auto check = [&](const char *what){
      if (g.getNumLoaded() == 0) return;
      std::vector<double> p = g.getLoadedPoints(); const double *v = g.getLoadedValues(); int miss = 0;
      for (int i = 0; i < g.getNumLoaded(); i++) { double y[2]; g.evaluate(&p[2*i], y); if (!(std::abs(y[0] - v[2*i]) < 1.E-9 && std::abs(y[1] - v[2*i+1]) < 1.E-9)) miss++; }
      if (miss) { std::printf("%s variant %d after %s: %d of %d loaded points do not return their stored value\n", fam.c_str(), variant, what, miss, g.getNumLoaded()); bad++; }
    };
    auto load = [&](double shift){ bool fresh = g.getNumNeeded() > 0; std::vector<double> p = fresh ? g.getNeededPoints() : g.getLoadedPoints(); int n = fresh ? g.getNumNeeded() : g.getNumLoaded();
      std::vector<double> v(2 * n); for (int i = 0; i < n; i++) { v[2*i] = std::exp(p[2*i] - 0.4 * p[2*i+1]) + shift; v[2*i+1] = shift * p[2*i] + p[2*i+1] * p[2*i]; } g.loadNeededValues(v);
      int miss = 0; for (int i = 0; i < n; i++) { double y[2]; g.evaluate(&p[2*i], y); if (!(std::abs(y[0] - v[2*i]) < 1.E-9 && std::abs(y[1] - v[2*i+1]) < 1.E-9)) miss++; }
      if (miss) { std::printf("%s variant %d: %d of the %d values just supplied are not returned at their points\n", fam.c_str(), variant, miss, n); bad++; } };
    auto refine = [&](){ if (g.isLocalPolynomial() || g.isWavelet()) g.setSurplusRefinement(1.E-4, refine_classic, -1); else g.setAnisotropicRefinement(type_iptotal, 3, 0, std::vector<int>()); };
    load(0.0); check("the first load");
    load(1.5); check("overwriting the loaded values");
    refine(); load(0.25); check("refinement + load");
    refine(); g.mergeRefinement(); check("refinement + mergeRefinement");
    load(-0.75); check("overwriting after the merge");
    refine();       /* a pending refinement, then the coefficients are set: the loaded points stay, the pending points are dropped */
    { int n0 = g.getNumLoaded(); std::vector<double> c(g.getHierarchicalCoefficients(), g.getHierarchicalCoefficients() + (size_t) 2 * n0);
      for (auto &q : c) q += 0.125;
      g.setHierarchicalCoefficients(c);
      bool same = g.getNumLoaded() == n0 && g.getNumNeeded() == 0;
      if (same) { const double *c2 = g.getHierarchicalCoefficients(); for (size_t i = 0; i < c.size(); i++) if (std::abs(c2[i] - c[i]) > 1.E-12) same = false; }
      if (!same) { std::printf("%s variant %d: setHierarchicalCoefficients with a pending refinement: %d loaded (was %d), %d needed, or the coefficients are not the input\n", fam.c_str(), variant, g.getNumLoaded(), n0, g.getNumNeeded()); bad++; }
      check("setHierarchicalCoefficients"); }
  }
  __CPROVER_assert(bad == 0, "G1 every loaded point returns its stored value after each step of the load / refine / merge protocol");
  return 0;
}
'''
def replay(prop, fam):
    def rp(job, ob, vals, wd):
        hdr = "Replay through the public API of the real library (fixed protocol scenarios for the family).\nproperty %s job %s\nobligation %s: %s\nat %s" % (prop, job.name, ob["name"], ob["description"], ob["location"])
        return RP.write_and_run(prop, job.name + "." + ob["name"], hdr, ['"TasmanianSparseGrid.hpp"', '<cmath>', '<string>'], REPLAY.replace("@FAM@", fam), "  main_replay();", lib="sg", timeout=120)
    return rp

def jobs(tier, seed, prop):
    out = []
    cf = ContractFile("contracts/protocol.c")
    for fam in protocol.SPECS:
        R = X.Rules()
        t, info = protocol.emit(R, fam)
        has = 0 if fam == "Wavelet" else 1
        pre = ('#include "tsg_shim.h"\nint tsg_exc;\n#define HAS_DERIVED %d\n#define HAS_COEFF %d\n#define LOAD GF_%s_loadNeededValues\n#define MERGE GF_%s_mergeRefinement\n#define SETCOEF GF_%s_setHierarchicalCoefficients\n' % (has, 0 if fam == "Global" else 1, fam, fam, fam)
               + '#line 1 "/verif/contracts/protocol.c"\n' + cf.text(("text",)) + t)
        for h in ("h_load", "h_merge") + (("h_setcoef",) if fam == "Global" else ()):
            out.append(Job("protocol.%s.%s" % (fam, h[2:]), pre + cf.text(("harness",), [h]), h, timeout=120,
                           functions=["%s:%d %s" % (f["file"], f["line"], f["name"]) for f in info["functions"]], info=info, replay=replay(prop, fam),
                           assumed=["ghost model: StorageSet::setValues/addValues, MultiIndexSet move/union, buildTree / prepareSequence / recomputeTensorRefs / recomputeSurpluses / recomputeCoefficients act on identities as stated in contracts/protocol.c (addValues itself is proved in indexsets.addValues)",
                                    "the invariant is assumed at entry (established by the constructors, which are not under contract)"],
                           label="Grid%s %s path keeps values, points and derived structures aligned (G1)" % (fam, {"h_load": "loadNeededValues", "h_merge": "mergeRefinement", "h_setcoef": "setHierarchicalCoefficients"}[h])))
    return out
