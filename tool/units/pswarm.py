"""Extraction of the two lambdas of TasOptimization::ParticleSwarm (f_constrained, update;
DREAM/Optimization/tsgParticleSwarm.cpp) and of the state setters of ParticleSwarmState
(tsgParticleSwarm.hpp)."""
import re
from .. import tsg2c as X
CPP = "DREAM/Optimization/tsgParticleSwarm.cpp"
HPP = "DREAM/Optimization/tsgParticleSwarm.hpp"
SIG = r'void\s+ParticleSwarm\s*\(\s*const\s+ObjectiveFunction\s+f\s*,\s*const\s+TasDREAM::DreamDomain\s+inside\s*,[^{]*?get_random01\s*\)'

STATE_VECS = ["particle_positions", "particle_velocities", "best_particle_positions", "cache_particle_fvals",
              "cache_best_particle_fvals", "cache_particle_inside", "cache_best_particle_inside"]

def _lambda_source(body, name):
    m = re.search(r'auto\s+%s\s*=\s*\[[&=]\]\s*\(([^)]*)\)\s*->\s*void\s*(?=\{)' % name, body)
    if not m:
        raise X.ExtractionBreak("lambda %s not found in ParticleSwarm" % name)
    e = X.match_close(body, m.end())
    return m.group(1), body[m.end():e + 1], m.start()

def emit_f_constrained(R):
    text = X.strip_comments(X.read_source(CPP))
    (p,) = X.cut(CPP, SIG, text)
    params, b, off = _lambda_source(p.body, "f_constrained")
    if not re.match(r'\s*const\s+std::vector<double>\s*&x_batch\s*,\s*std::vector<double>\s*&fval_batch\s*,\s*std::vector<bool>\s*&inside_batch\s*$', params):
        raise X.ExtractionBreak("f_constrained parameters changed: " + params)
    R.counts["R7-hoist"] = 1
    chdr = ("void f_constrained(size_t num_dimensions, size_t num_particles, const double *x_batch, size_t x_batch_size, double *fval_batch, size_t fval_batch_size, "
            "bool *inside_batch, size_t inside_batch_size)")
    src = b
    b = X.r2_paren_init(R, b, "size_t")
    b = X.r5_local_vectors(R, b, {"candidate": "TSG_NDIM", "inside_points": "TSG_NP1 * TSG_NDIM", "inside_vals": "TSG_NP1"})
    b = R.sub("R2-numeric-limits", r'std::numeric_limits<double>::max\(\)', 'TSG_DBL_MAX', b)
    b = R.sub("R5-back-inserter", r'std::copy_n\(\s*candidate\.begin\(\)\s*,\s*num_dimensions\s*,\s*std::back_inserter\(inside_points\)\s*\)\s*;',
              'tsg_append_double(inside_points, &inside_points_size, inside_points_cap, candidate, num_dimensions);', b)
    b = X.r5_vector_methods(R, b, {"candidate": "double", "inside_points": "double", "inside_vals": "double", "x_batch": "double", "fval_batch": "double", "inside_batch": "bool"})
    b = X.r5_copy_n(R, b, "double")
    b = R.sub("R8-callback", r'(?<![\w.>_])inside\s*\(\s*candidate\s*\)', 'cb_inside(candidate, candidate_size)', b)
    b = R.sub("R8-callback", r'(?<![\w.>_])f\s*\(\s*inside_points\s*,\s*inside_vals\s*\)', 'cb_f(inside_points, inside_points_size, inside_vals, inside_vals_size)', b)
    X.check_leftover(chdr + b, "f_constrained")
    R.require({"R2-paren-init": 1, "R5-local-vector": 3, "R2-numeric-limits": 1, "R5-back-inserter": 1, "R5-copy_n": 1, "R8-callback": 2})
    line = p.line + (p.header + p.body[:off]).count('\n')
    out = '#line %d "%s"\n' % (line, X.REPO + "/" + p.rel) + chdr + b + "\n"
    info = {"functions": [{"name": "ParticleSwarm::f_constrained (lambda)", "file": p.rel, "line": line, "loops": X.count_loops(b)}],
            "fidelity": X.fidelity(src, b, extra_vocab=["candidate", "inside_points", "inside_vals", "x_batch", "fval_batch", "inside_batch", "begin", "copy_n", "back_inserter",
                                                        "numeric_limits", "max", "size", "inside", "f", "num_batch", "num_inside"], slack=6),
            "rules_fired": {k: v for k, v in R.counts.items() if v}}
    return out, info

def emit_update(R):
    text = X.strip_comments(X.read_source(CPP))
    (p,) = X.cut(CPP, SIG, text)
    params, b, off = _lambda_source(p.body, "update")
    if params.strip():
        raise X.ExtractionBreak("update lambda has parameters now: " + params)
    R.counts["R7-hoist"] = 1
    chdr = "void ps_update(ParticleSwarmState *state, size_t num_particles, size_t num_dimensions)"
    src = b
    b = R.sub("R10-member", r'\bstate\.(\w+)', r'state->\1', b)
    b = R.sub("R5-begin", r'(state->\w+)\.begin\(\)', r'\1', b)
    b = X.r5_copy_n(R, b, "double")
    X.check_leftover(chdr + b, "update")
    R.require({"R10-member": 15, "R5-begin": 4, "R5-copy_n": 2})
    line = p.line + (p.header + p.body[:off]).count('\n')
    out = '#line %d "%s"\n' % (line, X.REPO + "/" + p.rel) + chdr + b + "\n"
    info = {"functions": [{"name": "ParticleSwarm::update (lambda)", "file": p.rel, "line": line, "loops": X.count_loops(b)}],
            "fidelity": X.fidelity(src, b, extra_vocab=["state", "begin", "copy_n"]),
            "rules_fired": {k: v for k, v in R.counts.items() if v}}
    return out, info

SETTERS = [
    ("setParticlePositions_ptr", r'void\s+setParticlePositions\s*\(\s*const\s+double\s+pp\[\]\s*\)', "void ps_setParticlePositions_ptr(ParticleSwarmState *self, const double pp[])"),
    ("setParticlePositions_vec", r'void\s+setParticlePositions\s*\(\s*const\s+std::vector<double>\s*&pp\s*\)', "void ps_setParticlePositions_vec(ParticleSwarmState *self, const double *pp, size_t pp_size)"),
    ("setBestParticlePositions_ptr", r'void\s+setBestParticlePositions\s*\(\s*const\s+double\s+bpp\[\]\s*\)', "void ps_setBestParticlePositions_ptr(ParticleSwarmState *self, const double bpp[])"),
    ("setBestParticlePositions_vec", r'void\s+setBestParticlePositions\s*\(\s*const\s+std::vector<double>\s*&bpp\s*\)', "void ps_setBestParticlePositions_vec(ParticleSwarmState *self, const double *bpp, size_t bpp_size)"),
    ("setParticlePositions_mv", r'void\s+setParticlePositions\s*\(\s*std::vector<double>\s*&&\s*pp\s*\)', "void ps_setParticlePositions_mv(ParticleSwarmState *self, const double *pp, size_t pp_size)"),
    ("setBestParticlePositions_mv", r'void\s+setBestParticlePositions\s*\(\s*std::vector<double>\s*&&\s*bpp\s*\)', "void ps_setBestParticlePositions_mv(ParticleSwarmState *self, const double *bpp, size_t bpp_size)"),
    ("clearBestParticles", r'void\s+clearBestParticles\s*\(\s*\)', "void ps_clearBestParticles(ParticleSwarmState *self)"),
    ("clearCache", r'void\s+clearCache\s*\(\s*\)', "void ps_clearCache(ParticleSwarmState *self)"),
]
MEMBERS = STATE_VECS + ["positions_initialized", "velocities_initialized", "best_positions_initialized", "cache_initialized", "num_dimensions", "num_particles"]

def emit_setters(R):
    text = X.strip_comments(X.read_source(HPP))
    outs, fns, src_all, emi_all = [], [], [], []
    for tag, sig, chdr in SETTERS:
        (p,) = X.cut(HPP, sig, text)
        b = p.body
        b = R.sub("R2-numeric-limits", r'std::numeric_limits<double>::max\(\)', 'TSG_DBL_MAX', b)
        # vector copy-assignment member = param  (element-wise copy, sizes were checked by checkVarSize)
        b = R.sub("R5-vector-assign", r'\b(particle_positions|best_particle_positions)\s*=\s*(?:std::move\(\s*)?(pp|bpp)\s*\)?\s*;', r'tsg_copy_n_double(\2, \2_size, \1);', b)
        b = X.balanced_call_sub(R, "R9-checkVarSize", b, r'\bcheckVarSize\s*(?=\()',
                                lambda m, a: "if ((%s) != (size_t)(%s)) { tsg_exc = TSG_RUNTIME_ERROR; return; }" % (X.split_top(a)[2].replace(".size()", "_size"), X.split_top(a)[3]))
        b = b.replace("return; };", "return; }")
        def fill(m, a):
            parts = X.split_top(a)
            v = re.match(r'(\w+)\.begin\(\)', parts[0]).group(1)
            T = "bool" if v.endswith("inside") else "double"
            return "tsg_fill_%s(%s, %s_size(self), %s)" % (T, v, v, parts[2])
        b = X.balanced_call_sub(R, "R5-fill", b, r'\bstd::fill\s*(?=\()', fill)
        b = R.sub("R5-begin", r'\b(\w+)\.begin\(\)', r'\1', b)
        b = X.r5_copy_n(R, b, "double")
        for mname in MEMBERS:
            b = R.sub("R10-member", r'(?<![\w.>])%s\b(?!_size)' % mname, 'self->' + mname, b)
        X.check_leftover(chdr + b, tag)
        outs.append('#line %d "%s"\n%s%s' % (p.line, X.REPO + "/" + p.rel, chdr, b))
        fns.append({"name": "ParticleSwarmState::" + tag, "file": p.rel, "line": p.line, "loops": 0})
        src_all.append(p.body); emi_all.append(b)
    info = {"functions": fns, "rules_fired": {k: v for k, v in R.counts.items() if v},
            "fidelity": X.fidelity("\n".join(src_all), "\n".join(emi_all), extra_vocab=MEMBERS + ["pp", "bpp", "begin", "end", "fill", "copy_n", "checkVarSize", "size", "="], slack=30)}
    return "\n".join(outs) + "\n", info


def emit_main(R, loop_contract=None):
    """ParticleSwarm: everything after the definition of the two lambdas (cache set-up, update(), the iteration loop).  The lambdas are called through
    stubs (their own contracts: F19, F20).  Rule R14b: the first test inside the iteration loop (the choice between the update with and without the
    social term) is wrapped in tsg_mode(), which compares the value tested with the swarm-best flag of the state at that moment."""
    text = X.strip_comments(X.read_source(CPP))
    (p,) = X.cut(CPP, SIG, text)
    params, lb, off = _lambda_source(p.body, "update")
    start = off + p.body[off:].index(lb) + len(lb)
    rest = p.body[start:]
    m = re.match(r'\s*;', rest)
    if not m:
        raise X.ExtractionBreak("ParticleSwarm: the update lambda is not followed by ';'")
    b = rest[m.end():]
    b = b[:b.rindex('}')]
    src = b
    b = R.sub("R11-omp-pragma", r'#\s*pragma\s+omp[^\n]*', '', b)
    b = R.sub("R10-member", r'\bstate\.(\w+)', r'state->\1', b)
    b = R.sub("R7-lambda-call", r'(?<![\w.>])f_constrained\(\s*state->particle_positions\s*,\s*state->cache_particle_fvals\s*,\s*state->cache_particle_inside\s*\)', 'stub_f_constrained(state, 0)', b)
    b = R.sub("R7-lambda-call", r'(?<![\w.>])f_constrained\(\s*state->best_particle_positions\s*,\s*state->cache_best_particle_fvals\s*,\s*state->cache_best_particle_inside\s*\)', 'stub_f_constrained(state, 1)', b)
    b = R.sub("R7-lambda-call", r'(?<![\w.>])update\(\)', 'stub_update(state, num_particles)', b)
    b = R.sub("R5-local-vector", r'std::vector<double>\s+rng_cache\(\s*2\s*\*\s*num_particles\s*\)\s*;', 'double rng_cache[2 * TSG_NP]; size_t rng_cache_size = 2 * num_particles; __CPROVER_assert(rng_cache_size <= 2 * TSG_NP, "shim: rng cache capacity");', b)
    b = R.sub("R6-range-for", r'for\s*\(\s*auto\s*&\s*r\s*:\s*rng_cache\s*\)\s*r\s*=', 'for (size_t r_ = 0; r_ < rng_cache_size; r_++) rng_cache[r_] =', b)
    b = R.sub("R8-callback", r'(?<![\w.>])get_random01\(\)', 'cb_get_random01()', b)
    b = X.r2_casts(R, b)
    # R14b: the mode test of an iteration
    lm = re.search(r'for\s*\(\s*int\s+iter\s*=\s*0\s*;[^)]*\)\s*\{', b)
    if not lm:
        raise X.ExtractionBreak("ParticleSwarm: iteration loop not found")
    im = re.search(r'if\s*(?=\()', b[lm.end():])
    if not im:
        raise X.ExtractionBreak("ParticleSwarm: no test inside the iteration loop")
    k = lm.end() + im.end()
    e = X.match_close(b, k, '(', ')')
    cond = b[k + 1:e]
    b = b[:lm.end()] + " tsg_iteration_begins(state, num_particles); " + b[lm.end():k] + "(tsg_mode((%s), state, num_particles))" % cond + b[e + 1:]
    R.counts["R14b-mode-test"] = 1
    X.check_leftover(b, "ParticleSwarm main")
    R.require({"R7-lambda-call": 4, "R5-local-vector": 1, "R8-callback": 2})
    line = p.line + (p.header + p.body[:start]).count('\n')
    chdr = "void ParticleSwarm_main(int num_iterations, double inertia_weight, double cognitive_coeff, double social_coeff, ParticleSwarmState *state)"
    if loop_contract:
        sites = X.loop_sites(b)
        k0 = [i for i, st in enumerate(sites) if re.match(r'for\s*\(\s*int\s+iter\b', b[st[2]:])]
        if len(k0) != 1:
            raise X.ExtractionBreak("ParticleSwarm: iteration loop not located for its loop contract")
        b = X.splice("", b, None, {k0[0]: loop_contract})
    out = '#line %d "%s"\n%s{ size_t num_dimensions = (size_t) state->num_dimensions; size_t num_particles = (size_t) state->num_particles;\n%s}\n' % (line, X.REPO + "/" + p.rel, chdr, b)
    info = {"functions": [{"name": "ParticleSwarm (cache set-up and iteration loop, after the lambdas)", "file": p.rel, "line": line, "loops": X.count_loops(b)}],
            "fidelity": X.fidelity(src, b, extra_vocab=["state", "f_constrained", "update", "rng_cache", "vector", "auto", "r", "get_random01", "static_cast", "pragma", "omp", "parallel", "for",
                                                        "particle_positions", "cache_particle_fvals", "cache_particle_inside", "best_particle_positions", "cache_best_particle_fvals", "cache_best_particle_inside"], slack=30),
            "drops": ["#pragma omp parallel for", "the argument checks and the two lambda definitions before the extracted part (lambdas: own jobs)"],
            "rules_fired": {k_: v for k_, v in R.counts.items() if v}}
    return out, info
