"""Extraction of the two lambdas of TasOptimization::ParticleSwarm (f_constrained, update;
DREAM/Optimization/tsgParticleSwarm.cpp) and of the state setters of ParticleSwarmState
(tsgParticleSwarm.hpp)."""
import re
from .. import tsg2c as X
CPP = "DREAM/Optimization/tsgParticleSwarm.cpp"
HPP = "DREAM/Optimization/tsgParticleSwarm.hpp"
SIG = r'void\s+ParticleSwarm\s*\(\s*const\s+ObjectiveFunction\s+f\s*,\s*const\s+TasDREAM::DreamDomain\s+inside\s*,[^{]*?get_random01\s*\)'

STATE_VECS = ["particle_positions", "particle_velocities", "best_particle_positions", "cache_particle_fvals",
              "cache_best_particle_fvals", "cache_particle_inside", "cache_best_particle_inside"]

def _lambda_source(body, name):
    m = re.search(r'auto\s+%s\s*=\s*\[[&=]\]\s*\(([^)]*)\)\s*->\s*void\s*(?=\{)' % name, body)
    if not m:
        raise X.ExtractionBreak("lambda %s not found in ParticleSwarm" % name)
    e = X.match_close(body, m.end())
    return m.group(1), body[m.end():e + 1], m.start()

def emit_f_constrained(R):
    text = X.strip_comments(X.read_source(CPP))
    (p,) = X.cut(CPP, SIG, text)
    params, b, off = _lambda_source(p.body, "f_constrained")
    if not re.match(r'\s*const\s+std::vector<double>\s*&x_batch\s*,\s*std::vector<double>\s*&fval_batch\s*,\s*std::vector<bool>\s*&inside_batch\s*$', params):
        raise X.ExtractionBreak("f_constrained parameters changed: " + params)
    R.counts["R7-hoist"] = 1
    chdr = ("void f_constrained(size_t num_dimensions, size_t num_particles, const double *x_batch, size_t x_batch_size, double *fval_batch, size_t fval_batch_size, "
            "bool *inside_batch, size_t inside_batch_size)")
    src = b
    b = X.r2_paren_init(R, b, "size_t")
    b = X.r5_local_vectors(R, b, {"candidate": "TSG_NDIM", "inside_points": "TSG_NP1 * TSG_NDIM", "inside_vals": "TSG_NP1"})
    b = R.sub("R2-numeric-limits", r'std::numeric_limits<double>::max\(\)', 'TSG_DBL_MAX', b)
    b = R.sub("R5-back-inserter", r'std::copy_n\(\s*candidate\.begin\(\)\s*,\s*num_dimensions\s*,\s*std::back_inserter\(inside_points\)\s*\)\s*;',
              'tsg_append_double(inside_points, &inside_points_size, inside_points_cap, candidate, num_dimensions);', b)
    b = X.r5_vector_methods(R, b, {"candidate": "double", "inside_points": "double", "inside_vals": "double", "x_batch": "double", "fval_batch": "double", "inside_batch": "bool"})
    b = X.r5_copy_n(R, b, "double")
    b = R.sub("R8-callback", r'(?<![\w.>_])inside\s*\(\s*candidate\s*\)', 'cb_inside(candidate, candidate_size)', b)
    b = R.sub("R8-callback", r'(?<![\w.>_])f\s*\(\s*inside_points\s*,\s*inside_vals\s*\)', 'cb_f(inside_points, inside_points_size, inside_vals, inside_vals_size)', b)
    X.check_leftover(chdr + b, "f_constrained")
    R.require({"R2-paren-init": 1, "R5-local-vector": 3, "R2-numeric-limits": 1, "R5-back-inserter": 1, "R5-copy_n": 1, "R8-callback": 2})
    line = p.line + (p.header + p.body[:off]).count('\n')
    out = '#line %d "%s"\n' % (line, X.REPO + "/" + p.rel) + chdr + b + "\n"
    info = {"functions": [{"name": "ParticleSwarm::f_constrained (lambda)", "file": p.rel, "line": line, "loops": X.count_loops(b)}],
            "fidelity": X.fidelity(src, b, extra_vocab=["candidate", "inside_points", "inside_vals", "x_batch", "fval_batch", "inside_batch", "begin", "copy_n", "back_inserter",
                                                        "numeric_limits", "max", "size", "inside", "f", "num_batch", "num_inside"], slack=6),
            "rules_fired": {k: v for k, v in R.counts.items() if v}}
    return out, info

def emit_update(R):
    text = X.strip_comments(X.read_source(CPP))
    (p,) = X.cut(CPP, SIG, text)
    params, b, off = _lambda_source(p.body, "update")
    if params.strip():
        raise X.ExtractionBreak("update lambda has parameters now: " + params)
    R.counts["R7-hoist"] = 1
    chdr = "void ps_update(ParticleSwarmState *state, size_t num_particles, size_t num_dimensions)"
    src = b
    b = R.sub("R10-member", r'\bstate\.(\w+)', r'state->\1', b)
    b = R.sub("R5-begin", r'(state->\w+)\.begin\(\)', r'\1', b)
    b = X.r5_copy_n(R, b, "double")
    X.check_leftover(chdr + b, "update")
    R.require({"R10-member": 15, "R5-begin": 4, "R5-copy_n": 2})
    line = p.line + (p.header + p.body[:off]).count('\n')
    out = '#line %d "%s"\n' % (line, X.REPO + "/" + p.rel) + chdr + b + "\n"
    info = {"functions": [{"name": "ParticleSwarm::update (lambda)", "file": p.rel, "line": line, "loops": X.count_loops(b)}],
            "fidelity": X.fidelity(src, b, extra_vocab=["state", "begin", "copy_n"]),
            "rules_fired": {k: v for k, v in R.counts.items() if v}}
    return out, info

SETTERS = [
    ("setParticlePositions_ptr", r'void\s+setParticlePositions\s*\(\s*const\s+double\s+pp\[\]\s*\)', "void ps_setParticlePositions_ptr(ParticleSwarmState *self, const double pp[])"),
    ("setParticlePositions_vec", r'void\s+setParticlePositions\s*\(\s*const\s+std::vector<double>\s*&pp\s*\)', "void ps_setParticlePositions_vec(ParticleSwarmState *self, const double *pp, size_t pp_size)"),
    ("setBestParticlePositions_ptr", r'void\s+setBestParticlePositions\s*\(\s*const\s+double\s+bpp\[\]\s*\)', "void ps_setBestParticlePositions_ptr(ParticleSwarmState *self, const double bpp[])"),
    ("setBestParticlePositions_vec", r'void\s+setBestParticlePositions\s*\(\s*const\s+std::vector<double>\s*&bpp\s*\)', "void ps_setBestParticlePositions_vec(ParticleSwarmState *self, const double *bpp, size_t bpp_size)"),
    ("clearBestParticles", r'void\s+clearBestParticles\s*\(\s*\)', "void ps_clearBestParticles(ParticleSwarmState *self)"),
    ("clearCache", r'void\s+clearCache\s*\(\s*\)', "void ps_clearCache(ParticleSwarmState *self)"),
]
MEMBERS = STATE_VECS + ["positions_initialized", "velocities_initialized", "best_positions_initialized", "cache_initialized", "num_dimensions", "num_particles"]

def emit_setters(R):
    text = X.strip_comments(X.read_source(HPP))
    outs, fns, src_all, emi_all = [], [], [], []
    for tag, sig, chdr in SETTERS:
        (p,) = X.cut(HPP, sig, text)
        b = p.body
        b = R.sub("R2-numeric-limits", r'std::numeric_limits<double>::max\(\)', 'TSG_DBL_MAX', b)
        # vector copy-assignment member = param  (element-wise copy, sizes were checked by checkVarSize)
        b = R.sub("R5-vector-assign", r'\b(particle_positions|best_particle_positions)\s*=\s*(pp|bpp)\s*;', r'tsg_copy_n_double(\2, \2_size, \1);', b)
        b = X.balanced_call_sub(R, "R9-checkVarSize", b, r'\bcheckVarSize\s*(?=\()',
                                lambda m, a: "if ((%s) != (size_t)(%s)) { tsg_exc = TSG_RUNTIME_ERROR; return; }" % (X.split_top(a)[2].replace(".size()", "_size"), X.split_top(a)[3]))
        b = b.replace("return; };", "return; }")
        def fill(m, a):
            parts = X.split_top(a)
            v = re.match(r'(\w+)\.begin\(\)', parts[0]).group(1)
            T = "bool" if v.endswith("inside") else "double"
            return "tsg_fill_%s(%s, %s_size(self), %s)" % (T, v, v, parts[2])
        b = X.balanced_call_sub(R, "R5-fill", b, r'\bstd::fill\s*(?=\()', fill)
        b = R.sub("R5-begin", r'\b(\w+)\.begin\(\)', r'\1', b)
        b = X.r5_copy_n(R, b, "double")
        for mname in MEMBERS:
            b = R.sub("R10-member", r'(?<![\w.>])%s\b(?!_size)' % mname, 'self->' + mname, b)
        X.check_leftover(chdr + b, tag)
        outs.append('#line %d "%s"\n%s%s' % (p.line, X.REPO + "/" + p.rel, chdr, b))
        fns.append({"name": "ParticleSwarmState::" + tag, "file": p.rel, "line": p.line, "loops": 0})
        src_all.append(p.body); emi_all.append(b)
    info = {"functions": fns, "rules_fired": {k: v for k, v in R.counts.items() if v},
            "fidelity": X.fidelity("\n".join(src_all), "\n".join(emi_all), extra_vocab=MEMBERS + ["pp", "bpp", "begin", "end", "fill", "copy_n", "checkVarSize", "size", "="], slack=30)}
    return "\n".join(outs) + "\n", info
