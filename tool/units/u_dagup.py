"""Unit C01/C03 (Local Polynomial grids): HierarchyManipulations::computeDAGup<effrule>, the branch for rules with one parent per direction: the
`is_complete` flag (which decides between the two surplus algorithms of recomputeSurpluses) is true only when every point has its direct parent in the
set in every direction, and the recorded parent is the nearest ancestor that is present."""
import re
from .. import tsg2c as X
from ..runner import Job
from .. import replay as RP
from . import rulelocal
CPP = "SparseGrids/tsgHierarchyManipulator.cpp"

def emit(R, rule):
    text = X.strip_comments(X.read_source(CPP))
    (p,) = X.cut(CPP, r'template<RuleLocal::erule\s+effrule>\s*Data2D<int>\s+computeDAGup\s*\(\s*MultiIndexSet\s+const\s*&mset\s*,\s*bool\s*&is_complete\s*\)', text)
    m = re.search(r'\}\s*else\s*(?=\{\s*Data2D<int>\s+parents\s*\(\s*\(int\)\s*num_dimensions\s*,\s*num_points\s*\)\s*;)', p.body)
    if not m:
        raise X.ExtractionBreak("computeDAGup: single-parent branch not found")
    e = X.match_close(p.body, m.end())
    b = p.body[m.end():e + 1]
    src = b
    b = R.sub("R11-omp-pragma", r'#\s*pragma\s+omp[^\n]*', '', b)
    b = R.sub("R5-data2d", r'Data2D<int>\s+parents\s*\(\s*\(int\)\s*num_dimensions\s*,\s*num_points\s*\)\s*;', '', b)
    b = R.sub("R5-strip", r'\bparents\.getStrip\(\s*i\s*\)', '(&parents[(size_t) i * num_dimensions])', b)
    b = R.sub("R10-receiver-call", r'\bmset\.getIndex\(\s*i\s*\)', '(&mset_idx[(size_t) i * num_dimensions])', b)
    b = X.r5_local_vectors(R, b, {"dad": "TSG_ND"})
    b = R.sub("R5-copy_n", r'std::copy_n\(\s*p\s*,\s*num_dimensions\s*,\s*dad\.data\(\)\s*\)', 'tsg_copy_n_int(p, num_dimensions, dad)', b)
    b = R.sub("R10-receiver-call", r'\bmset\.getSlot\(\s*dad(?:\.data\(\))?\s*\)', 'tsg_slot(dad)', b)
    b = R.sub("R3-template-call", r'RuleLocal::getParent<\s*effrule\s*>\(', 'getParent_%s(' % rule, b)
    b = R.sub("R4-ref-use", r'\bis_complete\b', '(*is_complete_)', b)
    b = R.sub("R5-return-map", r'return\s+parents\s*;', 'return;', b)
    X.check_leftover(b, "computeDAGup")
    R.require({"R10-receiver-call": 3, "R3-template-call": 2, "R5-strip": 1})
    line = p.line + (p.header + p.body[:m.end()]).count('\n')
    info = {"functions": [{"name": "HierarchyManipulations::computeDAGup<%s> (single-parent branch)" % rule, "file": p.rel, "line": line, "loops": X.count_loops(b)}], "rules_fired": {k: v for k, v in R.counts.items() if v},
            "drops": ["#pragma omp parallel / for / atomic (the per-thread failure counters are summed: sequential semantics)", "the two-parent branch (pwc, semilocalp, localpb)"],
            "fidelity": X.fidelity(src, b, extra_vocab=["Data2D", "parents", "num_dimensions", "num_points", "getStrip", "mset", "getIndex", "getSlot", "dad", "data", "vector", "std", "copy_n", "RuleLocal", "getParent", "effrule",
                                                       "is_complete", "return", "pragma", "omp", "parallel", "for", "schedule", "static", "atomic", "int", "(", ")"], slack=20)}
    return '#line %d "%s"\nvoid computeDAGup_single(size_t num_dimensions, int num_points, const int *mset_idx, int *parents, bool *is_complete_)%s\n' % (line, X.REPO + "/" + p.rel, b), info

HARNESS = r'''
#ifndef TSG_NP
#define TSG_NP 3
#endif
#define TSG_ND 2
/* the index set: TSG_NP points, searched linearly (MultiIndexSet::getSlot itself is proved in indexsets.getSlot) */
int g_idx[TSG_NP * TSG_ND]; int g_np; size_t g_nd;
static int tsg_slot(const int *v){ for (int i = 0; i < TSG_NP; i++) if (i < g_np) { bool eq = true; for (size_t d = 0; d < TSG_ND; d++) if (d < g_nd && g_idx[i * g_nd + d] != v[d]) eq = false; if (eq) return i; } return -1; }
static void tsg_copy_n_int(const int *s, size_t n, int *d){ for (size_t k = 0; k < TSG_ND; k++) if (k < n) d[k] = s[k]; }
'''
TAIL = r'''
void h_dagup(void){
  g_np = nondet_int(); g_nd = nondet_size_t(); __CPROVER_assume(g_np >= 1 && g_np <= TSG_NP && g_nd >= 1 && g_nd <= TSG_ND);
  for (int k = 0; k < TSG_NP * TSG_ND; k++) { g_idx[k] = nondet_int(); __CPROVER_assume(g_idx[k] >= 0 && g_idx[k] < 16); }
  int parents[TSG_NP * TSG_ND]; bool complete = nondet_bool();
  computeDAGup_single(g_nd, g_np, g_idx, parents, &complete);
  int a_i = nondet_int(); size_t a_j = nondet_size_t(); __CPROVER_assume(a_i >= 0 && a_i < g_np && a_j < g_nd);       /* witness point and direction */
  int v[TSG_ND]; for (size_t d = 0; d < TSG_ND; d++) v[d] = g_idx[a_i * g_nd + (d < g_nd ? d : 0)];
  if (v[a_j] == 0) __CPROVER_assert(parents[a_i * g_nd + a_j] == -1, "C01 computeDAGup: a root has no parent in that direction");
  else {
    v[a_j] = GETPARENT(v[a_j]);
    int direct = tsg_slot(v);
    if (complete) __CPROVER_assert(direct != -1, "C01 computeDAGup reports the hierarchy complete only if every point has its direct parent in the set, in every direction (otherwise the sparse-Kronecker surplus algorithm must not be used)");
    if (direct != -1) __CPROVER_assert(parents[a_i * g_nd + a_j] == direct, "C01 computeDAGup: the recorded parent is the direct parent when it is in the set");
  }
  __CPROVER_assert(0, "VACUITY-CANARY");
}
'''
REPLAY = r'''
/* On the real library: a 3-D local polynomial grid adapted with the classic criterion (children only) around single points, so that the points (1,2,3) and (2,2,3)
 * have their grand-parents but not their parents; after loading an affine function evaluate() must reproduce it (and agree with the interpolation weights). */
static double smooth(const double *x){ return std::exp(0.5 * x[0] - 0.3 * x[1] + 0.8 * x[2]) + std::cos(2.0 * x[0] * x[1] + x[2]); }
static double affine(const double *x){ return 0.7 - 1.3 * x[0] + 2.1 * x[1] + 0.45 * x[2]; }
int main_replay(){
  using namespace TasGrid;
  int bad = 0;
  for (int order = 1; order <= 3; order++) {
    TasmanianSparseGrid g = makeLocalPolynomialGrid(3, 1, 1, order, rule_localp);
    auto load = [&](double (*f)(const double*)){ if (g.getNumNeeded() == 0) return; std::vector<double> p = g.getNeededPoints(), v(g.getNumNeeded()); for (int i = 0; i < g.getNumNeeded(); i++) v[i] = f(&p[3*i]); g.loadNeededValues(v); };
    load(smooth);
    int around[4][3] = {{0,0,1}, {0,0,3}, {0,2,0}, {0,2,3}};
    for (auto &a : around) {
      int n = g.getNumLoaded(); const int *idx = g.getPointsIndexes(); std::vector<double> scale(n, 0.0);
      for (int i = 0; i < n; i++) if (idx[3*i] == a[0] && idx[3*i+1] == a[1] && idx[3*i+2] == a[2]) scale[i] = 1.E+10;
      g.setSurplusRefinement(1.0, refine_classic, 0, std::vector<int>(), scale);
      load(smooth);
    }
    int n = g.getNumLoaded(); std::vector<double> p = g.getLoadedPoints(), v(n); for (int i = 0; i < n; i++) v[i] = affine(&p[3*i]);
    g.loadNeededValues(v);
    double worst = 0.0;
    for (int k = 0; k < 60; k++) { double x[3] = { -0.93 + 0.031 * k, 0.87 - 0.029 * k, -0.5 + 0.023 * k }, y; g.evaluate(x, &y); double err = std::abs(y - affine(x)); if (!(err <= worst)) worst = err; }
    if (!(worst < 1.E-9)) { std::printf("order %d: an affine function is reproduced with error %.3g on the adapted grid (%d points)\n", order, worst, n); bad++; }
  }
  __CPROVER_assert(bad == 0, "C03 local polynomial grids with an incomplete hierarchy still reproduce affine functions");
  return 0;
}
'''
def replay(prop):
    def rp(job, ob, vals, wd):
        hdr = "Replay through the public API of the real library.\nproperty %s job %s\nobligation %s: %s\nat %s" % (prop, job.name, ob["name"], ob["description"], ob["location"])
        return RP.write_and_run(prop, job.name + "." + ob["name"], hdr, ['"TasmanianSparseGrid.hpp"', '<cmath>'], REPLAY, "  main_replay();", lib="sg", timeout=60)
    return rp

def jobs(tier, seed, prop):
    out = []
    npnt = 3 if tier == "quick" else 4
    for rule in ("localp", "localp0"):
        Rh = X.Rules()
        ht, hinfo = rulelocal.emit(Rh, rules=[rule], funcs=["getParent"], minima={"R3-enum-const": 0, "R3-template-call": 0})
        R = X.Rules()
        t, info = emit(R, rule)
        src = ht + 'int tsg_exc;\n#define TSG_NP %d\n#define GETPARENT getParent_%s\n' % (npnt, rule) + HARNESS + t + TAIL
        out.append(Job("dagup." + rule, src, "h_dagup", unwind=2 * npnt + 3, timeout=600, backends=[["--sat-solver", "cadical"], []],
                       functions=["%s:%d %s" % (f["file"], f["line"], f["name"]) for f in info["functions"]], info=info, replay=replay(prop),
                       bounded="points <= %d, dimensions <= 2, 1-D indices < 16 (full unwinding with unwinding assertions)" % npnt,
                       assumed=["MultiIndexSet::getSlot as a search of the given set (its own contract: indexsets.getSlot); getParent is the extracted function of the hierarchy unit"],
                       label="computeDAGup<%s>: complete only if every direct parent is present; recorded parents" % rule))
    return out
