"""Unit C01: MultiIndexManipulations::resortIndexes -- the block that cuts the sorted index list of direction d into 1-D lines (block selector).  The lines
drive the surplus computation of Sequence grids and the tensor weights: they must tile [0, num_tensors) and each must be a maximal run of indexes that
agree outside direction d."""
import re
from .. import tsg2c as X
from ..runner import Job
from .. import replay as RP
CPP = "SparseGrids/tsgIndexManipulator.cpp"

def emit(R):
    text = X.strip_comments(X.read_source(CPP))
    (p,) = X.cut(CPP, r'void\s+resortIndexes\s*\(\s*const\s+MultiIndexSet\s*&iset\s*,\s*std::vector<std::vector<int>>\s*&map\s*,\s*std::vector<std::vector<int>>\s*&lines1d\s*\)', text)
    body = p.body
    m = re.search(r'if\s*\(\s*num_dimensions\s*==\s*1\s*\)\s*(?=\{)', body)
    if not m:
        raise X.ExtractionBreak("resortIndexes: the block that builds lines1d was not found")
    e1 = X.match_close(body, m.end())
    m2 = re.match(r'\s*else\s*(?=\{)', body[e1 + 1:])
    if not m2:
        raise X.ExtractionBreak("resortIndexes: the general branch of the lines1d block was not found")
    e2 = X.match_close(body, e1 + 1 + m2.end())
    src = body[m.start():e2 + 1]
    line = p.line + body[:m.start()].count("\n")
    b = src
    b = R.sub("R12g-push", r'\blines1d\[d\]\.push_back\(', 'gl_push(', b)
    b = R.sub("R12g-index", r'\biset\.getIndex\(\s*map\[d\]\[([^\]]+)\]\s*\)', r'gidx(\1)', b)
    b = R.sub("R12g-index-ptr", r'int\s+const\s*\*\s*c_index\b', 'int c_index', b)
    b = R.sub("R7-lambda-call", r'\bmatch_outside_dim\(\s*d\s*,', 'gmatch(', b)
    b = R.sub("R2-not", r'\bnot\b', '!', b)
    X.check_leftover(b, "resortIndexes lines block")
    R.require({"R12g-push": 4, "R12g-index": 2, "R7-lambda-call": 1})
    info = {"functions": [{"name": "MultiIndexManipulations::resortIndexes (block: lines of one direction)", "file": p.rel, "line": line, "loops": X.count_loops(b)}], "rules_fired": {k: v for k, v in R.counts.items() if v},
            "fidelity": X.fidelity(src, b, extra_vocab=["lines1d", "push_back", "iset", "getIndex", "map", "d", "const", "c_index", "match_outside_dim", "not", "int"], slack=16),
            "drops": ["everything outside the block (the sort of map[d], the comparison lambda); positions of the sorted list carry an arbitrary line identifier instead of a multi-index"]}
    return '#line %d "%s"\nvoid resort_lines_block(int d, int num_dimensions, int num_tensors){\n%s\n}\n' % (line, X.REPO + "/" + p.rel, b), info

HARNESS = r'''
#ifndef TSG_NT
#define TSG_NT 5
#endif
int g_line[TSG_NT];                 /* line identifier of the index at sorted position i (indexes agree outside direction d iff the identifiers are equal) */
int g_out[TSG_NT + 2]; int g_nout;
void gl_push(int v){ __CPROVER_assert(g_nout < TSG_NT + 2, "C01 resortIndexes: at most one boundary per index plus the end marker"); if (g_nout < TSG_NT + 2) g_out[g_nout] = v; g_nout++; }
int gidx(int i){ __CPROVER_assert(i >= 0 && i < TSG_NT, "C01 resortIndexes reads a position of the sorted list"); return i; }
bool gmatch(int a, int b){ return g_line[a] == g_line[b]; }
'''
TAIL = r'''
void h_lines(void){
  int a_nd = nondet_int(), a_nt = nondet_int(), a_d = nondet_int();
  __CPROVER_assume(a_nd >= 1 && a_nd <= 3 && a_nt >= 1 && a_nt <= TSG_NT && a_d >= 0 && a_d < a_nd);
  for (int i = 0; i < TSG_NT; i++) { g_line[i] = nondet_int(); if (a_nd == 1) __CPROVER_assume(g_line[i] == 0); }       /* one dimension: nothing lies outside the direction */
  /* the list is sorted with direction d moving fastest: equal identifiers are contiguous */
  for (int i = 2; i < TSG_NT; i++) for (int j = 0; j < i - 1; j++) if (i < a_nt) __CPROVER_assume(g_line[j] != g_line[i] || g_line[i - 1] == g_line[i]);
  g_nout = 0;
  resort_lines_block(a_d, a_nd, a_nt);
  __CPROVER_assert(g_nout >= 2 && g_nout <= a_nt + 1 && g_out[0] == 0, "C01 resortIndexes: the first line starts at position 0");
  __CPROVER_assert(g_nout >= 1 && g_nout <= TSG_NT + 2 && g_out[g_nout - 1] == a_nt, "C01 resortIndexes: the last line ends at num_tensors (every index belongs to a line, also with one dimension)");
  if (g_nout >= 2 && g_nout <= TSG_NT + 1) {
    int a_k = nondet_int(); __CPROVER_assume(a_k >= 0 && a_k <= TSG_NT); __CPROVER_assume(a_k + 1 < g_nout);        /* witness: any line */
    int lo = g_out[a_k], hi = g_out[a_k + 1];
    __CPROVER_assert(0 <= lo && lo < hi && hi <= a_nt, "C01 resortIndexes: the line boundaries increase strictly inside [0, num_tensors]");
    if (0 <= lo && lo < hi && hi <= a_nt) {
      int a_i = nondet_int(); __CPROVER_assume(a_i >= lo && a_i < hi);
      __CPROVER_assert(g_line[a_i] == g_line[lo], "C01 resortIndexes: all indexes of a line agree outside the direction");
      if (hi < a_nt) __CPROVER_assert(g_line[hi] != g_line[lo], "C01 resortIndexes: a line is maximal (the next index differs outside the direction)");
    }
  }
  __CPROVER_assert(0, "VACUITY-CANARY");
}
'''
REPLAY = r'''
/* On the real library: Sequence grids in 1, 2 and 3 dimensions (the surpluses are computed line by line); every loaded point must return its value. */
int main_replay(){
  using namespace TasGrid;
  int bad = 0;
  for (int dims = 1; dims <= 3; dims++) for (auto rule : {rule_leja, rule_rleja, rule_minlebesgue}) {
    TasmanianSparseGrid g = makeSequenceGrid(dims, 2, 4, type_level, rule);
    std::vector<double> p = g.getNeededPoints(); int n = g.getNumNeeded(); std::vector<double> v(2 * n);
    for (int i = 0; i < n; i++) { double s = 0.3; for (int d = 0; d < dims; d++) s += (1.0 + 0.5 * d) * p[i*dims+d]; v[2*i] = std::exp(0.4 * s); v[2*i+1] = s * s - 1.0; }
    g.loadNeededValues(v);
    int miss = 0; for (int i = 0; i < n; i++) { double y[2]; g.evaluate(&p[i*dims], y); if (!(std::abs(y[0] - v[2*i]) < 1.E-9 && std::abs(y[1] - v[2*i+1]) < 1.E-9)) miss++; }
    if (miss) { std::printf("Sequence grid, %d dimension(s), rule %d: %d of %d loaded points do not return their values\n", dims, (int) rule, miss, n); bad++; }
  }
  __CPROVER_assert(bad == 0, "C01 Sequence grids of every dimension reproduce the loaded values");
  return 0;
}
'''
def replay(prop):
    def rp(job, ob, vals, wd):
        hdr = "Replay through the public API of the real library.\nproperty %s job %s\nobligation %s: %s\nat %s" % (prop, job.name, ob["name"], ob["description"], ob["location"])
        return RP.write_and_run(prop, job.name + "." + ob["name"], hdr, ['"TasmanianSparseGrid.hpp"', '<cmath>'], REPLAY, "  main_replay();", lib="sg", timeout=120)
    return rp

def jobs(tier, seed, prop):
    R = X.Rules()
    t, info = emit(R)
    nt = 5 if tier == "quick" else 7
    src = '#include "tsg_shim.h"\nint tsg_exc;\n#define TSG_NT %d\n' % nt + HARNESS + t + TAIL
    return [Job("lines1d.block", src, "h_lines", unwind=nt + 2, timeout=300, backends=[[], ["--sat-solver", "cadical"]],
                functions=["%s:%d %s" % (f["file"], f["line"], f["name"]) for f in info["functions"]], info=info, replay=replay(prop),
                bounded="at most %d indexes, 1 to 3 dimensions (full unwinding); any grouping of the sorted positions into lines" % nt,
                assumed=["the sort of map[d] puts indexes that agree outside direction d next to each other (std::sort with the lambda of the function; not under this contract)"],
                label="resortIndexes: the lines of a direction tile [0, num_tensors), each a maximal run of indexes that agree outside the direction")]
