"""Unit C02/C03: GridGlobal::getPolynomialSpaceSet -- which exactness table builds the declared polynomial space: quadrature exactness for the quadrature
space, interpolation exactness for the interpolation space; the tabulated values for a custom rule, the formulas of OneDimensionalMeta otherwise."""
import re
from .. import tsg2c as X
from ..runner import Job
from .. import replay as RP
from . import tables
CPP = "SparseGrids/tsgGridGlobal.cpp"

def emit(R):
    text = X.strip_comments(X.read_source(CPP))
    (p,) = X.cut(CPP, r'MultiIndexSet\s+GridGlobal::getPolynomialSpaceSet\s*\(\s*bool\s+interpolation\s*\)\s*const', text)
    b = p.body
    # R7b: the lambda handed to createPolynomialSpace is applied at once, at a ghost level
    b = R.sub("R7b-lambda-applied", r'return\s+MultiIndexManipulations::createPolynomialSpace\(\s*active_tensors\s*,\s*\[&\]\s*\(\s*int\s+l\s*\)\s*->\s*int\s*\{\s*return\s+([^;]+);\s*\}\s*\)\s*;', r'{ int l = g_l; return (\1); }', b)
    b = R.sub("R10-member-call", r'\bcustom\.(getIExact|getQExact)\(', r'custom_\1(', b)
    b = R.sub("R3-static-call", r'\bOneDimensionalMeta::(getIExact|getQExact)\(', r'Meta_\1(', b)
    b = R.sub("R10-member", r'(?<![\w.>])rule\b(?!_)', 'g_rule', b)
    X.check_leftover(b, "getPolynomialSpaceSet")
    R.require({"R7b-lambda-applied": 4, "R10-member-call": 2, "R3-static-call": 2})
    info = {"functions": [{"name": "GridGlobal::getPolynomialSpaceSet", "file": p.rel, "line": p.line, "loops": 0}], "rules_fired": {k: v for k, v in R.counts.items() if v},
            "fidelity": X.fidelity(p.body, b, extra_vocab=["MultiIndexManipulations", "createPolynomialSpace", "active_tensors", "custom", "OneDimensionalMeta", "rule", "l", "int", "return"], slack=30),
            "drops": ["createPolynomialSpace itself (the lambda it receives is applied at one arbitrary level instead)"]}
    return '#line %d "%s"\nint GridGlobal_getPolynomialSpaceSet(bool interpolation)%s\n' % (p.line, X.REPO + "/" + p.rel, b), info

HARNESS = r'''
int g_l; TypeOneDRule g_rule;
/* tagged stubs: which table, which kind of exactness, which level, which rule */
int custom_getIExact(int l){ return 1000000 + 1000 * 1 + l; }
int custom_getQExact(int l){ return 1000000 + 1000 * 2 + l; }
int Meta_getIExact(int l, TypeOneDRule r){ return 2000000 + 100000 * (int) r % 900000 + 1000 * 1 + l; }
int Meta_getQExact(int l, TypeOneDRule r){ return 2000000 + 100000 * (int) r % 900000 + 1000 * 2 + l; }
'''
TAIL = r'''
void h_polyspace(void){
  bool a_interp = nondet_bool(); g_l = nondet_int(); g_rule = (TypeOneDRule) nondet_int();
  __CPROVER_assume(g_l >= 0 && g_l < 1000 && g_rule >= rule_none && g_rule <= rule_fourier);
  int got = GridGlobal_getPolynomialSpaceSet(a_interp);
  int want = (g_rule == rule_customtabulated) ? (a_interp ? custom_getIExact(g_l) : custom_getQExact(g_l)) : (a_interp ? Meta_getIExact(g_l, g_rule) : Meta_getQExact(g_l, g_rule));
  __CPROVER_assert(got == want, "C02/C03 the declared polynomial space is built from the exactness that matches the request: quadrature exactness for getGlobalPolynomialSpace(false), interpolation exactness for (true); tabulated values for a custom rule, the rule's formula otherwise, at the level asked");
  __CPROVER_assert(0, "VACUITY-CANARY");
}
'''
REPLAY = r'''
/* On the real library: a custom-tabulated rule whose quadrature exactness is below its node count (midpoint and trapezoid levels): every monomial of
 * getGlobalPolynomialSpace(false) must be integrated exactly by the quadrature of the grid. */
int main_replay(){
  using namespace TasGrid;
  int bad = 0;
  std::vector<int> nn = {1, 2, 3, 5}, prec = {1, 1, 1, 1};
  std::vector<std::vector<double>> nodes = {{0.0}, {-1.0, 1.0}, {-1.0, 0.0, 1.0}, {-1.0, -0.5, 0.0, 0.5, 1.0}}, weights = {{2.0}, {1.0, 1.0}, {0.5, 1.0, 0.5}, {0.25, 0.5, 0.5, 0.5, 0.25}};
  TasmanianSparseGrid g; g.makeGlobalGrid(2, 0, 3, type_level, CustomTabulated(std::vector<int>(nn), std::vector<int>(prec), std::vector<std::vector<double>>(nodes), std::vector<std::vector<double>>(weights), "midpoint / trapezoid"), std::vector<int>());
  std::vector<int> space = g.getGlobalPolynomialSpace(false); std::vector<double> p = g.getPoints(), w = g.getQuadratureWeights();
  for (size_t m = 0; m < space.size() / 2; m++) { int a = space[2*m], b = space[2*m+1];
    double q = 0; for (size_t i = 0; i < w.size(); i++) q += w[i] * std::pow(p[2*i], a) * std::pow(p[2*i+1], b);
    double exact = ((a % 2) ? 0.0 : 2.0 / (a + 1)) * ((b % 2) ? 0.0 : 2.0 / (b + 1));
    if (std::abs(q - exact) > 1.E-11) { if (bad < 5) std::printf("monomial x^%d y^%d is declared exactly integrated, the quadrature gives %.12g, the integral is %.12g\n", a, b, q, exact); bad++; } }
  __CPROVER_assert(bad == 0, "C02 every monomial of the declared quadrature space of a custom rule is integrated exactly");
  return 0;
}
'''
def replay(prop):
    def rp(job, ob, vals, wd):
        hdr = "Replay through the public API of the real library.\nproperty %s job %s\nobligation %s: %s\nat %s" % (prop, job.name, ob["name"], ob["description"], ob["location"])
        return RP.write_and_run(prop, job.name + "." + ob["name"], hdr, ['"TasmanianSparseGrid.hpp"', '<cmath>'], REPLAY, "  main_replay();", lib="sg", timeout=120)
    return rp

def jobs(tier, seed, prop):
    R = X.Rules()
    enums = tables.cut_enum("TypeOneDRule", R)[0]
    t, info = emit(R)
    return [Job("polyspace.exactness_table", '#include "tsg_shim.h"\nint tsg_exc;\n' + enums + HARNESS + t + TAIL, "h_polyspace", timeout=120,
                functions=["%s:%d %s" % (f["file"], f["line"], f["name"]) for f in info["functions"]], info=info, replay=replay(prop),
                assumed=["the exactness functions themselves are the tables unit (F1/F3); CustomTabulated::getIExact / getQExact read the table (stubs)", "rule R7b: the lambda given to createPolynomialSpace is applied at one arbitrary level"],
                label="GridGlobal::getPolynomialSpaceSet builds the declared space from the exactness table that matches the request, for every rule and level")]
