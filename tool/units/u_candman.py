"""Unit C18 (sequential part): CandidateManager::next (F16)."""
from .. import tsg2c as X
from ..runner import Job
from ..contractfile import ContractFile
from .. import replay as RP
from . import candman

REPLAY = r'''
/* the real CandidateManager (via a derived class that exposes nothing new): 4 candidates, batch 3 */
int main_replay(){
  size_t budget = @BUDGET@;
  TasGrid::CandidateManager m(1, 3);
  m = std::vector<double>{0.1, 0.2, 0.3, 0.4};
  std::vector<double> x = m.next(budget);
  std::printf("next(%zu) with batch size 3 returned %zu point(s)\n", budget, x.size());
  __CPROVER_assert(x.size() <= std::min<size_t>(budget, 3), "F16 next never returns more points than min(remaining_budget, num_batch)");
  return 0;
}
'''
def make_replay(prop):
    def rp(job, ob, vals, wd):
        b = vals.get("a_budget", "0")
        try: bi = int(b)
        except Exception: bi = 0
        bi = min(bi, 10)
        hdr = "Replay against the real class.\nproperty %s job %s\nobligation %s: %s\nat %s\ncounterexample remaining_budget=%s" % (prop, job.name, ob["name"], ob["description"], ob["location"], b)
        return RP.write_and_run(prop, job.name + "." + ob["name"], hdr, ['"TasmanianAddons.hpp"'], REPLAY.replace("@BUDGET@", str(bi)), "  main_replay();", lib="sg")
    return rp

REPLAY_COMPLETE = r'''
/* the real CandidateManager: two points are handed out, the candidate list is replaced by one that no longer contains the second, both complete */
int main_replay(){
  TasGrid::CandidateManager m(1, 2);
  m = std::vector<double>{0.1, 0.2, 0.3};
  std::vector<double> x = m.next(5);        /* 0.1 and 0.2 */
  m = std::vector<double>{0.1, 0.3, 0.4};   /* 0.2 dropped out while it is being computed */
  size_t before = m.getNumRunning();
  m.complete(x);
  std::printf("running before %zu, after completing %zu points: %zu running, %zu done\n", before, x.size(), m.getNumRunning(), m.getNumDone());
  __CPROVER_assert(before == 2 && m.getNumRunning() == 0 && m.getNumDone() == 2, "F16c after every handed-out point completed nothing is running (also for a point that is no longer a candidate)");
  return 0;
}
'''
def replay_complete(prop):
    def rp(job, ob, vals, wd):
        hdr = "Replay against the real class.\nproperty %s job %s\nobligation %s: %s\nat %s" % (prop, job.name, ob["name"], ob["description"], ob["location"])
        return RP.write_and_run(prop, job.name + "." + ob["name"], hdr, ['"TasmanianAddons.hpp"'], REPLAY_COMPLETE, "  main_replay();", lib="sg")
    return rp

def jobs(tier, seed, prop):
    nc, nd = (4, 2) if tier == "quick" else (5, 2)
    cf = ContractFile("contracts/candman.c")
    R = X.Rules()
    t, info = candman.emit_next(R)
    pre = '#include "tsg_shim.h"\nint tsg_exc;\n#define TSG_NC %d\n#define TSG_NDIM %d\n#line 1 "/verif/contracts/candman.c"\n' % (nc, nd) + cf.text(("text",))
    Rc = X.Rules()
    tc, infoc = candman.emit_complete(Rc)
    t2 = [t_ for k, a, t_ in cf.sections if k == "text2"][0]
    jc = Job("candman.complete", pre + t2 + tc + cf.text(("harness",), ["h_complete"]), "h_complete", unwind=nc * nd + 2, timeout=600, backends=[[], ["--sat-solver", "cadical"]],
             functions=["%s:%d %s" % (f["file"], f["line"], f["name"]) for f in infoc["functions"]], info=infoc, replay=replay_complete(prop),
             bounded="candidates <= %d, completed points <= %d, dimensions <= %d (full unwinding with unwinding assertions)" % (nc, nc, nd),
             assumed=["find() returns any slot or 'not a candidate' (what find itself guarantees is the job candman.find, F16f)", "std::forward_list running_jobs is a ghost list (count); the walk to the matching entry is one ghost call"],
             label="CandidateManager::complete against F16c (counters, status marks, running-job list)")
    cff = ContractFile("contracts/candman_find.c")
    Rf = X.Rules()
    tf, infof = candman.emit_find(Rf, cff.contracts(), cff.loops())
    Rf.require({"R10-self-call": 2, "R10-member": 6})
    ncf = 8 if tier == "quick" else 12
    jf = Job("candman.find", '#include "tsg_shim.h"\nint tsg_exc;\n#define TSG_NC %d\n#line 1 "/verif/contracts/candman_find.c"\n' % ncf + cff.text(("text",)) + tf + cff.text(("harness",), ["h_find"]),
             "h_find", enforce="CandidateManager_find", replace=["CandidateManager_compare"], loop_contracts=True, timeout=240, backends=[[], ["--sat-solver", "cadical"]],
             functions=["%s:%d %s" % (f["file"], f["line"], f["name"]) for f in infof["functions"]], info=infof,
             bounded="capacity of the candidate arrays %d, dimensions <= 2 (the search loop is closed by its loop contract, not unwound)" % ncf,
             assumed=["`sorted` is a permutation of the candidate slots (established by sort_candidates: std::iota + std::sort, not under contract); only `sorted[k] < num_candidates` is used", "compare() is pure and answers arbitrarily (replaced by its contract; that a found slot matches the point is not stated)"],
             label="CandidateManager::find against F16f (terminates, in bounds, writes nothing, returns a slot <= num_candidates for every answer of compare)")
    return [jc, jf, Job("candman.next", pre + t + cf.text(("harness",), ["h_next"]), "h_next", unwind=nc * nd + 2, timeout=600,
                backends=[[], ["--sat-solver", "cadical"]],
                functions=["%s:%d %s" % (f["file"], f["line"], f["name"]) for f in info["functions"]], info=info, replay=make_replay(prop),
                bounded="candidates <= %d, dimensions <= %d (full unwinding with unwinding assertions)" % (nc, nd),
                assumed=["std::forward_list running_jobs is a ghost list (count and pushed rows)"],
                label="CandidateManager::next extracted body against F16 (exactly-once hand-out within the budget)")]
