"""Unit K2: array algorithms of tsgIndexSets.cpp (A1 addValues, A4 getSlot)."""
from .. import tsg2c as X
from ..runner import Job
from ..contractfile import ContractFile
from . import indexsets

REPLAY_ADDVALUES = r'''
/* Loop-contract obligations fail from a havocked loop state, so CBMC's trace is not an input.
 * A failing input for the REAL StorageSet::addValues is searched natively: every pair of disjoint
 * subsets of {0..7} as old/new one-dimensional index sets, two outputs, value = f(index, output). */
using namespace TasGrid;
static double f(int idx, int o){ return 100.0 * idx + o + 0.25; }
int main_replay(){
  for (int code = 0; code < 6561; code++){
    std::vector<int> o, n; int c = code;
    for (int k = 0; k < 8; k++){ int t = c % 3; c /= 3; if (t == 1) o.push_back(k); if (t == 2) n.push_back(k); }
    if (n.empty()) continue;
    std::vector<double> ov, nv;
    for (int k : o) for (int q = 0; q < 2; q++) ov.push_back(f(k, q));
    for (int k : n) for (int q = 0; q < 2; q++) nv.push_back(f(k, q));
    MultiIndexSet olds(1, std::vector<int>(o)), news(1, std::vector<int>(n));
    StorageSet st(2, (int) o.size(), std::vector<double>(ov));
    st.addValues(olds, news, nv.data());
    MultiIndexSet merged = olds; merged += news;
    for (int i = 0; i < merged.getNumIndexes(); i++){
      int idx = merged.getIndex(i)[0];
      for (int q = 0; q < 2; q++) if (st.getValues(i)[q] != f(idx, q)){
        std::printf("old set {"); for (int k : o) std::printf(" %d", k); std::printf(" } new set {"); for (int k : n) std::printf(" %d", k);
        std::printf(" }: after addValues the value stored for index %d output %d is %g, supplied %g\n", idx, q, st.getValues(i)[q], f(idx, q));
        __CPROVER_assert(0, "A1 every value remains attached to the multi-index it was supplied for");
        return 0;
      }
    }
  }
  std::printf("no failing input among the 6561 enumerated pairs of index sets\n");
  return 0;
}
'''
def replay_addvalues(prop):
    from .. import replay as RP
    def rp(job, ob, vals, wd):
        hdr = "Native search for a failing input of the real StorageSet::addValues.\nproperty %s job %s\nobligation %s: %s\nat %s" % (prop, job.name, ob["name"], ob["description"], ob["location"])
        return RP.write_and_run(prop, job.name + "." + ob["name"], hdr, ['"tsgIndexSets.hpp"', '<vector>'], REPLAY_ADDVALUES, "  main_replay();", lib="sg")
    return rp

def jobs(tier, seed, prop):
    out = []
    nmax = 8 if tier == "quick" else 12
    for ndim in ((1, 2) if tier == "thorough" else (1 + seed % 2,)):
        defs = "#define NMAX %d\n#define NDIM %d\n#define NOUT 2\n" % (nmax, ndim)
        cf = ContractFile("contracts/indexsets.c")
        pre = '#include "tsg_shim.h"\nint tsg_exc;\n' + defs + '#line 1 "/verif/contracts/indexsets.c"\n' + cf.text(("text",))
        bound = "container length <= %d, dimensions == %d, outputs == 2; iterations unbounded by loop contract" % (nmax, ndim)
        if prop in ("C07",):
            R = X.Rules()
            t, info = indexsets.emit_getSlot(R, cf.contracts()["MultiIndexSet_getSlot"], cf.loops()["MultiIndexSet_getSlot"])
            out.append(Job("indexsets.getSlot.d%d" % ndim, pre + t + cf.text(("harness",), ["h_getSlot"]), "h_getSlot", enforce="MultiIndexSet_getSlot", loop_contracts=True,
                           pre_unwindset={"getSlot_compare": ndim + 1}, timeout=600, backends=[[], ["--sat-solver", "cadical"]],
                           functions=["%s:%d %s" % (f["file"], f["line"], f["name"]) for f in info["functions"]], info=info, bounded=bound,
                           label="MultiIndexSet::getSlot (binary search): found => equal strip, -1 => the witness strip differs"))
        if prop in ("C01", "C07"):
            R = X.Rules()
            t, info = indexsets.emit_addValues(R, cf.contracts()["StorageSet_addValues"], cf.loops()["StorageSet_addValues"])
            out.append(Job("indexsets.addValues.d%d" % ndim, pre + t + cf.text(("harness",), ["h_addValues"]), "h_addValues", enforce="StorageSet_addValues", loop_contracts=True,
                           pre_unwindset={"addValues_compareIndexes": ndim + 1, "tsg_copy_n_double": 3}, timeout=900 if tier == "quick" else 2400,
                           backends=[[], ["--sat-solver", "cadical"]],
                           functions=["%s:%d %s" % (f["file"], f["line"], f["name"]) for f in info["functions"]], info=info, bounded=bound, replay=replay_addvalues(prop),
                           label="StorageSet::addValues (merge of values along two sorted disjoint index sets): every value stays attached to its multi-index (witness old entry and witness new entry)"))
    return out
