"""Unit G4 (C11): member completeness of the copy constructors of the grid families.

`ctor_init` selector: the initializer list of `Grid<F>::Grid<F>(acc, Grid<F> const *src, ibegin, iend)`
(and of BaseCanonicalGrid(acc, other, ibegin, iend)) is cut out and every initializer
`member(expr)` becomes the ghost assignment `dst.member = expr'` (src->m -> src.m,
X.splitData(b,e) / X.splitValues(b,e) -> restrict(X), CustomTabulated() -> none).
The postcondition is generated from the MEMBER LIST of the class definition, not from the
constructor: every data member is copied from the same member of the source, or is its
output restriction (table RESTRICTED), or is listed as a cache that is rebuilt / handled in the
body.  A member that appears in the class but in neither table stops the run (exit 2)."""
import re
from .. import tsg2c as X
from ..runner import Job

FAMS = {
 "Global": ("SparseGrids/tsgGridGlobal.cpp", "SparseGrids/tsgGridGlobal.hpp", "global"),
 "Sequence": ("SparseGrids/tsgGridSequence.cpp", "SparseGrids/tsgGridSequence.hpp", "seq"),
 "LocalPolynomial": ("SparseGrids/tsgGridLocalPolynomial.cpp", "SparseGrids/tsgGridLocalPolynomial.hpp", "pwpoly"),
 "Wavelet": ("SparseGrids/tsgGridWavelet.cpp", "SparseGrids/tsgGridWavelet.hpp", "wav"),
 "Fourier": ("SparseGrids/tsgGridFourier.cpp", "SparseGrids/tsgGridFourier.hpp", "fourier"),
}
RESTRICTED = {"surpluses", "coefficients", "fourier_coefs", "values"}           # output-strided members
BODY_HANDLED = {"dynamic_values"}                                               # unique_ptr, deep-copied and restricted in the constructor body
NOT_COPIED = {"gpu_cache", "gpu_cachef", "inter_matrix", "acceleration"}          # caches rebuilt on demand / the context of the new object
CONDITIONAL = {"custom"}                                                        # copied only for rule_customtabulated

def members_of(hpp, cls):
    text = X.strip_comments(X.read_source(hpp))
    (p,) = X.cut(hpp, r'class\s+%s\s*:\s*public\s+BaseCanonicalGrid\s*' % cls, text)
    body = p.body
    # remove nested braces (inline method bodies)
    flat, depth = [], 0
    for ch in body[1:-1]:
        if ch == '{': depth += 1
        elif ch == '}': depth -= 1
        elif depth == 0: flat.append(ch)
    flat = ''.join(flat)
    names = []
    for stmt in flat.split(';'):
        s = ' '.join(stmt.split())
        s = re.sub(r'^(public|private|protected)\s*:\s*', '', s)
        if not s or '(' in s or s.startswith(('friend', 'using', 'template', 'struct', 'class', 'enum', 'typedef')):
            continue
        m = re.match(r'^(?:mutable\s+)?[\w:<>,\s\*&]+?[\s\*&]((?:\w+\s*,\s*)*\w+)$', s)
        if m:
            names += [n.strip() for n in m.group(1).split(',')]
    return names

def jobs(tier, seed, prop):
    out = []
    for fam, (cpp, hpp, srcname) in FAMS.items():
        R = X.Rules()
        cls = "Grid" + fam
        text = X.strip_comments(X.read_source(cpp))
        rx = r'%s::%s\s*\(\s*AccelerationContext\s+const\s*\*acc\s*,\s*(?:const\s+%s|%s\s+const)\s*\*\s*(\w+)\s*,\s*int\s+ibegin\s*,\s*int\s+iend\s*\)\s*:\s*([^{]*)' % (cls, cls, cls, cls)
        ms = list(re.finditer(rx, text))
        if len(ms) != 1:
            raise X.ExtractionBreak("copy constructor of %s not found (%d matches)" % (cls, len(ms)))
        src = ms[0].group(1)
        inits = X.split_top(ms[0].group(2))
        line = text.count('\n', 0, ms[0].start()) + 1
        k = ms[0].end()
        e = X.match_close(text, k)
        body = text[k:e + 1]
        members = members_of(hpp, cls)
        unknown = [m for m in members if m not in NOT_COPIED and m not in BODY_HANDLED and not re.match(r'^\w+$', m)]
        assigns, seen = [], []
        for ini in inits:
            mm = re.match(r'^(\w+)\s*\((.*)\)$', ini.strip(), re.S)
            if not mm:
                raise X.ExtractionBreak("%s copy constructor: cannot parse initializer %r" % (cls, ini))
            name, expr = mm.group(1), mm.group(2)
            if name == "BaseCanonicalGrid":
                if not re.match(r'^\s*acc\s*,\s*\*%s\s*,\s*ibegin\s*,\s*iend\s*$' % src, expr):
                    raise X.ExtractionBreak("%s copy constructor: base initializer changed: %r" % (cls, expr))
                R.counts["R10-base-init"] = 1
                continue
            ex = expr
            ex = R.sub("R10-source-member", r'\b%s->(\w+)' % src, r'src.\1', ex)
            ex = R.sub("R12g-restrict", r'(src\.\w+)\.(?:splitData|splitValues)\(\s*ibegin\s*,\s*iend\s*\)', r'gm_restrict(\1)', ex)
            ex = R.sub("R12g-none", r'\bCustomTabulated\(\)', '0', ex)
            ex = R.sub("R10-member", r'(?<![\w.])num_outputs\b', 'dst_outs', ex)
            ex = R.sub("R10-source-member", r'src\.num_outputs\b', 'src_outs', ex)
            ex = R.sub("R10-source-member", r'src\.rule\s*==\s*rule_customtabulated', 'src_is_custom', ex)
            X.check_leftover(ex, "%s copy constructor initializer of %s" % (cls, name))
            assigns.append("  dst.%s = %s;" % (name, ex)); seen.append(name)
            R.counts["R10-ctor-init"] = R.counts.get("R10-ctor-init", 0) + 1
        unclassified = [m for m in members if m not in seen and m not in NOT_COPIED and m not in BODY_HANDLED]
        checks = []
        for m in members:
            if m in NOT_COPIED:
                continue
            if m in BODY_HANDLED:
                if not re.search(r'\b%s\s*=\s*Utils::make_unique<\w+>\(\s*\*%s->%s\s*\)' % (m, src, m), body) or not re.search(r'%s->restrictData\(\s*ibegin\s*,\s*iend\s*\)' % m, body):
                    raise X.ExtractionBreak("%s copy constructor body no longer deep-copies and restricts %s" % (cls, m))
                continue
            if m in RESTRICTED:
                checks.append('  __CPROVER_assert(dst.%s == ((dst_outs == src_outs) ? src.%s : gm_restrict(src.%s)), "G4 %s::%s is the source member, restricted to the output range when a sub-range is copied");' % (m, m, m, cls, m))
            elif m in CONDITIONAL:
                checks.append('  __CPROVER_assert(dst.%s == (src_is_custom ? src.%s : 0), "G4 %s::%s is copied when the rule is custom tabulated");' % (m, m, cls, m))
            else:
                checks.append('  __CPROVER_assert(dst.%s == src.%s, "G4 %s::%s is copied from the same member of the source");' % (m, m, cls, m))
        fields = " ".join("int %s;" % m for m in members if m not in NOT_COPIED and m not in BODY_HANDLED)
        missing = [m for m in members if m not in NOT_COPIED and m not in BODY_HANDLED and m not in seen]
        ctext = ('#include "tsg_shim.h"\nint tsg_exc;\ntypedef struct { %s } G;\nstatic int gm_restrict(int id){ return id + 100000; }\n' % fields
                 + '#line %d "%s"\nvoid h_copyctor(void){\n  G src, dst; int dst_outs = nondet_int(), src_outs = nondet_int(); bool src_is_custom = nondet_bool();\n' % (line, X.REPO + "/" + cpp)
                 + "".join("  src.%s = nondet_int(); dst.%s = -1;\n" % (m, m) for m in members if m not in NOT_COPIED and m not in BODY_HANDLED)
                 + "  __CPROVER_assume(" + " && ".join(["1"] + ["src.%s > 0 && src.%s < 1000" % (m, m) for m in members if m not in NOT_COPIED and m not in BODY_HANDLED]) + ");\n"
                 + "\n".join(assigns) + "\n" + "\n".join(checks) + '\n  __CPROVER_assert(0, "VACUITY-CANARY");\n}\n')
        info = {"functions": [], "rules_fired": {k: v for k, v in R.counts.items() if v}, "members": members,
                "drops": ["the bodies of the member copy constructors (std::vector, MultiIndexSet, ... value semantics are trusted)"]}
        out.append(Job("copyctor.%s" % fam, ctext, "h_copyctor", timeout=120, functions=["%s:%d %s copy constructor (initializer list)" % (cpp, line, cls)], info=info,
                       assumed=["member-wise copy construction of std::vector / MultiIndexSet / StorageSet / Data2D / OneDimensionalWrapper copies the whole value (C++ value semantics)",
                                "dynamic_values is deep-copied and restricted in the constructor body (checked syntactically)"],
                       label="%s copy constructor: every data member of the class (%d members from the class definition) is copied or restricted" % (cls, len(members))))
    # base class
    R = X.Rules()
    hpp = "SparseGrids/tsgGridCore.hpp"
    text = X.strip_comments(X.read_source(hpp))
    m = re.search(r'BaseCanonicalGrid\s*\(\s*AccelerationContext\s+const\s*\*acc\s*,\s*BaseCanonicalGrid\s+const\s*&other\s*,\s*int\s+ibegin\s*,\s*int\s+iend\s*\)\s*:\s*([^{]*)', text)
    if not m:
        raise X.ExtractionBreak("BaseCanonicalGrid copy constructor not found")
    line = text.count('\n', 0, m.start()) + 1
    assigns = []
    for ini in X.split_top(m.group(1)):
        mm = re.match(r'^(\w+)\s*\((.*)\)$', ini.strip(), re.S)
        name, ex = mm.group(1), mm.group(2)
        ex = re.sub(r'\bother\.(\w+)', r'src.\1', ex)
        ex = re.sub(r'(src\.\w+)\.splitValues\(\s*ibegin\s*,\s*iend\s*\)', r'gm_restrict(\1)', ex)
        ex = re.sub(r'(?<![\w.])acc\b', 'acc_new', ex)
        assigns.append("  dst.%s = %s;" % (name, ex))
    ctext = ('#include "tsg_shim.h"\nint tsg_exc;\ntypedef struct { int acceleration, num_dimensions, num_outputs, points, needed, values; } G;\nstatic int gm_restrict(int id){ return id + 100000; }\n'
             + '#line %d "%s"\nvoid h_copyctor(void){\n  G src, dst; int ibegin = nondet_int(), iend = nondet_int(), acc_new = nondet_int();\n' % (line, X.REPO + "/" + hpp)
             + "  src.acceleration = nondet_int(); src.num_dimensions = nondet_int(); src.num_outputs = nondet_int(); src.points = nondet_int(); src.needed = nondet_int(); src.values = nondet_int();\n"
             + "  __CPROVER_assume(0 <= ibegin && ibegin <= iend && iend <= src.num_outputs && src.num_outputs < 1000 && src.values > 0 && src.values < 1000);\n  dst.points = -1; dst.needed = -1; dst.values = -1; dst.num_dimensions = -1; dst.num_outputs = -1;\n"
             + "\n".join(assigns) + '''
  __CPROVER_assert(dst.acceleration == acc_new, "G4 the copy uses the acceleration context of the new object");
  __CPROVER_assert(dst.num_dimensions == src.num_dimensions && dst.num_outputs == iend - ibegin, "G4 dimensions are copied, outputs are the size of the range");
  __CPROVER_assert(dst.points == src.points && dst.needed == src.needed, "G4 loaded and needed points are copied");
  __CPROVER_assert(dst.values == ((iend - ibegin == src.num_outputs) ? src.values : gm_restrict(src.values)), "G4 values are copied, restricted to the output range for a sub-range");
  __CPROVER_assert(0, "VACUITY-CANARY");
}
''')
    out.append(Job("copyctor.BaseCanonicalGrid", ctext, "h_copyctor", timeout=120, functions=["%s:%d BaseCanonicalGrid copy constructor" % (hpp, line)], info={"functions": [], "rules_fired": {}},
                   label="BaseCanonicalGrid copy constructor: dimensions, outputs, points, needed, values"))
    return out
