"""Extraction of the public wrapper methods of TasmanianSparseGrid
(SparseGrids/TasmanianSparseGrid.cpp) onto a C receiver struct `TSG *self`.

Rules: R10 (members -> self->..., base->m() -> base_m(self,...), get<GridX>()->m() ->
GridX_m(self,...), make_unique<GridX>(acceleration.get(), ..., llimits) -> new_grid(self,
K_GridX, llimits)), R5g (vector / pointer parameters become ghost descriptors gvec / gptr:
identity + length, contents are not modelled), R9 (throw -> TSG_THROW(kind); return),
R11 (#ifdef Tasmanian_ENABLE_GPU blocks dropped: the pinned build has no GPU backend)."""
import re
from .. import tsg2c as X

CPP = "SparseGrids/TasmanianSparseGrid.cpp"

def map_param(decl):
    d = " ".join(decl.split())
    d = re.sub(r'\s*=\s*[^,]+$', '', d)
    m = re.match(r'^(?:const\s+)?std::vector<(?:int|double)>\s*(?:const\s*)?&\s*(\w+)$', d)
    if m: return "gvec %s" % m.group(1), "gvec"
    m = re.match(r'^const\s+(?:int|double|char)\s*\*\s*(\w+)$', d)
    if m: return "gptr %s" % m.group(1), "gptr"
    m = re.match(r'^const\s+(?:int|double)\s+(\w+)\s*\[\s*\]$', d)
    if m: return "gptr %s" % m.group(1), "gptr"
    m = re.match(r'^CustomTabulated\s*&&\s*(\w+)$', d)
    if m: return "gobj %s" % m.group(1), "gobj"
    m = re.match(r'^(int|double|bool|size_t|TypeDepth|TypeOneDRule|TypeRefinement)\s+(\w+)$', d)
    if m: return "%s %s" % (m.group(1), m.group(2)), m.group(1)
    raise X.ExtractionBreak("apiwrap: unsupported parameter declaration %r" % decl)

class Wrapper:
    def __init__(self, tag, method, ptypes, calls=None, ret="void"):
        self.tag, self.method, self.ptypes, self.calls, self.ret = tag, method, ptypes, calls or {}, ret

def _sig_regex(method, ptypes, ret="void"):
    parts = []
    for t in ptypes:
        parts.append(r'\s*' + t + r'\s*')
    rt = r'void' if ret == "void" else r'std::vector<double>'
    return r'%s\s+TasmanianSparseGrid::%s\s*\(%s\)' % (rt, method, ",".join(parts))

V = r'(?:const\s+std::vector<int>\s*&|std::vector<int>\s+const\s*&)\s*\w+'
VD = r'(?:const\s+std::vector<double>\s*&|std::vector<double>\s+const\s*&)\s*\w+'
P = r'const\s+int\s*\*\s*\w+'
PD = r'const\s+double\s*\*\s*\w+'
I = r'int\s+\w+'
D = r'double\s+\w+'
TD = r'TypeDepth\s+\w+'
TR = r'TypeOneDRule\s+\w+'
TF = r'TypeRefinement\s+\w+'
CS = r'const\s+char\s*\*\s*\w+'
CT = r'CustomTabulated\s*&&\s*\w+'

WRAPPERS = [
    Wrapper("makeGlobalGrid_ptr", "makeGlobalGrid", [I, I, I, TD, TR, P, D, D, CS, P], {"makeGlobalGrid": "makeGlobalGrid_vec"}),
    Wrapper("makeGlobalGrid_vec", "makeGlobalGrid", [I, I, I, TD, TR, V, D, D, CS, V]),
    Wrapper("makeGlobalGrid_custom_ptr", "makeGlobalGrid", [I, I, I, TD, CT, P, P], {"makeGlobalGrid": "makeGlobalGrid_custom_vec"}),
    Wrapper("makeGlobalGrid_custom_vec", "makeGlobalGrid", [I, I, I, TD, CT, V, V]),
    Wrapper("makeSequenceGrid_ptr", "makeSequenceGrid", [I, I, I, TD, TR, P, P], {"makeSequenceGrid": "makeSequenceGrid_vec"}),
    Wrapper("makeSequenceGrid_vec", "makeSequenceGrid", [I, I, I, TD, TR, V, V]),
    Wrapper("makeLocalPolynomialGrid_ptr", "makeLocalPolynomialGrid", [I, I, I, I, TR, P], {"makeLocalPolynomialGrid": "makeLocalPolynomialGrid_vec"}),
    Wrapper("makeLocalPolynomialGrid_vec", "makeLocalPolynomialGrid", [I, I, I, I, TR, V]),
    Wrapper("makeWaveletGrid_ptr", "makeWaveletGrid", [I, I, I, I, P], {"makeWaveletGrid": "makeWaveletGrid_vec"}),
    Wrapper("makeWaveletGrid_vec", "makeWaveletGrid", [I, I, I, I, V]),
    Wrapper("makeFourierGrid_ptr", "makeFourierGrid", [I, I, I, TD, P, P], {"makeFourierGrid": "makeFourierGrid_vec"}),
    Wrapper("makeFourierGrid_vec", "makeFourierGrid", [I, I, I, TD, V, V]),
    Wrapper("updateGlobalGrid_ptr", "updateGlobalGrid", [I, TD, P, P], {"updateGlobalGrid": "updateGlobalGrid_vec"}),
    Wrapper("updateGlobalGrid_vec", "updateGlobalGrid", [I, TD, V, V], {"updateGrid": "updateGrid_vec"}),
    Wrapper("updateSequenceGrid_ptr", "updateSequenceGrid", [I, TD, P, P], {"updateSequenceGrid": "updateSequenceGrid_vec"}),
    Wrapper("updateSequenceGrid_vec", "updateSequenceGrid", [I, TD, V, V], {"updateGrid": "updateGrid_vec"}),
    Wrapper("updateFourierGrid_ptr", "updateFourierGrid", [I, TD, P, P], {"updateGrid": "updateGrid_ptr"}),
    Wrapper("updateFourierGrid_vec", "updateFourierGrid", [I, TD, V, V], {"updateGrid": "updateGrid_vec"}),
    Wrapper("updateGrid_ptr", "updateGrid", [I, TD, P, P], {"updateGrid": "updateGrid_vec"}),
    Wrapper("updateGrid_vec", "updateGrid", [I, TD, V, V]),
    Wrapper("setAnisotropicRefinement_ptr", "setAnisotropicRefinement", [TD, I, I, P], {"setAnisotropicRefinement": "setAnisotropicRefinement_vec"}),
    Wrapper("setAnisotropicRefinement_vec", "setAnisotropicRefinement", [TD, I, I, V]),
    Wrapper("setSurplusRefinement_ptr", "setSurplusRefinement", [D, I, P], {"setSurplusRefinement": "setSurplusRefinement_vec"}),
    Wrapper("setSurplusRefinement_vec", "setSurplusRefinement", [D, I, V]),
    Wrapper("setSurplusRefinement_crit_ptr", "setSurplusRefinement", [D, TF, I, P, PD], {"setSurplusRefinement": "setSurplusRefinement_vec"}),
    Wrapper("setSurplusRefinement_crit_vec", "setSurplusRefinement", [D, TF, I, V, VD], {"setSurplusRefinement": "setSurplusRefinement_crit_ptr"}),
    Wrapper("clearRefinement", "clearRefinement", []),
    Wrapper("mergeRefinement", "mergeRefinement", []),
    Wrapper("loadNeededValues_ptr", "loadNeededValues", [PD]),
    Wrapper("loadNeededValues_vec", "loadNeededValues", [VD], {"loadNeededValues": "loadNeededValues_ptr"}),
    Wrapper("beginConstruction", "beginConstruction", [], {"clearRefinement": "clearRefinement"}),
    Wrapper("getCandidateConstructionPoints_aniso", "getCandidateConstructionPoints", [TD, V, V], ret="gvec"),
    Wrapper("getCandidateConstructionPoints_output", "getCandidateConstructionPoints", [TD, I, V], ret="gvec"),
    Wrapper("getCandidateConstructionPoints_surplus", "getCandidateConstructionPoints", [D, TF, I, V, VD], ret="gvec"),
    Wrapper("clear", "clear", []),
    Wrapper("setDomainTransform_vec", "setDomainTransform", [VD, VD]),
    Wrapper("clearDomainTransform", "clearDomainTransform", []),
]

MEMBER_PREDICATES = ["clear", "empty", "isGlobal", "isSequence", "isLocalPolynomial", "isWavelet", "isFourier",
                     "getNumDimensions", "getNumOutputs", "getNumLoaded", "getNumNeeded", "getNumPoints"]

def _last_arg(args):
    return X.split_top(args)[-1]

def rewrite_body(R, w, b, params):
    gvecs = [n for n, k in params if k == "gvec"]
    gptrs = [n for n, k in params if k == "gptr"]
    # R11: GPU-only blocks
    b = R.sub("R11-ifdef-gpu", r'#\s*ifdef\s+Tasmanian_ENABLE_GPU.*?#\s*endif[^\n]*', '', b, flags=re.S)
    # R9
    b = R.sub("R9-message", r'std::string\s+message\s*=\s*[^;]*;', '', b)
    b = R.sub("R9-throw-invalid_argument", r'\bthrow\s+std::invalid_argument\s*\((?:[^()"]|"(?:\\.|[^"\\])*"|\([^()]*\))*\)\s*;', '{ TSG_THROW(TSG_INVALID_ARGUMENT); return; }', b)
    b = R.sub("R9-throw-runtime_error", r'\bthrow\s+std::runtime_error\s*\((?:[^()"]|"(?:\\.|[^"\\])*"|\([^()]*\))*\)\s*;', '{ TSG_THROW(TSG_RUNTIME_ERROR); return; }', b)
    b = R.sub("R9-throw-other", r'\bthrow\b[^;]*;', '{ TSG_THROW(TSG_OTHER); return; }', b)
    if w.ret == "gvec":
        # the returned vector of points is a ghost descriptor handed back through ret_
        b = R.sub("R5g-local-vector", r'std::vector<double>\s+x\s*;', 'gvec x = gvec_empty();', b)
        b = R.sub("R5g-local-vector", r'\bauto\s+x\s*=', 'gvec x =', b)
        b = X.balanced_call_sub(R, "R10-member-call", b, r'(?<![\w>.:])formTransformedPoints\s*(?=\()', lambda m, a: "TSG_formTransformedPoints(self, x)")
        b = R.sub("R5g-return-vector", r'\breturn\s+x\s*;', '{ *ret_ = x; return; }', b)
    # ghost vectors / pointers
    for v in gvecs:
        b = R.sub("R5g-empty", r'\b%s\.empty\(\)' % v, '(%s.size == 0)' % v, b)
        b = R.sub("R5g-size", r'\b%s\.size\(\)' % v, '%s.size' % v, b)
        b = R.sub("R5g-data", r'\b%s\.data\(\)' % v, 'gvec_data(%s)' % v, b)
    for p in gptrs:
        b = R.sub("R5g-ptr-test", r'\b%s\s*!=\s*0\b' % p, '(!%s.null)' % p, b)
        b = R.sub("R5g-ptr-test", r'\b%s\s*==\s*0\b' % p, '(%s.null)' % p, b)
    b = R.sub("R2-nullptr", r'\bnullptr\b', 'gptr_null()', b)
    b = X.balanced_call_sub(R, "R2-std-move", b, r'\bstd::move\s*(?=\()', lambda m, a: a)
    b = X.balanced_call_sub(R, "R5g-copyArray", b, r'\bUtils::copyArray\s*(?=\()', lambda m, a: "gvec_copyArray(%s)" % a)
    b = X.balanced_call_sub(R, "R10-make_unique", b, r'\bUtils::make_unique<\s*(\w+)\s*>\s*(?=\()',
                            lambda m, a: "new_grid(self, K_%s, %s)" % (m.group(1), _last_arg(a)))
    def fam(m, a):
        return "%s_%s(self%s)" % (m.group(1), m.group(2), (", " + a) if a.strip() else "")
    b = X.balanced_call_sub(R, "R10-family-call", b, r'\bget<\s*(\w+)\s*>\(\)\s*->\s*(\w+)\s*(?=\()', fam)
    b = X.balanced_call_sub(R, "R10-base-call", b, r'\bbase\s*->\s*(\w+)\s*(?=\()',
                            lambda m, a: "base_%s(self%s)" % (m.group(1), (", " + a) if a.strip() else ""))
    # self-calls to other wrappers (overload chosen by the table, checked by arity at C compile time)
    for meth, tag in w.calls.items():
        b = X.balanced_call_sub(R, "R10-self-call", b, r'(?<![\w>.:])%s\s*(?=\()' % meth,
                                lambda m, a, tag=tag: "TSGW_%s(self%s)" % (tag, (", " + a) if a.strip() else ""))
    for mp in MEMBER_PREDICATES:
        b = R.sub("R10-member-call", r'(?<![\w>.:])%s\s*\(\s*\)' % mp, 'TSG_%s(self)' % mp, b)
    b = R.sub("R10-null-base", r'std::unique_ptr<BaseCanonicalGrid>\(\)', 'K_none', b)
    b = R.sub("R5g-temp-vector", r'std::vector<(?:int|double)>\(\)', 'gvec_empty()', b)
    b = R.sub("R5g-member-resize0", r'(?<![\w>.])(domain_transform_[ab])\.resize\(0\)', r'self->\1 = gvec_empty()', b)
    b = R.sub("R10-member", r'(?<![\w>.])(domain_transform_a|domain_transform_b|conformal_asin_power)\b', r'self->\1', b)
    b = R.sub("R10-member", r'(?<![\w>.])llimits\b', 'self->llimits', b)
    b = R.sub("R10-member", r'(?<![\w>.])using_dynamic_construction\b', 'self->using_dynamic_construction', b)
    b = R.sub("R10-member", r'(?<![\w>._])base\s*=(?!=)', 'self->base =', b)
    b = X.r1_qualifiers(R, b)
    # R9-propagate: a callee that can throw is followed by the early return the exception would cause
    b = R.sub("R9-propagate", r'((?:TSGW_\w+|Grid\w+_\w+|base_loadNeededValues|base_clearRefinement|base_mergeRefinement|base_beginConstruction)\((?:[^;])*\);)', r'\1 if (tsg_exc) return;', b)
    b = R.sub("R9-propagate", r'(self->base\s*=[^;]*;)', r'\1 if (tsg_exc) return;', b)
    return b

def emit(R, tags=None):
    text = X.strip_comments(X.read_source(CPP))
    out, info = [], {"functions": []}
    src_all, emi_all = [], []
    ws = [w for w in WRAPPERS if tags is None or w.tag in tags]
    headers = {}
    pieces = {}
    for w in WRAPPERS:
        (p,) = X.cut(CPP, _sig_regex(w.method, w.ptypes, w.ret), text)
        pl = p.header[p.header.index('(') + 1: p.header.rindex(')')]
        params = []
        cparams = []
        for d in (X.split_top(pl) if pl.strip() else []):
            c, kind = map_param(d)
            cparams.append(c); params.append((c.split()[-1], kind))
        headers[w.tag] = ("void TSGW_%s(TSG *self%s%s)" % (w.tag, "".join(", " + c for c in cparams), ", gvec *ret_" if w.ret == "gvec" else ""), params)
        pieces[w.tag] = p
    for w in WRAPPERS:
        out.append(headers[w.tag][0] + ";")
    for w in ws:
        p = pieces[w.tag]
        chdr, params = headers[w.tag]
        b = rewrite_body(R, w, p.body, params)
        X.check_leftover(chdr + b, w.tag)
        out.append('#line %d "%s"' % (p.line, X.REPO + "/" + p.rel))
        out.append(chdr + b)
        src_all.append(p.body); emi_all.append(b)
        info["functions"].append({"name": "TasmanianSparseGrid::%s [%s]" % (w.method, w.tag), "file": p.rel, "line": p.line, "loops": X.count_loops(b), "params": params, "ret": w.ret})
    info["fidelity"] = X.fidelity("\n".join(src_all), "\n".join(emi_all),
                                  extra_vocab=["string", "message", "to_string", "getRuleString", "invalid_argument", "runtime_error", "empty", "size", "data",
                                               "copyArray", "make_unique", "acceleration", "get", "base", "move", "llimits", "acc_domain", "reset", "Tasmanian_ENABLE_GPU", "ifdef", "endif",
                                               "GridGlobal", "GridSequence", "GridLocalPolynomial", "GridWavelet", "GridFourier", "0", "!=", "==", "+", "clear", "x", "auto", "vector", "double", "formTransformedPoints", "getNumDimensions", "return"], slack=110)
    info["rules_fired"] = {k: v for k, v in R.counts.items() if v}
    info["drops"] = ["contents of vector/array arguments (ghost descriptors: identity and length only)", "constructor arguments other than the level limits (new_grid keeps family and limits)",
                     "text of exception messages", "#ifdef Tasmanian_ENABLE_GPU blocks"]
    info["headers"] = headers
    return "\n".join(out) + "\n", info


def emit_copyGrid(R):
    """TasmanianSparseGrid::copyGrid(const TasmanianSparseGrid *source, int outputs_begin, int outputs_end) with a second ghost receiver."""
    text = X.strip_comments(X.read_source(CPP))
    (p,) = X.cut(CPP, r'void\s+TasmanianSparseGrid::copyGrid\s*\(\s*const\s+TasmanianSparseGrid\s*\*source\s*,\s*int\s+outputs_begin\s*,\s*int\s+outputs_end\s*\)', text)
    chdr = "void TSGW_copyGrid(TSG *self, const TSG *source, int outputs_begin, int outputs_end)"
    b = p.body
    b = X.balanced_call_sub(R, "R10-copy-ctor", b, r'\bUtils::make_unique<\s*(\w+)\s*>\s*(?=\()',
                            lambda m, a: "copy_grid(self, K_%s, source, outputs_begin, outputs_end)" % m.group(1))
    b = R.sub("R10-this", r'\bsource\s*==\s*this\b', 'source == self', b)
    b = R.sub("R10-local-grid", r'\bTasmanianSparseGrid\s+temp\s*;', 'TSG temp; tsg_default(&temp);', b)
    b = R.sub("R10-self-call", r'\btemp\.copyGrid\(\s*source\s*,\s*outputs_begin\s*,\s*outputs_end\s*\)', 'TSGW_copyGrid(&temp, source, outputs_begin, outputs_end)', b)
    b = R.sub("R10-self-call", r'(?<![\w>.:])copyGrid\(\s*&temp\s*\)', 'TSGW_copyGrid(self, &temp, 0, -1)', b)
    b = R.sub("R10-source-call", r'\bsource->(getNumOutputs|empty|isGlobal|isSequence|isLocalPolynomial|isWavelet|isFourier)\(\)', r'TSG_\1(source)', b)
    b = R.sub("R10-source-member", r'\bsource->domain_transform_a\.size\(\)', 'source->domain_transform_a.size', b)
    b = R.sub("R10-self-call", r'(?<![\w>.:])setDomainTransform\(\s*source->domain_transform_a\s*,\s*source->domain_transform_b\s*\)', 'TSGW_setDomainTransform_vec(self, source->domain_transform_a, source->domain_transform_b)', b)
    b = R.sub("R10-member-call", r'(?<![\w>.:])clear\s*\(\s*\)', 'TSG_clear(self)', b)
    b = R.sub("R10-member-call", r'(?<![\w>.:])getNumOutputs\s*\(\s*\)', 'TSG_getNumOutputs(self)', b)
    for mname in ("llimits", "using_dynamic_construction", "conformal_asin_power"):
        b = R.sub("R10-member", r'(?<![\w>.])%s\b' % mname, 'self->' + mname, b)
    b = R.sub("R10-member", r'(?<![\w>._])base\s*=(?!=)', 'self->base =', b)
    b = R.sub("R9-propagate", r'(self->base\s*=[^;]*;)', r'\1 if (tsg_exc) return;', b)
    X.check_leftover(chdr + b, "copyGrid")
    R.require({"R10-copy-ctor": 5, "R10-source-call": 7, "R10-member": 4})
    out = '#line %d "%s"\n%s%s\n' % (p.line, X.REPO + "/" + p.rel, chdr, b)
    return out, {"functions": [{"name": "TasmanianSparseGrid::copyGrid", "file": p.rel, "line": p.line, "loops": 0}], "rules_fired": {k: v for k, v in R.counts.items() if v},
                 "fidelity": X.fidelity(p.src_body, b, extra_vocab=["source", "make_unique", "acceleration", "get", "base", "clear", "empty", "getNumOutputs", "isGlobal", "isSequence", "isLocalPolynomial", "isWavelet", "isFourier",
                                                                    "GridGlobal", "GridSequence", "GridLocalPolynomial", "GridWavelet", "GridFourier", "domain_transform_a", "domain_transform_b", "size", "setDomainTransform",
                                                                    "llimits", "using_dynamic_construction", "conformal_asin_power", "outputs_begin", "outputs_end"], slack=30)}
