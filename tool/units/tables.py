"""Extraction of OneDimensionalMeta::getNumPoints / getIExact / getQExact
(SparseGrids/tsgCoreOneDimensional.cpp), the TypeOneDRule enum (tsgEnumerates.hpp)
and Maths::pow2/pow3."""
import re
from .. import tsg2c as X
CPP = "SparseGrids/tsgCoreOneDimensional.cpp"
ENUMS = "SparseGrids/tsgEnumerates.hpp"
MATH = "SparseGrids/tsgMathUtils.hpp"

def cut_enum(name, R):
    text = X.strip_comments(X.read_source(ENUMS))
    (p,) = X.cut(ENUMS, r'enum\s+%s\s*' % name, text)
    R.counts["R3-enum"] = R.counts.get("R3-enum", 0) + 1
    return '#line %d "%s"\n' % (p.line, X.REPO + "/" + p.rel) + p.header + p.body + ";\ntypedef enum %s %s;\n" % (name, name), p

def emit(R, funcs=("getNumPoints", "getIExact", "getQExact"), contracts=None):
    contracts = contracts or {}
    out = ['#include "tsg_shim.h"']
    info = {"functions": []}
    etxt, ep = cut_enum("TypeOneDRule", R)
    out.append(etxt)
    mtext = X.strip_comments(X.read_source(MATH))
    src, emi = [], []
    for f in ("pow2", "pow3"):
        (p,) = X.cut(MATH, r'inline\s+int\s+%s\s*\(\s*int\s+\w+\s*\)' % f, mtext)
        h = R.sub("R2-inline", r'\binline\s+', 'static ', p.header)
        out.append('#line %d "%s"' % (p.line, X.REPO + "/" + p.rel))
        out.append(X.splice(h, p.body, contracts.get(f)))
        src.append(p.header + p.body); emi.append(h + p.body)
        info["functions"].append({"name": "Maths::" + f, "file": p.rel, "line": p.line, "loops": X.count_loops(p.body)})
    text = X.strip_comments(X.read_source(CPP))
    pieces = []
    for f in funcs:
        (p,) = X.cut(CPP, r'int\s+OneDimensionalMeta::%s\s*\(\s*int\s+level\s*,\s*TypeOneDRule\s+rule\s*\)' % f, text)
        p.name = f
        pieces.append(p)
    for p in pieces:
        out.append("int %s(int level, TypeOneDRule rule);" % p.name)
    for p in pieces:
        h = X.r1_qualifiers(R, p.header); b = X.r1_qualifiers(R, p.body)
        b = X.r2_casts(R, b)
        X.check_leftover(h + b, p.name)
        out.append('#line %d "%s"' % (p.line, X.REPO + "/" + p.rel))
        out.append(X.splice(h, b, contracts.get(p.name)))
        src.append(p.header + p.body); emi.append(h + b)
        info["functions"].append({"name": "OneDimensionalMeta::" + p.name, "file": p.rel, "line": p.line, "loops": X.count_loops(b)})
    R.require({"R1-qualifier": 5, "R3-enum": 1})
    info["fidelity"] = X.fidelity("\n".join(src), "\n".join(emi))
    info["rules_fired"] = {k: v for k, v in R.counts.items() if v}
    return "\n".join(out) + "\n", info
