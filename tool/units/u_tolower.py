"""Unit C07: HierarchyManipulations::completeToLower<effrule> -- the body of the loop over the refined points (block selector): a parent or step-parent is
added to the refinement only if it is in neither the refined set nor the loaded set (needed and loaded stay disjoint), and every such index is added."""
import re
from .. import tsg2c as X
from ..runner import Job
from .. import replay as RP
CPP = "SparseGrids/tsgHierarchyManipulator.cpp"

def emit(R):
    text = X.strip_comments(X.read_source(CPP))
    (p,) = X.cut(CPP, r'template<RuleLocal::erule\s+effrule>\s*void\s+completeToLower\s*\(\s*MultiIndexSet\s+const\s*&mset\s*,\s*MultiIndexSet\s*&refined\s*\)', text)
    body = p.body
    m = re.search(r'for\s*\(\s*int\s+i\s*=\s*0\s*;\s*i\s*<\s*num_points\s*;\s*i\+\+\s*\)\s*(?=\{)', body)
    if not m:
        raise X.ExtractionBreak("completeToLower: the loop over the refined points was not found")
    e = X.match_close(body, m.end())
    src = body[m.end():e + 1]
    line = p.line + body[:m.end()].count("\n")
    b = src
    b = R.sub("R5-range-ctor", r'std::vector<int>\s+parent\s*\(\s*refined\.getIndex\(\s*i\s*\)\s*,\s*refined\.getIndex\(\s*i\s*\)\s*\+\s*num_dimensions\s*\)\s*;', 'int parent[TSG_ND]; gset_copy_index(parent, i, num_dimensions);', b)
    mf = re.search(r'for\s*\(\s*auto\s*&\s*p\s*:\s*parent\s*\)\s*(?=\{)', b)
    if not mf:
        raise X.ExtractionBreak("completeToLower: the by-reference loop over the entries of the index was not found")
    fe = X.match_close(b, mf.end())
    inner = b[mf.end():fe + 1]
    inner = R.sub("R6-ref-element", r'(?<![\w.>])p\b', '(*tsg_p)', inner)
    b = b[:mf.start()] + "for (size_t tsg_k = 0; tsg_k < num_dimensions; tsg_k++) { int *tsg_p = &parent[tsg_k]; " + inner + " }" + b[fe + 1:]
    R.counts["R6-range-for-ref"] = R.counts.get("R6-range-for-ref", 0) + 1
    b = R.sub("R3-template-call", r'RuleLocal::(getParent|getStepParent)\s*<\s*effrule\s*>\s*\(', r'tsg_\1(', b)
    b = R.sub("R12g-missing", r'\brefined\.missing\(\s*parent\s*\)', 'gset_missing(0, parent, num_dimensions)', b)
    b = R.sub("R12g-missing", r'\bmset\.missing\(\s*parent\s*\)', 'gset_missing(1, parent, num_dimensions)', b)
    b = R.sub("R12g-append", r'\baddons\.appendStrip\(\s*parent\s*\)', 'gh_append(parent, num_dimensions)', b)
    X.check_leftover(b, "completeToLower point block")
    R.require({"R5-range-ctor": 1, "R3-template-call": 2, "R12g-missing": 2, "R12g-append": 2, "R6-ref-element": 4})
    info = {"functions": [{"name": "HierarchyManipulations::completeToLower<effrule> (block: one refined point)", "file": p.rel, "line": line, "loops": X.count_loops(b)}],
            "rules_fired": {k: v for k, v in R.counts.items() if v},
            "fidelity": X.fidelity(src, b, extra_vocab=["std", "vector", "int", "parent", "refined", "getIndex", "num_dimensions", "auto", "p", "RuleLocal", "getParent", "getStepParent", "effrule", "missing", "mset", "addons", "appendStrip", "&", ":"], slack=30),
            "drops": ["everything outside the loop body over the refined points (the repeat-until-nothing-added loop, `refined += addons`)", "the index sets are ghost sets: membership is an arbitrary but fixed function of the index"]}
    return '#line %d "%s"\nvoid completeToLower_point(int i, size_t num_dimensions)%s\n' % (line, X.REPO + "/" + p.rel, b), info

HARNESS = r'''
#ifndef TSG_ND
#define TSG_ND 2
#endif
int g_point[TSG_ND];                       /* the refined point under the loop */
int g_par[TSG_ND], g_step[TSG_ND];         /* parent and step-parent of each entry (any values >= -1) */
bool g_miss[2][TSG_ND][2];                 /* membership answers: [set: 0 refined, 1 loaded][direction][0 parent, 1 step-parent] */
int g_cur_dir, g_cur_kind;                 /* which candidate the block is looking at (derived from the index it passes) */
bool g_asked[2]; bool g_answer[2];
int g_appended, g_expected; bool g_bad_append;
int tsg_getParent(int r){ for (int d = 0; d < TSG_ND; d++) if (g_point[d] == r) return g_par[d]; return -1; }
int tsg_getStepParent(int r){ for (int d = 0; d < TSG_ND; d++) if (g_point[d] == r) return g_step[d]; return -1; }
void gset_copy_index(int *dst, int i, size_t nd){ for (size_t d = 0; d < TSG_ND; d++) if (d < nd) dst[d] = g_point[d]; }
/* identify the candidate: exactly one entry differs from the point and equals the parent or the step-parent of that entry */
static bool identify(const int *idx, size_t nd){
  int dir = -1, cnt = 0;
  for (size_t d = 0; d < TSG_ND; d++) if (d < nd && idx[d] != g_point[d]) { dir = (int) d; cnt++; }
  if (cnt != 1) return false;
  if (idx[dir] == g_par[dir]) { g_cur_dir = dir; g_cur_kind = 0; return true; }
  if (idx[dir] == g_step[dir]) { g_cur_dir = dir; g_cur_kind = 1; return true; }
  return false;
}
bool gset_missing(int set, const int *idx, size_t nd){
  bool ok = identify(idx, nd);
  __CPROVER_assert(ok, "C07 completeToLower asks about the point with ONE entry replaced by its parent or step-parent");
  g_asked[set] = true; g_answer[set] = ok ? g_miss[set][g_cur_dir][g_cur_kind] : false;
  return g_answer[set];
}
void gh_append(const int *idx, size_t nd){
  bool ok = identify(idx, nd);
  __CPROVER_assert(ok, "C07 completeToLower adds the point with ONE entry replaced by its parent or step-parent");
  if (ok) {
    __CPROVER_assert(g_miss[1][g_cur_dir][g_cur_kind], "C07 completeToLower never adds an index that is already loaded (loaded and needed points stay disjoint)");
    __CPROVER_assert(g_miss[0][g_cur_dir][g_cur_kind], "C07 completeToLower never adds an index that is already in the refinement");
    __CPROVER_assert(idx[g_cur_dir] != -1, "C07 completeToLower never adds the 'no parent' marker as an index");
  }
  g_appended++;
}
'''
TAIL = r'''
void h_tolower(void){
  size_t a_nd = nondet_size_t(); __CPROVER_assume(a_nd >= 1 && a_nd <= TSG_ND);
  for (int d = 0; d < TSG_ND; d++) { g_point[d] = nondet_int(); g_par[d] = nondet_int(); g_step[d] = nondet_int();
    __CPROVER_assume(g_point[d] >= 0 && g_point[d] < 1000 && g_par[d] >= -1 && g_par[d] < g_point[d] && g_step[d] >= -1 && g_step[d] < g_point[d] && (g_step[d] == -1 || g_step[d] != g_par[d]));
    for (int s = 0; s < 2; s++) for (int k = 0; k < 2; k++) g_miss[s][d][k] = nondet_bool(); }
  /* distinct entries so that an entry identifies its direction in the rule stubs */
  for (int d = 0; d < TSG_ND; d++) for (int q = 0; q < d; q++) __CPROVER_assume(g_point[d] != g_point[q]);
  g_appended = 0;
  completeToLower_point(0, a_nd);
  int expect = 0;
  for (size_t d = 0; d < TSG_ND; d++) if (d < a_nd) {
    if (g_par[d] != -1 && g_miss[0][d][0] && g_miss[1][d][0]) expect++;
    if (g_step[d] != -1 && g_miss[0][d][1] && g_miss[1][d][1]) expect++; }
  __CPROVER_assert(g_appended == expect, "C07 completeToLower adds exactly the parents and step-parents that are in neither set (the refinement becomes lower complete, nothing is proposed twice)");
  __CPROVER_assert(0, "VACUITY-CANARY");
}
'''
REPLAY = r'''
/* On the real library: local polynomial grids of every rule and several orders, stable refinement after loading; the needed points must be disjoint from the loaded ones
 * and after loading them every stored value must sit at the point it was computed for. */
int main_replay(){
  using namespace TasGrid;
  int bad = 0;
  for (auto rule : {rule_localp, rule_semilocalp, rule_localp0, rule_localpb}) for (int order : {0, 1, 2}) {
    TasmanianSparseGrid g = makeLocalPolynomialGrid(2, 1, 2, order, rule);
    auto f = [](double a, double b)->double{ return std::exp(-3.0 * (a - 0.3) * (a - 0.3) - 2.0 * (b + 0.4) * (b + 0.4)); };
    for (int round = 0; round < 3; round++) {
      std::vector<double> p = g.getNeededPoints(), v(g.getNumNeeded());
      for (size_t i = 0; i < v.size(); i++) v[i] = f(p[2*i], p[2*i+1]);
      int before = g.getNumLoaded(), nn = g.getNumNeeded();
      if (before > 0) { std::vector<double> l = g.getLoadedPoints(); int dup = 0;
        for (int i = 0; i < nn; i++) for (int j = 0; j < before; j++) if (std::abs(p[2*i] - l[2*j]) < 1.E-12 && std::abs(p[2*i+1] - l[2*j+1]) < 1.E-12) dup++;
        if (dup) { std::printf("rule %d order %d round %d: %d of the %d needed points are already loaded\n", (int) rule, order, round, dup, nn); bad++; } }
      if (nn > 0) g.loadNeededValues(v);
      if (g.getNumLoaded() != before + nn) { std::printf("rule %d order %d round %d: %d loaded points after loading %d needed on top of %d\n", (int) rule, order, round, g.getNumLoaded(), nn, before); bad++; }
      std::vector<double> l = g.getLoadedPoints(); const double *s = g.getLoadedValues(); int miss = 0;
      for (int i = 0; i < g.getNumLoaded(); i++) if (std::abs(s[i] - f(l[2*i], l[2*i+1])) > 1.E-12) miss++;
      if (miss) { std::printf("rule %d order %d round %d: %d stored values are not the model value of their point\n", (int) rule, order, round, miss); bad++; }
      g.setSurplusRefinement(1.E-3, refine_stable);
    }
  }
  __CPROVER_assert(bad == 0, "C07 stable refinement proposes only points that are not loaded; values stay attached to their points");
  return 0;
}
'''
def replay(prop):
    def rp(job, ob, vals, wd):
        hdr = "Replay through the public API of the real library.\nproperty %s job %s\nobligation %s: %s\nat %s" % (prop, job.name, ob["name"], ob["description"], ob["location"])
        return RP.write_and_run(prop, job.name + "." + ob["name"], hdr, ['"TasmanianSparseGrid.hpp"', '<cmath>'], REPLAY, "  main_replay();", lib="sg", timeout=120)
    return rp

def jobs(tier, seed, prop):
    R = X.Rules()
    t, info = emit(R)
    nd = 2 if tier == "quick" else 3
    src = '#include "tsg_shim.h"\nint tsg_exc;\n#define TSG_ND %d\n' % nd + HARNESS + t + TAIL
    return [Job("tolower.point_block", src, "h_tolower", unwind=nd + 2, timeout=300, backends=[[], ["--sat-solver", "cadical"]],
                functions=["%s:%d %s" % (f["file"], f["line"], f["name"]) for f in info["functions"]], info=info, replay=replay(prop),
                bounded="dimensions <= %d (full unwinding); any point, any parents / step-parents, any membership answers" % nd,
                assumed=["RuleLocal::getParent / getStepParent return any smaller index or -1 (their own lemmas: u_hier)", "set membership is an arbitrary fixed function of the index; the union `refined += addons` and the outer loop are outside the block"],
                label="completeToLower, one refined point: adds exactly the parents / step-parents that are neither loaded nor already in the refinement")]
