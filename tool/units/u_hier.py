"""Unit K1/L7: integer hierarchy of the local polynomial rules."""
import re
from .. import tsg2c as X
from ..runner import Job
from ..contractfile import ContractFile
from .. import replay as RP
from . import rulelocal

INT_FUNCS = ["getNumPoints", "getMaxNumKids", "getMaxNumParents", "getParent", "getStepParent", "getKid", "getLevel"]
PARAMS = {   # rule: (NK, N0, LMAX)
    "localp": (2, 1, 29), "semilocalp": (2, 1, 29), "localp0": (2, 1, 29), "localpb": (2, 2, 29), "pwc": (4, 1, 19),
}

def name_map(rule):
    out = []
    for f in rulelocal.FUNCS:
        out.append("#define %s_%s TasGrid::RuleLocal::%s<TasGrid::RuleLocal::erule::%s>" % (f, rule, f, rule))
    for f in rulelocal.MATHF:
        out.append("#define %s TasGrid::Maths::%s" % (f, f))
    return "\n".join(out) + "\n"

def make_replay(prop, rule, lemma_name, lemma_text, argnames):
    def rp(job, ob, vals, wd):
        args = []
        for a in argnames:
            if a not in vals:
                return None, None, "no value for %s in the trace" % a
            args.append(RP.cxx_double(vals[a]))
        hdr = ("Replay of a failed obligation against the real code.\nproperty %s, unit job %s\nobligation %s: %s\nat %s\n"
               "inputs from CBMC's counterexample: %s" % (prop, job.name, ob["name"], ob["description"], ob["location"],
                                                         ", ".join("%s=%s" % (a, vals[a]) for a in argnames)))
        return RP.write_and_run(prop, job.name + "." + ob["name"], hdr, ['"tsgRuleLocalPolynomial.hpp"'],
                                name_map(rule) + lemma_text, "  %s(%s);" % (lemma_name, ", ".join(args)))
    return rp

def jobs(tier, seed, prop):
    out = []
    R = X.Rules()
    cf0 = ContractFile("contracts/rulelocal_hier.c", {"R": "localp", "PMAX": "0", "NK": "2", "LMAX": "1", "N0": "1"})
    # --- the integer helpers against their own contracts (width-bounded loops: complete unwinding)
    ctext, info = rulelocal.emit(R, rules=["localp"], funcs=INT_FUNCS, contracts=cf0.contracts())
    fn_list = ["%s:%d %s" % (f["file"], f["line"], f["name"]) for f in info["functions"]]
    for f, unw in (("intlog2", 33), ("int2log2", 33), ("int3log3", 22), ("pow3", 21)):
        out.append(Job("hier.%s" % f, ctext + "\nint tsg_exc;\n" + cf0.text(("harness",), ["h_" + f]), "h_" + f,
                       enforce=f, pre_unwindset={re.escape(f): unw}, timeout=120,
                       functions=[x for x in fn_list if x.endswith(" " + f)], info=info,
                       label="contract of Maths::%s enforced on its body (loop unwound to operand width, unwinding assertion on)" % f))
    rules = ["localp", "semilocalp", "localp0", "localpb", "pwc"]
    for rule in rules:
        nk, n0, lmax = PARAMS[rule]
        if rule == "pwc":
            pmax = 59049 if tier == "quick" else 4782969      # 3^10 / 3^14 (slow /3,%3 arithmetic, DESIGN 2.5)
            bounded = "point index < %d (ternary hierarchy; solver time)" % pmax
        else:
            pmax = "(1 << 29)"
            bounded = None
        cf = ContractFile("contracts/rulelocal_hier.c", {"R": rule, "PMAX": pmax, "NK": nk, "LMAX": lmax, "N0": n0})
        R2 = X.Rules()
        ctext, info = rulelocal.emit(R2, rules=[rule], funcs=INT_FUNCS)
        fn_list = ["%s:%d %s<%s>" % (f["file"], f["line"], f["name"], rule) for f in info["functions"]]
        info["rules_fired"] = {k: v for k, v in R2.counts.items() if v}
        for lem, args in (("lemma_hier_%s" % rule, ["a_p", "a_kn"]), ("lemma_numpoints_%s" % rule, ["a_l"])):
            ltxt = cf.text(("lemma",), [lem])
            out.append(Job("hier.%s" % lem, ctext + "\nint tsg_exc;\n" + ltxt + cf.text(("harness",), ["h_" + lem]), "h_" + lem,
                           enforce=lem, pre_unwindset={r'intlog2|int2log2': 33, r'int3log3': 22, r'getNumPoints_pwc|getLevel_pwc': 22},
                           timeout=1500 if rule == "pwc" else 240,
                           backends=[[], ["--sat-solver", "cadical"]] if rule == "pwc" else [[]],
                           bounded=bounded if lem.startswith("lemma_hier") else None,
                           functions=fn_list, info=info,
                           replay=make_replay(prop, rule, lem, ltxt, args),
                           label="lemma %s over the extracted bodies" % lem))
    return out
