"""Unit C15: SampleDREAM (F13 index safety, F14 per-iteration contract, F15 bookkeeping)."""
import re
from .. import tsg2c as X
from ..runner import Job
from ..contractfile import ContractFile
from .. import replay as RP
from . import dream, tables

REPLAY_F13 = r'''
/* One real SampleDREAM iteration with a random source that returns CBMC's two draws for the
 * failing chain (0 for every other draw), compiled with AddressSanitizer: an out-of-range
 * chain index is a heap-buffer-overflow in TasmanianDREAM::getIJKdelta. */
int main_replay(){
  size_t n = @N@; size_t ichain = @I@;
  double r1 = @R1@, r2 = @R2@;
  TasDREAM::TasmanianDREAM state((int) n, 1);
  std::vector<double> init(n, 0.25);
  state.setState(init);
  size_t calls = 0;
  auto rng = [&]()->double{ size_t c = calls++; if (c == 2*ichain) return r1; if (c == 2*ichain + 1) return r2; return 0.0; };
  TasDREAM::SampleDREAM<TasDREAM::regform>(0, 1,
      [](const std::vector<double> &c, std::vector<double> &v){ for(auto &x : v) x = 1.0; },
      [](const std::vector<double> &)->bool{ return true; },
      state, TasDREAM::no_update, TasDREAM::const_one, rng);
  std::printf("completed without a sanitizer report (draws %g %g, %zu chains)\n", r1, r2, n);
  return 0;
}
'''

def replay_f13(prop):
    def rp(job, ob, vals, wd):
        need = ["a_num_chains", "a_i", "a_r1", "a_r2"]
        if any(k not in vals for k in need):
            return None, None, "no inputs in the trace"
        n = int(vals["a_num_chains"]); i = int(vals["a_i"])
        note = ""
        if n > 4096:
            note = " (CBMC chose %d chains; the replay uses 4 chains and chain %d with the same draws)" % (n, i % 4)
            n, i = 4, i % 4
        hdr = ("Replay against the real code.\nproperty %s job %s\nobligation %s: %s\nat %s\ncounterexample: num_chains=%s i=%s draws r1=%s r2=%s%s"
               % (prop, job.name, ob["name"], ob["description"], ob["location"], vals["a_num_chains"], vals["a_i"], vals["a_r1"], vals["a_r2"], note))
        body = REPLAY_F13.replace("@N@", str(n)).replace("@I@", str(i)).replace("@R1@", RP.cxx_double(vals["a_r1"])).replace("@R2@", RP.cxx_double(vals["a_r2"]))
        return RP.write_and_run(prop, job.name + "." + ob["name"], hdr, ['"TasmanianDREAM.hpp"'], body, "  return main_replay();",
                                flags=["-fsanitize=address", "-fno-omit-frame-pointer"], lib="dream")
    return rp

def jobs(tier, seed, prop):
    out = []
    cf = ContractFile("contracts/dream.c")
    # enum TypeSamplingForm, extracted
    etext = X.strip_comments(X.read_source("DREAM/tsgDreamEnumerates.hpp"))
    (ep,) = X.cut("DREAM/tsgDreamEnumerates.hpp", r'enum\s+TypeSamplingForm\s*', etext)
    enum_c = '#line %d "%s"\n%s%s;\n' % (ep.line, X.REPO + "/" + ep.rel, ep.header, ep.body)
    pre = '#include "tsg_shim.h"\nint tsg_exc;\n' + enum_c
    # --- F13 block, unbounded in the number of chains
    R = X.Rules()
    stext, sinfo = dream.emit_sample(R, "regform")
    m = re.search(r'size_t\s+jindex\s*=.*?TasmanianDREAM_getIJKdelta\([^;]*\);', stext, re.S)
    if not m:
        raise X.ExtractionBreak("F13 block (jindex ... getIJKdelta call) not found in SampleDREAM")
    block = m.group(0).replace("\n", " ")
    fl = ["%s:%d %s" % (f["file"], f["line"], f["name"]) for f in sinfo["functions"]]
    sinfo["rules_fired"] = {k: v for k, v in R.counts.items() if v}
    f13 = (pre + "#define cb_get_random01 cb13_get_random01\n#define cb_differential_update() 0.0\n"
           "#define TasmanianDREAM_getIJKdelta(st, i, j, k, w, x, n) F13_getIJKdelta(i, j, k)\n"
           "#define F13_BLOCK " + block + "\n" + cf.text(("harness",), ["h_F13_block"]))
    out.append(Job("dream.F13_block", f13, "h_F13_block", timeout=300, functions=fl, info=sinfo,
                   backends=[[], ["--refine-arithmetic"]], replay=replay_f13(prop),
                   label="chain-index computation block of SampleDREAM (jindex/kindex clamp up to the getIJKdelta call), any number of chains <= 2^40, any draws in the closed [0,1]"))
    # --- full body, both forms, bounded harness
    nch, ndim, nit = (3, 1, 2) if tier == "quick" else (3, 2, 2)
    forms = ["regform", "logform"]
    for fi, form in enumerate(forms):
        R2 = X.Rules()
        st, inf = dream.emit_sample(R2, form, abstract_fp=True)
        inf["rules_fired"] = {k: v for k, v in R2.counts.items() if v}
        ctext = (pre + "#define TSG_NCH %d\n#define TSG_NDIM %d\n#define TSG_NITER %d\n#define TSG_FORM %d\n#define TSG_SAMPLE SampleDREAM_%s\n"
                 % (nch, ndim, nit, fi, form) + '#line 1 "/verif/contracts/dream.c"\n' + cf.text(("text",)) + st + cf.text(("harness",), ["h_SampleDREAM"]))
        out.append(Job("dream.SampleDREAM_%s" % form, ctext, "h_SampleDREAM", unwind=max(nch * ndim, nit) + 2,  timeout=600 if tier == "quick" else 2400,
                       backends=[["--refine-arithmetic"], []], functions=["%s:%d %s" % (f["file"], f["line"], f["name"]) for f in inf["functions"]], info=inf,
                       bounded="chains <= %d, dimensions <= %d, iterations <= %d (full unwinding with unwinding assertions)" % (nch, ndim, nit),
                       assumed=["TasmanianDREAM small members (getNumChains, getNumDimensions, isStateReady, isPDFReady, getPDFvalue, getChainState, expandHistory, setState, setPDFvalues, saveStateHistory) are modelled by the stubs in contracts/dream.c; only getIJKdelta is enforced on its body",
                                "R13: the multiplication draw*num_chains, the ratio and the log-difference of the acceptance test are uninterpreted deterministic functions in this job (proved for every interpretation, IEEE included); the F13 block job keeps IEEE arithmetic",
                                "callbacks: random source returns any double in the closed [0,1]; pdf / domain test / updates / log return arbitrary values"],
                       label="SampleDREAM<%s> extracted body against the ghost accept/reject contract (F14) and bookkeeping (F15)" % form))
    # --- getIJKdelta body against its contract
    R3 = X.Rules()
    gt, ginf = dream.emit_state_fn(R3, "getIJKdelta", contract=cf.contracts()["TasmanianDREAM_getIJKdelta"])
    ginf["rules_fired"] = {k: v for k, v in R3.counts.items() if v}
    ctext = (pre + "#define DREAM_GETIJK_BODY 1\n#define TSG_NITER 1\n#define TSG_FORM 0\n#define TSG_SAMPLE(a,b,c)\n" + cf.text(("text",)) + gt + cf.text(("harness",), ["h_getIJKdelta"]))
    out.append(Job("dream.getIJKdelta", ctext, "h_getIJKdelta", enforce="TasmanianDREAM_getIJKdelta",
                   pre_unwindset={r'tsg_copy_n_double': 4, r'TasmanianDREAM_getIJKdelta': 4}, timeout=300,
                   functions=["%s:%d %s" % (f["file"], f["line"], f["name"]) for f in ginf["functions"]], info=ginf,
                   bounded="chains <= 3, dimensions <= 2 (state array of the receiver struct)",
                   label="TasmanianDREAM::getIJKdelta body: memory-safe under the index precondition that F13 establishes"))
    # --- the small state members against their own contracts
    R4 = X.Rules()
    parts, fns = [], []
    for w in ("setState", "setPDFvalues", "saveStateHistory"):
        t_, i_ = dream.emit_state_fn(R4, w)
        parts.append(t_); fns += i_["functions"]
    minfo = {"functions": fns, "rules_fired": {k: v for k, v in R4.counts.items() if v}}
    t2 = [t for k, a, t in cf.sections if k == "text2"][0]
    ctext = (pre + "#define TSG_NITER 1\n#define TSG_FORM 0\n#define TSG_SAMPLE(a,b,c)\n#define DREAM_MEMBERS_BODY 1\n" + '#line 1 "/verif/contracts/dream.c"\n' + cf.text(("text",)) + t2 + "".join(parts) + cf.text(("harness",), ["h_state_members"]))
    out.append(Job("dream.state_members", ctext, "h_state_members", unwind=8, timeout=300, backends=[["--refine-arithmetic"], []],
                   functions=["%s:%d %s" % (f["file"], f["line"], f["name"]) for f in fns], info=minfo,
                   bounded="chains <= 3, dimensions <= 2",
                   label="TasmanianDREAM::setState / setPDFvalues / saveStateHistory bodies against the contracts the SampleDREAM stubs assume"))
    return out
