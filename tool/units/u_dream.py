"""Unit C15: SampleDREAM (F13 index safety, F14 per-iteration contract, F15 bookkeeping)."""
import re
from .. import tsg2c as X
from ..runner import Job
from ..contractfile import ContractFile
from .. import replay as RP
from . import dream, tables

REPLAY_F13 = r'''
/* One real SampleDREAM iteration with a random source that returns CBMC's two draws for the
 * failing chain (0 for every other draw), compiled with AddressSanitizer: an out-of-range
 * chain index is a heap-buffer-overflow in TasmanianDREAM::getIJKdelta. */
int main_replay(){
  size_t n = @N@; size_t ichain = @I@;
  double r1 = @R1@, r2 = @R2@;
  TasDREAM::TasmanianDREAM state((int) n, 1);
  std::vector<double> init(n, 0.25);
  state.setState(init);
  size_t calls = 0;
  auto rng = [&]()->double{ size_t c = calls++; if (c == 2*ichain) return r1; if (c == 2*ichain + 1) return r2; return 0.0; };
  TasDREAM::SampleDREAM<TasDREAM::regform>(0, 1,
      [](const std::vector<double> &c, std::vector<double> &v){ for(auto &x : v) x = 1.0; },
      [](const std::vector<double> &)->bool{ return true; },
      state, TasDREAM::no_update, TasDREAM::const_one, rng);
  std::printf("completed without a sanitizer report (draws %g %g, %zu chains)\n", r1, r2, n);
  return 0;
}
'''

REPLAY_FULL = r'''
/* The real SampleDREAM (both forms) with scripted callbacks; checks taken from the property statement:
 *  (1) a run appends exactly max(num_collect,0) x chains samples (CBMC's burn-up / collect counts and a few more),
 *  (2) recorded samples pass the domain test and their recorded values are the probability function there,
 *  (3) with a constant probability and an acceptance draw of exactly 1 (ratio 1 >= 1, difference 0 >= log 1) every chain moves,
 *  (4) two consecutive runs equal one run of the combined length. */
static const int NCH = 4;
template<TasDREAM::TypeSamplingForm form> int scenario(int burnup, int collect, bool constant_pdf){
  int bad = 0;
  auto pdfv = [&](double x)->double{ double v = constant_pdf ? 1.0 : std::exp(-x * x); return (form == TasDREAM::logform) ? std::log(v) : v; };
  auto pdf = [&](const std::vector<double> &c, std::vector<double> &v)->void{ for (size_t i = 0; i < v.size(); i++) v[i] = pdfv(c[i]); };
  auto inside = [&](const std::vector<double> &x)->bool{ return x[0] > -3.0 && x[0] < 3.0; };
  auto run = [&](TasDREAM::TasmanianDREAM &st, int b, int c, size_t &calls)->void{
    auto rng = [&]()->double{ size_t k = calls++ % (3 * NCH); if (k < 2 * NCH) return (k % 2 == 0) ? 0.0 : 0.5; return constant_pdf ? 1.0 : 0.3; };
    TasDREAM::SampleDREAM<form>(b, c, pdf, inside, st, TasDREAM::no_update, TasDREAM::const_one, rng);
  };
  TasDREAM::TasmanianDREAM st(NCH, 1);
  std::vector<double> init(NCH); for (int i = 0; i < NCH; i++) init[i] = 0.1 * (i + 1) * (i + 1);
  st.setState(init);
  size_t calls = 0;
  run(st, burnup, collect, calls);
  size_t expect = (collect > 0 ? (size_t) collect : 0) * NCH;
  if (st.getNumHistory() != expect) { std::printf("burnup %d collect %d: %zu samples recorded, expected %zu\n", burnup, collect, st.getNumHistory(), expect); bad++; }
  const std::vector<double> &h = st.getHistory(); const std::vector<double> &hp = st.getHistoryPDF();
  for (size_t i = 0; i < hp.size() && i < h.size(); i++) {
    if (!inside(std::vector<double>{h[i]})) { std::printf("recorded sample %g is outside the domain\n", h[i]); bad++; }
    if (hp[i] != pdfv(h[i])) { std::printf("recorded value %g is not the probability function at the sample (%g)\n", hp[i], pdfv(h[i])); bad++; }
  }
  if (constant_pdf && burnup + collect > 0 && burnup >= 0 && collect >= 0) {
    TasDREAM::TasmanianDREAM s1(NCH, 1); s1.setState(init); size_t c1 = 0;
    run(s1, 0, 1, c1);
    const std::vector<double> &h1 = s1.getHistory();
    for (int i = 0; i < NCH && (size_t) i < h1.size(); i++) if (h1[i] == init[i]) { std::printf("chain %d did not move although the ratio equals the draw (accept when ratio >= draw)\n", i); bad++; }
  }
  if (burnup >= 0 && collect >= 1) {     /* split: (burnup, collect) == (burnup, 1) then (0, collect - 1) */
    TasDREAM::TasmanianDREAM s2(NCH, 1); s2.setState(init); size_t c2 = 0;
    run(s2, burnup, 1, c2); run(s2, 0, collect - 1, c2);
    if (s2.getHistory() != st.getHistory() || s2.getHistoryPDF() != st.getHistoryPDF()) { std::printf("burnup %d collect %d: two consecutive runs differ from one run of the combined length\n", burnup, collect); bad++; }
  }
  return bad;
}
int main_replay(){
  int bad = 0;
  int cases[][2] = {{@BURN@, @COLL@}, {0, 3}, {2, 2}, {-2, 3}, {3, -2}, {-1, -1}, {0, 0}};
  for (auto &c : cases) for (int k = 0; k < 2; k++) {
    if (c[0] > 1000 || c[1] > 1000 || c[0] < -1000000 || c[1] < -1000000) continue;
    bad += scenario<TasDREAM::regform>(c[0], c[1], k == 1);
    bad += scenario<TasDREAM::logform>(c[0], c[1], k == 1);
  }
  __CPROVER_assert(bad == 0, "C15 sample counts, recorded values, acceptance at equality and run splitting hold on the real SampleDREAM");
  return 0;
}
'''
def replay_full(prop):
    def rp(job, ob, vals, wd):
        b, c = vals.get("a_burnup", "1"), vals.get("a_collect", "2")
        hdr = ("Replay against the real code (scripted scenarios + CBMC's iteration counts).\nproperty %s job %s\nobligation %s: %s\nat %s\ncounterexample: num_burnup=%s num_collect=%s"
               % (prop, job.name, ob["name"], ob["description"], ob["location"], b, c))
        body = REPLAY_FULL.replace("@BURN@", "(%s)" % b).replace("@COLL@", "(%s)" % c)
        return RP.write_and_run(prop, job.name + "." + ob["name"], hdr, ['"TasmanianDREAM.hpp"', '<cmath>'], body, "  main_replay();", lib="dream", timeout=60)
    return rp

REPLAY_MEMBERS = r'''
/* On the real sampler (AddressSanitizer): a regular-form run, clearPDFvalues(), a log-form run; then clearHistory() and another collecting run.
 * The history must hold dimensions numbers per recorded value and every recorded value must be the probability function at its sample. */
int main_replay(){
  int bad = 0; const int NCH = 4;
  auto pdf = [&](const std::vector<double> &c, std::vector<double> &v)->void{ for (size_t i = 0; i < v.size(); i++) v[i] = std::exp(-c[2*i] * c[2*i] - 0.5 * c[2*i+1] * c[2*i+1]); };
  auto lpdf = [&](const std::vector<double> &c, std::vector<double> &v)->void{ for (size_t i = 0; i < v.size(); i++) v[i] = -c[2*i] * c[2*i] - 0.5 * c[2*i+1] * c[2*i+1]; };
  auto inside = [&](const std::vector<double> &x)->bool{ return x[0] > -3.0 && x[0] < 3.0 && x[1] > -3.0 && x[1] < 3.0; };
  int seed = 5; auto rng = [&]()->double{ seed = (seed * 1103515245 + 12345) & 0x7fffffff; return double(seed) / double(0x7fffffff); };
  TasDREAM::TasmanianDREAM st(NCH, 2);
  std::vector<double> init(2 * NCH); for (int i = 0; i < 2 * NCH; i++) init[i] = 0.2 * (i - 3);
  st.setState(init);
  TasDREAM::SampleDREAM<TasDREAM::regform>(2, 3, pdf, inside, st, TasDREAM::no_update, TasDREAM::const_one, rng);
  st.clearPDFvalues();      /* the cached values are in regular form: they must be recomputed by the log-form run */
  st.clearHistory();
  TasDREAM::SampleDREAM<TasDREAM::logform>(1, 3, lpdf, inside, st, TasDREAM::no_update, TasDREAM::const_one, rng);
  const std::vector<double> &h = st.getHistory(); const std::vector<double> &hp = st.getHistoryPDF();
  if (st.getNumHistory() != (size_t) 3 * NCH || hp.size() != (size_t) 3 * NCH || h.size() != 2 * hp.size()) { std::printf("after clearHistory() and 3 collecting iterations of %d chains: %zu recorded values, %zu numbers in the history\n", NCH, hp.size(), h.size()); bad++; }
  for (size_t i = 0; i < hp.size() && 2 * i + 1 < h.size(); i++) { double want = -h[2*i] * h[2*i] - 0.5 * h[2*i+1] * h[2*i+1];
    if (std::abs(hp[i] - want) > 1.E-12) { if (bad < 5) std::printf("recorded value %zu is %g, the log-probability at its sample is %g\n", i, hp[i], want); bad++; } }
  __CPROVER_assert(bad == 0, "F15 clearPDFvalues / clearHistory leave a state the next run can continue from (values recomputed, history consistent)");
  return 0;
}
'''
def replay_members(prop):
    def rp(job, ob, vals, wd):
        hdr = "Replay against the real sampler.\nproperty %s job %s\nobligation %s: %s\nat %s" % (prop, job.name, ob["name"], ob["description"], ob["location"])
        return RP.write_and_run(prop, job.name + "." + ob["name"], hdr, ['"TasmanianDREAM.hpp"', '<cmath>'], REPLAY_MEMBERS, "  main_replay();", flags=["-fsanitize=address", "-fno-omit-frame-pointer"], lib="dream", timeout=60)
    return rp

def replay_f13(prop):
    def rp(job, ob, vals, wd):
        need = ["a_num_chains", "a_i", "a_r1", "a_r2"]
        if any(k not in vals for k in need):
            return None, None, "no inputs in the trace"
        n = int(vals["a_num_chains"]); i = int(vals["a_i"])
        note = ""
        if n > 4096:
            note = " (CBMC chose %d chains; the replay uses 4 chains and chain %d with the same draws)" % (n, i % 4)
            n, i = 4, i % 4
        hdr = ("Replay against the real code.\nproperty %s job %s\nobligation %s: %s\nat %s\ncounterexample: num_chains=%s i=%s draws r1=%s r2=%s%s"
               % (prop, job.name, ob["name"], ob["description"], ob["location"], vals["a_num_chains"], vals["a_i"], vals["a_r1"], vals["a_r2"], note))
        body = REPLAY_F13.replace("@N@", str(n)).replace("@I@", str(i)).replace("@R1@", RP.cxx_double(vals["a_r1"])).replace("@R2@", RP.cxx_double(vals["a_r2"]))
        return RP.write_and_run(prop, job.name + "." + ob["name"], hdr, ['"TasmanianDREAM.hpp"'], body, "  return main_replay();",
                                flags=["-fsanitize=address", "-fno-omit-frame-pointer"], lib="dream")
    return rp

def jobs(tier, seed, prop):
    out = []
    cf = ContractFile("contracts/dream.c")
    # enum TypeSamplingForm, extracted
    etext = X.strip_comments(X.read_source("DREAM/tsgDreamEnumerates.hpp"))
    (ep,) = X.cut("DREAM/tsgDreamEnumerates.hpp", r'enum\s+TypeSamplingForm\s*', etext)
    enum_c = '#line %d "%s"\n%s%s;\n' % (ep.line, X.REPO + "/" + ep.rel, ep.header, ep.body)
    pre = '#include "tsg_shim.h"\nint tsg_exc;\n' + enum_c
    # --- F13 block, unbounded in the number of chains
    R = X.Rules()
    stext, sinfo = dream.emit_sample(R, "regform")
    m = re.search(r'size_t\s+jindex\s*=.*?TasmanianDREAM_getIJKdelta\([^;]*\);', stext, re.S)
    if not m:
        raise X.ExtractionBreak("F13 block (jindex ... getIJKdelta call) not found in SampleDREAM")
    block = m.group(0).replace("\n", " ")
    fl = ["%s:%d %s" % (f["file"], f["line"], f["name"]) for f in sinfo["functions"]]
    sinfo["rules_fired"] = {k: v for k, v in R.counts.items() if v}
    f13 = (pre + "#define cb_get_random01 cb13_get_random01\n#define cb_differential_update() 0.0\n"
           "#define TasmanianDREAM_getIJKdelta(st, i, j, k, w, x, n) F13_getIJKdelta(i, j, k)\n"
           "#define F13_BLOCK " + block + "\n" + cf.text(("harness",), ["h_F13_block"]))
    out.append(Job("dream.F13_block", f13, "h_F13_block", timeout=300, functions=fl, info=sinfo,
                   backends=[[], ["--refine-arithmetic"]], replay=replay_f13(prop),
                   label="chain-index computation block of SampleDREAM (jindex/kindex clamp up to the getIJKdelta call), any number of chains <= 2^40, any draws in the closed [0,1]"))
    # --- full body, both forms, bounded harness
    nch, ndim, nit = (3, 1, 2) if tier == "quick" else (3, 2, 2)
    forms = ["regform", "logform"]
    for fi, form in enumerate(forms):
        R2 = X.Rules()
        st, inf = dream.emit_sample(R2, form, abstract_fp=True)
        inf["rules_fired"] = {k: v for k, v in R2.counts.items() if v}
        ctext = (pre + "#define TSG_NCH %d\n#define TSG_NDIM %d\n#define TSG_NITER %d\n#define TSG_FORM %d\n#define TSG_SAMPLE SampleDREAM_%s\n"
                 % (nch, ndim, nit, fi, form) + '#line 1 "/verif/contracts/dream.c"\n' + cf.text(("text",)) + st + cf.text(("harness",), ["h_SampleDREAM"]))
        out.append(Job("dream.SampleDREAM_%s" % form, ctext, "h_SampleDREAM", unwind=max(nch * ndim, nit) + 2,  timeout=600 if tier == "quick" else 2400,
                       backends=[["--refine-arithmetic"], []], functions=["%s:%d %s" % (f["file"], f["line"], f["name"]) for f in inf["functions"]], info=inf, replay=replay_full(prop),
                       bounded="chains <= %d, dimensions <= %d, iterations <= %d (full unwinding with unwinding assertions)" % (nch, ndim, nit),
                       assumed=["TasmanianDREAM small members (getNumChains, getNumDimensions, isStateReady, isPDFReady, getPDFvalue, getChainState, expandHistory, setState, setPDFvalues, saveStateHistory) are modelled by the stubs in contracts/dream.c; only getIJKdelta is enforced on its body",
                                "R13: the multiplication draw*num_chains, the ratio and the log-difference of the acceptance test are uninterpreted deterministic functions in this job (proved for every interpretation, IEEE included); the F13 block job keeps IEEE arithmetic",
                                "callbacks: random source returns any double in the closed [0,1]; pdf / domain test / updates / log return arbitrary values"],
                       label="SampleDREAM<%s> extracted body against the ghost accept/reject contract (F14) and bookkeeping (F15)" % form))
    # --- getIJKdelta body against its contract
    R3 = X.Rules()
    gt, ginf = dream.emit_state_fn(R3, "getIJKdelta", contract=cf.contracts()["TasmanianDREAM_getIJKdelta"])
    ginf["rules_fired"] = {k: v for k, v in R3.counts.items() if v}
    ctext = (pre + "#define DREAM_GETIJK_BODY 1\n#define TSG_NITER 1\n#define TSG_FORM 0\n#define TSG_SAMPLE(a,b,c)\n" + cf.text(("text",)) + gt + cf.text(("harness",), ["h_getIJKdelta"]))
    out.append(Job("dream.getIJKdelta", ctext, "h_getIJKdelta", enforce="TasmanianDREAM_getIJKdelta",
                   pre_unwindset={r'tsg_copy_n_double': 4, r'TasmanianDREAM_getIJKdelta': 4}, timeout=300,
                   functions=["%s:%d %s" % (f["file"], f["line"], f["name"]) for f in ginf["functions"]], info=ginf,
                   bounded="chains <= 3, dimensions <= 2 (state array of the receiver struct)",
                   label="TasmanianDREAM::getIJKdelta body: memory-safe under the index precondition that F13 establishes"))
    # --- the small state members against their own contracts
    R4 = X.Rules()
    parts, fns = [], []
    for w in ("setState", "setPDFvalues", "saveStateHistory", "clearPDFvalues", "clearHistory"):
        t_, i_ = dream.emit_state_fn(R4, w)
        parts.append(t_); fns += i_["functions"]
    minfo = {"functions": fns, "rules_fired": {k: v for k, v in R4.counts.items() if v}}
    t2 = [t for k, a, t in cf.sections if k == "text2"][0]
    ctext = (pre + "#define TSG_NITER 1\n#define TSG_FORM 0\n#define TSG_SAMPLE(a,b,c)\n#define DREAM_MEMBERS_BODY 1\n" + '#line 1 "/verif/contracts/dream.c"\n' + cf.text(("text",)) + t2 + "".join(parts) + cf.text(("harness",), ["h_state_members"]))
    out.append(Job("dream.state_members", ctext, "h_state_members", unwind=8, timeout=300, backends=[["--refine-arithmetic"], []],
                   functions=["%s:%d %s" % (f["file"], f["line"], f["name"]) for f in fns], info=minfo, replay=replay_members(prop),
                   bounded="chains <= 3, dimensions <= 2",
                   label="TasmanianDREAM::setState / setPDFvalues / saveStateHistory / clearPDFvalues / clearHistory bodies against the contracts the SampleDREAM stubs assume and the representation invariant"))
    # forwarding overloads: every call of SampleDREAM inside a SampleDREAM<form> overload passes its own sampling form on (an omitted template argument is the default of the primary template)
    ftext = X.strip_comments(X.read_source("DREAM/tsgDreamSample.hpp"))
    heads = list(re.finditer(r'template<\s*TypeSamplingForm\s+form\s*(?:=\s*(\w+)\s*)?>\s*void\s+SampleDREAM\s*\(', ftext))
    if len(heads) < 2:
        raise X.ExtractionBreak("expected the primary SampleDREAM template and at least one forwarding overload, found %d" % len(heads))
    default_form = heads[0].group(1) or "regform"
    sites = []
    for hm in heads[1:]:
        k = ftext.index("{", X.match_close(ftext, hm.end() - 1, "(", ")"))
        e = X.match_close(ftext, k)
        for cm in re.finditer(r'(?<![\w:.>])SampleDREAM\s*(?:<\s*([^<>]*?)\s*>)?\s*\(', ftext[k:e]):
            sites.append((ftext.count("\n", 0, k + cm.start()) + 1, cm.group(1) if cm.group(1) is not None else default_form))
    if not sites:
        raise X.ExtractionBreak("no forwarding call of SampleDREAM found")
    fsrc = pre + "".join('#line %d "%s"\nstatic int fwd_%d(int form){ return (int)(%s); }\n' % (ln, X.REPO + "/DREAM/tsgDreamSample.hpp", i, arg) for i, (ln, arg) in enumerate(sites))
    fsrc += "void h_forwarding(void){ int form = nondet_int(); __CPROVER_assume(form == regform || form == logform);\n" + "".join(
        '  __CPROVER_assert(fwd_%d(form) == form, "C15 forwarding overload, call %d: the sampling form of the caller is the form of the call (regular and logarithmic acceptance tests are not mixed)");\n' % (i, i) for i in range(len(sites))) + '  __CPROVER_assert(0, "VACUITY-CANARY");\n}\n'
    out.append(Job("dream.forwarding", fsrc, "h_forwarding", timeout=60, functions=["DREAM/tsgDreamSample.hpp:%d SampleDREAM<form> forwarding call" % ln for ln, _ in sites], info={"functions": [], "rules_fired": {"R-expr-selector": len(sites)}},
                   assumed=["only the template argument of each forwarding call is extracted (expression selector); an omitted argument is the default `%s` of the primary template" % default_form],
                   label="SampleDREAM overloads forward their sampling form"))
    return out
