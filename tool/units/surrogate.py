"""Extraction of the checkpoint logic of TasGrid::constructCommon
(Addons/tsgConstructSurrogate.hpp): recovery block, initial checkpoint block and the
`checkpoint` lambda.  Rule R12 maps stream construction / rdbuf copy / grid.write /
complete.write / grid.read / complete.read to calls on a ghost file system; stream
destructors become explicit fs_close calls at the end of the declaring scope; try/catch
becomes do{...}while(0) + exception flag (R9)."""
import re
from .. import tsg2c as X
HPP = "Addons/tsgConstructSurrogate.hpp"
SIG = r'template<bool\s+parallel_construction\s*,\s*bool\s+use_initial_guess>\s*void\s+constructCommon\s*\([^{]*?checkpoint_filename\s*\)'

def _close_streams(R, t):
    """Insert fs_close(&name) before the closing brace of the scope in which a stream is declared."""
    decl = re.compile(r'(tsg_stream)\s+(\w+)\s*=\s*fs_open_(?:read|write)\(')
    inserts = []
    for m in decl.finditer(t):
        # find enclosing block: scan backwards for the unmatched '{'
        depth = 0; i = m.start()
        while i >= 0:
            if t[i] == '}': depth += 1
            elif t[i] == '{':
                if depth == 0: break
                depth -= 1
            i -= 1
        if i < 0:
            raise X.ExtractionBreak("R12: stream %s declared outside any block" % m.group(2))
        e = X.match_close(t, i)
        inserts.append((e, m.start(), m.group(2)))
    # later declarations close first (reverse order of construction)
    for e, pos, nm in sorted(inserts, key=lambda q: (-q[0], q[1])):
        t = t[:e] + " fs_close(&%s); " % nm + t[e:]
        R.counts["R12-stream-dtor"] = R.counts.get("R12-stream-dtor", 0) + 1
    return t

def _r12(R, b):
    b = R.sub("R12-ifstream", r'std::ifstream\s+(\w+)\s*\(\s*(\w+)\s*,\s*std::ios::binary\s*\)\s*;', r'tsg_stream \1 = fs_open_read(\2);', b)
    b = R.sub("R12-ofstream", r'std::ofstream\s+(\w+)\s*\(\s*(\w+)\s*,\s*std::ios::binary\s*\)\s*;', r'tsg_stream \1 = fs_open_write(\2);', b)
    b = R.sub("R12-good", r'\b(\w+)\.good\(\)', r'fs_good(&\1)', b)
    b = R.sub("R12-rdbuf-copy", r'\b(\w+)\s*<<\s*(\w+)\.rdbuf\(\)\s*;', r'fs_copy_stream(&\1, &\2);', b)
    b = R.sub("R12-grid-read", r'\bgrid\.read\(\s*(\w+)\s*,\s*mode_binary\s*\)\s*;', r'grid_read(&\1); if (tsg_exc) break;', b)
    b = R.sub("R12-complete-read", r'\bcomplete\.read\(\s*(\w+)\s*\)\s*;', r'complete_read(&\1); if (tsg_exc) break;', b)
    b = R.sub("R12-grid-write", r'\bgrid\.write\(\s*(\w+)\s*,\s*mode_binary\s*\)\s*;', r'grid_write(&\1);', b)
    b = R.sub("R12-complete-write", r'\bcomplete\.write\(\s*(\w+)\s*\)\s*;', r'complete_write(&\1);', b)
    b = R.sub("R12-grid-snapshot", r'\bTasmanianSparseGrid\s+(\w+)\s*\(\s*grid\s*\)\s*;', r'int \1 = grid_snapshot();', b)
    b = R.sub("R12-grid-restore", r'\bgrid\.copyGrid\(\s*&\s*(\w+)\s*\)\s*;', r'grid_restore(\1);', b)
    b = R.sub("R12-filename-empty", r'\bfilename\.empty\(\)', 'fs_no_checkpointing', b)
    # R9 try/catch
    b = R.sub("R9-try", r'\btry\s*\{', 'do{', b)
    b = R.sub("R9-catch", r'\}\s*catch\s*\(\s*std::runtime_error\s*&\s*\)\s*\{', '}while(0); if (tsg_exc == TSG_RUNTIME_ERROR){ tsg_exc = 0;', b)
    b = R.sub("R9-throw-runtime_error", r'\bthrow\s+std::runtime_error\s*\("[^"]*"\)\s*;', '{ tsg_exc = TSG_RUNTIME_ERROR; break; }', b)
    b = _close_streams(R, b)
    return b

def emit(R):
    text = X.strip_comments(X.read_source(HPP))
    (p,) = X.cut(HPP, SIG, text)
    body = p.body
    out = {}
    info = {"functions": [{"name": "TasGrid::constructCommon (checkpoint recovery, initial checkpoint, checkpoint lambda)", "file": p.rel, "line": p.line, "loops": 0}]}
    # block 1 and 2: the two `if (!filename.empty()){...}` statements at the top level of the function
    ms = list(re.finditer(r'if\s*\(\s*!filename\.empty\(\)\s*(?:and\s*!recovered_main\s*)?\)\s*(?=\{)', body))
    tops = []
    for m in ms:
        # top-level: brace depth 1 at this position
        depth = body[:m.start()].count('{') - body[:m.start()].count('}')
        if depth == 1:
            e = X.match_close(body, m.end())
            tops.append((m.start(), e + 1))
    if len(tops) != 2:
        raise X.ExtractionBreak("expected two top-level `if (!filename.empty())` blocks in constructCommon, found %d" % len(tops))
    rec_src = body[tops[0][0]:tops[0][1]]; ini_src = body[tops[1][0]:tops[1][1]]
    if "catch" not in rec_src or "std::ofstream" not in ini_src:
        raise X.ExtractionBreak("recovery / initial checkpoint blocks do not have the expected shape")
    ml = re.search(r'auto\s+checkpoint\s*=\s*\[&\]\s*\(\s*\)\s*->\s*void\s*(?=\{)', body)
    if not ml:
        raise X.ExtractionBreak("checkpoint lambda not found")
    le = X.match_close(body, ml.end())
    lam_src = body[ml.end():le + 1]
    R.counts["R7-hoist"] = 1
    srcs = {"recovery": rec_src, "initial": ini_src, "checkpoint": lam_src}
    fid = {}
    for k, s in srcs.items():
        b = _r12(R, s)
        X.check_leftover(b, "constructCommon." + k)
        line = p.line + (p.header + body[:body.index(s)]).count('\n')
        out[k] = '#line %d "%s"\n' % (line, X.REPO + "/" + p.rel) + "void cc_%s(void)\n{\n%s\n}\n" % (k, b)
        fid[k] = X.fidelity(s, b, extra_vocab=["ifstream", "ofstream", "ios", "binary", "rdbuf", "good", "read", "write", "grid", "complete", "mode_binary",
                                               "runtime_error", "empty", "filename", "infile", "oldfile", "ofs", "current_state", "previous_state", "filename_old", "try", "catch", "throw", "<<", "TasmanianSparseGrid", "copyGrid", "original_grid"])
    R.require({"R12-ifstream": 3, "R12-ofstream": 3, "R12-rdbuf-copy": 1, "R12-grid-read": 2, "R12-complete-read": 2, "R12-grid-write": 2,
               "R12-complete-write": 2, "R9-try": 2, "R9-catch": 2, "R9-throw-runtime_error": 2, "R12-stream-dtor": 6, "R12-filename-empty": 3})
    info["fidelity"] = fid["recovery"]
    info["rules_fired"] = {k: v for k, v in R.counts.items() if v}
    info["drops"] = ["stream destructors become explicit fs_close at scope end (R12)", "the parallel branch and model evaluation are not part of this unit"]
    return out, info


def _r12g_budget(R, b):
    b = R.sub("R12g-stored", r'\bcomplete\.getNumStored\(\)', 'g_stored', b)
    b = R.sub("R12g-loaded", r'\bgrid\.getNumLoaded\(\)', 'g_loaded', b)
    b = R.sub("R12g-load", r'\bcomplete\.load\(\s*grid\s*\)\s*;', 'gh_load_complete();', b)
    b = R.sub("R12g-candidates", r'\bmanager\s*=\s*candidates\(\s*grid\s*\)\s*;', 'gh_new_candidates();', b)
    b = R.sub("R12g-next", r'\bmanager\.next\(', 'gh_next(', b)
    b = R.sub("R12g-manager", r'\bmanager\.getNumCandidates\(\)', 'g_ncand', b)
    b = R.sub("R12g-manager", r'\bmanager\.getNumDone\(\)', 'g_ndone', b)
    b = R.sub("R12g-manager", r'\bmanager\.complete\(\s*x\s*\)\s*;', 'gh_manager_complete(x);', b)
    b = R.sub("R12g-add", r'\bcomplete\.add\(\s*x\s*,\s*y\s*\)\s*;', 'gh_complete_add(x);', b)
    b = R.sub("R12g-model", r'(?<![\w.>])model\(\s*x\s*,\s*y\s*,\s*0\s*\)\s*;', 'gh_model(x);', b)
    b = R.sub("R12g-guess", r'(?<![\w.>])set_initial_guess\(\s*x\s*,\s*y\s*\)\s*;', '', b)
    b = R.sub("R12g-checkpoint", r'(?<![\w.>])checkpoint\(\)\s*;', 'gh_checkpoint();', b)
    b = R.sub("R5g-empty", r'\bx\.empty\(\)', '(x == 0)', b)
    b = R.sub("R5g-size", r'\bx\.size\(\)\s*/\s*num_dimensions', 'x', b)
    b = R.sub("R2-functional-cast", r'\bdouble\(([^()]*)\)', r'((double)(\1))', b)
    return b

def emit_budget(R, loop_contract):
    """Budget accounting of constructCommon: the lambdas load_complete / refresh_candidates / checkout_sample,
    the initial value of total_num_launched and the sequential sampling loop, on ghost counters (R12g)."""
    text = X.strip_comments(X.read_source(HPP))
    (p,) = X.cut(HPP, SIG, text)
    body = p.body
    outs = ["static size_t total_num_launched, max_num_points, num_dimensions;"]
    def lam(name, ret):
        m = re.search(r'auto\s+%s\s*=\s*\[&\]\s*\(\s*\)\s*->\s*%s\s*(?=\{)' % (name, ret), body)
        if not m:
            raise X.ExtractionBreak("constructCommon: lambda %s not found" % name)
        e = X.match_close(body, m.end())
        R.counts["R7-hoist"] = R.counts.get("R7-hoist", 0) + 1
        return body[m.end():e + 1], p.line + (p.header + body[:m.start()]).count('\n')
    lc, l1 = lam("load_complete", "void")
    rc, l2 = lam("refresh_candidates", "void")
    cs, l3 = lam("checkout_sample", r'std::vector<double>')
    for nm, b, ln, ret in (("load_complete", lc, l1, "void"), ("refresh_candidates", rc, l2, "void"), ("checkout_sample", cs, l3, "size_t")):
        b = _r12g_budget(R, b)
        b = R.sub("R5g-auto", r'\bauto\s+x\s*=', 'size_t x =', b)
        X.check_leftover(b, nm)
        outs.append('#line %d "%s"\nstatic %s %s(void)%s' % (ln, X.REPO + "/" + p.rel, ret, nm, b))
    mi = re.search(r'size_t\s+total_num_launched\s*=\s*([^;]*);', body)
    if not mi:
        raise X.ExtractionBreak("constructCommon: initial value of total_num_launched not found")
    init = _r12g_budget(R, mi.group(1))
    ln = p.line + (p.header + body[:mi.start()]).count('\n')
    outs.append('#line %d "%s"\nstatic void init_launched(void){ total_num_launched = %s; }' % (ln, X.REPO + "/" + p.rel, init))
    # sequential branch: the else-block of `if (parallel_construction == mode_parallel)`
    mp = re.search(r'if\s*\(\s*parallel_construction\s*==\s*mode_parallel\s*\)\s*(?=\{)', body)
    if not mp:
        raise X.ExtractionBreak("constructCommon: parallel/sequential branch not found")
    e = X.match_close(body, mp.end())
    me = re.match(r'\s*else\s*(?=\{)', body[e + 1:])
    if not me:
        raise X.ExtractionBreak("constructCommon: sequential branch not found")
    s0 = e + 1 + me.end()
    e2 = X.match_close(body, s0)
    seq = body[s0:e2 + 1]
    src = seq
    seq = R.sub("R5-local-vector", r'std::vector<double>\s+x\([^;]*\)\s*,\s*y\([^;]*\)\s*;', 'size_t x = 0;', seq)
    seq = _r12g_budget(R, seq)
    X.check_leftover(seq, "sequential loop")
    ln = p.line + (p.header + body[:s0]).count('\n')
    outs.append('#line %d "%s"\n' % (ln, X.REPO + "/" + p.rel) + X.splice("static void sequential_loop(void)", seq, None, {0: loop_contract}))
    R.require({"R12g-next": 4, "R12g-candidates": 1, "R12g-load": 1, "R12g-model": 1, "R12g-add": 1, "R7-hoist": 3})
    info = {"functions": [{"name": "TasGrid::constructCommon (budget accounting: load_complete, refresh_candidates, checkout_sample, total_num_launched, sequential loop)", "file": p.rel, "line": p.line, "loops": 1}],
            "rules_fired": {k: v for k, v in R.counts.items() if v},
            "fidelity": X.fidelity(src, seq, extra_vocab=["x", "y", "grid", "getNumDimensions", "getNumOutputs", "manager", "next", "getNumCandidates", "getNumDone", "complete", "add", "getNumStored", "getNumLoaded",
                                                         "model", "set_initial_guess", "checkpoint", "empty", "size", "num_dimensions", "double", "0", "/"], slack=12),
            "drops": ["the parallel branch (threads, condition variables)", "set_initial_guess (no effect on the counts)", "sample values: only counts of points are modelled"]}
    return "\n".join(outs) + "\n", info
