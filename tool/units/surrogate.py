"""Extraction of the checkpoint logic of TasGrid::constructCommon
(Addons/tsgConstructSurrogate.hpp): recovery block, initial checkpoint block and the
`checkpoint` lambda.  Rule R12 maps stream construction / rdbuf copy / grid.write /
complete.write / grid.read / complete.read to calls on a ghost file system; stream
destructors become explicit fs_close calls at the end of the declaring scope; try/catch
becomes do{...}while(0) + exception flag (R9)."""
import re
from .. import tsg2c as X
HPP = "Addons/tsgConstructSurrogate.hpp"
SIG = r'template<bool\s+parallel_construction\s*,\s*bool\s+use_initial_guess>\s*void\s+constructCommon\s*\([^{]*?checkpoint_filename\s*\)'

def _close_streams(R, t):
    """Insert fs_close(&name) before the closing brace of the scope in which a stream is declared."""
    decl = re.compile(r'(tsg_stream)\s+(\w+)\s*=\s*fs_open_(?:read|write)\(')
    inserts = []
    for m in decl.finditer(t):
        # find enclosing block: scan backwards for the unmatched '{'
        depth = 0; i = m.start()
        while i >= 0:
            if t[i] == '}': depth += 1
            elif t[i] == '{':
                if depth == 0: break
                depth -= 1
            i -= 1
        if i < 0:
            raise X.ExtractionBreak("R12: stream %s declared outside any block" % m.group(2))
        e = X.match_close(t, i)
        inserts.append((e, m.start(), m.group(2)))
    # later declarations close first (reverse order of construction)
    for e, pos, nm in sorted(inserts, key=lambda q: (-q[0], q[1])):
        t = t[:e] + " fs_close(&%s); " % nm + t[e:]
        R.counts["R12-stream-dtor"] = R.counts.get("R12-stream-dtor", 0) + 1
    return t

def _r12(R, b):
    b = R.sub("R12-ifstream", r'std::ifstream\s+(\w+)\s*\(\s*(\w+)\s*,\s*std::ios::binary\s*\)\s*;', r'tsg_stream \1 = fs_open_read(\2);', b)
    b = R.sub("R12-ofstream", r'std::ofstream\s+(\w+)\s*\(\s*(\w+)\s*,\s*std::ios::binary\s*\)\s*;', r'tsg_stream \1 = fs_open_write(\2);', b)
    b = R.sub("R12-good", r'\b(\w+)\.good\(\)', r'fs_good(&\1)', b)
    b = R.sub("R12-rdbuf-copy", r'\b(\w+)\s*<<\s*(\w+)\.rdbuf\(\)\s*;', r'fs_copy_stream(&\1, &\2);', b)
    b = R.sub("R12-grid-read", r'\bgrid\.read\(\s*(\w+)\s*,\s*mode_binary\s*\)\s*;', r'grid_read(&\1); if (tsg_exc) break;', b)
    b = R.sub("R12-complete-read", r'\bcomplete\.read\(\s*(\w+)\s*\)\s*;', r'complete_read(&\1); if (tsg_exc) break;', b)
    b = R.sub("R12-grid-write", r'\bgrid\.write\(\s*(\w+)\s*,\s*mode_binary\s*\)\s*;', r'grid_write(&\1);', b)
    b = R.sub("R12-complete-write", r'\bcomplete\.write\(\s*(\w+)\s*\)\s*;', r'complete_write(&\1);', b)
    b = R.sub("R12-grid-snapshot", r'\bTasmanianSparseGrid\s+(\w+)\s*\(\s*grid\s*\)\s*;', r'int \1 = grid_snapshot();', b)
    b = R.sub("R12-grid-restore", r'\bgrid\.copyGrid\(\s*&\s*(\w+)\s*\)\s*;', r'grid_restore(\1);', b)
    b = R.sub("R12-filename-empty", r'\bfilename\.empty\(\)', 'fs_no_checkpointing', b)
    # R9 try/catch
    b = R.sub("R9-try", r'\btry\s*\{', 'do{', b)
    b = R.sub("R9-catch", r'\}\s*catch\s*\(\s*std::runtime_error\s*&\s*\)\s*\{', '}while(0); if (tsg_exc == TSG_RUNTIME_ERROR){ tsg_exc = 0;', b)
    b = R.sub("R9-throw-runtime_error", r'\bthrow\s+std::runtime_error\s*\("[^"]*"\)\s*;', '{ tsg_exc = TSG_RUNTIME_ERROR; break; }', b)
    b = _close_streams(R, b)
    return b

def emit(R):
    text = X.strip_comments(X.read_source(HPP))
    (p,) = X.cut(HPP, SIG, text)
    body = p.body
    out = {}
    info = {"functions": [{"name": "TasGrid::constructCommon (checkpoint recovery, initial checkpoint, checkpoint lambda)", "file": p.rel, "line": p.line, "loops": 0}]}
    # block 1 and 2: the two `if (!filename.empty()){...}` statements at the top level of the function
    ms = list(re.finditer(r'if\s*\(\s*!filename\.empty\(\)\s*(?:and\s*!recovered_main\s*)?\)\s*(?=\{)', body))
    tops = []
    for m in ms:
        # top-level: brace depth 1 at this position
        depth = body[:m.start()].count('{') - body[:m.start()].count('}')
        if depth == 1:
            e = X.match_close(body, m.end())
            tops.append((m.start(), e + 1))
    if len(tops) != 2:
        raise X.ExtractionBreak("expected two top-level `if (!filename.empty())` blocks in constructCommon, found %d" % len(tops))
    rec_src = body[tops[0][0]:tops[0][1]]; ini_src = body[tops[1][0]:tops[1][1]]
    if "catch" not in rec_src or "std::ofstream" not in ini_src:
        raise X.ExtractionBreak("recovery / initial checkpoint blocks do not have the expected shape")
    ml = re.search(r'auto\s+checkpoint\s*=\s*\[&\]\s*\(\s*\)\s*->\s*void\s*(?=\{)', body)
    if not ml:
        raise X.ExtractionBreak("checkpoint lambda not found")
    le = X.match_close(body, ml.end())
    lam_src = body[ml.end():le + 1]
    R.counts["R7-hoist"] = 1
    srcs = {"recovery": rec_src, "initial": ini_src, "checkpoint": lam_src}
    fid = {}
    for k, s in srcs.items():
        b = _r12(R, s)
        X.check_leftover(b, "constructCommon." + k)
        line = p.line + (p.header + body[:body.index(s)]).count('\n')
        out[k] = '#line %d "%s"\n' % (line, X.REPO + "/" + p.rel) + "void cc_%s(void)\n{\n%s\n}\n" % (k, b)
        fid[k] = X.fidelity(s, b, extra_vocab=["ifstream", "ofstream", "ios", "binary", "rdbuf", "good", "read", "write", "grid", "complete", "mode_binary",
                                               "runtime_error", "empty", "filename", "infile", "oldfile", "ofs", "current_state", "previous_state", "filename_old", "try", "catch", "throw", "<<", "TasmanianSparseGrid", "copyGrid", "original_grid"])
    R.require({"R12-ifstream": 3, "R12-ofstream": 3, "R12-rdbuf-copy": 1, "R12-grid-read": 2, "R12-complete-read": 2, "R12-grid-write": 2,
               "R12-complete-write": 2, "R9-try": 2, "R9-catch": 2, "R9-throw-runtime_error": 2, "R12-stream-dtor": 6, "R12-filename-empty": 3})
    info["fidelity"] = fid["recovery"]
    info["rules_fired"] = {k: v for k, v in R.counts.items() if v}
    info["drops"] = ["stream destructors become explicit fs_close at scope end (R12)", "the parallel branch and model evaluation are not part of this unit"]
    return out, info


def _r12g_budget(R, b):
    b = R.sub("R12g-stored", r'\bcomplete\.getNumStored\(\)', 'g_stored', b)
    b = R.sub("R12g-loaded", r'\bgrid\.getNumLoaded\(\)', 'g_loaded', b)
    b = R.sub("R12g-load", r'\bcomplete\.load\(\s*grid\s*\)\s*;', 'gh_load_complete();', b)
    b = R.sub("R12g-candidates", r'\bmanager\s*=\s*candidates\(\s*grid\s*\)\s*;', 'gh_new_candidates();', b)
    b = R.sub("R12g-next", r'\bmanager\.next\(', 'gh_next(', b)
    b = R.sub("R12g-manager", r'\bmanager\.getNumCandidates\(\)', 'g_ncand', b)
    b = R.sub("R12g-manager", r'\bmanager\.getNumDone\(\)', 'g_ndone', b)
    b = R.sub("R12g-manager", r'\bmanager\.complete\(\s*x\s*\)\s*;', 'gh_manager_complete(x);', b)
    b = R.sub("R12g-add", r'\bcomplete\.add\(\s*x\s*,\s*y\s*\)\s*;', 'gh_complete_add(x);', b)
    b = R.sub("R12g-model", r'(?<![\w.>])model\(\s*x\s*,\s*y\s*,\s*0\s*\)\s*;', 'gh_model(x);', b)
    b = R.sub("R12g-guess", r'(?<![\w.>])set_initial_guess\(\s*x\s*,\s*y\s*\)\s*;', '', b)
    b = R.sub("R12g-checkpoint", r'(?<![\w.>])checkpoint\(\)\s*;', 'gh_checkpoint();', b)
    b = R.sub("R5g-empty", r'\bx\.empty\(\)', '(x == 0)', b)
    b = R.sub("R5g-size", r'\bx\.size\(\)\s*/\s*num_dimensions', 'x', b)
    b = R.sub("R2-functional-cast", r'\bdouble\(([^()]*)\)', r'((double)(\1))', b)
    return b

def emit_budget(R, loop_contract):
    """Budget accounting of constructCommon: the lambdas load_complete / refresh_candidates / checkout_sample,
    the initial value of total_num_launched and the sequential sampling loop, on ghost counters (R12g)."""
    text = X.strip_comments(X.read_source(HPP))
    (p,) = X.cut(HPP, SIG, text)
    body = p.body
    outs = ["static size_t total_num_launched, max_num_points, num_dimensions;"]
    def lam(name, ret):
        m = re.search(r'auto\s+%s\s*=\s*\[&\]\s*\(\s*\)\s*->\s*%s\s*(?=\{)' % (name, ret), body)
        if not m:
            raise X.ExtractionBreak("constructCommon: lambda %s not found" % name)
        e = X.match_close(body, m.end())
        R.counts["R7-hoist"] = R.counts.get("R7-hoist", 0) + 1
        return body[m.end():e + 1], p.line + (p.header + body[:m.start()]).count('\n')
    lc, l1 = lam("load_complete", "void")
    rc, l2 = lam("refresh_candidates", "void")
    cs, l3 = lam("checkout_sample", r'std::vector<double>')
    for nm, b, ln, ret in (("load_complete", lc, l1, "void"), ("refresh_candidates", rc, l2, "void"), ("checkout_sample", cs, l3, "size_t")):
        b = _r12g_budget(R, b)
        b = R.sub("R5g-auto", r'\bauto\s+x\s*=', 'size_t x =', b)
        X.check_leftover(b, nm)
        outs.append('#line %d "%s"\nstatic %s %s(void)%s' % (ln, X.REPO + "/" + p.rel, ret, nm, b))
    mi = re.search(r'size_t\s+total_num_launched\s*=\s*([^;]*);', body)
    if not mi:
        raise X.ExtractionBreak("constructCommon: initial value of total_num_launched not found")
    init = _r12g_budget(R, mi.group(1))
    ln = p.line + (p.header + body[:mi.start()]).count('\n')
    outs.append('#line %d "%s"\nstatic void init_launched(void){ total_num_launched = %s; }' % (ln, X.REPO + "/" + p.rel, init))
    # sequential branch: the else-block of `if (parallel_construction == mode_parallel)`
    mp = re.search(r'if\s*\(\s*parallel_construction\s*==\s*mode_parallel\s*\)\s*(?=\{)', body)
    if not mp:
        raise X.ExtractionBreak("constructCommon: parallel/sequential branch not found")
    e = X.match_close(body, mp.end())
    me = re.match(r'\s*else\s*(?=\{)', body[e + 1:])
    if not me:
        raise X.ExtractionBreak("constructCommon: sequential branch not found")
    s0 = e + 1 + me.end()
    e2 = X.match_close(body, s0)
    seq = body[s0:e2 + 1]
    src = seq
    seq = R.sub("R5-local-vector", r'std::vector<double>\s+x\([^;]*\)\s*,\s*y\([^;]*\)\s*;', 'size_t x = 0;', seq)
    seq = _r12g_budget(R, seq)
    X.check_leftover(seq, "sequential loop")
    ln = p.line + (p.header + body[:s0]).count('\n')
    outs.append('#line %d "%s"\n' % (ln, X.REPO + "/" + p.rel) + X.splice("static void sequential_loop(void)", seq, None, {0: loop_contract}))
    R.require({"R12g-next": 4, "R12g-candidates": 1, "R12g-load": 1, "R12g-model": 1, "R12g-add": 1, "R7-hoist": 3})
    info = {"functions": [{"name": "TasGrid::constructCommon (budget accounting: load_complete, refresh_candidates, checkout_sample, total_num_launched, sequential loop)", "file": p.rel, "line": p.line, "loops": 1}],
            "rules_fired": {k: v for k, v in R.counts.items() if v},
            "fidelity": X.fidelity(src, seq, extra_vocab=["x", "y", "grid", "getNumDimensions", "getNumOutputs", "manager", "next", "getNumCandidates", "getNumDone", "complete", "add", "getNumStored", "getNumLoaded",
                                                         "model", "set_initial_guess", "checkpoint", "empty", "size", "num_dimensions", "double", "0", "/"], slack=12),
            "drops": ["the parallel branch (threads, condition variables)", "set_initial_guess (no effect on the counts)", "sample values: only counts of points are modelled"]}
    return "\n".join(outs) + "\n", info


def emit_parallel(R):
    """The parallel branch of constructCommon as seen by the MAIN thread: launch loop, the lambda collect_finished, the waiting loop, the final flush and
    the joins, on the ghost counters of the budget unit.  Rule R11t (thread primitives): mutex / condition_variable / lock declarations are dropped, the
    worker lambda do_work is replaced by its effect inside the wait (gh_wait_done: some computing workers call the model on their batch and raise their
    done flag, in any order and number >= 1), std::thread construction and join become ghost calls.  What is decided is the bookkeeping of the main thread
    under EVERY order in which workers finish; data races, lost wake-ups and the memory model are not (schedule properties)."""
    text = X.strip_comments(X.read_source(HPP))
    (p,) = X.cut(HPP, SIG, text)
    body = p.body
    mp = re.search(r'if\s*\(\s*parallel_construction\s*==\s*mode_parallel\s*\)\s*(?=\{)', body)
    if not mp:
        raise X.ExtractionBreak("constructCommon: parallel branch not found")
    e = X.match_close(body, mp.end())
    b = body[mp.end():e + 1]
    src = b
    # the worker lambda: dropped (its effect is the stub gh_wait_done)
    mw = re.search(r'auto\s+do_work\s*=\s*\[&\]\s*\(\s*size_t\s+thread_id\s*\)\s*->\s*void\s*(?=\{)', b)
    if not mw:
        raise X.ExtractionBreak("constructCommon: worker lambda do_work not found")
    ew = X.match_close(b, mw.end())
    worker = b[mw.end():ew + 1]
    if not re.search(r'model\(\s*x\[thread_id\]\s*,\s*y\[thread_id\]\s*,\s*thread_id\s*\)', worker) or not re.search(r'work_flag\[thread_id\]\s*=\s*flag_done\s*;\s*count_done\+\+', worker):
        raise X.ExtractionBreak("constructCommon: the worker no longer has the shape `model(x[id], y[id], id); ... work_flag[id] = flag_done; count_done++` that gh_wait_done models")
    tail = re.match(r'\s*;', b[ew + 1:])
    b = b[:mw.start()] + b[ew + 1 + (tail.end() if tail else 0):]
    R.counts["R11t-worker-lambda"] = 1
    # the lambda collect_finished: hoisted
    mc = re.search(r'auto\s+collect_finished\s*=\s*\[&\]\s*\(\s*\)\s*->\s*bool\s*(?=\{)', b)
    if not mc:
        raise X.ExtractionBreak("constructCommon: lambda collect_finished not found")
    ec = X.match_close(b, mc.end())
    coll = b[mc.end():ec + 1]
    tail = re.match(r'\s*;', b[ec + 1:])
    b = b[:mc.start()] + b[ec + 1 + (tail.end() if tail else 0):]
    R.counts["R7-hoist"] = R.counts.get("R7-hoist", 0) + 1
    def rw(t):
        t = R.sub("R5g-job-vectors", r'std::vector<std::vector<double>>\s+x\(num_parallel_jobs\)\s*,\s*y\([^;]*\)\s*;', '', t)
        t = R.sub("R5g-job-vectors", r'std::vector<int>\s+work_flag\(num_parallel_jobs\)\s*;', '', t)
        t = R.sub("R2-constexpr", r'\bconstexpr\s+int\s+(flag_\w+)\s*=\s*(\d+)\s*;', '', t)
        t = R.sub("R11t-primitive", r'std::(?:condition_variable|mutex)\s+\w+\s*;', '', t)
        t = R.sub("R11t-primitive", r'std::(?:unique_lock|lock_guard)<std::mutex>\s+lock\(\s*access_count_done\s*\)\s*;', '', t)
        t = R.sub("R11t-wait", r'until_someone_done\.wait\(\s*lock\s*,\s*\[&\]\s*\(\s*\)\s*->\s*bool\s*\{\s*return\s*\(\s*count_done\s*>\s*0\s*\)\s*;\s*\}\s*\)\s*;', 'gh_wait_done();', t)
        t = R.sub("R11t-notify", r'until_new_job\.notify_all\(\)\s*;', 'gh_notify_workers();', t)
        t = R.sub("R11t-threads", r'std::vector<std::thread>\s+workers\(num_parallel_jobs\)\s*;', '', t)
        t = R.sub("R11t-spawn", r'workers\[id\]\s*=\s*std::thread\(\s*do_work\s*,\s*id\s*\)\s*;', 'gh_spawn(id);', t)
        t = R.sub("R11t-join", r'for\s*\(\s*auto\s*&\s*w\s*:\s*workers\s*\)\s*if\s*\(\s*w\.joinable\(\)\s*\)\s*w\.join\(\)\s*;', 'gh_join_all();', t)
        t = R.sub("R12g-guess", r'(?<![\w.>])set_initial_guess\(\s*x\[id\]\s*,\s*y\[id\]\s*\)\s*;', '', t)
        t = R.sub("R12g-add", r'\bcomplete\.add\(\s*x\[id\]\s*,\s*y\[id\]\s*\)\s*;', 'gh_complete_add(x[id]);', t)
        t = R.sub("R12g-manager", r'\bmanager\.complete\(\s*x\[id\]\s*\)\s*;', 'gh_manager_complete(x[id]);', t)
        t = R.sub("R12g-manager", r'\bmanager\.getNumRunning\(\)', 'g_running', t)
        t = R.sub("R5g-empty", r'\bx\[id\]\.empty\(\)', '(x[id] == 0)', t)
        t = R.sub("R5g-empty", r'(?<![\w.\]])x\.empty\(\)', '(num_parallel_jobs == 0)', t)
        t = R.sub("R5g-size", r'\bx\[id\]\.size\(\)\s*/\s*num_dimensions', 'x[id]', t)
        t = _r12g_budget(R, t)
        # R13: the two load / refresh heuristics (ratios of counts against 0.2) may come out either way
        t = R.sub("R13-fp-ratio", r'\(\(double\)\(([^()]*)\)\)\s*/\s*\(\(double\)\(([^()]*)\)\)\s*>\s*0\.2', r'tsg_ratio_gt(\1, \2)', t)
        return t
    b = rw(b); coll = rw(coll)
    X.check_leftover(b + coll, "constructCommon parallel branch")
    R.require({"R11t-wait": 1, "R11t-spawn": 1, "R11t-join": 1, "R11t-primitive": 4, "R12g-next": 1, "R12g-add": 1, "R12g-load": 0})
    ln = p.line + (p.header + body[:mp.end()]).count('\n')
    out = ('#line %d "%s"\nstatic bool collect_finished(void)%s\n#line %d "%s"\nstatic void parallel_branch(void)%s\n' % (ln, X.REPO + "/" + p.rel, coll, ln, X.REPO + "/" + p.rel, b))
    info = {"functions": [{"name": "TasGrid::constructCommon (parallel branch, main thread: launch loop, collect_finished, waiting loop, flush, joins)", "file": p.rel, "line": ln, "loops": X.count_loops(b) + X.count_loops(coll)}],
            "rules_fired": {k: v for k, v in R.counts.items() if v},
            "fidelity": X.fidelity(src, coll + b, extra_vocab=["x", "y", "id", "work_flag", "flag_done", "flag_computing", "flag_shutdown", "std", "vector", "double", "int", "constexpr", "condition_variable", "mutex", "unique_lock", "lock_guard", "lock",
                                   "access_count_done", "until_someone_done", "until_new_job", "wait", "notify_one", "notify_all", "count_done", "thread", "workers", "do_work", "thread_id", "my_flag", "model", "joinable", "join", "w", "auto", "bool", "return",
                                   "collect_finished", "any_done", "manager", "next", "complete", "add", "getNumRunning", "getNumDone", "getNumCandidates", "getNumStored", "getNumLoaded", "grid", "empty", "size", "num_dimensions", "num_parallel_jobs",
                                   "max_samples_per_job", "num_outputs", "set_initial_guess", "checkpoint", "load_complete", "refresh_candidates", "checkout_sample", "total_num_launched", "max_num_points", "size_t", "while", "if", "else", "for", "true", "false",
                                   "0", "1", "2", "1000", "0.2", "(", ")", "{", "}", "[", "]", "&", "->", ";", ",", "=", "==", "!=", "<", ">", "++", "+=", "/", "!", "||", "&&", "*"], slack=80),
            "drops": ["the worker lambda do_work (its effect is the stub gh_wait_done)", "mutex / condition_variable / lock objects, notify calls", "set_initial_guess", "sample values: only counts of points are modelled"]}
    return out, info
