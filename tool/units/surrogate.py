"""Extraction of the checkpoint logic of TasGrid::constructCommon
(Addons/tsgConstructSurrogate.hpp): recovery block, initial checkpoint block and the
`checkpoint` lambda.  Rule R12 maps stream construction / rdbuf copy / grid.write /
complete.write / grid.read / complete.read to calls on a ghost file system; stream
destructors become explicit fs_close calls at the end of the declaring scope; try/catch
becomes do{...}while(0) + exception flag (R9)."""
import re
from .. import tsg2c as X
HPP = "Addons/tsgConstructSurrogate.hpp"
SIG = r'template<bool\s+parallel_construction\s*,\s*bool\s+use_initial_guess>\s*void\s+constructCommon\s*\([^{]*?checkpoint_filename\s*\)'

def _close_streams(R, t):
    """Insert fs_close(&name) before the closing brace of the scope in which a stream is declared."""
    decl = re.compile(r'(tsg_stream)\s+(\w+)\s*=\s*fs_open_(?:read|write)\(')
    inserts = []
    for m in decl.finditer(t):
        # find enclosing block: scan backwards for the unmatched '{'
        depth = 0; i = m.start()
        while i >= 0:
            if t[i] == '}': depth += 1
            elif t[i] == '{':
                if depth == 0: break
                depth -= 1
            i -= 1
        if i < 0:
            raise X.ExtractionBreak("R12: stream %s declared outside any block" % m.group(2))
        e = X.match_close(t, i)
        inserts.append((e, m.start(), m.group(2)))
    # later declarations close first (reverse order of construction)
    for e, pos, nm in sorted(inserts, key=lambda q: (-q[0], q[1])):
        t = t[:e] + " fs_close(&%s); " % nm + t[e:]
        R.counts["R12-stream-dtor"] = R.counts.get("R12-stream-dtor", 0) + 1
    return t

def _r12(R, b):
    b = R.sub("R12-ifstream", r'std::ifstream\s+(\w+)\s*\(\s*(\w+)\s*,\s*std::ios::binary\s*\)\s*;', r'tsg_stream \1 = fs_open_read(\2);', b)
    b = R.sub("R12-ofstream", r'std::ofstream\s+(\w+)\s*\(\s*(\w+)\s*,\s*std::ios::binary\s*\)\s*;', r'tsg_stream \1 = fs_open_write(\2);', b)
    b = R.sub("R12-good", r'\b(\w+)\.good\(\)', r'fs_good(&\1)', b)
    b = R.sub("R12-rdbuf-copy", r'\b(\w+)\s*<<\s*(\w+)\.rdbuf\(\)\s*;', r'fs_copy_stream(&\1, &\2);', b)
    b = R.sub("R12-grid-read", r'\bgrid\.read\(\s*(\w+)\s*,\s*mode_binary\s*\)\s*;', r'grid_read(&\1); if (tsg_exc) break;', b)
    b = R.sub("R12-complete-read", r'\bcomplete\.read\(\s*(\w+)\s*\)\s*;', r'complete_read(&\1); if (tsg_exc) break;', b)
    b = R.sub("R12-grid-write", r'\bgrid\.write\(\s*(\w+)\s*,\s*mode_binary\s*\)\s*;', r'grid_write(&\1);', b)
    b = R.sub("R12-complete-write", r'\bcomplete\.write\(\s*(\w+)\s*\)\s*;', r'complete_write(&\1);', b)
    b = R.sub("R12-grid-snapshot", r'\bTasmanianSparseGrid\s+(\w+)\s*\(\s*grid\s*\)\s*;', r'int \1 = grid_snapshot();', b)
    b = R.sub("R12-grid-restore", r'\bgrid\.copyGrid\(\s*&\s*(\w+)\s*\)\s*;', r'grid_restore(\1);', b)
    b = R.sub("R12-filename-empty", r'\bfilename\.empty\(\)', 'fs_no_checkpointing', b)
    # R9 try/catch
    b = R.sub("R9-try", r'\btry\s*\{', 'do{', b)
    b = R.sub("R9-catch", r'\}\s*catch\s*\(\s*std::runtime_error\s*&\s*\)\s*\{', '}while(0); if (tsg_exc == TSG_RUNTIME_ERROR){ tsg_exc = 0;', b)
    b = R.sub("R9-throw-runtime_error", r'\bthrow\s+std::runtime_error\s*\("[^"]*"\)\s*;', '{ tsg_exc = TSG_RUNTIME_ERROR; break; }', b)
    b = _close_streams(R, b)
    return b

def emit(R):
    text = X.strip_comments(X.read_source(HPP))
    (p,) = X.cut(HPP, SIG, text)
    body = p.body
    out = {}
    info = {"functions": [{"name": "TasGrid::constructCommon (checkpoint recovery, initial checkpoint, checkpoint lambda)", "file": p.rel, "line": p.line, "loops": 0}]}
    # block 1 and 2: the two `if (!filename.empty()){...}` statements at the top level of the function
    ms = list(re.finditer(r'if\s*\(\s*!filename\.empty\(\)\s*(?:and\s*!recovered_main\s*)?\)\s*(?=\{)', body))
    tops = []
    for m in ms:
        # top-level: brace depth 1 at this position
        depth = body[:m.start()].count('{') - body[:m.start()].count('}')
        if depth == 1:
            e = X.match_close(body, m.end())
            tops.append((m.start(), e + 1))
    if len(tops) != 2:
        raise X.ExtractionBreak("expected two top-level `if (!filename.empty())` blocks in constructCommon, found %d" % len(tops))
    rec_src = body[tops[0][0]:tops[0][1]]; ini_src = body[tops[1][0]:tops[1][1]]
    if "catch" not in rec_src or "std::ofstream" not in ini_src:
        raise X.ExtractionBreak("recovery / initial checkpoint blocks do not have the expected shape")
    ml = re.search(r'auto\s+checkpoint\s*=\s*\[&\]\s*\(\s*\)\s*->\s*void\s*(?=\{)', body)
    if not ml:
        raise X.ExtractionBreak("checkpoint lambda not found")
    le = X.match_close(body, ml.end())
    lam_src = body[ml.end():le + 1]
    R.counts["R7-hoist"] = 1
    srcs = {"recovery": rec_src, "initial": ini_src, "checkpoint": lam_src}
    fid = {}
    for k, s in srcs.items():
        b = _r12(R, s)
        X.check_leftover(b, "constructCommon." + k)
        line = p.line + (p.header + body[:body.index(s)]).count('\n')
        out[k] = '#line %d "%s"\n' % (line, X.REPO + "/" + p.rel) + "void cc_%s(void)\n{\n%s\n}\n" % (k, b)
        fid[k] = X.fidelity(s, b, extra_vocab=["ifstream", "ofstream", "ios", "binary", "rdbuf", "good", "read", "write", "grid", "complete", "mode_binary",
                                               "runtime_error", "empty", "filename", "infile", "oldfile", "ofs", "current_state", "previous_state", "filename_old", "try", "catch", "throw", "<<", "TasmanianSparseGrid", "copyGrid", "original_grid"])
    R.require({"R12-ifstream": 3, "R12-ofstream": 3, "R12-rdbuf-copy": 1, "R12-grid-read": 2, "R12-complete-read": 2, "R12-grid-write": 2,
               "R12-complete-write": 2, "R9-try": 2, "R9-catch": 2, "R9-throw-runtime_error": 2, "R12-stream-dtor": 6, "R12-filename-empty": 3})
    info["fidelity"] = fid["recovery"]
    info["rules_fired"] = {k: v for k, v in R.counts.items() if v}
    info["drops"] = ["stream destructors become explicit fs_close at scope end (R12)", "the parallel branch and model evaluation are not part of this unit"]
    return out, info
