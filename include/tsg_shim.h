/* Shim for the C text emitted by tsg2c: the few library names the extracted
 * bodies use, with the same argument order as the C++ originals. */
#ifndef TSG_SHIM_H
#define TSG_SHIM_H
#include <stddef.h>
#include <stdbool.h>
#include <iso646.h>
#include <math.h>
#include <string.h>
#define TSG_MIN(a,b) (((a) < (b)) ? (a) : (b))
#define TSG_MAX(a,b) (((a) > (b)) ? (a) : (b))
/* NaN-aware sameness of doubles for ghost comparisons */
#define TSG_SAME(a,b) (((a) == (b)) || (((a) != (a)) && ((b) != (b))))
/* exception model (rule R9) */
enum { TSG_NO_EXC = 0, TSG_INVALID_ARGUMENT = 1, TSG_RUNTIME_ERROR = 2, TSG_OTHER = 3 };
extern int tsg_exc;
#ifdef TSG_CBMC
int nondet_int(void); unsigned nondet_uint(void); double nondet_double(void); _Bool nondet_bool(void); size_t nondet_size_t(void);
#endif
/* ---- rule R5: fixed-capacity stand-ins for local std::vector objects.  A local
 * `std::vector<T> v` becomes `T v[v_cap]; size_t v_size;`; exceeding the capacity is an
 * assertion failure, never silently assumed. */
#define TSG_VEC_NEW(T, a, CAP) T a[CAP]; size_t a##_size = 0; const size_t a##_cap = (CAP)
#define TSG_DEF_VEC_OPS(T) \
static inline void tsg_fill_##T(T *a, size_t n, T v){ for(size_t k_ = 0; k_ < n; k_++) a[k_] = v; } \
static inline void tsg_copy_n_##T(const T *src, size_t n, T *dst){ for(size_t k_ = 0; k_ < n; k_++) dst[k_] = src[k_]; } \
static inline void tsg_sized_##T(T *a, size_t *a_size, size_t cap, size_t n, T v){ __CPROVER_assert(n <= cap, "shim: local vector capacity suffices"); *a_size = n; tsg_fill_##T(a, n, v); } \
static inline void tsg_resize_##T(T *a, size_t *a_size, size_t cap, size_t n){ __CPROVER_assert(n <= cap, "shim: local vector capacity suffices"); for(size_t k_ = *a_size; k_ < n; k_++) a[k_] = (T)0; *a_size = n; } \
static inline void tsg_assign_##T(T *a, size_t *a_size, size_t cap, const T *b, size_t n){ __CPROVER_assert(n <= cap, "shim: local vector capacity suffices"); for(size_t k_ = 0; k_ < n; k_++) a[k_] = b[k_]; *a_size = n; } \
static inline void tsg_swap_vec_##T(T *a, size_t *a_size, size_t a_cap, T *b, size_t *b_size, size_t b_cap){ __CPROVER_assert(*a_size <= b_cap && *b_size <= a_cap, "shim: local vector capacity suffices"); \
   size_t n_ = (*a_size > *b_size) ? *a_size : *b_size; for(size_t k_ = 0; k_ < n_; k_++){ T t_ = a[k_]; a[k_] = b[k_]; b[k_] = t_; } size_t s_ = *a_size; *a_size = *b_size; *b_size = s_; } \
static inline void tsg_append_##T(T *a, size_t *a_size, size_t cap, const T *b, size_t n){ __CPROVER_assert(*a_size + n <= cap, "shim: local vector capacity suffices"); for(size_t k_ = 0; k_ < n; k_++) a[*a_size + k_] = b[k_]; *a_size += n; }
#ifndef TSG_CBMC
#include <assert.h>
#define __CPROVER_assert(c, m) assert(c)
#endif
TSG_DEF_VEC_OPS(double)
TSG_DEF_VEC_OPS(int)
TSG_DEF_VEC_OPS(bool)
#define TSG_SWAP(T, a, b) do{ T t_ = (a); (a) = (b); (b) = t_; }while(0)
#define TSG_RESERVE(a, n) __CPROVER_assert((n) <= a##_cap, "shim: local vector capacity suffices")
#endif
