/* Shim for the C text emitted by tsg2c: the few library names the extracted
 * bodies use, with the same argument order as the C++ originals. */
#ifndef TSG_SHIM_H
#define TSG_SHIM_H
#include <stddef.h>
#include <stdbool.h>
#include <iso646.h>
#include <math.h>
#include <string.h>
#define TSG_MIN(a,b) (((a) < (b)) ? (a) : (b))
#define TSG_MAX(a,b) (((a) > (b)) ? (a) : (b))
/* NaN-aware sameness of doubles for ghost comparisons */
#define TSG_SAME(a,b) (((a) == (b)) || (((a) != (a)) && ((b) != (b))))
/* exception model (rule R9) */
enum { TSG_NO_EXC = 0, TSG_INVALID_ARGUMENT = 1, TSG_RUNTIME_ERROR = 2, TSG_OTHER = 3 };
extern int tsg_exc;
#ifdef TSG_CBMC
int nondet_int(void); unsigned nondet_uint(void); double nondet_double(void); _Bool nondet_bool(void); size_t nondet_size_t(void);
#endif
#endif
