/*
 * Copyright (c) 2017, Miroslav Stoyanov
 *
 * This file is part of
 * Toolkit for Adaptive Stochastic Modeling And Non-Intrusive ApproximatioN: TASMANIAN
 *
 * Redistribution and use in source and binary forms, with or without modification, are permitted provided that the following conditions are met:
 *
 * 1. Redistributions of source code must retain the above copyright notice, this list of conditions and the following disclaimer.
 *
 * 2. Redistributions in binary form must reproduce the above copyright notice, this list of conditions
 *    and the following disclaimer in the documentation and/or other materials provided with the distribution.
 *
 * 3. Neither the name of the copyright holder nor the names of its contributors may be used to endorse
 *    or promote products derived from this software without specific prior written permission.
 *
 * THIS SOFTWARE IS PROVIDED BY THE COPYRIGHT HOLDERS AND CONTRIBUTORS "AS IS" AND ANY EXPRESS OR IMPLIED WARRANTIES,
 * INCLUDING, BUT NOT LIMITED TO, THE IMPLIED WARRANTIES OF MERCHANTABILITY AND FITNESS FOR A PARTICULAR PURPOSE ARE DISCLAIMED.
 * IN NO EVENT SHALL THE COPYRIGHT HOLDER OR CONTRIBUTORS BE LIABLE FOR ANY DIRECT, INDIRECT, INCIDENTAL, SPECIAL, EXEMPLARY,
 * OR CONSEQUENTIAL DAMAGES (INCLUDING, BUT NOT LIMITED TO, PROCUREMENT OF SUBSTITUTE GOODS OR SERVICES; LOSS OF USE, DATA,
 * OR PROFITS; OR BUSINESS INTERRUPTION) HOWEVER CAUSED AND ON ANY THEORY OF LIABILITY, WHETHER IN CONTRACT, STRICT LIABILITY,
 * OR TORT (INCLUDING NEGLIGENCE OR OTHERWISE) ARISING IN ANY WAY OUT OF THE USE OF THIS SOFTWARE, EVEN IF ADVISED OF THE POSSIBILITY OF SUCH DAMAGE.
 *
 * UT-BATTELLE, LLC AND THE UNITED STATES GOVERNMENT MAKE NO REPRESENTATIONS AND DISCLAIM ALL WARRANTIES, BOTH EXPRESSED AND IMPLIED.
 * THERE ARE NO EXPRESS OR IMPLIED WARRANTIES OF MERCHANTABILITY OR FITNESS FOR A PARTICULAR PURPOSE, OR THAT THE USE OF THE SOFTWARE WILL NOT INFRINGE ANY PATENT,
 * COPYRIGHT, TRADEMARK, OR OTHER PROPRIETARY RIGHTS, OR THAT THE SOFTWARE WILL ACCOMPLISH THE INTENDED RESULTS OR THAT THE SOFTWARE OR ITS USE WILL NOT RESULT IN INJURY OR DAMAGE.
 * THE USER ASSUMES RESPONSIBILITY FOR ALL LIABILITIES, PENALTIES, FINES, CLAIMS, CAUSES OF ACTION, AND COSTS AND EXPENSES, CAUSED BY, RESULTING FROM OR ARISING OUT OF,
 * IN WHOLE OR IN PART THE USE, STORAGE OR DISPOSAL OF THE SOFTWARE.
 */

#ifndef __TASMANIAN_CONFIG_HPP
#define __TASMANIAN_CONFIG_HPP

#define TASMANIAN_VERSION_MAJOR 8
#define TASMANIAN_VERSION_MINOR 2
#define TASMANIAN_VERSION_STRING "8.2 (development)"
#define TASMANIAN_LICENSE "BSD 3-Clause with UT-Battelle disclaimer"

#define TASMANIAN_GIT_COMMIT_HASH "dd5121784709226ceff457d10cc65dee7fec7e70"
#define TASMANIAN_CXX_FLAGS "RelWithDebInfo, -Wno-error"

// cmake options propagated to the source code
/* #undef Tasmanian_ENABLE_BLAS */
/* #undef Tasmanian_ENABLE_CUDA */
/* #undef Tasmanian_ENABLE_HIP */
/* #undef Tasmanian_ENABLE_DPCPP */
/* #undef Tasmanian_ENABLE_MAGMA */
/* #undef Tasmanian_ENABLE_MPI */

#if defined(Tasmanian_ENABLE_CUDA) || defined(Tasmanian_ENABLE_HIP) || defined(Tasmanian_ENABLE_DPCPP)
#define Tasmanian_ENABLE_GPU // One GPU definition
#endif

// handle variations in library standards
/* #undef Tasmanian_BLAS_HAS_ZGELQ */

#endif
